#!/bin/bash
# tools/try_seed.sh <patch.diff> <prop> [<prop>…] — apply a seeded change to /repo, run the
# named checks (quick), undo the change. Prints one line per check.
set -u
patch="$1"; shift
cd /repo || exit 2
if [ -n "$(git status --porcelain)" ]; then echo "/repo is not clean"; exit 2; fi
git apply "$patch" || { echo "patch does not apply"; exit 2; }
trap 'git -C /repo checkout -- . ; git -C /repo clean -fdq' EXIT
cd /verif
for p in "$@"; do
  out=$(./check "$p" ${TIER:-quick} 2>&1); rc=$?
  echo "$p exit=$rc $(echo "$out" | grep -c '^VIOLATION') violation line(s): $(echo "$out" | grep '^VIOLATION' | head -1)"
  if [ $rc -ne 0 ]; then f=$(echo "$out" | grep '^VIOLATION' | head -1 | sed 's/.*replay=\([^ ]*\).*/\1/'); [ -f "$f" ] && sed -n '2,3p' "$f" | cut -c1-200; fi
done
