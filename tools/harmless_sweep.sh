#!/bin/bash
# tools/harmless_sweep.sh [H<k>…] — apply each behaviour-preserving rewrite under seeded/harmless/ to
# /repo, run every quick check (or those named in PROPS), undo it; writes seeded/harmless/RESULT.md. /repo must be clean.
set -u
cd /verif
ids=("$@")
[ ${#ids[@]} -gt 0 ] || ids=($(ls seeded/harmless | grep '^H' | sort -V))
props=${PROPS:-$(python3 -c "import json;print(' '.join(c['property_id'] for c in json.load(open('/verif/MANIFEST.json'))['checks']))")}
res=seeded/harmless/RESULT.md
[ -f "$res" ] || echo "| rewrite | checks run | exit 0 | alarms |" > "$res"
for id in "${ids[@]}"; do
  d=/verif/seeded/harmless/$id
  if [ -n "$(git -C /repo status --porcelain)" ]; then echo "/repo is not clean"; exit 2; fi
  git -C /repo apply "$d/patch.diff" || { echo "$id: patch does not apply"; continue; }
  n=0; ok=0; alarms=""
  for p in $props; do
    out=$(./check "$p" quick 2>&1); rc=$?
    n=$((n+1))
    if [ $rc -eq 0 ] && ! echo "$out" | grep -q '^VIOLATION'; then ok=$((ok+1)); else
      rp=$(echo "$out" | grep '^VIOLATION' | head -1 | sed -n 's/.*replay=\([^ ]*\).*/\1/p')
      what=$(sed -n 's/^what: //p' "$rp" 2>/dev/null | head -1)
      nf=""; echo "$out" | grep '^VIOLATION' | head -1 | grep -q no-failing-input-found && nf=" (no-failing-input-found)"
      alarms="$alarms $p$nf: ${what:0:140};"
      mkdir -p work/harmless; cp "$rp" "work/harmless/$id-$p.txt" 2>/dev/null
    fi
  done
  git -C /repo checkout -- . ; git -C /repo clean -fdq
  sed -i "/^| $id |/d" "$res"
  echo "| $id | $n | $ok | ${alarms:-none} |" >> "$res"
  echo "$id: $ok/$n quiet;$alarms"
done
