#!/usr/bin/env python3
"""tools/asbuilt_table.py — the per-property table of DESIGN.md 11.1 from evidence/*.json (stdout, markdown)."""
import json, os
root = os.path.dirname(os.path.dirname(os.path.abspath(__file__)))
models = {
 "C01": ("Tunnel, Frame, Body, Resp", "Consts, Process"), "C02": ("Cookie, Tunnel", "Tokens"),
 "C03": ("Policy, Utf16, Body, Tunnel", "Consts"), "C04": ("Policy, Cookie", "ConfigDefaults"),
 "C05": ("Http (routes, header parsing, base64)", "—"), "C06": ("Body, Resp, Frame", "Consts (forwardReadSize)"),
 "C07": ("Multi", "—"), "C08": ("Frame", "Consts (maxPacketSize)"), "C09": ("Access", "Access"),
 "C10": ("Panic, Frame", "Consts, Limits"), "C11": ("Lifecycle", "Lifecycle"), "C12": ("Download, Cookie, Policy", "—"),
 "C13": ("Oidc", "Limits (CacheExpiration)"), "C14": ("Ntlm", "—"), "C15": ("UserToken", "Tokens"),
 "C16": ("Resp, Tunnel; Spec/MSTSGU", "Consts, Process"), "C17": ("Tunnel (matchAuth)", "Consts"),
 "C18": ("Config", "ConfigDefaults, ConfigFacts"), "C19": ("RdpFile", "RdpSettings"), "C20": ("Kdc", "Limits"),
}
print("| property | model files | regenerated tables its theorems use | theorems audited | tiers of the correspondence | distinct non-trivial cases (quick) | wall time of the correspondence |")
print("|---|---|---|---|---|---|---|")
tot = 0
for p in sorted(models):
    e = json.load(open(os.path.join(root, "evidence", p + ".json")))
    c = e["coverage"]
    tot += c.get("obligations", 0)
    print("| %s | %s | %s | %s | %s | %s | %d s |" % (p, models[p][0], models[p][1], c.get("obligations"), ", ".join(c.get("tiers_ran", [])), c.get("distinct_nontrivial"), round(e.get("wall_s", 0))))
import sys
print("theorems audited in all: %d; tier of this evidence: %s" % (tot, e["tier"]), file=sys.stderr)
