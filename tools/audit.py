#!/usr/bin/env python3
"""Audit the property theorems of one Props file: list them, `#print axioms` each one,
check the axioms against the allowed set, grep the Lean sources for escape hatches, and
(thorough) re-check the compiled module with leanchecker.  Writes work/audit/Cxx.json."""
import json, os, re, subprocess, sys

prop, tier, build_ok, lake_log, extract_log, out = sys.argv[1:7]
root = os.path.dirname(os.path.dirname(os.path.abspath(__file__)))
lean = os.path.join(root, "lean")
allowed = {"propext", "Classical.choice", "Quot.sound"}
src = os.path.join(lean, "Rdpgw", "Props", prop + ".lean")
text = open(src).read()
# companion files whose theorems belong to this property as well (imported by the property's file)
EXTRA = {"C01": ["C01Facts"], "C16": ["C01Facts"], "C18": ["C18Facts"]}
# strip comments (block comments may nest one level; good enough for our own files)
def strip_comments(t):
    t = re.sub(r"/-.*?-/", "", t, flags=re.S)
    t = re.sub(r"--[^\n]*", "", t)
    return t
def theorems_of(t):
    n = re.search(r"^namespace\s+(\S+)", t, flags=re.M)
    n = n.group(1) if n else ""
    return [(n + "." if n else "") + x for x in re.findall(r"^\s*theorem\s+([A-Za-z_][A-Za-z0-9_'.]*)", strip_comments(t), flags=re.M)]
names = theorems_of(text)
for extra in EXTRA.get(prop, []):
    names += theorems_of(open(os.path.join(lean, "Rdpgw", "Props", extra + ".lean")).read())
res = {"obligations": len(names), "discharged": 0, "theorems": {}, "failed": [],
       "build_ok": build_ok == "true", "checker_cmd": "", "build_log": "", "extract_notes": [], "leanchecker": ""}
try:
    res["extract_notes"] = [l.strip() for l in open(extract_log) if l.strip()]
except OSError:
    pass
if build_ok != "true":
    res["build_log"] = "".join(open(lake_log).readlines()[-120:])
    res["failed"] = ["lake build Rdpgw.Props." + prop]
else:
    audit_src = os.path.join(root, "work", "audit", prop + "_axioms.lean")
    with open(audit_src, "w") as f:
        f.write("import Rdpgw.Props.%s\n" % prop)
        for n in names:
            f.write("#print axioms %s\n" % n)
    cmd = ["lake", "env", "lean", audit_src]
    res["checker_cmd"] = "cd lean && lake build Rdpgw.Props.%s && lake env lean %s  (#print axioms of every property theorem)" % (prop, os.path.relpath(audit_src, lean))
    p = subprocess.run(cmd, cwd=lean, capture_output=True, text=True)
    outp = p.stdout + p.stderr
    flat = re.sub(r"\s+", " ", outp)
    for n in names:
        full = n
        m = re.search(r"'%s' depends on axioms: \[([^\]]*)\]" % re.escape(full), flat)
        if m:
            axs = [a.strip() for a in m.group(1).split(",") if a.strip()]
        elif re.search(r"'%s' does not depend on any axioms" % re.escape(full), flat):
            axs = []
        else:
            res["failed"].append(full + ": no axiom report")
            continue
        res["theorems"][full] = ", ".join(axs) if axs else "(none)"
        bad = [a for a in axs if a not in allowed]
        if bad:
            res["failed"].append(full + ": axioms " + ", ".join(bad))
        else:
            res["discharged"] += 1
    # escape hatches anywhere in the hand-written Lean sources
    hatch = re.compile(r"\b(sorry|admit|native_decide|bv_decide|implemented_by|unsafe)\b|^\s*axiom\s|maxHeartbeats\s+0", re.M)
    for dp, dn, fn in os.walk(os.path.join(lean, "Rdpgw")):
        for f in fn:
            if f.endswith(".lean"):
                t = strip_comments(open(os.path.join(dp, f)).read())
                # string literals may mention these words
                t = re.sub(r'"(?:[^"\\]|\\.)*"', '""', t)
                m = hatch.search(t)
                if m:
                    res["failed"].append("%s uses %s" % (f, m.group(0).strip()))
    if tier == "thorough":
        p = subprocess.run(["lake", "env", "leanchecker", "Rdpgw.Props." + prop], cwd=lean, capture_output=True, text=True)
        res["leanchecker"] = "exit %d %s" % (p.returncode, (p.stdout + p.stderr).strip()[-300:])
        res["checker_cmd"] += " ; lake env leanchecker Rdpgw.Props." + prop
        if p.returncode != 0:
            res["failed"].append("leanchecker rejected Rdpgw.Props." + prop)
json.dump(res, open(out, "w"), indent=1)
