#!/bin/bash
# tools/seed_matrix.sh [<seed-id>…] — for every seeded change (default: all under seeded/), apply it to
# /repo, run the quick check of the property it breaks, undo it, and record the outcome in
# seeded/<id>/meta.json under "detected_by". /repo must be clean. Nothing is committed to /repo.
set -u
cd /verif
ids=("$@")
[ ${#ids[@]} -gt 0 ] || ids=($(ls seeded))
for id in "${ids[@]}"; do
  d=/verif/seeded/$id
  [ -f "$d/patch.diff" ] || continue
  prop=${id%%-*}
  if [ -n "$(git -C /repo status --porcelain)" ]; then echo "/repo is not clean"; exit 2; fi
  git -C /repo apply "$d/patch.diff" || { echo "$id: patch does not apply"; continue; }
  out=$(./check "$prop" ${TIER:-quick} 2>&1); rc=$?
  git -C /repo checkout -- . ; git -C /repo clean -fdq
  line=$(echo "$out" | grep '^VIOLATION' | head -1)
  rp=$(echo "$line" | sed -n 's/.*replay=\([^ ]*\).*/\1/p')
  what=""; sig=""
  if [ -n "$rp" ] && [ -f "$rp" ]; then what=$(sed -n 's/^what: //p' "$rp" | head -1); sig=$(sed -n 's/^sig: //p' "$rp" | head -1); fi
  python3 - "$d/meta.json" "$prop" "$rc" "$line" "$what" "$sig" "${TIER:-quick}" <<'PY'
import json, sys
out, prop, rc, line, what, sig, tier = sys.argv[1:]
try: meta = json.load(open(out))
except Exception: meta = {}
meta["detected_by" if tier == "quick" else "detected_by_thorough"] = {"check": "./check %s %s" % (prop, tier), "exit": int(rc), "detected": rc == "1" and line.startswith("VIOLATION"),
                       "with_failing_input": "no-failing-input-found" not in line, "signature": sig, "what": what}
json.dump(meta, open(out, "w"), indent=1)
PY
  echo "$id rc=$rc ${sig:-none} :: ${what:0:110}"
done
