#!/usr/bin/env python3
"""Evidence file for a run that could not get as far as the correspondence (build broke)."""
import json, sys, time
prop, tier, seed, out, what, start = sys.argv[1:7]
ev = {"property_id": prop, "tier": tier if tier in ("quick", "thorough") else "quick", "seed": int(seed), "level": "proof",
      "coverage": {"obligations": 1, "discharged": 0, "checker_cmd": "./check %s %s" % (prop, tier),
                   "trusted_base": ["Lean 4.33.0 kernel", "the extractor and harness of /verif"],
                   "explanation": what, "samples": [what]},
      "assumptions": [], "wall_s": max(0.0, time.time() - float(start)), "violations": 1}
json.dump(ev, open(out, "w"), indent=1)
