#!/usr/bin/env python3
"""Regenerate MANIFEST.json from the table below (kept here so that the file is always valid)."""
import json, os
ROOT = os.path.dirname(os.path.dirname(os.path.abspath(__file__)))
props = [json.loads(l) for l in open(os.path.join(ROOT, "properties.jsonl"))]

BASE_NOTE = ("Trusted: Lean 4.33 kernel (axioms propext, Classical.choice, Quot.sound only, audited per theorem on every run); "
             "the hand-written Lean model, tied to /repo only by the sampled correspondence run and by the extractor for constants/tables; "
             "the harness, its canonicalisers and the oracle's line codec. ")

CHECKS = {
 "C01": dict(
   technique="Lean 4 theorem (monitor + simulation lemma, induction over packet lists) + differential correspondence of Model.Tunnel.step with the real Processor.Process (hook tier) + the Lean monitor evaluated on implementation traces",
   text="C01 is a decidable monitor over observable traces (Props/C01.lean); theorem C01.holds proves every run of the model of Processor.Process is accepted, for every configuration, callback behaviour and packet list of any length; corollaries at_most_one_dial, dial_only_when_authorized, relay_only_when_open, after_stop_inert, out_of_phase_never_success. The model is tied to the code by running the real packet loop over scripted transports with loopback hosts on generated and exhaustively enumerated packet histories and comparing traces with the model; the same monitor is evaluated on every implementation trace.",
   design="6/C01",
   note="Not modelled: the transports themselves (scripted in the hook tier), TCP dial timing, callbacks (parameters of the theorem). Dial failures are not observable and are compared through the response only."),
}

def entry(pid, c):
    return {
        "property_id": pid,
        "quick_cmd": "./check %s quick" % pid,
        "thorough_cmd": "./check %s thorough" % pid,
        "evidence_file": "/verif/evidence/%s.json" % pid,
        "replay_cmd_template": "./check %s replay {path}" % pid,
        "engine": "lean4+go-differential",
        "level_claimed": {"category": "proof", "text": c["text"], "design_ref": c["design"]},
        "level_note": BASE_NOTE + c["note"],
        "technique": c["technique"],
    }

def main():
    try:
        from manifest_table import CHECKS as MORE
        CHECKS.update(MORE)
    except ImportError:
        pass
    checks = [entry(p["id"], CHECKS[p["id"]]) for p in props if p["id"] in CHECKS]
    na = [{"property_id": p["id"], "reason": "check not built yet in this commit (planned, see DESIGN.md §6)"} for p in props if p["id"] not in CHECKS]
    m = {
        "version": 1,
        "setup_cmd": "./setup.sh",
        "hooks": {
            "guard": "verif",
            "enable": "go build -tags verif (adds cmd/rdpgw/protocol/export_verif.go; add-only)",
            "baseline_off_cmd": "cd /repo && GOFLAGS=-mod=mod GOPROXY=off GOSUMDB=off go test -vet=off -count=1 $(go list ./... | grep -v 'rdpgw/cmd/auth$')",
            "source_commits": ["3342c27"],
            "add_only": True,
        },
        "engines": [
            {"name": "lean4-models-and-proofs", "path": "lean/", "serves_properties": [c["property_id"] for c in checks],
             "kind_free_text": "Lean 4 core-only models, property theorems (Props/), axiom audit, oracle executable"},
            {"name": "go-differential-harness", "path": "harness/", "serves_properties": [c["property_id"] for c in checks],
             "kind_free_text": "Go harness running the real rdpgw code (hook, exported-API and binary tiers) against the Lean oracle; extractor regenerating constants/tables"},
        ],
        "checks": checks,
        "not_applicable": na,
        "notes": "All checks: ./check <id> quick|thorough. Fixes to /repo are 'fix:' commits listed in KNOWN_FINDINGS.txt; hooks are guarded by build tag verif.",
    }
    json.dump(m, open(os.path.join(ROOT, "MANIFEST.json"), "w"), indent=1)

if __name__ == "__main__":
    main()
