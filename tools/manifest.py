#!/usr/bin/env python3
"""Regenerate MANIFEST.json from the table below (kept here so that the file is always valid)."""
import json, os
ROOT = os.path.dirname(os.path.dirname(os.path.abspath(__file__)))
props = [json.loads(l) for l in open(os.path.join(ROOT, "properties.jsonl"))]

BASE_NOTE = ("Trusted: Lean 4.33 kernel (axioms propext, Classical.choice, Quot.sound only, audited per theorem on every run); "
             "the hand-written Lean model, tied to /repo only by the sampled correspondence run and by the extractor for constants/tables; "
             "the harness, its canonicalisers and the oracle's line codec. ")

CHECKS = {
 "C01": dict(
   technique="Lean 4 theorem (monitor + simulation lemma, induction over packet lists) + differential correspondence of Model.Tunnel.step with the real Processor.Process (hook tier) + the Lean monitor evaluated on implementation traces",
   text="C01 is a decidable monitor over observable traces (Props/C01.lean); theorem C01.holds proves every run of the model of Processor.Process is accepted, for every configuration, callback behaviour and packet list of any length; corollaries at_most_one_dial, dial_only_when_authorized, relay_only_when_open, after_stop_inert, out_of_phase_never_success. The model is tied to the code by running the real packet loop over scripted transports with loopback hosts on generated and exhaustively enumerated packet histories and comparing traces with the model; the same monitor is evaluated on every implementation trace.",
   design="6/C01",
   note="Not modelled: the transports themselves (scripted in the hook tier), TCP dial timing, callbacks (parameters of the theorem). Dial failures are not observable and are compared through the response only."),
 "C07": dict(
   technique="Lean 4 invariant and non-interference theorems about a transition system over all tunnels of a gateway process (shared cache, tunnel heap, per-connection loops; every event sequence = every interleaving) + differential correspondence of N simultaneous real tunnels against Multi.run, with mismatches classified by running the tunnel alone in a fresh process",
   text="step_inv / run_inv (inductive invariant: cache entries point at tunnels with that identifier; every attached connection carried the tunnel's identifier; a connection is attached to at most one tunnel ever; every log entry is addressed to an attached connection), pairing, in_without_out_refused, conn_one_tunnel, client_hears_own_host, host_hears_own_client, step_other (locality), req_other_id (a request with identifier i never changes a tunnel with another identifier), pkt_other, host_changes_nothing, pkt_own (a packet acts on its tunnel exactly as Tunnel.step in an environment computed from that tunnel alone), untouched (non-interference over runs), identity_stable in Props/C07.lean. Tie: rounds of up to 12 (quick) / 64 (thorough) simultaneous tunnels on websocket and legacy transports through the real handler, EnrichContext, CheckPAACookie and CheckSession(CheckHost) with tokens from the real minting code and a fake IdP; tagged payloads both ways; tunnels presenting another tunnel's token, asking for another's host, holding a token minted for another user's host, or sharing a user and access token; stray RDG_IN_DATA requests with unknown / near-miss / other tunnels' identifiers; random merges of the per-tunnel scripts and one-driver-per-tunnel runs. Per-tunnel responses, relayed bytes and backend bytes are compared with Multi.run on the issued event trace; foreign payloads and refused tunnels reaching a host are violations by themselves.",
   design="6/C07",
   note="One gateway request per TCP connection is assumed (the handler hijacks the connection). Tunnels with equal identifiers (which the property excludes) share a Tunnel object in the code and in the model; nothing is claimed for them."),
 "C08": dict(
   technique="Lean 4 refinement theorem (incremental reader = segmentation-free stream parser, induction over reads) + differential correspondence with the real Tunnel.Read loop and packet loop under exhaustive one/two-cut and random segmentations",
   text="Theorems reader_refines_stream, segmentation_independent, stream_of_packets, packets_of_any_segmentation, bad_length_ends, incomplete_ends, same_effects (Props/C08.lean) hold for every list of transport reads of any length; the pinned one-shot algorithm is refuted by closed witnesses (legacy_*), which is defect D1/D2, repaired by a fix: commit. The model is tied to the code by running the real Tunnel.Read loop (and the whole packet loop for same_effects) over scripted transports with exact read boundaries; the property itself (same packets as for the unsegmented stream) is also evaluated on the implementation directly.",
   design="6/C08",
   note="Not modelled: the websocket and chunked-HTTP transports below ReadPacket (each delivers some segmentation of the byte stream, which is what the theorem quantifies over); leftover-byte count at EOF is not observable and compared by kind only."),
 "C16": dict(
   technique="Lean 4 theorems about the response builders against an independent MS-TSGU decoder (literal constants) + decoding every implementation response with that decoder + byte-exact model tie",
   text="wire_decodes (every response decodes, header length = bytes, exactly the masked fields, nothing left over), status_zero_iff_accepted and type match over Tunnel.step, codes (regenerated Go constants = MS-TSGU literals), redirect_iff_enabled / redirect_all_flags over all 2^7 switch settings, idle_timeout, data_packet_wellformed (Props/C16.lean). Tie: responses captured from the real packet loop for all 128 switch combinations × idle values × capability settings × outcomes are decoded by the Lean decoder and checked against the property, and compared byte for byte with the model.",
   design="6/C16",
   note="The close-channel response layout is the gateway's own (as channel response). Constants are regenerated from the Go source on every run; a changed constant breaks theorem `codes`."),
 "C17": dict(
   technique="Lean 4 theorem for every client value (Nat.testBit reasoning, no enumeration) + exhaustive differential run of the real handshake path",
   text="handshake_iff (success iff both sets empty or a common bit, for all four server settings and every client value), success_advertises, failure_mismatch_and_end, no_mechanism_refused_under_token_auth, serverCaps_bits (Props/C17.lean). Tie: the real Processor.Process is run on handshake packets for every server setting × client values (quick: all values with ≤ 2 bits + 2000 random; thorough: all 65536) and compared with the model and with the rule itself.",
   design="6/C17",
   note="Only the handshake step of the packet loop is exercised here; its composition with later steps is C01's."),
 "C02": dict(
   technique="Lean 4 theorems about the cookie decision procedure (Cookie.check/mint) + differential correspondence of the real CheckPAACookie/GeneratePAAToken against an independent dissector (std base64/json/hmac) and a fake IdP",
   text="accept_sound (an accepted cookie is a 3-segment HS256 JWS under the configured key, issuer rdpgw, within exp/nbf/iat with 60 s leeway, access token honoured; session = token's host/address + IdP subject), refused_if, mint_expiry, mint_accept (accepted at every instant ≤ now+360 s), mint_expired_refused, revoked_refused, reject_status (0x800759F8 and end of tunnel) in Props/C02.lean. Tie: every generated cookie is dissected into Facts by an independent decoder and the real CheckPAACookie verdict (and the session it writes) is compared with Cookie.check; acceptance of anything the model refuses is a violation with that cookie as replay.",
   design="6/C02",
   note="Cryptography is assumed ideal (macOk is computed by std HMAC over the canonical re-encoding); JWS/JSON parsing is go-jose's: on exotic spellings the library may be stricter than the model (counted, safe side). The clock is the host's; boundary cases keep a 3 s margin, the exact boundary is the theorem's."),
 "C03": dict(
   technique="Lean 4 theorems (policy characterisation, replaceFirst lemmas, composition with the tunnel machine by induction over runs) + differential correspondence of the real CheckHost/CheckSession/DecodeUTF16 and of channel-create through the real packet loop with canary listeners",
   text="policy_char, signed_allows_nothing, unlisted_only_in_any, empty_user_refused, replaceFirst_first / _no_occurrence, token_binds_host, dial_is_requested_and_allowed (any dial in any run is for exactly the rendered server:port of a channel-create packet and passed the installed policy), same_string, denied_no_dial, all_denied_no_dial, installed_token (Props/C03.lean). Tie: the real security.CheckHost / CheckSession composition main.go installs is compared with C03.installed on generated modes × lists × users × token hosts × near-miss hosts; DecodeUTF16 with Utf16.decode; channel-create requests run through the real Process with the real callbacks and loopback listeners (allowed entry, other user's entry, canary, closed port).",
   design="6/C03",
   note="Name resolution and the TCP dial are the OS's; only IP-literal and empty server names are generated for dial observation. main.go's wiring (CheckSession(CheckHost) iff token auth) is mirrored by the harness, the binary-tier check of that wiring is C05/C18's."),
 "C04": dict(
   technique="Lean 4 theorems about checkSession and the client-address rule + differential correspondence of the real EnrichContext → GeneratePAAToken → CheckPAACookie → CheckSession chain (fake IdP) and whole tunnels on both transports",
   text="bound, mismatch_refused, disabled_ignored, refused_in_tunnel (0x800759DA, no dial), mint_records, clientAddr_xff / clientAddr_peer, same_rule_at_issue_and_use, default_on (regenerated defaults map) in Props/C04.lean. Tie: clientAddr vs the real EnrichContext on generated peers and X-Forwarded-For chains; tokens minted at address A and presented at address B through the real chain under both switch settings; tunnels over websocket and legacy presenting a token from the same / another address.",
   design="6/C04",
   note="TrimSpace is modelled for ASCII blanks plus U+0085/U+00A0; net.SplitHostPort for well-formed and a few malformed peers. Different spellings of one address are different addresses (refused: the safe side)."),
 "C06": dict(
   technique="Lean 4 theorems (stream parse of forward's packets by induction over reads; client→host exactness for any segmentation via the C08 refinement) + differential correspondence of the real forward/receive and of whole tunnels on both transports with concurrent traffic",
   text="down_exact and down_wellformed (for any chunking of the host stream with reads ≤ forwardReadSize — regenerated from the Go source — the payloads the client parses concatenate to the host stream; every DATA packet ≤ 4096 with truthful length fields), receive_spec / receive_exact (min(declared, carried), never invented bytes), up_exact / up_exact_wellformed (any DATA packets under any segmentation: host receives exactly the concatenated payloads), interleave_intact (Props/C06.lean). Tie: VerifReceive and VerifForward over pipes compared with Body.receive / Resp.dataPacket; whole tunnels over websocket and legacy with both directions concurrently, sizes around 0/1/4085-4087/4096/8192/65535, random segmentation; both ends' bytes compared with what was sent.",
   design="6/C06",
   note="Write errors towards a dead client are ignored by the code (D20, C11's concern). The interleaving of the two writers is serialised by Tunnel.writeMu (C09); here it enters only through interleave_intact."),
 "C19": dict(
   technique="Lean 4 round-trip theorem for the RDP parser/marshaller (byte-level model of ScanLines, Unicode TrimSpace, SplitN, Atoi/%d) and builder theorems over the settings table regenerated from the Go struct + differential correspondence with the real rdp packages",
   text="roundtrip (for every key-sorted map with distinct well-formed names, int-range integers and LF-free, blank-free strings — ':' , inner CR and non-ASCII allowed — unmarshal (marshal m) = m), atoi_itoa, malformed_rejected / too_few_fields / unknown_type / bad_integer (never skipped), lines_wellformed, at_most_one_line, table_tags_distinct and table_tags_ok (decided on the regenerated table), builder_roundtrip, forced_settings_exist (Props/C19.lean). Tie: rdp.Parser().Marshal/Unmarshal, rdp.NewBuilder().String() and NewBuilderFromFile compared with the model on generated maps, arbitrary bytes, malformed files, random field assignments and templates; round trip and one-line-per-setting are also evaluated on the implementation.",
   design="6/C19",
   note="koanf/mapstructure weak typing is modelled only for the value shapes generated (integers for int/bool fields, strings/integers for string fields, decimal/boolean strings). Lines above bufio's 64 KiB limit are outside the quantifier (≤ 4 KiB)."),
 "C15": dict(
   technique="Lean 4 theorems about the user-token decision procedure and the token-info status map + differential correspondence of the real GenerateUserToken/UserInfo/TokenInfo against an independent JWE dissector (std AES-CBC, HMAC, flate, JSON)",
   text="ok_only_if (claims only if the token decrypts under the configured key, the inner HS256 signature verifies when a signing key is configured, issuer rdpgw, unexpired), mode_separation (both directions), subject, expired_refused, status_map (405/400/403/200, no claims unless 200) in Props/C15.lean. Tie: tokens minted in both modes, every single-character substitution of each of the five segments, other keys/algorithms/issuers, expiry around the leeway, plain JWS, cross-mode tokens and junk are dissected independently (RFC 7518 §5.2 implemented with the standard library) and the real UserInfo verdict and subject compared with UserToken.verify; web.TokenInfo compared with tokenInfo; confidentiality of the user name is a test.",
   design="6/C15",
   note="AES-CBC/HMAC are assumed ideal; JWE parsing is go-jose's (stricter outcomes on exotic spellings are counted, safe side). The unused second JWE segment is ignored by the library for alg=dir: a token that decodes to the same authenticated object is the same token."),
 "C14": dict(
   technique="Lean 4 invariant + soundness/completeness theorems over histories of the NTLM session machine (induction over call lists) + differential correspondence of the real cmd/auth/ntlm verifier with messages from the go-ntlm client",
   text="sound (Authenticated u at any point of any history ⇒ same-session context with a challenge issued earlier and still current, non-empty configured password, proof made from (u up to case, configured password, that challenge)), complete, challenge_single_use, challenge_origin, unknown_or_empty_password, wrong_password, no_negotiate, other_challenge, cross_session_replay, undecodable; legacy_impersonation proves the pinned verifier violated the property (defect D24, found by this check, repaired by a fix: commit). Tie: histories of ≤ 12 calls over several session ids (negotiate, authenticate for any earlier challenge, forged user-name fields, malformed/garbage/empty) run against the real NTLMAuth.Authenticate and compared call by call with Ntlm.run.",
   design="6/C14",
   note="NTLMv2 itself (go-ntlm) is assumed sound: a proof verifies iff made from the upper-cased user name, the password and the challenge. Cache expiry (1 min) is not modelled. cmd/auth's gRPC wrapper cannot be built here (no PAM headers); the package is exercised in-process."),
 "C20": dict(
   technique="Lean 4 theorems: DER round trip and trailing-data rejection for KDC-PROXY-MESSAGE, status map, reply-collection loop never hangs (induction over arrivals), faithfulness of a 200 answer + differential correspondence of the real KerberosProxy.Handler against fake TCP/UDP KDCs",
   text="parseLen_derLen, decode_encode, trailing_rejected, wrong_outer_tag, validation (405/411/413/400 and no lookup started), collect_no_hang / collect_reply / collect_noReply, always_answers (for every method, body, realm, number and behaviour of KDCs and arrival order), faithful, lookup_reply_framed, all_fail_503; legacy_first_nil_wins / legacy_hangs / legacy_all_dials_fail_hangs prove the pinned loop violated the property (D12, D13, D17; repaired). Tie: generated krb5.conf with 1–3 KDCs per realm, fake KDCs whose UDP and TCP endpoints reply / reply partially / close / stay silent / refuse, payloads 0 B – 128 KiB, realm absent/default/other/unknown, every malformed request class; status, body (= Kdc.replyBody of an acceptable reply), bytes received by each KDC, realm isolation and latency are checked.",
   design="6/C20",
   note="Which of several answering KDCs wins is a race: the check accepts any of them (as theorem faithful does). Wall-clock bounds are the harness's (timeout 5 s + margin). Known finding: gofork/asn1 accepts some bodies with inconsistent inner lengths (KNOWN_FINDINGS.txt); the strict decoder of the model rejects them."),
 "C13": dict(
   technique="Lean 4 theorems about the callback decision procedure for both session stores (with the response-writer rule that made the pinned code differ per store) + differential correspondence of the real Authenticated/HandleCallback handlers with a fake IdP, and exploration of session-cookie integrity",
   text="auth_only_if_verified (state issued < 120 s ago — regenerated constant —, code exchanged, ID token present and verified, non-empty user-name claim, session user = that claim), failure_keeps_session and failure_then_connect_redirects (every failure point, store-independent), stale_state_refused, unauthenticated_redirected; legacy_file_store_authenticates proves defect D21 of the pinned callback (repaired). Tie: full browser flows against the real handlers for every failure point × both stores, identities with several claim names, then /connect (200 vs 302, restored user name); every single-character substitution and truncation of a valid session cookie and cross-instance reuse must not authenticate.",
   design="6/C13",
   note="ID-token verification is go-oidc's, cookie integrity securecookie's, identity serialisation gob's: those clauses are explored, not proved. State expiry (2 min) is proved on the model and tied by the regenerated constant only (the harness cannot advance go-cache's clock)."),
 "C11": dict(
   technique="Lean 4 theorems about a resource model of the tunnel handlers (acquisitions and deferred releases in source order, the packet loop an arbitrary behaviour) with the handlers' deferred calls regenerated from the source by the extractor + fault-matrix correspondence against the real handler (goroutine dump, registry, cache, gauges, backend and client sockets) and the real binary (/metrics)",
   text="ws_released, legacy_released, legacy_refused_released, released (every transport × every ending the loop notices × every loop behaviour ends with connections closed, backend closed, relay stopped, handler gone, registry/cache/gauges restored), extracted_released (the same for the deferred calls as they are in gateway.go now: Generated/Lifecycle.lean is rewritten from the source on every run, so removing or moving a defer breaks this theorem), each_release_needed, registry_balanced; pinned_leaks (D18, D19) and out_drop_unnoticed / parked_out_held (the statement's missing case, D20) are theorems too, in Props/C11.lean. Tie: both transports × 10 points of the exchange × CLOSE_CHANNEL / out-of-order packet / unframeable bytes / TCP close and reset of the websocket, the legacy IN and the legacy OUT connection × hosts that close on end of stream or keep their side open and keep writing; 3 s after the ending the check requires end-of-stream at the host and failing host writes, end-of-stream on every client connection the client did not end, no goroutine with a frame in the gateway's protocol/transport packages, empty registry and cache, gauges at 0, and compares released / not released with Lifecycle.life; then websocket tunnels over the real binary (TLS, local authentication) with the gauges read from /metrics.",
   design="6/C11",
   note="partial: which client-side events make Processor.Process return (Lifecycle.loopEnds) is a table validated by the fault matrix, not derived from the Go text; the bound is fixed at 3 s; goroutines are observed only in-process (API tier), the binary tier sees sockets and gauges. Known findings: loss of the legacy OUT connection alone, and a parked OUT request, are not released (D20)."),
 "C12": dict(
   technique="Lean 4 theorems about the download decision procedure composed with the cookie and policy models + differential correspondence of the real Authenticated/HandleDownload handlers and token generators, and replay of issued files through the real tunnel checks",
   text="unauth_no_token, host_policy (per mode), claims_exact, splitAt_no_sep, file_host_is_token_host, issue_then_accept_partial (issued host+token pass Cookie.check, checkSession and checkHost from the same address within 360 s, provided the chosen entry has no placeholder or the IdP subject equals the session user name), issue_then_accept_counterexample (known finding D22) in Props/C12.lean. Tie: the real handlers on generated modes × lists × host parameters (incl. valid/expired/forged/wrong-issuer query tokens) × users × templates × addresses × session states; file lines and token claims decoded independently; issued (host, token) presented to the real CheckPAACookie → CheckSession(CheckHost).",
   design="6/C12",
   note="Round-robin's random pick is not reproduced: membership in the configured list is checked. fmt.Sprintf(template) with formatting verbs is not modelled. Known finding D22 (placeholder entries vs IdP subject) is listed in KNOWN_FINDINGS.txt."),
 "C09": dict(
   technique="Lean 4 lockset-soundness theorem (induction over executions of any number of tunnels) + decision of the lock discipline on the access table regenerated from the Go source by the extractor; race-detector stress of the real handlers to exhibit failures",
   text="lockset_sound (if tableOK then no reachable configuration of any number of tunnels has two goroutines inside conflicting accesses to one resource instance), table_ok (decided on Generated/Access.lean: every package variable, Tunnel/Gateway/Processor field and the client writer/reader as accessed by the handler and the relay goroutine, with the mutexes held over all call paths), no_race, whole_packets_parse; pinned_fails shows the pinned tree's table failed in three places (D4, D5, D6; repaired). The table is the tie (translator); a -race build of the harness runs rounds of concurrent tunnels on both transports (data both ways, keep-alives, close / protocol error while the host is sending, abrupt disconnects) and turns race reports, concurrent-map/concurrent-write faults and client-side framing errors into replays.",
   design="6/C09",
   note="Proves the lock discipline, not the Go memory model. Trusted: the extraction (go/types based, lexical lock scopes, call-path intersection), the happens-before assumptions stated in Model/Access.lean (handler accesses before the `go` statement precede the relay; the legacy OUT handler finishes before the IN handler of the same tunnel starts), internally synchronised library types (go-cache, prometheus, net.Conn for one reader and one writer) which are listed in Generated.Access.whitelisted."),
 "C05": dict(
   technique="Lean 4 theorem handler_iff over a model of main()'s route table and the authentication middlewares + differential correspondence against the real binary started for every startable mechanism subset",
   text="handler_iff (for every mechanism combination other than OpenID alone and every request: the tunnel handler is reached iff the first Authorization value parses as credentials of an enabled scheme that some value routes to and the backend confirms, and the tunnel's user is the confirmed one), no_header_401 and challenges_distinct (one challenge per enabled scheme), never_handler_otherwise, openid_only_open (Props/C05.lean). Tie: the real executable is started for each of the 11 startable subsets (TLS where the configuration demands it, fake IdP, fake gRPC authentication service that wraps the real NTLM verifier, generated keytab/krb5.conf) and sent a battery of Authorization headers (absent, empty, bare/truncated/wrong-case schemes, disabled schemes, several headers, wrong and right credentials) plus NTLM exchanges in order / with wrong passwords / across connections; status, WWW-Authenticate schemes and 101 upgrades are compared with Http.route; the confirmed user name is checked through a {{ preferred_username }} host entry.",
   design="6/C05",
   note="Kerberos positive path is not exercised (no KDC offline); PAM is not exercised (cmd/auth cannot be built: no PAM headers) — the fake service confirms a scripted table for Basic. gorilla/mux, net/http, gRPC and SPNEGO are trusted libraries whose routing semantics the model states (HeadersRegexp = unanchored substring on any value; handlers parse the first value)."),
 "C10": dict(
   technique="Lean 4 theorems about explicit-partiality models (every slice and index is a checked `slice?`, a fault is a value) of the input-handling code that can panic + hostile-input correspondence at hook, exported-API and binary tiers with panic/hang/liveness observation",
   text="readHeader_no_panic, readHeader_matches_cut (the partial model agrees with Frame.cut wherever no fault is possible), need_bound (no read asks for more than 128 KiB + header), getAuthPayload_no_panic, kdcUdpPayload_no_panic, setBuffers_no_panic (TLS/TCP/other connection kinds), legacyIn_no_panic (every IN/OUT ordering), loop_total, packets_bounded; the pinned code's panics are theorems too (legacy_readHeader_panics, legacy_getAuthPayload_panics, legacy_setBuffers_panics, legacy_legacyIn_panics) in Props/C10.lean. Tie: hostile packet streams (length < 8, huge, truncated, inner lengths off, every type, before and after authorization) through the real reader and packet loop under recover with a hang watchdog; all legacy IN/OUT orderings and malformed HTTP against the real handler with the server's error log scanned for recovered panics; Authorization strings of every class through the NTLM and Basic middlewares; mutated NTLM messages (truncations, field offsets/lengths, types) against the real verifier; socket-buffer tuning over TCP/TLS/pipe connections; the real binary in {TLS on/off} × {buffers unset/set} × mechanisms under hostile input with stderr scan and a liveness probe.",
   design="6/C10",
   note="Panics inside third-party parsers are observed (and recovered in NTLMAuth.Authenticate since fix 95f4105) but not modelled; memory exhaustion is covered only through need_bound (one packet buffer per tunnel is bounded), not by measuring the process."),
 "C18": dict(
   technique="Lean 4 theorems about the startup decision procedure (one per refusal clause, key substitution, distinct fresh keys) + differential correspondence against the real binary started from generated files / RDPGW_ environments, and cross-instance acceptance tests",
   text="refuses_openid_without_tokenauth, refuses_basic_without_tls, refuses_ntlm_and_kerberos, refuses_kerberos_without_keytab, refuses_signed_without_query_key, refuses_no_hosts, keys_effective (a running gateway's five keys are 32 characters and are the configured ones iff those were exactly 32 long), fresh_keys_differ, configured_keys_kept, defaults_consistent (regenerated defaults map) in Props/C18.lean. Tie: the real executable is started for generated combinations of mechanisms × TLS × host selection × key presence/length (absent, 0, 1, 31, 32, 33) × host-list size × keytab, given by file, environment or both; running-vs-refused is compared with Config.startup; two instances started from one configuration exchange a session cookie and a PAA token (full fake-IdP login) to show that substituted keys are per instance and configured keys are shared.",
   design="6/C18",
   note="Settles candidate D23: a UserTokenSigningKey / QueryTokenSigningKey shorter than 32 bytes is not substituted but go-jose refuses to sign or verify with it, so the gateway fails closed (500 on download) rather than running with a short key; not a finding. Failures of external dependencies at startup (IdP discovery, keytab parsing) are outside the model."),
}

def entry(pid, c):
    return {
        "property_id": pid,
        "quick_cmd": "./check %s quick" % pid,
        "thorough_cmd": "./check %s thorough" % pid,
        "evidence_file": "/verif/evidence/%s.json" % pid,
        "replay_cmd_template": "./check %s replay {path}" % pid,
        "engine": "lean4+go-differential",
        "level_claimed": {"category": "proof", "text": c["text"], "design_ref": c["design"]},
        "level_note": BASE_NOTE + c["note"],
        "technique": c["technique"],
    }

def main():
    try:
        from manifest_table import CHECKS as MORE
        CHECKS.update(MORE)
    except ImportError:
        pass
    checks = [entry(p["id"], CHECKS[p["id"]]) for p in props if p["id"] in CHECKS]
    na = [{"property_id": p["id"], "reason": "check not built yet in this commit (planned, see DESIGN.md §6)"} for p in props if p["id"] not in CHECKS]
    m = {
        "version": 1,
        "setup_cmd": "./setup.sh",
        "hooks": {
            "guard": "verif",
            "enable": "go build -tags verif (adds cmd/rdpgw/protocol/export_verif.go and cmd/rdpgw/web/export_verif.go; add-only)",
            "baseline_off_cmd": "cd /repo && GOFLAGS=-mod=mod GOPROXY=off GOSUMDB=off go test -vet=off -count=1 $(go list ./... | grep -v 'rdpgw/cmd/auth$')",
            "source_commits": ["3342c27", "db249ea"],
            "add_only": True,
        },
        "engines": [
            {"name": "lean4-models-and-proofs", "path": "lean/", "serves_properties": [c["property_id"] for c in checks],
             "kind_free_text": "Lean 4 core-only models, property theorems (Props/), axiom audit, oracle executable"},
            {"name": "go-differential-harness", "path": "harness/", "serves_properties": [c["property_id"] for c in checks],
             "kind_free_text": "Go harness running the real rdpgw code (hook, exported-API and binary tiers) against the Lean oracle; extractor regenerating constants/tables"},
        ],
        "checks": checks,
        "not_applicable": na,
        "notes": "All checks: ./check <id> quick|thorough. Fixes to /repo are 'fix:' commits listed in KNOWN_FINDINGS.txt; hooks are guarded by build tag verif.",
    }
    json.dump(m, open(os.path.join(ROOT, "MANIFEST.json"), "w"), indent=1)

if __name__ == "__main__":
    main()
