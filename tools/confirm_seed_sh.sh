#!/bin/bash
# tools/confirm_seed_sh.sh <seed-id> <property> — like confirm_seed.sh for seeds whose demonstration is demo.sh
set -u
id="$1"; prop="$2"; dir=/verif/seeded/$id
export GOFLAGS=-mod=mod GOPROXY=off GOSUMDB=off GOTOOLCHAIN=local
wt=$(mktemp -d /tmp/confirm-XXXXXX)
git -C /repo worktree add -q --detach "$wt" HEAD || exit 2
trap 'git -C /repo worktree remove --force "$wt" >/dev/null 2>&1; rm -rf "$wt"' EXIT
cd "$wt"
bash "$dir/demo.sh" "$wt" >/tmp/confirm-$$-clean.log 2>&1; dc=$?
git apply "$dir/patch.diff" || exit 2
go build ./cmd/rdpgw/... >/dev/null 2>&1; builds=$?
go test -vet=off -count=1 $(go list ./... | grep -v 'rdpgw/cmd/auth$') >/tmp/confirm-$$-suite.log 2>&1; suite=$?
bash "$dir/demo.sh" "$wt" >/tmp/confirm-$$-mut.log 2>&1; dm=$?
needs=$(sed -n '2,200p' $dir/notes.txt | tr '\n' ' ' | cut -c1-600)
python3 - "$dir/meta.json" "$id" "$prop" "$needs" "$builds" "$suite" "$dm" "$dc" <<'PY'
import json, sys
out, id_, prop, needs, builds, suite, dm, dc = sys.argv[1:]
ok = builds == "0" and suite == "0" and dm == "1" and dc == "0"
json.dump({"id": id_, "breaks_property": prop, "needs_to_manifest": needs, "confirmed": ok,
  "confirmation": {"compiles_with_change": builds == "0", "existing_suite_passes_with_change": suite == "0",
   "demo_fails_with_change": dm == "1", "demo_passes_without_change": dc == "0", "demo": "bash demo.sh <repo-root>",
   "how": "tools/confirm_seed_sh.sh in a scratch git worktree of /repo HEAD (removed afterwards)"}}, open(out, "w"), indent=1)
print(id_, "confirmed" if ok else "NOT CONFIRMED", "builds=%s suite=%s demo_mut=%s demo_clean=%s" % (builds, suite, dm, dc))
PY
rm -f /tmp/confirm-$$-*.log
