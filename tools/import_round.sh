#!/bin/bash
# tools/import_round.sh <round> <property>… — copy the changes a sub-agent left in /tmp/seedout<round>-<property>/
# into seeded/ and confirm each in a scratch worktree (confirm_seed.sh / confirm_seed_sh.sh).
set -u
round="$1"; shift
cd /verif
for prop in "$@"; do
  for d in /tmp/seedout$round-$prop/$prop-r$round-*; do
    [ -f "$d/patch.diff" ] || continue
    id=$(basename "$d")
    mkdir -p seeded/$id
    cp "$d/patch.diff" "$d/notes.txt" seeded/$id/
    for f in "$d"/demo_test.go "$d"/demo.sh; do [ -f "$f" ] && cp "$f" seeded/$id/; done
    needs=$(sed -n '2,200p' seeded/$id/notes.txt | tr '\n' ' ' | cut -c1-600)
    if [ -f seeded/$id/demo_test.go ]; then
      tools/confirm_seed.sh "$id" "$prop" - "$needs"
    else
      tools/confirm_seed_sh.sh "$id" "$prop"
    fi
  done
done
