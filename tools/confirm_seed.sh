#!/bin/bash
# tools/confirm_seed.sh <seed-id> <property> <package dir for the demo, relative to the repo> "<what it needs>"
# Confirms a seeded change in a scratch worktree: builds, existing tests pass with it, the
# demonstration fails with it and passes without it. Writes seeded/<id>/meta.json.
set -u
id="$1"; prop="$2"; pkg="$3"; needs="${4:-}"
dir=/verif/seeded/$id
if [ -z "$pkg" ] || [ "$pkg" = "-" ]; then pkg=$(sed -n 's/^pkg: *//p' "$dir/notes.txt" | head -1); fi
[ -n "$pkg" ] || pkg=cmd/rdpgw/protocol
export GOFLAGS=-mod=mod GOPROXY=off GOSUMDB=off GOTOOLCHAIN=local
wt=$(mktemp -d /tmp/confirm-XXXXXX)
git -C /repo worktree add -q --detach "$wt" HEAD || exit 2
cleanup() { git -C /repo worktree remove --force "$wt" >/dev/null 2>&1; rm -rf "$wt"; }
trap cleanup EXIT
cd "$wt"
demo=$(ls $dir/*_test.go | head -1)
cp "$demo" "$pkg/zz_seed_demo_test.go"
run=$(grep -o 'func Test[A-Za-z0-9_]*' "$demo" | head -1 | sed 's/func //')
go test -tags verif -vet=off -count=1 -run "^$run\$" ./$pkg >/tmp/confirm-$$-clean.log 2>&1; demo_clean=$?
git apply "$dir/patch.diff" || { echo "$id: patch does not apply"; exit 2; }
go build ./cmd/rdpgw/... >/dev/null 2>&1 && go vet -tags verif ./$pkg >/dev/null 2>&1; builds=$?
go build ./cmd/rdpgw/... >/dev/null 2>&1; builds=$?
go test -tags verif -vet=off -count=1 -run "^$run\$" ./$pkg >/tmp/confirm-$$-mut.log 2>&1; demo_mut=$?
rm -f "$pkg/zz_seed_demo_test.go"
go test -vet=off -count=1 $(go list ./... | grep -v 'rdpgw/cmd/auth$') >/tmp/confirm-$$-suite.log 2>&1; suite=$?
ok=false
if [ $builds -eq 0 ] && [ $suite -eq 0 ] && [ $demo_mut -ne 0 ] && [ $demo_clean -eq 0 ]; then ok=true; fi
python3 - "$dir/meta.json" "$id" "$prop" "$needs" "$builds" "$suite" "$demo_mut" "$demo_clean" "$ok" "$run" "$pkg" <<'PY'
import json, sys
out, id_, prop, needs, builds, suite, dm, dc, ok, run, pkg = sys.argv[1:]
meta = {}
try:
    meta = json.load(open(out))
except Exception:
    pass
meta.update({"id": id_, "breaks_property": prop, "needs_to_manifest": needs or meta.get("needs_to_manifest", ""),
        "confirmed": ok == "true",
        "confirmation": {"compiles_with_change": builds == "0", "existing_suite_passes_with_change": suite == "0",
                         "demo_fails_with_change": dm != "0", "demo_passes_without_change": dc == "0",
                         "demo": "go test -tags verif -run '^%s$' ./%s" % (run, pkg),
                         "how": "tools/confirm_seed.sh in a scratch git worktree of /repo HEAD (removed afterwards)"}})
json.dump(meta, open(out, "w"), indent=1)
print(id_, "confirmed" if ok == "true" else "NOT CONFIRMED", "builds=%s suite=%s demo_mut=%s demo_clean=%s" % (builds, suite, dm, dc))
PY
rm -f /tmp/confirm-$$-*.log
