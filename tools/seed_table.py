#!/usr/bin/env python3
"""tools/seed_table.py — the table of DESIGN.md 11.6 from seeded/*/meta.json and notes.txt (stdout, markdown)."""
import json, os, re, sys
root = os.path.join(os.path.dirname(os.path.dirname(os.path.abspath(__file__))), "seeded")
def key(i):
    m = re.match(r"C(\d+)-(?:r(\d+)-)?(\d+)$", i)
    return (int(m.group(1)), int(m.group(2) or 1), int(m.group(3)))
ids = sorted([d for d in os.listdir(root) if re.match(r"C\d+-", d)], key=key)
print("| seed | change (first line of its notes) | caught by (signature reported by the check of its property) |")
print("|---|---|---|")
quick = thorough = static = missed = 0
for i in ids:
    d = os.path.join(root, i)
    meta = json.load(open(os.path.join(d, "meta.json")))
    lines = [l.strip() for l in open(os.path.join(d, "notes.txt")) if l.strip() and not l.startswith("pkg:")]
    first = (lines[0] if lines else "")[:140].replace("|", "/")
    q = meta.get("detected_by", {})
    t = meta.get("detected_by_thorough", {})
    if q.get("detected"):
        sig = "`%s`" % q.get("signature")
        if not q.get("with_failing_input"):
            sig += " (regenerated facts only; no failing input)"; static += 1
        quick += 1
    elif t.get("detected"):
        sig = "`%s` (thorough tier only)" % t.get("signature"); thorough += 1
    else:
        sig = "**not caught**"; missed += 1
    print("| %s | %s | %s |" % (i, first, sig))
print("\n%d changes: %d by the quick check (%d of them without a failing input), %d by the thorough tier only, %d not caught" % (len(ids), quick, static, thorough, missed), file=sys.stderr)
