#!/usr/bin/env python3
"""tools/finalize_design.py — refresh the generated tables of DESIGN.md (11.1 per-property table from
evidence/, 11.6 seed table from seeded/*/meta.json)."""
import os, re, subprocess, sys
root = os.path.dirname(os.path.dirname(os.path.abspath(__file__)))
p = os.path.join(root, "DESIGN.md")
s = open(p).read()
def run(tool):
    r = subprocess.run([sys.executable, os.path.join(root, "tools", tool)], capture_output=True, text=True)
    return r.stdout, r.stderr.strip()
# 11.1
tab, info = run("asbuilt_table.py")
a = s.index("| property | model files | regenerated tables its theorems use |")
b = s.index("\n\n", a)
s = s[:a] + tab.rstrip("\n") + s[b:]
# 11.6
tab, summary = run("seed_table.py")
a = s.index("| seed | change (first line of its notes) |")
b = s.index("\n\n", a)
s = s[:a] + tab.rstrip("\n") + s[b:]
print(info); print(summary)
open(p, "w").write(s)
