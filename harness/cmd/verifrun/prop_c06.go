package main

import (
	"bytes"
	"encoding/binary"
	"fmt"
	"net"
	"os"
	"sync"
	"sync/atomic"
	"time"

	"github.com/bolkedebruin/rdpgw/cmd/rdpgw/identity"
	"github.com/bolkedebruin/rdpgw/cmd/rdpgw/protocol"
)

func init() { register("C06", runC06) }

// dataPayloads splits the DATA packets out of what the gateway sent and
// checks their framing independently: header length = bytes, length field = payload.
func dataPayloads(pkts [][]byte) (payload []byte, malformed string) {
	for _, p := range pkts {
		if len(p) < 8 {
			return payload, "packet shorter than a header: " + hx(p)
		}
		ty := int(p[0]) | int(p[1])<<8
		if ty != tData {
			continue
		}
		if int(binary.LittleEndian.Uint32(p[4:])) != len(p) {
			return payload, "header length differs from the bytes sent: " + hx(p[:min(len(p), 24)])
		}
		if len(p) < 10 || int(binary.LittleEndian.Uint16(p[8:])) != len(p)-10 {
			return payload, "payload-length field differs from the payload carried: " + hx(p[:min(len(p), 24)])
		}
		if len(p) > 4096 {
			return payload, fmt.Sprintf("DATA packet of %d bytes exceeds 4096", len(p))
		}
		payload = append(payload, p[10:]...)
	}
	return payload, ""
}

func min(a, b int) int {
	if a < b {
		return a
	}
	return b
}

func runC06(r *Run) {
	r.rule = "pairs of byte streams (0 B to 256 KiB quick / 8 MiB thorough, all byte values) relayed through the real forward/receive code: host writes chunked arbitrarily, client DATA packets with payload sizes around 0, 1, 4085-4087, 4096, 8192, 65535 and length fields shorter/longer than carried, split into arbitrary transport reads, both transports, both directions concurrently; non-trivial = at least two packets or chunks; distinct by stream contents and splits"
	rng := r.Rng
	randBytes := func(n int) []byte { b := make([]byte, n); rng.Read(b); return b }
	sizes := []int{0, 1, 2, 100, 4085, 4086, 4087, 4096, 4097, 8192, 65535}
	drift := 0
	first := ""

	// ---- hook tier, client → host: receive() on DATA bodies with honest and lying length fields
	r.TierRan("hook")
	var bodies [][]byte
	for i := r.N(3000, 60000); i > 0; i-- {
		n := sizes[rng.Intn(len(sizes))]
		if rng.Intn(2) == 0 {
			n = rng.Intn(300)
		}
		payload := randBytes(n)
		declared := n
		switch rng.Intn(6) {
		case 0:
			declared = rng.Intn(n + 1) // shorter
		case 1:
			declared = n + 1 + rng.Intn(70000-n) // longer
			if declared > 65535 {
				declared = 65535
			}
		}
		body := append(le16(declared), payload...)
		switch rng.Intn(40) {
		case 0:
			body = body[:1]
		case 1:
			body = nil
		}
		bodies = append(bodies, body)
	}
	var lines []string
	got := make([][]byte, len(bodies))
	for i, b := range bodies {
		c1, c2 := net.Pipe()
		done := make(chan []byte)
		go func() {
			var buf bytes.Buffer
			buf.ReadFrom(c2)
			done <- buf.Bytes()
		}()
		protocol.VerifReceive(b, c1)
		c1.Close()
		got[i] = <-done
		lines = append(lines, "receive body="+hx(b))
	}
	ans := r.Oracle(lines)
	for i, b := range bodies {
		r.Count("recv:" + hx(b))
		want := unhx(ans[i])
		// the property on the implementation: exactly min(declared, carried) bytes of the payload
		carried := 0
		declared := 0
		if len(b) >= 2 {
			carried = len(b) - 2
			declared = int(binary.LittleEndian.Uint16(b))
		}
		n := declared
		if carried < n {
			n = carried
		}
		var prop []byte
		if len(b) >= 2 {
			prop = b[2 : 2+n]
		}
		if !bytes.Equal(got[i], prop) {
			r.Violation("c06-receive", "bytes delivered to the host for a DATA packet are not its declared payload (min(declared, carried))",
				fmt.Sprintf("DATA body: %s\ndelivered to host: %s\nexpected: %s\n", hx(b[:min(len(b), 64)]), hx(got[i][:min(len(got[i]), 64)]), hx(prop[:min(len(prop), 64)])))
		} else if !bytes.Equal(got[i], want) {
			drift++
			if first == "" {
				first = fmt.Sprintf("receive(%s): implementation %s, model %s\n", hx(b), hx(got[i]), hx(want))
			}
		}
	}

	// ---- hook tier, host → client: forward() over a pipe with arbitrary host write chunking
	for i := r.N(150, 4000); i > 0; i-- {
		total := []int{0, 1, 4086, 4087, 8192, 20000, 65536, 262144}[rng.Intn(8)]
		if r.Thorough() && rng.Intn(50) == 0 {
			total = 8 << 20
		}
		stream := randBytes(total)
		st := newScript(nil)
		t := protocol.VerifNewTunnel(st, st, identity.NewUser())
		c1, c2 := net.Pipe()
		var wg sync.WaitGroup
		wg.Add(1)
		go func() { defer wg.Done(); protocol.VerifForward(c1, t) }()
		pos := 0
		for pos < len(stream) {
			n := 1 + rng.Intn(9000)
			if rng.Intn(4) == 0 {
				n = 1 + rng.Intn(8)
			}
			if pos+n > len(stream) {
				n = len(stream) - pos
			}
			c2.Write(stream[pos : pos+n])
			pos += n
		}
		c2.Close()
		wg.Wait()
		var pkts [][]byte
		for _, w := range st.writes {
			pkts = append(pkts, w.data)
		}
		payload, bad := dataPayloads(pkts)
		r.Count(fmt.Sprintf("fwd:%d:%d", total, len(pkts)))
		if len(r.samples) < 3 {
			r.Sample(map[string]interface{}{"direction": "host→client (forward)", "stream_bytes": total, "data_packets": len(pkts)})
		}
		if bad != "" {
			r.Violation("c06-down-malformed", "a DATA packet sent to the client is not well-formed: "+bad, fmt.Sprintf("host stream of %d bytes\n", total))
			continue
		}
		if !bytes.Equal(payload, stream) {
			r.Violation("c06-down", "the concatenated payloads of the DATA packets sent to the client differ from the byte stream the host produced",
				fmt.Sprintf("host stream %d bytes, client got %d bytes in %d packets; first difference at %d\n", len(stream), len(payload), len(pkts), firstDiff(payload, stream)))
			continue
		}
		// model tie on a sample of packets: exact bytes of the DATA packet for that chunk
		if len(pkts) > 0 {
			k := rng.Intn(len(pkts))
			a := r.Oracle([]string{"datapkt chunk=" + hx(pkts[k][10:])})
			if a[0] != hx(pkts[k]) {
				drift++
				if first == "" {
					first = fmt.Sprintf("DATA packet for a chunk of %d bytes differs from the model's\n", len(pkts[k])-10)
				}
			}
		}
	}

	// ---- API tier: whole tunnels, both transports, both directions concurrently
	r.TierRan("api")
	listeners := []*hostListener{newHostListener()}
	defer listeners[0].close()
	cfg := &gwCfg{hcheck: true, hosts: []string{listeners[0].addr}, dial: []string{listeners[0].addr}}
	gws := startGateway(cfg.gateway())
	defer gws.close()
	_, port := splitHostPort(listeners[0].addr)
	nAPI := r.N(30, 600)
	for i := 0; i < nAPI; i++ {
		kind := []string{"ws", "legacy"}[i%2]
		upTotal := []int{0, 1, 5000, 70000, 200000}[rng.Intn(5)]
		downTotal := []int{0, 1, 5000, 70000, 200000}[rng.Intn(5)]
		if r.Thorough() && rng.Intn(20) == 0 {
			upTotal, downTotal = 4<<20, 4<<20
		}
		c06BigSegs = i%5 == 4
		if c06BigSegs && upTotal < 200000 {
			upTotal = 400000
		}
		c06Stall = 0
		if (r.Thorough() && i == 7) || (os.Getenv("VERIF_C06_STALL") != "" && i == 1) { // once: a client that stops reading for 11 s while the host streams
			c06Stall, downTotal, kind = 11*time.Second, 4<<20, "legacy"
		}
		// a host that reads slowly while the client sends a lot and closes the channel right away: what
		// was accepted from the client still has to reach the host in full
		listeners[0].slow = i%7 == 3
		if listeners[0].slow {
			upTotal, downTotal = 1<<20, 0
		}
		up := randBytes(upTotal)
		down := randBytes(downTotal)
		res := relayOnce(kind, gws, listeners[0], port, up, down, rng)
		slowHost := listeners[0].slow
		listeners[0].slow = false
		stalled := c06Stall
		c06BigSegs, c06Stall = false, 0
		if res.inconclusive == "setup" || res.inconclusive == "no-backend-connection" {
			// a valid set-up sequence that does not produce the channel: nothing the client sends can reach the
			// host. Tried again before it counts (a loaded machine can miss the 5 s).
			shape := res.shape
			wsForce = res.ws
			if res2 := relayOnce(kind, gws, listeners[0], port, up[:min(len(up), 1000)], nil, rng); res2.inconclusive == res.inconclusive {
				r.Violation("c06-setup", "a valid tunnel set-up did not produce a channel, so the client's bytes are not delivered",
					fmt.Sprintf("transport=%s; handshake, tunnel create, tunnel authorization and channel create for an allowed host were sent (%s; second attempt: %s) and no channel response / backend connection followed within 5 s, twice (%s)\n", kind, shape, res2.shape, res.inconclusive))
				continue
			}
		}
		if res.inconclusive != "" {
			r.Inconclusive()
			r.Dist("api-inconclusive:" + res.inconclusive)
			continue
		}
		r.Count(fmt.Sprintf("api:%s:%d:%d:%d", kind, upTotal, downTotal, i))
		r.Dist("api:" + kind)
		rep := fmt.Sprintf("transport=%s client→host %d bytes in %d DATA packets over %d transport writes, host→client %d bytes; large transport messages=%v; client stalled for %v; slow host=%v; %s\nhost received %d bytes (first difference at %d)\nclient received %d payload bytes in DATA packets (first difference at %d)\n",
			kind, len(up), res.upPkts, res.upSegs, len(down), i%5 == 4, stalled, slowHost, res.shape, len(res.hostGot), firstDiff(res.hostGot, up), len(res.clientGot), firstDiff(res.clientGot, down))
		if res.malformed != "" {
			r.Violation("c06-api-malformed", "a DATA packet sent to the client is not well-formed: "+res.malformed, rep)
			continue
		}
		if !bytes.Equal(res.hostGot, up) {
			r.Violation("c06-api-up", "bytes delivered to the host are not the concatenation of the client's DATA payloads", rep)
			continue
		}
		if !bytes.Equal(res.clientGot, down) {
			r.Violation("c06-api-down", "DATA payloads received by the client are not the byte stream the host produced", rep)
		}
	}
	r.extra["model_disagreements"] = drift
	if drift > 0 && !r.HasViolation() {
		r.Unproven(fmt.Sprintf("correspondence Body.receive / Resp.dataPacket broke on %d cases although both directions relay exactly", drift), first)
	}
}

func firstDiff(a, b []byte) int {
	n := min(len(a), len(b))
	for i := 0; i < n; i++ {
		if a[i] != b[i] {
			return i
		}
	}
	if len(a) != len(b) {
		return n
	}
	return -1
}

type relayResult struct {
	hostGot, clientGot []byte
	upPkts, upSegs     int
	malformed          string
	inconclusive       string
	shape              string // how the client's messages went on the wire
	ws                 *wsClient
}

// relayOnce opens a tunnel through the real handler, relays `up` from the client
// and `down` from the host concurrently, closes the channel and collects both ends.
// c06BigSegs: the client's byte stream is delivered in very large transport messages / chunks.
var c06BigSegs bool

// c06Stall: the client stops reading for this long while the host is sending.
var c06Stall time.Duration

func relayOnce(kind string, g *gwServer, host *hostListener, port int, up, down []byte, rng interface {
	Intn(int) int
}) *relayResult {
	res := &relayResult{}
	host.poll()
	host.reset()
	connID := "{" + randHex(8) + "}"
	var cl gwClient
	var pr *packetReader
	switch kind {
	case "ws":
		w, err := dialWS(g.addr, connID, "")
		if err != nil {
			res.inconclusive = "dial"
			return res
		}
		cl, pr = w, readWS(w, 20*time.Second)
		res.shape, res.ws = w.shape(), w
	default:
		l, err := dialLegacy(g.addr, connID, "")
		if err != nil {
			res.inconclusive = "dial"
			return res
		}
		cl, pr = l, readLegacy(l, 20*time.Second)
		res.shape = "legacy: chunked body"
	}
	defer cl.close()
	setup := [][]byte{
		mkPacket(tHandshake, bodyHandshake(1, 0, 0, 0)),
		mkPacket(tTunnel, bodyTunnelCreate(0, 0, nil)),
		mkPacket(tAuth, bodyTunnelAuth(append(utf16le("PC"), 0, 0))),
		mkPacket(tChannel, bodyChannel(port, append(utf16le("127.0.0.1"), 0, 0))),
	}
	for _, s := range setup {
		cl.send(s)
	}
	// wait for the channel response
	deadline := time.Now().Add(5 * time.Second)
	for {
		pk, ended := pr.snapshot()
		if len(pk) >= 4 {
			break
		}
		if ended || time.Now().After(deadline) {
			res.inconclusive = "setup"
			return res
		}
		time.Sleep(time.Millisecond)
	}
	// the host side
	var hc *hostConn
	for i := 0; i < 2000 && hc == nil; i++ {
		host.poll()
		if len(host.conns) > 0 {
			hc = host.conns[0]
		} else {
			time.Sleep(time.Millisecond)
		}
	}
	if hc == nil {
		res.inconclusive = "no-backend-connection"
		return res
	}
	if c06Stall > 0 {
		atomic.StoreInt32(&pauseReaders, 1)
		time.AfterFunc(c06Stall, func() { atomic.StoreInt32(&pauseReaders, 0) })
		defer atomic.StoreInt32(&pauseReaders, 0)
	}
	var wg sync.WaitGroup
	wg.Add(1)
	go func() {
		defer wg.Done()
		pos := 0
		for pos < len(down) {
			n := 1 + rng.Intn(12000)
			if pos+n > len(down) {
				n = len(down) - pos
			}
			hc.c.Write(down[pos : pos+n])
			pos += n
		}
	}()
	// the client side: DATA packets of assorted sizes, their byte stream cut arbitrarily
	var stream []byte
	sizes := []int{0, 1, 100, 4085, 4086, 4087, 4096, 8192, 65535}
	pos := 0
	for pos < len(up) {
		n := sizes[rng.Intn(len(sizes))]
		if pos+n > len(up) {
			n = len(up) - pos
		}
		stream = append(stream, mkPacket(tData, bodyData(up[pos:pos+n]))...)
		pos += n
		res.upPkts++
	}
	pos = 0
	for pos < len(stream) {
		n := 1 + rng.Intn(9000)
		if rng.Intn(5) == 0 {
			n = 1 + rng.Intn(12)
		}
		if c06BigSegs { // many packets coalesced into transport messages far larger than any one packet
			n = 100000 + rng.Intn(300000)
		}
		if pos+n > len(stream) {
			n = len(stream) - pos
		}
		if err := cl.send(stream[pos : pos+n]); err != nil {
			break
		}
		pos += n
		res.upSegs++
	}
	wg.Wait()
	// wait until the client has everything the host sent, then close the channel
	deadline = time.Now().Add(20 * time.Second)
	for {
		pk, ended := pr.snapshot()
		p, _ := dataPayloads(pk)
		if len(p) >= len(down) || ended || time.Now().After(deadline) {
			break
		}
		time.Sleep(2 * time.Millisecond)
	}
	cl.send(mkPacket(tClose, nil))
	select {
	case <-pr.done:
	case <-time.After(10 * time.Second):
	}
	pk, _ := pr.snapshot()
	res.clientGot, res.malformed = dataPayloads(pk)
	cl.close()
	select {
	case <-hc.done:
	case <-time.After(30 * time.Second): // a slow host takes its time; end of stream is what ends the wait
	}
	res.hostGot = hc.received()
	return res
}
