package main

import (
	"bufio"
	"encoding/base64"
	"encoding/binary"
	"fmt"
	"math"
	"os"
	"path/filepath"
	"strings"
	"time"
)

func init() { register("C16", runC16) }

// C16: every response of the real packet loop is decoded by the independent
// Lean decoder and checked against the property; the exact bytes are compared
// with the model's.
func runC16(r *Run) {
	r.rule = "all 128 redirect-switch combinations × idle timeouts (int32 edges, 0, ±1, random) × 4 capability settings × request outcomes (accepted, wrong phase, capability mismatch, rejected cookie, refused client, denied host, unreachable host, close); non-trivial = every history (≥ 1 response decoded); distinct by (config, history)"
	r.TierRan("hook")
	listeners := []*hostListener{newHostListener()}
	defer listeners[0].close()
	closed := closedPort()
	g := &histGen{rng: r.Rng, listeners: []*hostListener{listeners[0], listeners[0], listeners[0]}, closed: closed}

	idles := []int{0, 1, -1, 30, math.MaxInt32, math.MinInt32, math.MaxInt32 - 1, 65535}
	nIdleRand := r.N(0, 190)
	for i := 0; i < nIdleRand; i++ {
		idles = append(idles, int(int32(r.Rng.Uint32())))
	}
	type oc struct {
		name   string
		expect []string // per response: expected outcome class
		mk     func(c *gwCfg) []step
	}
	outcomes := []oc{
		{"accepted", nil, func(c *gwCfg) []step {
			return []step{g.hs(c, true), g.tc(c, "good-cookie"), g.ta("PC1"), g.cc(listeners[0].addr), g.data(3), {"close", mkPacket(tClose, nil)}}
		}},
		{"wrong-phase-auth", nil, func(c *gwCfg) []step { return []step{g.hs(c, true), g.ta("PC1")} }},
		{"wrong-phase-channel", nil, func(c *gwCfg) []step { return []step{g.hs(c, true), g.tc(c, "good-cookie"), g.cc(listeners[0].addr)} }},
		{"mismatch", nil, func(c *gwCfg) []step { return []step{g.hs(c, false)} }},
		{"cookie-rejected", nil, func(c *gwCfg) []step { return []step{g.hs(c, true), g.tc(c, "bad")} }},
		{"client-refused", nil, func(c *gwCfg) []step { return []step{g.hs(c, true), g.tc(c, "good-cookie"), g.ta("intruder")} }},
		{"host-denied", nil, func(c *gwCfg) []step {
			return []step{g.hs(c, true), g.tc(c, "good-cookie"), g.ta("PC1"), g.cc("127.0.0.1:1")}
		}},
		{"host-unreachable", nil, func(c *gwCfg) []step {
			return []step{g.hs(c, true), g.tc(c, "good-cookie"), g.ta("PC1"), g.cc(closed)}
		}},
	}
	type ccase struct {
		cfg   *gwCfg
		name  string
		steps []step
		reads [][]byte
		ir    *implRun
	}
	var cases []*ccase
	for red := 0; red < 128; red++ {
		for ii, idle := range idles {
			if !r.Thorough() && ii >= 6 {
				break
			}
			for s := 0; s < 4; s++ {
				// every outcome for a quarter of the grid, two outcomes elsewhere (keeps quick in seconds)
				for oi, o := range outcomes {
					if !r.Thorough() && (red+ii+s+oi)%4 != 0 {
						continue
					}
					cfg := &gwCfg{token: s&1 != 0, sc: s&2 != 0, ccheck: true, ncheck: o.name == "client-refused", hcheck: true, idle: idle,
						cookies: []string{"good-cookie"}, clients: []string{"PC1"}, hosts: []string{listeners[0].addr, closed}, dial: []string{listeners[0].addr}}
					for b := 0; b < 7; b++ {
						cfg.redir[b] = red&(1<<b) != 0
					}
					c := &ccase{cfg: cfg, name: o.name, steps: o.mk(cfg)}
					for _, st := range c.steps {
						c.reads = append(c.reads, st.pkt)
					}
					cases = append(cases, c)
				}
			}
		}
	}
	var lines []string
	type ref struct{ ci, ei, wi int }
	var refs []ref
	for ci, c := range cases {
		c.ir = runProcess(c.cfg, c.reads, listeners)
		lines = append(lines, "tunnel "+c.cfg.oracleArgs()+" segs="+hxList(c.reads))
		refs = append(refs, ref{ci, -1, -1})
		for ei, e := range c.ir.elems {
			for wi, w := range e.writes {
				lines = append(lines, "decode pkt="+hx(w))
				refs = append(refs, ref{ci, ei, wi})
			}
		}
		r.Dist("outcome:" + c.name)
	}
	r.implTraces = len(cases)
	ans := r.Oracle(lines)
	drift := 0
	first := ""
	respType := map[int]string{tHandshake: "handshake", tTunnel: "tunnel", tAuth: "tunnelauth", tChannel: "channel", tClose: "closechannel"}
	for li, rf := range refs {
		c := cases[rf.ci]
		rep := func() string {
			var sb strings.Builder
			fmt.Fprintf(&sb, "config: %s\noutcome scenario: %s\nrequests:\n", c.cfg.oracleArgs(), c.name)
			for i, s := range c.steps {
				fmt.Fprintf(&sb, "  %d %-8s %s\n", i, s.kind, hx(s.pkt))
			}
			fmt.Fprintf(&sb, "implementation trace: %s\n", implModelCanon(c.ir, true))
			return sb.String()
		}
		if rf.ei < 0 {
			// model tie: exact bytes of every response
			m := kv(ans[li])
			canon, _ := modelCanon(m["trace"])
			r.Count(c.cfg.oracleArgs() + c.name)
			if rf.ci%977 == 0 {
				r.Sample(map[string]interface{}{"config": c.cfg.oracleArgs(), "scenario": c.name, "impl_trace": implModelCanon(c.ir, true)})
			}
			if c.ir.panicked != "" || c.ir.timedOut {
				r.Violation("c16-panic", "packet loop panicked or hung", rep())
				continue
			}
			if canon != implModelCanon(c.ir, true) {
				drift++
				if first == "" {
					first = rep() + "model trace: " + canon + "\n"
				}
			}
			continue
		}
		e := c.ir.elems[rf.ei]
		w := e.writes[rf.wi]
		a := ans[li]
		req := c.steps[e.readIdx]
		reqTy := int(req.pkt[0]) | int(req.pkt[1])<<8
		bad := func(sig, what string) {
			r.Violation(sig, what, rep()+fmt.Sprintf("offending response to request %d: %s\nindependent decoder: %s\n", e.readIdx, hx(w), a))
		}
		if a == "undecodable" {
			bad("c16-malformed", "a response is not a well-formed MS-TSGU packet (header length, type, or fields-present mask inconsistent with the bytes)")
			continue
		}
		f := strings.Fields(a)
		d := kv(a)
		if f[1] != respType[reqTy] {
			bad("c16-type", "response type does not match the request it answers")
			continue
		}
		// was this step accepted, by construction of the scenario?
		last := e.readIdx == len(c.steps)-1
		accepted := c.name == "accepted" || !last
		st := d["st"]
		if (st == "0") != accepted {
			bad("c16-status", "status is 0 for a refused step or non-zero for an accepted one")
			continue
		}
		if last {
			want := map[string]string{"mismatch": "2147965417", "cookie-rejected": "2147965432", "host-denied": "2147965402"}[c.name]
			if want != "" && st != want {
				bad("c16-code", "wrong MS-TSGU status code for this refusal")
				continue
			}
		}
		if f[1] == "handshake" && st == "0" {
			caps := 0
			if c.cfg.sc {
				caps |= 1
			}
			if c.cfg.token {
				caps |= 2
			}
			if d["ext"] != fmt.Sprint(caps) {
				bad("c16-caps", "handshake response does not advertise exactly the enabled mechanisms")
				continue
			}
		}
		if f[1] == "tunnelauth" {
			// policy fields
			flags := parseSome(a, "redir")
			idle := parseSome(a, "idle")
			disableAll, enableAll := c.cfg.redir[5], c.cfg.redir[6]
			redirectable := func(bit uint64) bool {
				if flags&0x40000000 != 0 {
					return false
				}
				if flags&0x80000000 != 0 {
					return true
				}
				return flags&bit == 0
			}
			sw := []struct {
				bit uint64
				on  bool
			}{{1, c.cfg.redir[2]}, {2, c.cfg.redir[3]}, {4, c.cfg.redir[1]}, {8, c.cfg.redir[0]}, {16, c.cfg.redir[4]}}
			okPol := true
			for _, s := range sw {
				want := !disableAll && (enableAll || s.on)
				if redirectable(s.bit) != want {
					okPol = false
				}
			}
			if disableAll && flags != 0x40000000 {
				okPol = false
			}
			if !disableAll && enableAll && flags != 0x80000000 {
				okPol = false
			}
			if !okPol {
				bad("c16-redirect", "tunnel-authorization response misreports the redirection policy")
				continue
			}
			wantIdle := uint64(0)
			if c.cfg.idle > 0 {
				wantIdle = uint64(uint32(c.cfg.idle))
			}
			if idle != wantIdle {
				bad("c16-idle", "tunnel-authorization response misreports the idle timeout")
				continue
			}
		}
	}
	c16Binary(r)
	r.extra["responses_decoded"] = len(refs) - len(cases)
	r.extra["model_disagreements"] = drift
	if drift > 0 && !r.HasViolation() {
		r.Unproven(fmt.Sprintf("correspondence Model.Resp.wire = response builders broke on %d histories (bytes differ) although every response decodes and reports the true outcome and policy", drift), first)
	}
}

// parseSome extracts N from `key=(some N)` in an oracle answer.
func parseSome(a, key string) uint64 {
	i := strings.Index(a, key+"=(some ")
	if i < 0 {
		return math.MaxUint64
	}
	var v uint64
	fmt.Sscanf(a[i+len(key)+7:], "%d", &v)
	return v
}

// c16Binary: the policy as configured, through config.Load and main()'s wiring: the real binary is
// started with redirect switches and an idle timeout in its configuration file, a tunnel is taken to
// the authorization step, and the response's redirect flags and idle timeout are compared with
// Resp.makeRedirectFlags / idleField for that configuration (disable-all taking precedence).
func c16Binary(r *Run) {
	if _, err := os.Stat(gwBinaryPath()); err != nil {
		r.Note("gateway binary unavailable: binary tier skipped")
		return
	}
	r.TierRan("binary")
	dir := filepath.Join(verifRoot, "work", fmt.Sprintf("c16-%d", os.Getpid()))
	os.MkdirAll(dir, 0o755)
	defer os.RemoveAll(dir)
	sock := filepath.Join(dir, "auth.sock")
	fa := startFakeAuth(sock, map[string]string{"alice": "wonderland"})
	defer fa.stop()
	cert, key := selfSignedCert(dir)
	basic := "Basic " + base64.StdEncoding.EncodeToString([]byte("alice:wonderland"))
	type capsCase struct {
		redir [7]bool // clipboard port drive printer pnp disableAll enableAll
		idle  int
	}
	cs := []capsCase{
		{[7]bool{false, false, false, false, false, true, true}, 7},
		{[7]bool{true, false, true, false, false, true, false}, 0},
		{[7]bool{false, false, false, false, false, false, true}, 30},
		{[7]bool{true, true, false, false, true, false, false}, -1},
		{[7]bool{false, false, false, true, false, false, false}, 65535},
		{[7]bool{true, true, true, true, true, true, true}, 1},
	}
	if r.Thorough() {
		for i := 0; i < 40; i++ {
			var c capsCase
			for b := range c.redir {
				c.redir[b] = r.Rng.Intn(2) == 0
			}
			c.idle = []int{0, 1, 30, -5, 1 << 20}[r.Rng.Intn(5)]
			cs = append(cs, c)
		}
	}
	var lines []string
	var got []string
	var reps []string
	for _, c := range cs {
		port := freePort()
		ta := false
		names := []string{"enableclipboard", "enableport", "enabledrive", "enableprinter", "enablepnp", "disableredirect", "redirectall"}
		var extra []string
		var rb strings.Builder
		for i, n := range names {
			extra = append(extra, fmt.Sprintf("%s: %v", n, c.redir[i]))
			rb.WriteString(b01(c.redir[i]))
		}
		extra = append(extra, fmt.Sprintf("idletimeout: %d", c.idle))
		y := &gwYaml{port: port, tlsOn: true, auth: []string{"local"}, hosts: []string{"10.0.0.1:3389"}, hostSelection: "any", sock: sock, tokenAuth: &ta, certFile: cert, keyFile: key, extraCaps: extra}
		p := startBinary(dir, y.render(), nil, port, true)
		if !p.running() {
			r.Note("binary did not start for a redirect configuration: " + tail(p.stderr.String(), 300))
			p.stop()
			continue
		}
		conn, err := p.dial()
		if err != nil {
			p.stop()
			r.Inconclusive()
			continue
		}
		br := bufio.NewReader(conn)
		resp := rawRequest(conn, br, "RDG_OUT_DATA", fmt.Sprintf("localhost:%d", port), []string{basic}, true)
		flags, idle := "none", "none"
		if resp.upgraded {
			w := &wsClient{c: conn, br: br}
			for _, pk := range [][]byte{mkPacket(tHandshake, bodyHandshake(1, 0, 0, 0)), mkPacket(tTunnel, bodyTunnelCreate(0, 0, nil)), mkPacket(tAuth, bodyTunnelAuth(append(utf16le("PC"), 0, 0)))} {
				w.send(pk)
			}
			for k := 0; k < 3; k++ {
				m, err := w.recv(3 * time.Second)
				if err != nil {
					break
				}
				if len(m) >= 24 && m[0] == 7 {
					flags = fmt.Sprint(binary.LittleEndian.Uint32(m[16:20]))
					idle = fmt.Sprint(binary.LittleEndian.Uint32(m[20:24]))
				}
			}
		}
		conn.Close()
		p.stop()
		lines = append(lines, fmt.Sprintf("redir redir=%s idle=%d", rb.String(), c.idle))
		got = append(got, flags+" "+idle)
		reps = append(reps, fmt.Sprintf("real binary, Caps: %s\ntunnel-authorization response: redirect flags %s, idle timeout %s\n", strings.Join(extra, ", "), flags, idle))
		r.Count("binary:" + rb.String() + fmt.Sprint(c.idle))
		r.Dist("binary:caps")
	}
	ans := r.Oracle(lines)
	for i := range lines {
		m := kv(ans[i])
		if got[i] == "none none" {
			r.Inconclusive()
			continue
		}
		if got[i] != m["flags"]+" "+m["idle"] {
			r.Violation("c16-redirect", "tunnel-authorization response misreports the redirection policy", reps[i]+"model for this configuration: "+ans[i]+"\n")
		}
	}
}
