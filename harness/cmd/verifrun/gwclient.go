package main

// Exported-API tier: the real Gateway.HandleGatewayProtocol behind
// web.EnrichContext on an httptest server, driven by a minimal websocket client
// and a minimal legacy (RDG_OUT_DATA / RDG_IN_DATA) client of our own.

import (
	"bufio"
	"crypto/rand"
	"encoding/base64"
	"encoding/binary"
	"errors"
	"fmt"
	"io"
	"net"
	"net/http"
	"net/http/httptest"
	"os"
	"strings"
	"sync"
	"sync/atomic"
	"time"

	"github.com/bolkedebruin/rdpgw/cmd/rdpgw/protocol"
	"github.com/bolkedebruin/rdpgw/cmd/rdpgw/web"
)

var storeOnce sync.Once

func initSessionStore() {
	storeOnce.Do(func() {
		web.InitStore([]byte("0123456789abcdef0123456789abcdef"), []byte("fedcba9876543210fedcba9876543210"), "cookie", 0)
	})
}

// gwServer is a gateway instance serving only the gateway endpoint.
type gwServer struct {
	srv  *httptest.Server
	addr string
	gw   *protocol.Gateway
}

func startGateway(gw *protocol.Gateway) *gwServer {
	initSessionStore()
	h := web.EnrichContext(http.HandlerFunc(gw.HandleGatewayProtocol))
	s := httptest.NewServer(h)
	return &gwServer{srv: s, addr: strings.TrimPrefix(s.URL, "http://"), gw: gw}
}

func (g *gwServer) close() { g.srv.CloseClientConnections(); g.srv.Close() }

func randHex(n int) string {
	b := make([]byte, n)
	rand.Read(b)
	return fmt.Sprintf("%x", b)
}

// ---------------------------------------------------------------------------
// websocket client

type wsClient struct {
	c  net.Conn
	br *bufio.Reader
	// how this client's messages are put on the wire (RFC 6455 leaves it to the sender): a conforming
	// server reassembles fragmented messages, and an empty message carries no octets of the packet
	// stream, so nothing the gateway does may depend on either
	frag    int  // > 0: messages longer than this go out as continuation frames
	empties bool // an empty binary message now and then between the others
	nsent   int
}

// wsDialSeq numbers the websocket clients of a run; the wire shape of a client follows from its number.
var wsDialSeq int64

// wsForce, when set, gives the next websocket client this shape (used to repeat a case exactly).
var wsForce *wsClient

// wsPlain switches the shaping off (VERIF_WS_PLAIN=1), for telling a shaping effect from another one.
var wsPlain = os.Getenv("VERIF_WS_PLAIN") == "1"

func dialWS(addr string, connID string, extraHeaders string) (*wsClient, error) {
	c, err := net.DialTimeout("tcp", addr, 3*time.Second)
	if err != nil {
		return nil, err
	}
	key := make([]byte, 16)
	rand.Read(key)
	req := "RDG_OUT_DATA /remoteDesktopGateway/ HTTP/1.1\r\nHost: " + addr + "\r\nConnection: Upgrade\r\nUpgrade: websocket\r\nSec-WebSocket-Version: 13\r\nSec-WebSocket-Key: " +
		base64.StdEncoding.EncodeToString(key) + "\r\nRdg-Connection-Id: " + connID + "\r\n" + extraHeaders + "\r\n"
	if _, err := c.Write([]byte(req)); err != nil {
		c.Close()
		return nil, err
	}
	br := bufio.NewReader(c)
	c.SetReadDeadline(time.Now().Add(5 * time.Second))
	status, err := br.ReadString('\n')
	if err != nil {
		c.Close()
		return nil, err
	}
	if !strings.Contains(status, " 101 ") {
		c.Close()
		return nil, fmt.Errorf("no upgrade: %s", strings.TrimSpace(status))
	}
	for {
		l, err := br.ReadString('\n')
		if err != nil {
			c.Close()
			return nil, err
		}
		if l == "\r\n" {
			break
		}
	}
	c.SetReadDeadline(time.Time{})
	w := &wsClient{c: c, br: br}
	if f := wsForce; f != nil { // a repeat of an earlier client's shape
		w.frag, w.empties = f.frag, f.empties
		wsForce = nil
		return w, nil
	}
	if k := atomic.AddInt64(&wsDialSeq, 1); !wsPlain {
		switch k % 4 {
		case 1:
			w.frag = []int{16, 125, 1000, 4096}[(k/4)%4]
		case 3:
			w.frag = []int{7, 300, 2000, 61}[(k/4)%4]
			w.empties = true
		}
	}
	return w, nil
}

// send writes one binary message (one frame, masked).
func (w *wsClient) shape() string {
	return fmt.Sprintf("websocket: messages longer than %d octets fragmented into continuation frames (0 = never), empty binary messages in between: %v", w.frag, w.empties)
}

func (w *wsClient) send(payload []byte) error {
	w.nsent++
	if w.empties && w.nsent%3 == 2 {
		if err := w.sendFrame(0x82, nil); err != nil {
			return err
		}
	}
	f := w.frag
	if f <= 0 || len(payload) <= f {
		return w.sendFrame(0x82, payload)
	}
	if len(payload) > 64*f { // at most 64 frames per message: large streams stay fast
		f = len(payload)/64 + 1
	}
	for pos := 0; pos < len(payload); pos += f {
		end := pos + f
		if end > len(payload) {
			end = len(payload)
		}
		b0 := byte(0x00)
		if pos == 0 {
			b0 = 0x02
		}
		if end == len(payload) {
			b0 |= 0x80
		}
		if err := w.sendFrame(b0, payload[pos:end]); err != nil {
			return err
		}
	}
	return nil
}

func (w *wsClient) sendFrame(b0 byte, payload []byte) error {
	hdr := []byte{b0}
	n := len(payload)
	switch {
	case n < 126:
		hdr = append(hdr, 0x80|byte(n))
	case n < 65536:
		hdr = append(hdr, 0x80|126, byte(n>>8), byte(n))
	default:
		hdr = append(hdr, 0x80|127)
		var l [8]byte
		binary.BigEndian.PutUint64(l[:], uint64(n))
		hdr = append(hdr, l[:]...)
	}
	mask := []byte{0x12, 0x34, 0x56, 0x78}
	hdr = append(hdr, mask...)
	out := make([]byte, len(hdr)+n)
	copy(out, hdr)
	for i, b := range payload {
		out[len(hdr)+i] = b ^ mask[i%4]
	}
	_, err := w.c.Write(out)
	return err
}

// recv reads one message; returns io.EOF on close frame or connection end.
func (w *wsClient) recv(timeout time.Duration) ([]byte, error) {
	var msg []byte
	for {
		w.c.SetReadDeadline(time.Now().Add(timeout))
		var h [2]byte
		if _, err := io.ReadFull(w.br, h[:]); err != nil {
			return nil, err
		}
		op := h[0] & 0x0f
		fin := h[0]&0x80 != 0
		n := uint64(h[1] & 0x7f)
		if n == 126 {
			var l [2]byte
			if _, err := io.ReadFull(w.br, l[:]); err != nil {
				return nil, err
			}
			n = uint64(binary.BigEndian.Uint16(l[:]))
		} else if n == 127 {
			var l [8]byte
			if _, err := io.ReadFull(w.br, l[:]); err != nil {
				return nil, err
			}
			n = binary.BigEndian.Uint64(l[:])
		}
		if n > 1<<26 {
			return nil, errors.New("oversized frame")
		}
		p := make([]byte, n)
		if _, err := io.ReadFull(w.br, p); err != nil {
			return nil, err
		}
		switch op {
		case 8:
			return nil, io.EOF
		case 9, 10:
			continue
		}
		msg = append(msg, p...)
		if fin {
			return msg, nil
		}
	}
}

func (w *wsClient) close() { w.c.Close() }

// ---------------------------------------------------------------------------
// legacy client

type legacyClient struct {
	out   net.Conn
	outBr *bufio.Reader
	in    net.Conn
	inBr  *bufio.Reader
}

func readHTTPHead(br *bufio.Reader) (string, error) {
	status, err := br.ReadString('\n')
	if err != nil {
		return "", err
	}
	for {
		l, err := br.ReadString('\n')
		if err != nil {
			return status, err
		}
		if l == "\r\n" {
			return status, nil
		}
	}
}

func dialLegacyOut(addr, connID, extraHeaders string) (net.Conn, *bufio.Reader, error) {
	out, err := net.DialTimeout("tcp", addr, 3*time.Second)
	if err != nil {
		return nil, nil, err
	}
	req := "RDG_OUT_DATA /remoteDesktopGateway/ HTTP/1.1\r\nHost: " + addr + "\r\nRdg-Connection-Id: " + connID + "\r\n" + extraHeaders + "\r\n"
	out.Write([]byte(req))
	br := bufio.NewReader(out)
	out.SetReadDeadline(time.Now().Add(5 * time.Second))
	st, err := readHTTPHead(br)
	if err != nil || !strings.Contains(st, " 200 ") {
		out.Close()
		return nil, nil, fmt.Errorf("OUT not accepted: %q %v", st, err)
	}
	seed := make([]byte, 10)
	if _, err := io.ReadFull(br, seed); err != nil {
		out.Close()
		return nil, nil, err
	}
	out.SetReadDeadline(time.Time{})
	return out, br, nil
}

// legacyDrainWait is how long a client waits, after the byte meant for the IN handler's Drain,
// before it sends packets (Drain discards everything its single read returns).
var legacyDrainWait = 4 * time.Millisecond

func dialLegacyIn(addr, connID, extraHeaders string) (net.Conn, *bufio.Reader, error) {
	in, err := net.DialTimeout("tcp", addr, 3*time.Second)
	if err != nil {
		return nil, nil, err
	}
	req := "RDG_IN_DATA /remoteDesktopGateway/ HTTP/1.1\r\nHost: " + addr + "\r\nTransfer-Encoding: chunked\r\nRdg-Connection-Id: " + connID + "\r\n" + extraHeaders + "\r\n"
	if len(legacyEagerFirst) > 0 {
		// a client that starts streaming without waiting for the 200: the first chunk travels in the
		// same write as the request head
		req += fmt.Sprintf("%x\r\n%s\r\n", len(legacyEagerFirst), legacyEagerFirst)
	}
	in.Write([]byte(req))
	br := bufio.NewReader(in)
	in.SetReadDeadline(time.Now().Add(5 * time.Second))
	st, err := readHTTPHead(br)
	if err != nil || !strings.Contains(st, " 200 ") {
		in.Close()
		return nil, nil, fmt.Errorf("IN not accepted: %q %v", st, err)
	}
	in.SetReadDeadline(time.Time{})
	// the IN handler discards the first TCP read (Drain): give it one byte of its own
	in.Write([]byte{0})
	time.Sleep(legacyDrainWait)
	return in, br, nil
}

// legacyInHdr, when set, replaces the extra headers on the RDG_IN_DATA leg of dialLegacy (the two
// legs of a legacy tunnel are separate requests and can come from different addresses).
var legacyInHdr string

// legacyEagerFirst, when set, is sent as the first chunk of the RDG_IN_DATA body in the same write as
// the request head.
var legacyEagerFirst []byte

func dialLegacy(addr, connID, extraHeaders string) (*legacyClient, error) {
	out, obr, err := dialLegacyOut(addr, connID, extraHeaders)
	if err != nil {
		return nil, err
	}
	inHdr := extraHeaders
	if legacyInHdr != "" {
		inHdr = legacyInHdr
	}
	in, ibr, err := dialLegacyIn(addr, connID, inHdr)
	if err != nil {
		out.Close()
		return nil, err
	}
	return &legacyClient{out: out, outBr: obr, in: in, inBr: ibr}, nil
}

// send writes one HTTP chunk.
func (l *legacyClient) send(payload []byte) error {
	if len(payload) == 0 {
		return nil // a zero-length chunk would end the body
	}
	buf := []byte(fmt.Sprintf("%x\r\n", len(payload)))
	buf = append(buf, payload...)
	buf = append(buf, '\r', '\n')
	_, err := l.in.Write(buf)
	return err
}

func (l *legacyClient) close() { l.in.Close(); l.out.Close() }

// ---------------------------------------------------------------------------
// a transport-independent client view

type gwClient interface {
	send(seg []byte) error
	close()
}

// packetReader collects the server-to-client packets of a tunnel.
type packetReader struct {
	mu   sync.Mutex
	pkts [][]byte
	eof  bool
	err  error
	done chan struct{}
}

func (p *packetReader) snapshot() ([][]byte, bool) {
	p.mu.Lock()
	defer p.mu.Unlock()
	out := make([][]byte, len(p.pkts))
	copy(out, p.pkts)
	return out, p.eof
}

// pauseReaders makes the client-side readers stop reading while it is non-zero (a client that
// stalls: the gateway's writes towards it back up).
var pauseReaders int32

func waitWhilePaused() {
	for atomic.LoadInt32(&pauseReaders) != 0 {
		time.Sleep(5 * time.Millisecond)
	}
}

// readWS reads websocket messages (one packet per message) until the end.
func readWS(w *wsClient, idle time.Duration) *packetReader {
	pr := &packetReader{done: make(chan struct{})}
	go func() {
		defer close(pr.done)
		for {
			waitWhilePaused()
			m, err := w.recv(idle)
			if err != nil {
				pr.mu.Lock()
				pr.eof = errors.Is(err, io.EOF) || errors.Is(err, io.ErrUnexpectedEOF) || isClosedErr(err)
				pr.err = err
				pr.mu.Unlock()
				return
			}
			pr.mu.Lock()
			pr.pkts = append(pr.pkts, m)
			pr.mu.Unlock()
		}
	}()
	return pr
}

// readLegacy frames the raw OUT stream by the packet headers.
func readLegacy(l *legacyClient, idle time.Duration) *packetReader {
	pr := &packetReader{done: make(chan struct{})}
	go func() {
		defer close(pr.done)
		for {
			waitWhilePaused()
			l.out.SetReadDeadline(time.Now().Add(idle))
			hdr := make([]byte, 8)
			if _, err := io.ReadFull(l.outBr, hdr); err != nil {
				pr.mu.Lock()
				pr.eof = errors.Is(err, io.EOF) || isClosedErr(err)
				pr.err = err
				pr.mu.Unlock()
				return
			}
			n := binary.LittleEndian.Uint32(hdr[4:])
			if n < 8 || n > 1<<24 {
				pr.mu.Lock()
				pr.err = fmt.Errorf("bad length %d from gateway", n)
				pr.pkts = append(pr.pkts, hdr)
				pr.mu.Unlock()
				return
			}
			body := make([]byte, n-8)
			if _, err := io.ReadFull(l.outBr, body); err != nil {
				pr.mu.Lock()
				pr.err = err
				pr.mu.Unlock()
				return
			}
			pr.mu.Lock()
			pr.pkts = append(pr.pkts, append(hdr, body...))
			pr.mu.Unlock()
		}
	}()
	return pr
}

func isClosedErr(err error) bool {
	if err == nil {
		return false
	}
	s := err.Error()
	return strings.Contains(s, "closed") || strings.Contains(s, "reset by peer") || strings.Contains(s, "EOF")
}

func isTimeout(err error) bool {
	var ne net.Error
	return errors.As(err, &ne) && ne.Timeout()
}
