package main

import (
	"bytes"
	"encoding/binary"
	"fmt"
	"io"
	"net"
	"net/http"
	"net/http/httptest"
	"os"
	"path/filepath"
	"strings"
	"sync"
	"syscall"
	"time"

	"github.com/bolkedebruin/rdpgw/cmd/rdpgw/kdcproxy"
)

func init() { register("C20", runC20) }

// ---------------------------------------------------------------------------
// independent DER encoder for KDC-PROXY-MESSAGE (explicit tags, [MS-KKDCP] 2.2.2)

func derLen(n int) []byte {
	switch {
	case n < 128:
		return []byte{byte(n)}
	case n < 256:
		return []byte{0x81, byte(n)}
	case n < 65536:
		return []byte{0x82, byte(n >> 8), byte(n)}
	default:
		return []byte{0x83, byte(n >> 16), byte(n >> 8), byte(n)}
	}
}

func tlv(tag byte, c []byte) []byte { return append(append([]byte{tag}, derLen(len(c))...), c...) }

func kdcProxyMessage(msg []byte, realm string, flags int) []byte {
	in := tlv(0xA0, tlv(0x04, msg))
	if realm != "" {
		in = append(in, tlv(0xA1, tlv(0x1B, []byte(realm)))...)
	}
	if flags >= 0 {
		in = append(in, tlv(0xA2, tlv(0x02, derInt(int64(flags))))...)
	}
	return tlv(0x30, in)
}

// derInt gives the minimal two's-complement content octets of an INTEGER.
func derInt(v int64) []byte {
	n := 1
	for ; n < 8; n++ {
		if lo, hi := -(int64(1) << (8*uint(n) - 1)), (int64(1)<<(8*uint(n)-1))-1; v >= lo && v <= hi {
			break
		}
	}
	b := make([]byte, n)
	for i := n - 1; i >= 0; i-- {
		b[i] = byte(v)
		v >>= 8
	}
	return b
}

// c20Hint draws a dclocator hint: absent, small, or one of the DsGetDcName flag values that need
// more than one content octet (bit 31 and beyond).
func c20Hint(rng interface{ Intn(int) int }) int {
	switch rng.Intn(6) {
	case 0:
		return -1
	case 1, 2:
		return rng.Intn(4)
	default:
		return []int{127, 128, 255, 256, 0x7fff, 0x8000, 0x20000000, 0x7fffffff, 0x80000000, 0xC0000001, 0xffffffff, 1 << 40}[rng.Intn(12)]
	}
}

// ---------------------------------------------------------------------------
// fake KDCs

type kdcBehaviour struct {
	kind   string // reply partial close silent refuse
	body   []byte
	pieces bool          // a TCP reply written in two pieces with a pause between
	delay  time.Duration // the KDC thinks before it answers
}

// kdcV6: the next fake KDC listens on the IPv6 loopback address (its krb5.conf entry is a bracketed literal).
var kdcV6 bool

// haveV6 reports whether the IPv6 loopback address can be bound here.
func haveV6() bool {
	l, err := net.Listen("tcp6", "[::1]:0")
	if err != nil {
		return false
	}
	l.Close()
	return true
}

type fakeKDC struct {
	v6          bool
	reserved    []int
	reservedUDP *net.UDPConn
	port        int
	tcp         kdcBehaviour
	udp         kdcBehaviour
	ln          net.Listener
	uc          *net.UDPConn
	mu          sync.Mutex
	tcpGot      [][]byte
	udpGot      [][]byte
	held        []net.Conn
	stopping    bool
}

func startFakeKDC(tcp, udp kdcBehaviour) *fakeKDC {
	v6 := kdcV6 && tcp.kind != "refuse"
	kdcV6 = false
	tcpNet, udpNet, ip := "tcp4", "udp4", net.IPv4(127, 0, 0, 1)
	if v6 {
		tcpNet, udpNet, ip = "tcp6", "udp6", net.IPv6loopback
	}
	for attempt := 0; attempt < 50; attempt++ {
		// find a port free for both protocols
		l, err := net.Listen(tcpNet, net.JoinHostPort(ip.String(), "0"))
		if err != nil {
			continue
		}
		port := l.Addr().(*net.TCPAddr).Port
		uc, err := net.ListenUDP(udpNet, &net.UDPAddr{IP: ip, Port: port})
		if err != nil {
			l.Close()
			continue
		}
		k := &fakeKDC{v6: v6, port: port, tcp: tcp, udp: udp, ln: l, uc: uc}
		// a refusing side keeps its port reserved (a freed port can be handed to the proxy's own
		// client socket as its local port, which would then talk to itself): TCP is bound but does not
		// listen, UDP is bound and connected elsewhere, so both answer "refused" for ever
		if tcp.kind == "refuse" {
			l.Close()
			k.ln = nil
			if fd, err := syscall.Socket(syscall.AF_INET, syscall.SOCK_STREAM, 0); err == nil {
				syscall.SetsockoptInt(fd, syscall.SOL_SOCKET, syscall.SO_REUSEADDR, 1)
				if syscall.Bind(fd, &syscall.SockaddrInet4{Port: port, Addr: [4]byte{127, 0, 0, 1}}) == nil {
					k.reserved = append(k.reserved, fd)
				} else {
					syscall.Close(fd)
				}
			}
		} else {
			go k.serveTCP()
		}
		if udp.kind == "refuse" {
			uc.Close()
			k.uc = nil
			if c, err := net.DialUDP(udpNet, &net.UDPAddr{IP: ip, Port: port}, &net.UDPAddr{IP: ip, Port: 9}); err == nil {
				k.reservedUDP = c
			}
		} else {
			go k.serveUDP()
		}
		return k
	}
	panic("no port for a fake KDC")
}

func (k *fakeKDC) serveTCP() {
	for {
		c, err := k.ln.Accept()
		if err != nil {
			return
		}
		go func(c net.Conn) {
			if k.tcp.kind == "close" {
				c.Close()
				return
			}
			// a message shorter than its own length prefix is answered too (after a short wait),
			// so that such requests are decided by the gateway and not by this fake
			c.SetReadDeadline(time.Now().Add(300 * time.Millisecond))
			var got []byte
			hdr := make([]byte, 4)
			if hn, err := io.ReadFull(c, hdr); err == nil {
				c.SetReadDeadline(time.Now().Add(8 * time.Second))
				n := binary.BigEndian.Uint32(hdr)
				if n > 1<<20 {
					n = 1 << 20
				}
				body := make([]byte, n)
				m, _ := io.ReadFull(c, body)
				got = append(hdr, body[:m]...)
			} else {
				got = append([]byte{}, hdr[:hn]...)
			}
			k.mu.Lock()
			k.tcpGot = append(k.tcpGot, got)
			k.mu.Unlock()
			switch k.tcp.kind {
			case "reply":
				if k.tcp.delay > 0 {
					time.Sleep(k.tcp.delay)
				}
				out := make([]byte, 4+len(k.tcp.body))
				binary.BigEndian.PutUint32(out, uint32(len(k.tcp.body)))
				copy(out[4:], k.tcp.body)
				if k.tcp.pieces && len(out) > 8 {
					// the reply arrives in pieces: prefix and a part, a pause, the rest
					cut := 4 + (len(out)-4)/3
					c.Write(out[:cut])
					time.Sleep(25 * time.Millisecond)
					c.Write(out[cut:])
				} else {
					c.Write(out)
				}
				// a real KDC keeps the connection open for a while
				k.mu.Lock()
				k.held = append(k.held, c)
				k.mu.Unlock()
			case "partial":
				out := make([]byte, 4)
				binary.BigEndian.PutUint32(out, uint32(len(k.tcp.body)+50))
				c.Write(append(out, k.tcp.body...))
				c.Close()
			case "silent":
				k.mu.Lock()
				k.held = append(k.held, c)
				k.mu.Unlock()
			}
		}(c)
	}
}

func (k *fakeKDC) serveUDP() {
	buf := make([]byte, 1<<17)
	for {
		n, addr, err := k.uc.ReadFromUDP(buf)
		if err != nil {
			return
		}
		k.mu.Lock()
		k.udpGot = append(k.udpGot, append([]byte{}, buf[:n]...))
		k.mu.Unlock()
		if k.udp.kind == "reply" {
			k.uc.WriteToUDP(k.udp.body, addr)
		}
	}
}

func (k *fakeKDC) stop() {
	for _, fd := range k.reserved {
		syscall.Close(fd)
	}
	if k.reservedUDP != nil {
		k.reservedUDP.Close()
	}
	if k.ln != nil {
		k.ln.Close()
	}
	if k.uc != nil {
		k.uc.Close()
	}
	k.mu.Lock()
	for _, c := range k.held {
		c.Close()
	}
	k.mu.Unlock()
}

// addr is the KDC's entry in krb5.conf.
func (k *fakeKDC) addr() string {
	if k.v6 {
		return fmt.Sprintf("[::1]:%d", k.port)
	}
	return fmt.Sprintf("127.0.0.1:%d", k.port)
}

func writeKrb5Conf(path string, realms map[string][]*fakeKDC, def string) {
	var sb strings.Builder
	fmt.Fprintf(&sb, "[libdefaults]\n  default_realm = %s\n  dns_lookup_kdc = false\n  dns_lookup_realm = false\n\n[realms]\n", def)
	for name, ks := range realms {
		fmt.Fprintf(&sb, "  %s = {\n", name)
		for _, k := range ks {
			fmt.Fprintf(&sb, "    kdc = %s\n", k.addr())
		}
		sb.WriteString("  }\n")
	}
	os.WriteFile(path, []byte(sb.String()), 0o644)
}

type kdcResult struct {
	status  int
	body    []byte
	latency time.Duration
	err     string
}

func postKDC(h http.HandlerFunc, method string, body []byte, chunked bool) kdcResult {
	var rd io.Reader
	if body != nil {
		rd = bytes.NewReader(body)
	}
	req := httptest.NewRequest(method, "http://gw/KdcProxy", rd)
	if chunked {
		req.ContentLength = -1
	}
	rec := httptest.NewRecorder()
	start := time.Now()
	done := make(chan struct{})
	var pan string
	go func() {
		defer close(done)
		defer func() {
			if r := recover(); r != nil {
				pan = fmt.Sprint(r)
			}
		}()
		h(rec, req)
	}()
	select {
	case <-done:
	case <-time.After(12 * time.Second):
		return kdcResult{status: 0, latency: time.Since(start), err: "no answer within 12 s"}
	}
	if pan != "" {
		return kdcResult{status: -1, err: "panic: " + pan, latency: time.Since(start)}
	}
	return kdcResult{status: rec.Code, body: rec.Body.Bytes(), latency: time.Since(start)}
}

func runC20(r *Run) {
	r.rule = "POSTs carrying well-formed KDC-PROXY-MESSAGEs (Kerberos payload 0 B – 128 KiB, realm absent/default/other configured/unknown, locator hint) against 1–3 fake KDCs per realm whose UDP and TCP endpoints each reply, reply partially, close, stay silent or refuse; malformed requests (other methods, no length, too large, short body, truncated DER, trailing bytes, wrong tags, random bytes); non-trivial = at least one KDC endpoint reachable or a malformed class; distinct by (configuration, request)"
	rng := r.Rng
	r.TierRan("api")
	dir := filepath.Join(verifRoot, "work", fmt.Sprintf("c20-%d", os.Getpid()))
	os.MkdirAll(dir, 0o755)
	defer os.RemoveAll(dir)
	drift := 0
	first := ""
	randBytes := func(n int) []byte { b := make([]byte, n); rng.Read(b); return b }

	// ---- 1. validation and the DER codec (no KDC involved)
	emptyConf := filepath.Join(dir, "empty.conf")
	writeKrb5Conf(emptyConf, map[string][]*fakeKDC{}, "REALM.A")
	px := kdcproxy.InitKdcProxy(emptyConf)
	type vcase struct {
		method  string
		body    []byte
		chunked bool
		class   string
	}
	var vcases []vcase
	good := kdcProxyMessage(append([]byte{0, 0, 0, 3}, 1, 2, 3), "", -1)
	vcases = append(vcases, vcase{"GET", nil, false, "method"}, vcase{"PUT", good, false, "method"}, vcase{"HEAD", nil, false, "method"}, vcase{"DELETE", good, false, "method"},
		vcase{"POST", good, true, "no-length"},
		vcase{"POST", make([]byte, 131073), false, "too-large"}, vcase{"POST", kdcProxyMessage(make([]byte, 131100), "", -1), false, "too-large"},
		vcase{"POST", []byte{}, false, "empty"}, vcase{"POST", append(append([]byte{}, good...), 0), false, "trailing"}, vcase{"POST", append(append([]byte{}, good...), good...), false, "trailing"},
		vcase{"POST", good[:len(good)-1], false, "truncated"}, vcase{"POST", good[:3], false, "truncated"},
		vcase{"POST", append([]byte{0x31}, good[1:]...), false, "wrong-tag"}, vcase{"POST", tlv(0x30, tlv(0xA1, tlv(0x04, []byte{1}))), false, "wrong-tag"},
		vcase{"POST", tlv(0x30, tlv(0xA0, tlv(0x05, nil))), false, "wrong-tag"},
		vcase{"POST", append([]byte{0x30, 0x81, byte(len(good) - 2)}, good[2:]...), false, "non-minimal-length"},
		vcase{"POST", tlv(0x30, append(tlv(0xA0, tlv(0x04, []byte{1, 2, 3, 4})), 0x05, 0x00)), false, "junk-in-sequence"})
	for i := r.N(300, 20000); i > 0; i-- {
		switch rng.Intn(4) {
		case 0:
			vcases = append(vcases, vcase{"POST", randBytes(rng.Intn(80)), false, "random"})
		case 1:
			b := append([]byte{}, good...)
			b[rng.Intn(len(b))] ^= byte(1 << uint(rng.Intn(8)))
			vcases = append(vcases, vcase{"POST", b, false, "bitflip"})
		case 2:
			m := kdcProxyMessage(randBytes(rng.Intn(300)), []string{"", "REALM.A", "X"}[rng.Intn(3)], c20Hint(rng))
			vcases = append(vcases, vcase{"POST", m[:rng.Intn(len(m))], false, "truncated"})
		default:
			// a well-formed message for an unknown realm: decodes, then 503
			vcases = append(vcases, vcase{"POST", kdcProxyMessage(randBytes(4+rng.Intn(300)), []string{"", "NOWHERE", "REALM.A"}[rng.Intn(3)], rng.Intn(129)-1), false, "wellformed-no-kdc"})
		}
	}
	var vl []string
	var vres []kdcResult
	for _, v := range vcases {
		vres = append(vres, postKDC(px.Handler, v.method, v.body, v.chunked))
		b := hx(v.body)
		if v.chunked {
			b = "none"
		}
		vl = append(vl, fmt.Sprintf("kdc-status post=%s body=%s", b01(v.method == "POST"), b))
	}
	vans := r.Oracle(vl)
	for i, v := range vcases {
		r.Count("v:" + v.class + hx(v.body[:min(len(v.body), 64)]) + fmt.Sprint(len(v.body)))
		r.Dist("validation:" + v.class)
		res := vres[i]
		rep := fmt.Sprintf("%s class=%s body(%d bytes)=%s…\nimplementation: status %d %s\nmodel: %s\n", v.method, v.class, len(v.body), hx(v.body[:min(len(v.body), 80)]), res.status, res.err, vans[i])
		if res.status <= 0 {
			r.Violation("c20-no-answer", "the KDC proxy handler panicked or never answered: "+res.err, rep)
			continue
		}
		want := map[string]int{"method": 405, "no-length": 411, "too-large": 413, "empty": 400, "trailing": 400, "truncated": 400, "wrong-tag": 400, "non-minimal-length": 400, "junk-in-sequence": 400}[v.class]
		if want != 0 && res.status != want {
			r.Violation("c20-validation", fmt.Sprintf("a malformed request of class %s is answered %d instead of %d", v.class, res.status, want), rep)
			continue
		}
		modelStatus := vans[i]
		lax := strings.HasSuffix(modelStatus, " lax=forward")
		modelStatus = strings.TrimSuffix(modelStatus, " lax=forward")
		if modelStatus == "400" && res.status != 400 && res.status != 200 && (v.class == "bitflip" || v.class == "random") {
			// known finding F1: the ASN.1 library does not check inner lengths strictly (the length of
			// an EXPLICIT wrapper is ignored, content left over inside it or the SEQUENCE is skipped)
			r.Violation("c20-lax-der-accepted", "a body with inconsistent inner DER lengths is not rejected with 400", rep+fmt.Sprintf("lax reading of explicit wrappers explains it: %v\n", lax))
			continue
		}
		if strings.HasPrefix(modelStatus, "forward") {
			modelStatus = "503" // no KDC is configured in this part
		}
		if fmt.Sprint(res.status) != modelStatus {
			if res.status == 200 {
				r.Violation("c20-validation", "a request the model rejects was answered 200", rep)
			} else {
				drift++
				if first == "" {
					first = rep
				}
			}
		}
	}

	// ---- 2. forwarding
	behaviours := []string{"reply", "partial", "close", "silent", "refuse"}
	nf := r.N(60, 3000)
	slowBudget := r.N(2, 60) // cases that can only end by the 5 s deadline
	// combinations every run starts with (per KDC: tcp behaviour, udp behaviour), then random ones
	scripted := [][][2]string{
		{{"refuse", "refuse"}, {"silent", "silent"}}, // a refused dial and nobody answering: 503 after the deadline, not a hang
		{{"refuse", "refuse"}, {"reply", "refuse"}},
		{{"close", "refuse"}, {"reply", "silent"}},
		{{"partial", "refuse"}, {"refuse", "reply"}},
		{{"refuse", "refuse"}},
	}
	// reply sizes around the boundaries of the DER length encodings (the framed reply is 4 bytes longer)
	var sweep []int
	for n := 119; n <= 132; n++ {
		sweep = append(sweep, n)
	}
	for n := 249; n <= 258; n++ {
		sweep = append(sweep, n)
	}
	sweep = append(sweep, 65530, 65531, 65536)
	if r.Thorough() {
		for n := 0; n <= 300; n++ {
			sweep = append(sweep, n)
		}
	}
	nf += len(sweep)
	v6ok := haveV6()
	if !v6ok {
		r.Note("no IPv6 loopback address here: KDCs configured as IPv6 literals were not exercised")
	}
	for i := 0; i < nf; i++ {
		nk := 1 + rng.Intn(3)
		if i < len(scripted) {
			nk = len(scripted[i])
		} else if i < len(scripted)+len(sweep) {
			nk = 1
		}
		var ks []*fakeKDC
		anySilentOnly := true
		for k := 0; k < nk; k++ {
			mk := func() kdcBehaviour {
				b := kdcBehaviour{kind: behaviours[rng.Intn(len(behaviours))]}
				if rng.Intn(2) == 0 {
					b.kind = "reply"
				}
				b.body = append([]byte(fmt.Sprintf("reply-from-kdc%d-", k)), randBytes(rng.Intn(200))...)
				if rng.Intn(3) == 0 || i < 4 {
					b.pieces = true
					b.body = append(b.body, randBytes(rng.Intn(3000))...)
				}
				return b
			}
			t, u := mk(), mk()
			if i < len(scripted) {
				t.kind, u.kind = scripted[i][k][0], scripted[i][k][1]
			} else if i < len(scripted)+len(sweep) {
				t.kind, u.kind, t.pieces = "reply", "refuse", false
				t.body = randBytes(sweep[i-len(scripted)])
			}
			ks = append(ks, startFakeKDC(t, u))
		}
		hasReply := false
		hasSilent := false
		for _, k := range ks {
			if k.tcp.kind == "reply" || k.udp.kind == "reply" {
				hasReply = true
			}
			if k.tcp.kind == "silent" || k.udp.kind == "silent" || k.udp.kind == "partial" || k.udp.kind == "close" {
				hasSilent = true
			}
		}
		_ = anySilentOnly
		if !hasReply && hasSilent {
			if slowBudget == 0 {
				for _, k := range ks {
					k.stop()
				}
				continue
			}
			slowBudget--
		}
		kdcV6 = v6ok && i%2 == 1 // every other time the second realm's KDC is configured as an IPv6 literal
		other := startFakeKDC(kdcBehaviour{kind: "reply", body: []byte("reply-from-the-other-realm")}, kdcBehaviour{kind: "refuse"})
		conf := filepath.Join(dir, fmt.Sprintf("k%d.conf", i))
		writeKrb5Conf(conf, map[string][]*fakeKDC{"REALM.A": ks, "corp.Test": {other}}, "REALM.A")
		proxy := kdcproxy.InitKdcProxy(conf)
		os.Remove(conf)
		size := []int{0, 1, 3, 4, 5, 100, 1400, 70000, 131000}[rng.Intn(9)]
		if !r.Thorough() && size > 2000 && rng.Intn(3) != 0 {
			size = 200
		}
		krb := randBytes(size)
		var data []byte
		if rng.Intn(10) == 0 {
			data = krb[:min(len(krb), 3)] // a message too short to carry the length prefix
		} else {
			data = make([]byte, 4+len(krb))
			binary.BigEndian.PutUint32(data, uint32(len(krb)))
			copy(data[4:], krb)
		}
		realm := []string{"", "REALM.A", "corp.Test", "UNKNOWN.REALM"}[rng.Intn(4)]
		if rng.Intn(2) == 0 {
			realm = ""
		}
		if other.v6 && i%4 == 1 && i >= len(scripted)+len(sweep) {
			realm = "corp.Test"
		}
		if i < len(scripted)+len(sweep) { // the scripted combinations are for the default realm's KDCs and a regular message
			realm = []string{"", "REALM.A"}[i%2]
			if len(data) < 4 {
				data = []byte{0, 0, 0, 3, 1, 2, 3}
			}
		}
		body := kdcProxyMessage(data, realm, c20Hint(rng))
		if len(body) > 131072 {
			body = kdcProxyMessage(data[:1000], realm, -1)
			data = data[:1000]
		}
		res := postKDC(proxy.Handler, "POST", body, false)
		time.Sleep(2 * time.Millisecond)
		// expectations
		target := ks
		if realm == "corp.Test" {
			target = []*fakeKDC{other}
		}
		if realm == "UNKNOWN.REALM" {
			target = nil
		}
		var acceptable [][]byte
		for _, k := range target {
			if k.tcp.kind == "reply" {
				acceptable = append(acceptable, k.tcp.body)
			}
			if k.udp.kind == "reply" && len(data) >= 4 && len(data)-4 <= 65000 { // one datagram
				acceptable = append(acceptable, k.udp.body)
			}
		}
		var desc []string
		for _, k := range ks {
			desc = append(desc, fmt.Sprintf("kdc:%d tcp=%s udp=%s", k.port, k.tcp.kind, k.udp.kind))
		}
		rep := fmt.Sprintf("realm A KDCs: %s; realm B: kdc %s tcp=reply\nrequest: realm=%q kerberos message %d bytes (%s…)\nanswer: status %d in %v %s body %s…\n", strings.Join(desc, " | "), other.addr(), realm, len(data), hx(data[:min(len(data), 16)]), res.status, res.latency.Round(time.Millisecond), res.err, hx(res.body[:min(len(res.body), 40)]))
		r.Count(fmt.Sprintf("f:%s:%d:%s", strings.Join(desc, "|"), len(data), realm))
		r.Dist(fmt.Sprintf("forward:kdcs=%d", nk))
		if i < 3 {
			r.Sample(map[string]interface{}{"kdcs": desc, "realm": realm, "message_bytes": len(data), "status": res.status, "latency_ms": res.latency.Milliseconds()})
		}
		func() {
			defer func() {
				for _, k := range ks {
					k.stop()
				}
				other.stop()
			}()
			if res.status <= 0 {
				r.Violation("c20-no-answer", "the KDC proxy did not answer (panic or no response within 12 s): "+res.err, rep)
				return
			}
			if res.latency > 9*time.Second {
				r.Violation("c20-latency", "the answer took longer than the KDC timeout plus margin", rep)
				return
			}
			// nothing may be sent to a KDC of another realm
			stray := func(k *fakeKDC) bool { k.mu.Lock(); defer k.mu.Unlock(); return len(k.tcpGot)+len(k.udpGot) > 0 }
			if realm != "corp.Test" && stray(other) {
				r.Violation("c20-wrong-realm", "the message was sent to a KDC of another realm than the one requested", rep)
				return
			}
			if realm == "corp.Test" || realm == "UNKNOWN.REALM" {
				for _, k := range ks {
					if stray(k) {
						r.Violation("c20-wrong-realm", "the message was sent to a KDC of another realm than the one requested", rep)
						return
					}
				}
			}
			// what the contacted KDCs received
			for _, k := range target {
				k.mu.Lock()
				for _, g := range k.tcpGot {
					if g != nil && !bytes.Equal(g, data) && len(data) >= 4 {
						r.Violation("c20-sent", "a KDC received over TCP something else than the embedded Kerberos message", rep+fmt.Sprintf("kdc:%d received %s…\n", k.port, hx(g[:min(len(g), 24)])))
					}
				}
				for _, g := range k.udpGot {
					if len(data) < 4 || !bytes.Equal(g, data[4:]) {
						r.Violation("c20-sent", "a KDC received over UDP something else than the embedded Kerberos message without its length prefix", rep+fmt.Sprintf("kdc:%d received %s…\n", k.port, hx(g[:min(len(g), 24)])))
					}
				}
				k.mu.Unlock()
			}
			if len(acceptable) == 0 {
				if res.status == 200 {
					r.Violation("c20-invented-reply", "200 although no KDC of the realm answered completely", rep)
				} else if res.status != 503 {
					drift++
					if first == "" {
						first = rep
					}
				}
				return
			}
			if res.status != 200 {
				r.Violation("c20-lost-reply", "a KDC of the realm answered completely but the client got no 200", rep)
				return
			}
			var lines []string
			for _, a := range acceptable {
				lines = append(lines, "kdc-reply body="+hx(a))
			}
			okBody := false
			for _, a := range r.Oracle(lines) {
				if a == hx(res.body) {
					okBody = true
				}
			}
			if !okBody {
				r.Violation("c20-unfaithful", "the 200 body is not the reply of one of the realm's KDCs wrapped as a KDC-PROXY-MESSAGE with its 4-byte length prefix", rep)
			}
		}()
	}
	// a client that has sent its whole request and shuts down its sending side (HTTP/1.0 style,
	// "Connection: close" clients) is still waiting for the answer
	{
		slowKDC := startFakeKDC(kdcBehaviour{kind: "reply", body: []byte("reply-for-the-half-closed-client"), delay: 300 * time.Millisecond}, kdcBehaviour{kind: "refuse"})
		conf := filepath.Join(dir, "khalf.conf")
		writeKrb5Conf(conf, map[string][]*fakeKDC{"REALM.A": {slowKDC}}, "REALM.A")
		proxy := kdcproxy.InitKdcProxy(conf)
		os.Remove(conf)
		srv := httptest.NewServer(http.HandlerFunc(proxy.Handler))
		body := kdcProxyMessage([]byte{0, 0, 0, 3, 1, 2, 3}, "", -1)
		for _, half := range []bool{false, true} {
			c, err := net.DialTimeout("tcp", strings.TrimPrefix(srv.URL, "http://"), 2*time.Second)
			if err != nil {
				r.Inconclusive()
				continue
			}
			c.SetDeadline(time.Now().Add(10 * time.Second))
			fmt.Fprintf(c, "POST /KdcProxy HTTP/1.1\r\nHost: gw\r\nContent-Type: application/kerberos\r\nContent-Length: %d\r\nConnection: close\r\n\r\n", len(body))
			c.Write(body)
			if half {
				c.(*net.TCPConn).CloseWrite()
			}
			raw, _ := io.ReadAll(c)
			c.Close()
			r.Count(fmt.Sprintf("half-close:%v", half))
			want := kdcProxyMessage(append([]byte{0, 0, 0, byte(len(slowKDC.tcp.body))}, slowKDC.tcp.body...), "", -1)
			if !strings.HasPrefix(string(raw), "HTTP/1.1 200") || !bytes.HasSuffix(raw, want) {
				line := string(raw)
				if i := strings.Index(line, "\r\n"); i >= 0 {
					line = line[:i]
				}
				r.Violation("c20-lost-reply", "a KDC of the realm answered completely but the client got no 200", fmt.Sprintf("raw HTTP client, complete POST, sending side shut down afterwards=%v; the KDC answers after 300 ms\nanswer: %q (%d bytes)\n", half, line, len(raw)))
			}
		}
		srv.Close()
		slowKDC.stop()
	}
	c20Binary(r)
	r.extra["model_disagreements"] = drift
	if drift > 0 && !r.HasViolation() {
		r.Unproven(fmt.Sprintf("correspondence Kdc.handler/decode = KerberosProxy.Handler broke on %d cases with no unfaithful or missing answer found", drift), first)
	}
}

// c20Binary: the proxy as the real process serves it (main()'s http.Server around the handler): a
// realm whose KDCs answer → 200 with the wrapped reply; a realm whose KDCs stay silent on TCP and
// UDP → still an HTTP answer (503) once the proxy's own deadline has passed, not a dropped connection.
func c20Binary(r *Run) {
	if _, err := os.Stat(gwBinaryPath()); err != nil {
		r.Note("gateway binary unavailable: binary tier skipped")
		return
	}
	r.TierRan("binary")
	dir := filepath.Join(verifRoot, "work", fmt.Sprintf("c20-%d", os.Getpid()))
	os.MkdirAll(dir, 0o755)
	defer os.RemoveAll(dir)
	keytab, _ := writeKerberosFiles(dir)
	replying := startFakeKDC(kdcBehaviour{kind: "reply", body: []byte("reply-from-the-binary-tier-kdc")}, kdcBehaviour{kind: "refuse"})
	silent := startFakeKDC(kdcBehaviour{kind: "silent"}, kdcBehaviour{kind: "silent"})
	defer replying.stop()
	defer silent.stop()
	conf := filepath.Join(dir, "krb5-c20.conf")
	writeKrb5Conf(conf, map[string][]*fakeKDC{"REALM.A": {replying}, "SILENT.REALM": {silent}}, "REALM.A")
	port := freePort()
	ta := false
	y := &gwYaml{port: port, tlsOn: false, auth: []string{"kerberos"}, hosts: []string{"10.0.0.1:3389"}, tokenAuth: &ta, keytab: keytab, krb5conf: conf}
	p := startBinary(dir, y.render(), nil, port, false)
	defer p.stop()
	if !p.running() {
		r.Note("binary did not start with kerberos authentication: " + tail(p.stderr.String(), 300))
		return
	}
	post := func(realm string) (int, []byte, string, time.Duration) {
		body := kdcProxyMessage([]byte{0, 0, 0, 3, 1, 2, 3}, realm, -1)
		start := time.Now()
		cl := &http.Client{Timeout: 15 * time.Second}
		resp, err := cl.Post(fmt.Sprintf("http://127.0.0.1:%d/KdcProxy", port), "application/kerberos", bytes.NewReader(body))
		if err != nil {
			return 0, nil, err.Error(), time.Since(start)
		}
		defer resp.Body.Close()
		b, _ := io.ReadAll(resp.Body)
		return resp.StatusCode, b, "", time.Since(start)
	}
	st, b, e, d := post("REALM.A")
	r.Count("binary:replying-realm")
	want := kdcProxyMessage(append([]byte{0, 0, 0, byte(len(replying.tcp.body))}, replying.tcp.body...), "", -1)
	if st != 200 || !bytes.Equal(b, want) {
		r.Violation("c20-unfaithful", "the 200 body is not the reply of one of the realm's KDCs wrapped as a KDC-PROXY-MESSAGE with its 4-byte length prefix", fmt.Sprintf("real binary, realm with one answering KDC: status %d error %q body %s after %v\nexpected body %s\n", st, e, hx(b), d, hx(want)))
	}
	n := r.N(1, 3)
	for i := 0; i < n; i++ {
		st, _, e, d = post("SILENT.REALM")
		r.Count(fmt.Sprintf("binary:silent-realm:%d", i))
		r.Dist("binary:silent-realm")
		if st == 0 {
			r.Violation("c20-no-answer", "the KDC proxy did not answer (panic or no response within 12 s): "+e, fmt.Sprintf("real binary, POST /KdcProxy for a realm whose KDCs accept and stay silent on TCP and UDP: no HTTP response (%s) after %v; the proxy's own deadline is 5 s and a 503 is due then\n", e, d))
		} else if st != 503 {
			r.Violation("c20-status", "a request that no KDC answered did not get 503", fmt.Sprintf("real binary, silent realm: status %d after %v\n", st, d))
		}
	}
}
