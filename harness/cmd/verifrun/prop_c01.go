package main

import (
	"bytes"
	"fmt"
	"strings"
)

func init() { register("C01", runC01) }

type c01Case struct {
	cfg    *gwCfg
	reads  [][]byte
	kinds  []string
	shape  string
	ir     *implRun
	monTr  string
	canon  string
	hostRx []byte
	hangup bool
}

func (c *c01Case) replay() string {
	var sb strings.Builder
	fmt.Fprintf(&sb, "cfg: %s\nshape: %s\nhost hangs up right after accepting: %v\nrequests (one transport read each):\n", c.cfg.oracleArgs(), c.shape, c.hangup)
	for i, r := range c.reads {
		fmt.Fprintf(&sb, "  %2d %-10s %s\n", i, c.kinds[i], hx(r))
	}
	fmt.Fprintf(&sb, "implementation trace: %s\n", c.canon)
	return sb.String()
}

func runC01(r *Run) {
	r.rule = "histories of 0-14 MS-TSGU packets (valid prefix + perturbation + random tail) under random gateway configurations; non-trivial = reaches at least the tunnel phase or contains a refused/out-of-order step; distinct by (config, packet bytes)"
	r.TierRan("hook")
	listeners := []*hostListener{newHostListener(), newHostListener(), newHostListener()}
	defer func() {
		for _, l := range listeners {
			l.close()
		}
	}()
	g := &histGen{rng: r.Rng, listeners: listeners, closed: closedPort()}

	var cases []*c01Case
	// exhaustive type sequences (thorough: length ≤ 5, quick: ≤ 3) under callback scenarios
	maxLen := r.N(3, 5)
	scen := r.N(2, 6)
	for s := 0; s < scen; s++ {
		cfg := g.cfg()
		switch s {
		case 0:
			cfg.token, cfg.sc, cfg.ccheck, cfg.ncheck, cfg.hcheck = true, false, true, false, true
		case 1:
			cfg.token, cfg.sc, cfg.ccheck, cfg.ncheck, cfg.hcheck = false, false, false, false, true
		case 2:
			cfg.cookies = nil // every cookie rejected
			cfg.token, cfg.ccheck = true, true
		case 3:
			cfg.hosts = nil // every host denied
			cfg.hcheck = true
		case 4:
			cfg.dial = nil // nothing reachable (only closed ports are requested below)
		case 5:
			cfg.ncheck, cfg.clients = true, nil
		}
		target := listeners[0].addr
		if s == 4 {
			target = g.closed
		}
		alphabet := []step{g.hs(cfg, true), g.tc(cfg, "good-cookie"), g.ta("PC1"), g.cc(target), g.data(3),
			{"ka", mkPacket(tKeepalive, nil)}, {"close", mkPacket(tClose, nil)}, {"unk", mkPacket(0x33, []byte{1})}}
		var rec func(prefix []step)
		rec = func(prefix []step) {
			if len(prefix) > 0 {
				c := &c01Case{cfg: cfg, shape: fmt.Sprintf("exhaustive-s%d", s)}
				for _, st := range prefix {
					c.reads = append(c.reads, st.pkt)
					c.kinds = append(c.kinds, st.kind)
				}
				cases = append(cases, c)
			}
			if len(prefix) == maxLen {
				return
			}
			for _, a := range alphabet {
				rec(append(append([]step{}, prefix...), a))
			}
		}
		// pruned enumeration: full for length ≤ 3, and for longer ones only sequences
		// whose first three packets are the in-order prefix (keeps thorough in minutes)
		if maxLen <= 3 {
			rec(nil)
		} else {
			save := maxLen
			maxLen = 3
			rec(nil)
			maxLen = save
			rec([]step{alphabet[0], alphabet[1], alphabet[2]})
		}
	}
	nEx := len(cases)
	r.extra["exhaustive_type_sequences"] = nEx

	nRand := r.N(2500, 120000)
	for i := 0; i < nRand; i++ {
		cfg := g.cfg()
		steps, shape := g.history(cfg)
		c := &c01Case{cfg: cfg, shape: shape, hangup: i%5 == 4}
		for _, st := range steps {
			c.reads = append(c.reads, st.pkt)
			c.kinds = append(c.kinds, st.kind)
		}
		cases = append(cases, c)
	}

	// run the implementation
	var lines []string
	for _, c := range cases {
		// a host that hangs up at once (before sending a byte): the tunnel still gets one connection
		for _, l := range listeners {
			l.hangup = c.hangup
		}
		c.ir = runProcess(c.cfg, c.reads, listeners)
		if c.ir.timedOut {
			r.Violation("c01-hang", "packet loop did not return within 20 s", c.replay())
			continue
		}
		if c.ir.panicked != "" {
			r.Violation("c01-panic", "packet loop panicked: "+c.ir.panicked, c.replay())
		}
		c.monTr = implMonTrace(c.reads, c.ir)
		c.canon = implModelCanon(c.ir, true)
		for _, l := range listeners {
			c.hostRx = append(c.hostRx, c.ir.hostBytes[l.addr]...)
		}
		lines = append(lines, "tunnel "+c.cfg.oracleArgs()+" segs="+hxList(c.reads))
		lines = append(lines, "mon "+c.cfg.oracleArgs()+" trace="+c.monTr)
		r.Dist("shape:" + c.shape)
		r.Dist(fmt.Sprintf("len:%d", len(c.reads)))
	}
	r.implTraces = len(cases)
	ans := r.Oracle(lines)

	drift := 0
	var firstDrift string
	for i, c := range cases {
		if c.ir.timedOut {
			continue
		}
		m := kv(ans[2*i])
		mon := kv(ans[2*i+1])
		mcanon, up := modelCanon(m["trace"])
		nontrivial := strings.Count(m["trace"], "S") >= 2 || strings.Contains(m["trace"], "|1]")
		key := ""
		if nontrivial {
			key = c.cfg.oracleArgs() + hxList(c.reads)
		}
		r.Count(key)
		if i < 2 || (i >= nEx && i < nEx+2) {
			r.Sample(map[string]interface{}{"config": c.cfg.oracleArgs(), "packets": c.kinds, "impl_trace": c.canon, "model_trace": m["trace"], "c01_on_impl": mon["c01"]})
		}
		if m["c01"] != "1" {
			r.Violation("c01-model-monitor", "the model's own trace is rejected by the C01 monitor (theorem C01.holds contradicted?)", c.replay()+"model: "+ans[2*i])
		}
		if mon["c01"] != "1" {
			r.Violation("c01-monitor", "implementation trace rejected by the C01 monitor: "+ans[2*i+1], c.replay()+"model trace: "+m["trace"]+"\n")
			continue
		}
		if mcanon != c.canon || (!c.hangup && !bytes.Equal(up, c.hostRx)) {
			drift++
			if firstDrift == "" {
				firstDrift = c.replay() + "model trace (observable part): " + mcanon + "\nmodel bytes to host: " + hx(up) + "\nimpl bytes at hosts:  " + hx(c.hostRx) + "\n"
			}
		}
	}
	r.extra["model_disagreements"] = drift
	if drift > 0 && !r.HasViolation() {
		r.Unproven(fmt.Sprintf("correspondence Model.Tunnel.step = Processor.Process broke on %d of %d histories although the C01 monitor accepts every implementation trace; theorem C01.holds no longer transfers to the code", drift, len(cases)), firstDrift)
	}
}
