package main

import (
	"bufio"
	"context"
	"encoding/binary"
	"fmt"
	"net"
	"os"
	"path/filepath"
	"strings"
	"syscall"
	"time"

	"github.com/bolkedebruin/rdpgw/cmd/rdpgw/identity"
	"github.com/bolkedebruin/rdpgw/cmd/rdpgw/protocol"
	"github.com/bolkedebruin/rdpgw/cmd/rdpgw/security"
)

func init() { register("C03", runC03) }

const placeholder = "{{ preferred_username }}"

type polCase struct {
	token, verify        bool
	mode                 string
	hosts                []string
	user                 string
	thost, tip, rip, req string
}

func (p *polCase) oracleArgs() string {
	return fmt.Sprintf("ptoken=%s pmode=%s phosts=%s puser=%s pverify=%s pthost=%s ptip=%s prip=%s",
		b01(p.token), hx([]byte(p.mode)), hxStrs(p.hosts), hx([]byte(p.user)), b01(p.verify), hx([]byte(p.thost)), hx([]byte(p.tip)), hx([]byte(p.rip)))
}

func (p *polCase) String() string {
	return fmt.Sprintf("tokenAuth=%v verifyIp=%v mode=%q hosts=%q user=%q tokenHost=%q tokenIp=%q requestIp=%q requested=%q", p.token, p.verify, p.mode, p.hosts, p.user, p.thost, p.tip, p.rip, p.req)
}

// implPolicy evaluates the policy main.go installs, on the real code.
func implPolicy(p *polCase) (ok bool, panicked string) {
	security.HostSelection = p.mode
	security.Hosts = p.hosts
	security.VerifyClientIP = p.verify
	id := identity.NewUser()
	id.SetUserName(p.user)
	id.SetAttribute(identity.AttrClientIp, p.rip)
	t := &protocol.Tunnel{TargetServer: p.thost, RemoteAddr: p.tip, User: id}
	ctx := context.WithValue(context.Background(), protocol.CtxTunnel, t)
	ctx = context.WithValue(ctx, identity.CTXKey, identity.Identity(id))
	f := protocol.CheckHostFunc(security.CheckHost)
	if p.token {
		f = security.CheckSession(security.CheckHost)
	}
	defer func() {
		if rec := recover(); rec != nil {
			panicked = fmt.Sprint(rec)
		}
	}()
	ok, _ = f(ctx, p.req)
	return
}

func nearMisses(rng interface{ Intn(int) int }, h string) string {
	host, port := splitHostPort(h)
	switch rng.Intn(14) {
	case 0:
		return fmt.Sprintf("%s:%d", host, port+1)
	case 1:
		return host
	case 2:
		return h + "0"
	case 3:
		return h[:len(h)-1]
	case 4:
		return h + "\x00"
	case 5:
		return strings.Replace(h, ":", "\x00:", 1)
	case 6:
		return "x" + h
	case 7:
		return h[1:]
	case 8:
		return "[" + host + "]:" + fmt.Sprint(port)
	case 9:
		return "[::ffff:" + host + "]:" + fmt.Sprint(port)
	case 10:
		return strings.ToUpper(h)
	case 11:
		return h + " "
	case 12:
		return fmt.Sprintf(":%d", port)
	default:
		return host + ":" + fmt.Sprint(port) + ":" + fmt.Sprint(port)
	}
}

func runC03(r *Run) {
	r.rule = "policy decisions over host-selection modes × host lists (with and without the user placeholder) × user names (incl. empty) × token hosts/addresses × requested hosts (allowed entries and near misses); UTF-16 names (odd length, surrogates, NULs); channel-create requests through the real packet loop with loopback hosts and canaries; non-trivial = policy evaluated with a non-empty host list or a dial observed; distinct by full input"
	rng := r.Rng
	r.TierRan("api")
	modes := []string{"any", "signed", "roundrobin", "unsigned", "", "Any", "round-robin"}
	users := []string{"alice", "bob", "", "a", "alice@example.com", "{{ preferred_username }}", "35"}
	baseHosts := []string{"10.0.0.1:3389", "rdp.example.com:3389", "host-" + placeholder + ".example:3389", "10.0.0.2:3390", placeholder + ":3389", "10.1.1." + placeholder + ":3389", "h:1" + placeholder + placeholder}
	var cases []*polCase
	n := r.N(5000, 200000)
	for i := 0; i < n; i++ {
		p := &polCase{token: rng.Intn(2) == 0, verify: rng.Intn(3) != 0, mode: modes[rng.Intn(len(modes))], user: users[rng.Intn(len(users))]}
		if rng.Intn(3) != 0 {
			p.mode = modes[rng.Intn(4)]
		}
		for k := rng.Intn(4); k >= 0; k-- {
			p.hosts = append(p.hosts, baseHosts[rng.Intn(len(baseHosts))])
		}
		if rng.Intn(12) == 0 {
			p.hosts = nil
		}
		// a requested host: a substituted entry, a raw entry, another user's entry, or a near miss
		var req string
		entry := baseHosts[rng.Intn(len(baseHosts))]
		if len(p.hosts) > 0 && rng.Intn(4) != 0 {
			entry = p.hosts[rng.Intn(len(p.hosts))]
		}
		switch rng.Intn(6) {
		case 0:
			req = entry
		case 1, 2:
			req = strings.Replace(entry, placeholder, p.user, 1)
		case 3:
			req = strings.Replace(entry, placeholder, users[rng.Intn(len(users))], 1)
		case 4:
			req = strings.Replace(entry, placeholder, p.user, -1)
		default:
			base := strings.Replace(entry, placeholder, p.user, 1)
			if _, port := splitHostPort(base); port != 0 && len(base) > 2 {
				req = nearMisses(rng, base)
			} else {
				req = base + "x"
			}
		}
		p.req = req
		p.thost = req
		switch rng.Intn(8) {
		case 0, 1:
			p.thost = strings.Replace(baseHosts[rng.Intn(len(baseHosts))], placeholder, p.user, 1)
		case 2: // the token's host is a proper prefix / suffix / superstring of the requested one
			if len(req) > 1 {
				p.thost = req[:len(req)-1-rng.Intn(len(req)-1)]
			}
		case 3:
			p.thost = req + string("0:x "[rng.Intn(4)])
		case 4:
			if len(req) > 1 {
				p.thost = req[1:]
			}
		}
		ips := []string{"192.0.2.1", "192.0.2.2", "2001:db8::1", "", "192.0.2.01"}
		p.tip = ips[rng.Intn(len(ips))]
		p.rip = p.tip
		if rng.Intn(3) == 0 {
			p.rip = ips[rng.Intn(len(ips))]
		}
		cases = append(cases, p)
	}
	var lines []string
	impl := make([]bool, len(cases))
	for i, p := range cases {
		ok, pn := implPolicy(p)
		impl[i] = ok
		if pn != "" {
			r.Violation("c03-panic", "policy callback panicked: "+pn, p.String())
		}
		lines = append(lines, "installed "+strings.ReplaceAll(p.oracleArgs(), " p", " ")[1:]+" host="+hx([]byte(p.req)))
		r.Dist("mode:" + p.mode)
	}
	ans := r.Oracle(lines)
	drift := 0
	first := ""
	allowedCount := 0
	for i, p := range cases {
		want := ans[i] == "1"
		key := ""
		if len(p.hosts) > 0 {
			key = p.String()
		}
		r.Count(key)
		if want {
			allowedCount++
		}
		if i < 3 {
			r.Sample(map[string]interface{}{"case": p.String(), "impl": impl[i], "model": want})
		}
		if impl[i] && !want {
			r.Violation("c03-policy-allows", "the installed host policy allows a host the property forbids", p.String()+"\noracle: "+lines[i]+" -> "+ans[i]+"\n")
		} else if !impl[i] && want {
			drift++
			if first == "" {
				first = "policy refuses a host the model allows\n" + p.String() + "\n"
			}
		}
	}
	r.extra["policy_cases_allowed"] = allowedCount

	// DecodeUTF16 differential
	var ulines []string
	var uin [][]byte
	nu := r.N(3000, 100000)
	for i := 0; i < nu; i++ {
		var b []byte
		switch rng.Intn(6) {
		case 0:
			b = utf16le([]string{"host", "127.0.0.1", "h\x00", "", "ü-ñ", "日本"}[rng.Intn(6)])
		case 1:
			b = append(utf16le("abc"), 0, 0)
		case 2:
			b = append(utf16le("abc"), 0, 0, 0, 0)
		case 3: // surrogates
			b = []byte{0x00, 0xD8, 0x00, 0xDC, 0x41, 0x00, byte(rng.Intn(256)), byte(0xD8 + rng.Intn(8))}
		case 4:
			b = make([]byte, rng.Intn(9))
			rng.Read(b)
		default:
			b = make([]byte, 2*rng.Intn(6)+rng.Intn(2))
			rng.Read(b)
		}
		uin = append(uin, b)
		ulines = append(ulines, "utf16 b="+hx(b))
	}
	uans := r.Oracle(ulines)
	for i, b := range uin {
		s, err := protocol.DecodeUTF16(b)
		got := "err"
		if err == nil {
			got = "ok " + hx([]byte(s))
		}
		r.Count("utf16:" + hx(b))
		if got != uans[i] {
			drift++
			if first == "" {
				first = fmt.Sprintf("DecodeUTF16(%s): implementation %s, model %s\n", hx(b), got, uans[i])
			}
		}
	}

	// hook tier: channel-create through the real packet loop, real policy callbacks, canaries
	r.TierRan("hook")
	listeners := []*hostListener{newHostListener(), newHostListener(), newHostListener()}
	defer func() {
		for _, l := range listeners {
			l.close()
		}
	}()
	closed := closedPort()
	nh := r.N(1500, 40000)
	type hcase struct {
		p     *polCase
		cfg   *gwCfg
		reads [][]byte
		ir    *implRun
		name  []byte
		port  int
	}
	var hcases []*hcase
	var hl []string
	for i := 0; i < nh; i++ {
		_, p0 := splitHostPort(listeners[0].addr)
		_, p1 := splitHostPort(listeners[1].addr)
		_, p2 := splitHostPort(listeners[2].addr)
		p := &polCase{token: rng.Intn(2) == 0, verify: rng.Intn(2) == 0, mode: []string{"any", "signed", "roundrobin", "unsigned", "roundrobin", "unsigned"}[rng.Intn(6)]}
		// entries: one with the placeholder as port (the user name is a port number), one literal
		p.user = fmt.Sprint(p0)
		if rng.Intn(6) == 0 {
			p.user = ""
		}
		p.hosts = []string{"127.0.0.1:" + placeholder, closed}
		if rng.Intn(2) == 0 {
			p.hosts = append(p.hosts, listeners[1].addr)
		}
		// requested (server, port)
		server, port := "127.0.0.1", p0
		switch rng.Intn(12) {
		case 0:
			port = p1 // another user's substituted entry (or a listed literal)
		case 1:
			port = p2 // canary: never listed
		case 2:
			_, port = splitHostPort(closed)
		case 3:
			port = p0 + 1
		}
		name := append(utf16le(server), 0, 0)
		switch rng.Intn(14) {
		case 0:
			name = append(utf16le(server), 0, 0, 0, 0) // doubled NUL
		case 1:
			name = append(utf16le("127.0.0.1\x00"), 0, 0) // embedded NUL
		case 2:
			name = utf16le(server) // no terminator
		case 3:
			name = append(utf16le(server), 0) // odd length
		case 4:
			name = append(utf16le("127.0.0.1."), 0, 0)
		case 5:
			name = append([]byte{0x00, 0xD8, 0x00, 0xDC}, utf16le(server)...)
		case 6, 7:
			// a name that is not the allowed one but whose code units have the allowed name's bytes as
			// their low bytes (U+0131 for '1', U+2E31, …): it must not be read as the allowed name
			name = append(utf16le(server), 0, 0)
			k := 2 * rng.Intn(len(server))
			name[k+1] = byte([]int{0x01, 0x02, 0x20, 0x7f, 0x80, 0xff}[rng.Intn(6)])
		}
		body := bodyChannel(port, name)
		if rng.Intn(12) == 0 { // over-long name length field
			body[6], body[7] = byte(len(name)+2+rng.Intn(40)), 0
		}
		reqHost := "" // filled from the model's rendering below
		p.thost = fmt.Sprintf("127.0.0.1:%d", port)
		switch rng.Intn(10) {
		case 0, 1:
			p.thost = listeners[rng.Intn(3)].addr
		case 2: // prefix / superstring of the requested address
			p.thost = p.thost[:len(p.thost)-1]
		case 3:
			p.thost = p.thost + "0"
		case 4:
			p.thost = p.thost[1:]
		}
		p.tip = "192.0.2.1"
		p.rip = p.tip
		if rng.Intn(5) == 0 {
			p.rip = "192.0.2.9"
		}
		_ = reqHost
		cfg := &gwCfg{token: false, ccheck: false, hcheck: true}
		for _, l := range listeners {
			// an empty server name makes Go dial the local host: ":port" reaches the same listener
			_, lp := splitHostPort(l.addr)
			cfg.dial = append(cfg.dial, l.addr, fmt.Sprintf(":%d", lp))
		}
		hc := &hcase{p: p, cfg: cfg, name: name, port: port}
		hc.reads = [][]byte{
			mkPacket(tHandshake, bodyHandshake(1, 0, 0, 0)),
			mkPacket(tTunnel, bodyTunnelCreate(0, 0, nil)),
			mkPacket(tAuth, bodyTunnelAuth(append(utf16le("PC"), 0, 0))),
			mkPacket(tChannel, body),
			mkPacket(tData, bodyData([]byte("payload"))),
		}
		hcases = append(hcases, hc)
	}
	for _, hc := range hcases {
		p := hc.p
		security.HostSelection = p.mode
		security.Hosts = p.hosts
		security.VerifyClientIP = p.verify
		hc.ir = runProcessWith(hc.cfg, hc.reads, listeners, func(t *protocol.Tunnel, g *protocol.Gateway) context.Context {
			t.User.SetUserName(p.user)
			t.User.SetAttribute(identity.AttrClientIp, p.rip)
			t.TargetServer = p.thost
			t.RemoteAddr = p.tip
			if p.token {
				g.CheckHost = security.CheckSession(security.CheckHost)
			} else {
				g.CheckHost = security.CheckHost
			}
			ctx := context.WithValue(context.Background(), protocol.CtxTunnel, t)
			return context.WithValue(ctx, identity.CTXKey, identity.Identity(t.User))
		})
		hl = append(hl, "tunnel "+hc.cfg.oracleArgs()+" "+p.oracleArgs()+" segs="+hxList(hc.reads))
	}
	r.implTraces += len(hcases)
	hans := r.Oracle(hl)
	for i, hc := range hcases {
		m := kv(hans[i])
		mcanon, _ := modelCanon(m["trace"])
		icanon := implModelCanon(hc.ir, true)
		// the model names the dialed host as requested (":port" for an empty name), the harness sees the listener
		for _, l := range listeners {
			_, lp := splitHostPort(l.addr)
			mcanon = strings.Replace(mcanon, "D"+hx([]byte(fmt.Sprintf(":%d", lp)))+":1", "D"+hx([]byte(l.addr))+":1", 1)
		}
		r.Count("hook:" + hc.p.String() + hx(hc.reads[3]))
		rep := fmt.Sprintf("%s\nchannel-create: port=%d name(utf16)=%s\nimplementation trace: %s\nmodel trace: %s\nlisteners: allowed-by-user=%s other=%s canary=%s closed=%s\n",
			hc.p.String(), hc.port, hx(hc.name), icanon, mcanon, listeners[0].addr, listeners[1].addr, listeners[2].addr, closed)
		if hc.ir.panicked != "" || hc.ir.timedOut {
			r.Violation("c03-loop-panic", "packet loop panicked or hung: "+hc.ir.panicked, rep)
			continue
		}
		// the property on the implementation: a connection was made ⇒ the model's policy allows the
		// requested address and the connection went to exactly that address
		dialed := ""
		for _, e := range hc.ir.elems {
			for _, d := range e.dials {
				dialed = d
			}
		}
		modelDial := ""
		if j := strings.Index(m["trace"], "D"); j >= 0 {
			modelDial = m["trace"][j:]
		}
		if dialed != "" {
			_, dp := splitHostPort(dialed)
			want := "D" + hx([]byte(dialed)) + ":1"
			wantLocal := "D" + hx([]byte(fmt.Sprintf(":%d", dp))) + ":1"
			if !strings.HasPrefix(modelDial, want) && !strings.HasPrefix(modelDial, wantLocal) {
				r.Violation("c03-dial", "the gateway connected to an address that the policy does not allow for this request, or to another address than the requested one", rep)
				continue
			}
		}
		if mcanon != icanon {
			drift++
			if first == "" {
				first = rep
			}
		}
	}
	c03Special(r, listeners)
	r.extra["model_disagreements"] = drift
	if drift > 0 && !r.HasViolation() {
		r.Unproven(fmt.Sprintf("correspondence (Policy.checkHost / checkSession / Utf16.decode / channel-create) broke on %d cases with no policy-violating connection found", drift), first)
	}
}

// c03Special: flows in which a connection to *some* address would be easy to make by mistake.
//
//	(a) the requested host passes policy but cannot be reached, and the packet names an alternate that
//	    listens on the same port of another address: nothing may be dialled but the requested host;
//	(b) an accepted token names host A: no connection goes to A (or anywhere) before CHANNEL_CREATE
//	    passes policy — not when the channel is refused (another host is asked for, or the client's
//	    address differs), not when it is never asked for; and exactly one when it is accepted.
func c03Special(r *Run, listeners []*hostListener) {
	// ---- (a)
	for attempt := 0; attempt < 5; attempt++ {
		alt := newHostListenerOn(net.IPv4(127, 0, 0, 2))
		_, q := splitHostPort(alt.addr)
		fd, err := syscall.Socket(syscall.AF_INET, syscall.SOCK_STREAM, 0)
		if err != nil || syscall.Bind(fd, &syscall.SockaddrInet4{Port: q, Addr: [4]byte{127, 0, 0, 1}}) != nil {
			if err == nil {
				syscall.Close(fd)
			}
			alt.close()
			continue // the port is taken on 127.0.0.1: try another
		}
		primary := fmt.Sprintf("127.0.0.1:%d", q)
		cfg := &gwCfg{hcheck: true, hosts: []string{primary}}
		for _, alts := range [][]string{{"127.0.0.2"}, {"127.0.0.2", "localhost"}} {
			var an [][]byte
			for _, a := range alts {
				an = append(an, append(utf16le(a), 0, 0))
			}
			reads := [][]byte{
				mkPacket(tHandshake, bodyHandshake(1, 0, 0, 0)), mkPacket(tTunnel, bodyTunnelCreate(0, 0, nil)), mkPacket(tAuth, bodyTunnelAuth(append(utf16le("PC"), 0, 0))),
				mkPacket(tChannel, bodyChannelMulti(q, [][]byte{append(utf16le("127.0.0.1"), 0, 0)}, an)),
			}
			ir := runProcess(cfg, reads, []*hostListener{alt})
			r.Count(fmt.Sprintf("alternate:%v", alts))
			if ir.accepted[alt.addr] > 0 {
				r.Violation("c03-dial", "the gateway connected to an address that the policy does not allow for this request, or to another address than the requested one",
					fmt.Sprintf("policy allows only %s (nothing listens there); CHANNEL_CREATE names 127.0.0.1 port %d with alternate names %v; a listener on 127.0.0.2:%d accepted %d connection(s)\ntrace: %s\n", primary, q, alts, q, ir.accepted[alt.addr], implModelCanon(ir, true)))
			}
		}
		syscall.Close(fd)
		alt.close()
		break
	}
	// ---- (b)
	idp := setupSecurity()
	idp.setToken("at-c03-early", "ok:alice")
	id, _ := enrich(addrSpec{peer: "198.51.100.7:4000", xff: []string{"192.0.2.50"}}.request())
	id.SetAttribute(identity.AttrAccessToken, "at-c03-early")
	a, b := listeners[0], listeners[1]
	tok, err := security.GeneratePAAToken(ctxWithIdentity(id), "alice", a.addr)
	if err != nil {
		r.Note("could not mint a token: " + err.Error())
		return
	}
	security.Hosts = []string{a.addr, b.addr}
	security.HostSelection = "roundrobin"
	security.VerifyClientIP = true
	cc := func(l *hostListener) []byte {
		h, p := splitHostPort(l.addr)
		return mkPacket(tChannel, bodyChannel(p, append(utf16le(h), 0, 0)))
	}
	pre := [][]byte{mkPacket(tHandshake, bodyHandshake(1, 0, 0, 2)), mkPacket(tTunnel, bodyTunnelCreate(0, 1, append(utf16le(tok), 0, 0))), mkPacket(tAuth, bodyTunnelAuth(append(utf16le("PC"), 0, 0)))}
	for _, fl := range []struct {
		name  string
		reads [][]byte
		ip    string
		want  int
	}{
		{"token for A, channel to B asked (refused: not the token's host)", append(append([][]byte{}, pre...), cc(b)), "192.0.2.50", 0},
		{"token for A, channel to A asked from another client address (refused)", append(append([][]byte{}, pre...), cc(a)), "192.0.2.51", 0},
		{"token for A, no channel asked", append(append([][]byte{}, pre...), mkPacket(0x33, nil)), "192.0.2.50", 0},
		{"token for A, channel to A asked (accepted)", append(append([][]byte{}, pre...), cc(a)), "192.0.2.50", 1},
	} {
		ir := runProcessWith(&gwCfg{token: true}, fl.reads, listeners, func(t *protocol.Tunnel, g *protocol.Gateway) context.Context {
			g.CheckPAACookie = security.CheckPAACookie
			g.CheckHost = security.CheckSession(security.CheckHost)
			t.User.SetAttribute(identity.AttrClientIp, fl.ip)
			ctx := context.WithValue(context.Background(), protocol.CtxTunnel, t)
			return context.WithValue(ctx, identity.CTXKey, identity.Identity(t.User))
		})
		time.Sleep(30 * time.Millisecond)
		total := 0
		for _, l := range listeners {
			total += ir.accepted[l.addr] + l.poll()
		}
		r.Count("early-connect:" + fl.name)
		if total != fl.want {
			r.Violation("c03-dial", "the gateway connected to an address that the policy does not allow for this request, or to another address than the requested one",
				fmt.Sprintf("%s\nconnections seen at the hosts: %d (A %s: %d), expected %d\ntrace: %s\n", fl.name, total, a.addr, ir.accepted[a.addr], fl.want, implModelCanon(ir, true)))
		}
	}
	c03Binary(r)
}

// c03Binary: the policy as main() wires it. The real executable with token authentication and each
// host-selection mode; a token minted for host A (same signing key, access token the fake IdP honours);
// over a websocket tunnel CHANNEL_CREATE for A must connect to A, CHANNEL_CREATE for another host B must be
// refused with access-denied and no connection — in every mode: the token's host binds whatever the mode allows.
func c03Binary(r *Run) {
	if _, err := os.Stat(gwBinaryPath()); err != nil {
		r.Note("gateway binary unavailable: the wiring of the host policy in main() was not exercised")
		return
	}
	r.TierRan("binary")
	idp := setupSecurity()
	idp.setToken("at-valid", "ok:alice")
	dir := filepath.Join(verifRoot, "work", fmt.Sprintf("c03-%d", os.Getpid()))
	os.MkdirAll(dir, 0o755)
	defer os.RemoveAll(dir)
	a, b := newHostListener(), newHostListener()
	defer a.close()
	defer b.close()
	for _, mode := range []string{"any", "roundrobin", "unsigned", "signed"} {
		port := freePort()
		ta := true
		y := &gwYaml{port: port, auth: []string{"openid"}, hosts: []string{a.addr, b.addr}, hostSelection: mode, idpURL: idp.srv.URL, tokenAuth: &ta,
			keys: map[string]string{"security.paatokensigningkey": keySign, "security.paatokenencryptionkey": keyEnc, "security.querytokensigningkey": keyQuery}}
		p := startBinary(dir, y.render(), nil, port, false)
		if !p.running() {
			r.Note("binary did not start with hostselection " + mode + ": " + tail(p.stderr.String(), 300))
			p.stop()
			continue
		}
		id := identity.NewUser()
		id.SetAttribute(identity.AttrClientIp, "127.0.0.1")
		id.SetAttribute(identity.AttrAccessToken, "at-valid")
		tok, err := security.GeneratePAAToken(ctxWithIdentity(id), "alice", a.addr)
		if err != nil {
			p.stop()
			r.Inconclusive()
			continue
		}
		for _, target := range []*hostListener{b, a} {
			a.poll()
			b.poll()
			a.reset()
			b.reset()
			conn, err := p.dial()
			if err != nil {
				r.Inconclusive()
				continue
			}
			br := bufio.NewReader(conn)
			resp := rawRequest(conn, br, "RDG_OUT_DATA", fmt.Sprintf("localhost:%d", port), nil, true)
			status := "no-upgrade"
			if resp.upgraded {
				w := &wsClient{c: conn, br: br}
				h, pt := splitHostPort(target.addr)
				for _, pk := range [][]byte{mkPacket(tHandshake, bodyHandshake(1, 0, 0, 2)), mkPacket(tTunnel, bodyTunnelCreate(0, 1, append(utf16le(tok), 0, 0))),
					mkPacket(tAuth, bodyTunnelAuth(append(utf16le("PC"), 0, 0))), mkPacket(tChannel, bodyChannel(pt, append(utf16le(h), 0, 0)))} {
					w.send(pk)
				}
				status = "no-channel-response"
				for k := 0; k < 4; k++ {
					m, err := w.recv(3 * time.Second)
					if err != nil {
						break
					}
					if len(m) >= 12 && m[0] == 9 {
						status = fmt.Sprintf("0x%08x", binary.LittleEndian.Uint32(m[8:12]))
					}
				}
			}
			time.Sleep(50 * time.Millisecond)
			a.poll()
			b.poll()
			na, nb := len(a.conns), len(b.conns)
			conn.Close()
			r.Count("binary:" + mode + ":" + map[bool]string{true: "own", false: "other"}[target == a])
			r.Dist("binary:" + mode)
			rep := fmt.Sprintf("real binary: authentication openid, tokenauth, hostselection %s, hosts [A %s, B %s]; token minted for A and alice at 127.0.0.1\nCHANNEL_CREATE for %s: channel response %s; connections accepted at A: %d, at B: %d\n", mode, a.addr, b.addr, target.addr, status, na, nb)
			if status == "no-upgrade" || status == "no-channel-response" {
				if target == a {
					r.Violation("c03-binary-own-host", "a token's own host, allowed by the configured policy, cannot be reached through the real binary", rep)
				} else {
					r.Inconclusive()
				}
				continue
			}
			if mode == "signed" {
				// security.CheckHost refuses every host in this mode (the model's Policy.checkHost says the same)
				if status == "0x00000000" || na+nb > 0 {
					r.Violation("c03-dial", "the gateway connected to an address that the policy does not allow for this request, or to another address than the requested one", rep)
				}
				continue
			}
			if target == b && (status == "0x00000000" || nb > 0) {
				r.Violation("c03-dial", "the gateway connected to an address that the policy does not allow for this request, or to another address than the requested one", rep)
			}
			if target == a && (status != "0x00000000" || na != 1 || nb != 0) {
				r.Violation("c03-binary-own-host", "a token's own host, allowed by the configured policy, cannot be reached through the real binary", rep)
			}
		}
		p.stop()
	}
}
