package main

import (
	"context"
	"fmt"
	"net/http"
	"strings"

	"github.com/bolkedebruin/rdpgw/cmd/rdpgw/identity"
	"github.com/bolkedebruin/rdpgw/cmd/rdpgw/protocol"
	"github.com/bolkedebruin/rdpgw/cmd/rdpgw/security"
)

func init() { register("C04", runC04) }

type addrSpec struct {
	peer string
	xff  []string // header values (several headers), nil = absent
}

func (a addrSpec) String() string { return fmt.Sprintf("peer=%q xff=%q", a.peer, a.xff) }

func (a addrSpec) request() *http.Request {
	req, _ := http.NewRequest("GET", "http://gw.example/connect", nil)
	req.RemoteAddr = a.peer
	for _, v := range a.xff {
		req.Header.Add("X-Forwarded-For", v)
	}
	return req
}

// xffsHex: every X-Forwarded-For line of the request, in order, for the model (which picks as Header.Get does).
func (a addrSpec) xffsHex() string {
	if len(a.xff) == 0 {
		return "_"
	}
	var hs []string
	for _, l := range a.xff {
		hs = append(hs, hx([]byte(l)))
	}
	return strings.Join(hs, ",")
}

func (a addrSpec) firstXFF() string {
	if len(a.xff) == 0 {
		return ""
	}
	return a.xff[0]
}

func genAddr(rng interface{ Intn(int) int }) addrSpec {
	ips := []string{"192.0.2.1", "192.0.2.2", "10.0.0.7", "2001:db8::1", "2001:DB8::1", "2001:db8:0:0:0:0:0:1", "::1", "192.0.2.01", "fe80::1%eth0", "203.0.113.9"}
	ip := func() string { return ips[rng.Intn(len(ips))] }
	a := addrSpec{}
	p := ip()
	if strings.Contains(p, ":") {
		a.peer = "[" + p + "]:" + fmt.Sprint(1024+rng.Intn(60000))
	} else {
		a.peer = p + ":" + fmt.Sprint(1024+rng.Intn(60000))
	}
	switch rng.Intn(16) {
	case 0:
		a.peer = p // no port: SplitHostPort fails
	case 1:
		a.peer = ""
	}
	if rng.Intn(2) == 0 {
		n := rng.Intn(7)
		if rng.Intn(6) == 0 { // long proxy chains
			n = []int{15, 16, 17, 18, 33, 64}[rng.Intn(6)]
		}
		var chain []string
		for i := 0; i < n; i++ {
			e := ip()
			switch rng.Intn(8) {
			case 0:
				e = " " + e
			case 1:
				e = e + "\t"
			case 2:
				e = "  " + e + "  "
			case 3:
				e = "[" + e + "]"
			case 4:
				if !strings.Contains(e, ":") {
					e = e + ":" + fmt.Sprint(1024+rng.Intn(60000)) // a source port appended, as some balancers do
				}
			}
			chain = append(chain, e)
		}
		sep := []string{",", ", ", " , "}[rng.Intn(3)]
		a.xff = []string{strings.Join(chain, sep)}
		if rng.Intn(6) == 0 {
			a.xff = append(a.xff, ip())
		}
		if rng.Intn(10) == 0 {
			a.xff = []string{"", ip()} // first value empty
		}
		if rng.Intn(12) == 0 {
			a.xff = []string{"," + ip()}
		}
	}
	return a
}

func runC04(r *Run) {
	r.rule = "pairs of issuing and presenting client addresses (IPv4/IPv6/textual variants, X-Forwarded-For chains of length 0-6 with padding, several headers, malformed peers) × both settings of the verification switch; real EnrichContext → GeneratePAAToken → CheckPAACookie → CheckSession chain with a fake IdP; non-trivial = pair with differing requests; distinct by the pair and the switch"
	rng := r.Rng
	r.TierRan("api")
	idp := setupSecurity()
	idp.setToken("at-good", "ok:subject-1")
	security.HostSelection = "any"
	security.Hosts = []string{"h:1"}

	// 1. the client-address rule
	n1 := r.N(3000, 100000)
	var specs []addrSpec
	var lines []string
	for i := 0; i < n1; i++ {
		a := genAddr(rng)
		specs = append(specs, a)
		lines = append(lines, fmt.Sprintf("clientaddr xffs=%s peer=%s", a.xffsHex(), hx([]byte(a.peer))))
	}
	ans := r.Oracle(lines)
	drift := 0
	first := ""
	implAddr := func(a addrSpec) (string, bool) {
		id, _ := enrich(a.request())
		if id == nil {
			return "", false
		}
		v, _ := id.GetAttribute(identity.AttrClientIp).(string)
		return v, true
	}
	for i, a := range specs {
		got, ok := implAddr(a)
		r.Count("addr:" + a.String())
		want := string(unhx(ans[i]))
		if i < 2 {
			r.Sample(map[string]interface{}{"request": a.String(), "impl_client_addr": got, "model_client_addr": want})
		}
		if !ok {
			r.Violation("c04-enrich", "EnrichContext did not reach the next handler", a.String())
			continue
		}
		// the rule of the property: first XFF element when the header is present, else the peer's host
		if got != want {
			drift++
			if first == "" {
				first = fmt.Sprintf("%s\nimplementation client address: %q\nmodel: %q\n", a.String(), got, want)
			}
		}
		if a.firstXFF() != "" {
			fe := strings.TrimSpace(strings.Split(a.firstXFF(), ",")[0])
			if got != fe {
				r.Violation("c04-rule-xff", "client address is not the first X-Forwarded-For element although the header is present", fmt.Sprintf("%s\nclient address used: %q\n", a.String(), got))
			}
		}
	}

	// 2. issue at A, present at B, through the real token chain
	n2 := r.N(1500, 40000)
	type pair struct {
		a, b   addrSpec
		verify bool
		okImpl bool
		addrA  string
		addrB  string
		note   string
	}
	var pairs []*pair
	for i := 0; i < n2; i++ {
		p := &pair{a: genAddr(rng), verify: rng.Intn(3) != 0}
		switch rng.Intn(4) {
		case 0:
			p.b = p.a
		case 1: // same client address reached differently
			p.b = genAddr(rng)
			if ca, _ := implAddr(p.a); ca != "" {
				p.b.xff = []string{ca + ", 198.51.100.1"}
			}
		default:
			p.b = genAddr(rng)
		}
		pairs = append(pairs, p)
	}
	host := "rdp-host:3389"
	for _, p := range pairs {
		security.VerifyClientIP = p.verify
		idA, _ := enrich(p.a.request())
		idB, _ := enrich(p.b.request())
		if idA == nil || idB == nil {
			continue
		}
		idA.SetAttribute(identity.AttrAccessToken, "at-good")
		p.addrA, _ = idA.GetAttribute(identity.AttrClientIp).(string)
		p.addrB, _ = idB.GetAttribute(identity.AttrClientIp).(string)
		tok, err := security.GeneratePAAToken(ctxWithIdentity(idA), "alice", host)
		if err != nil {
			p.note = "mint failed: " + err.Error()
			continue
		}
		ra, _ := idB.GetAttribute(identity.AttrRemoteAddr).(string)
		t := &protocol.Tunnel{RDGId: "x", RemoteAddr: ra, User: idB}
		ctx := context.WithValue(ctxWithIdentity(idB), protocol.CtxTunnel, t)
		okc, _ := security.CheckPAACookie(ctx, tok)
		if !okc {
			p.note = "cookie refused"
			continue
		}
		p.okImpl, _ = security.CheckSession(security.CheckHost)(ctx, host)
		if t.RemoteAddr != p.addrA {
			r.Violation("c04-mint", "the address recorded in the token is not the client address of the issuing request", fmt.Sprintf("issuing %s\nclient address at issuance %q, token records %q\n", p.a, p.addrA, t.RemoteAddr))
		}
	}
	var plines []string
	for _, p := range pairs {
		plines = append(plines, fmt.Sprintf("clientaddr xffs=%s peer=%s", p.a.xffsHex(), hx([]byte(p.a.peer))))
		plines = append(plines, fmt.Sprintf("clientaddr xffs=%s peer=%s", p.b.xffsHex(), hx([]byte(p.b.peer))))
	}
	pans := r.Oracle(plines)
	for pi, p := range pairs {
		// the client addresses by the property's rule (the model), not by the code under test
		ruleA, ruleB := string(unhx(pans[2*pi])), string(unhx(pans[2*pi+1]))
		key := ""
		if p.a.String() != p.b.String() {
			key = fmt.Sprintf("%v|%s|%s", p.verify, p.a, p.b)
		}
		r.Count(key)
		if p.note != "" {
			r.Violation("c04-chain", "the token chain failed for a freshly minted token: "+p.note, fmt.Sprintf("issue %s\npresent %s\n", p.a, p.b))
			continue
		}
		want := !p.verify || ruleA == ruleB
		rep := fmt.Sprintf("verifyclientip=%v\nissued to   %s -> client address %q (gateway derived %q)\npresented by %s -> client address %q (gateway derived %q)\nchannel allowed: %v\n", p.verify, p.a, ruleA, p.addrA, p.b, ruleB, p.addrB, p.okImpl)
		if p.okImpl && !want {
			r.Violation("c04-bound", "a token issued to one client address is accepted from another although verification is on", rep)
		} else if !p.okImpl && want {
			if !p.verify {
				r.Violation("c04-disabled", "with verification disabled the address still decides", rep)
			} else {
				drift++
				if first == "" {
					first = rep
				}
			}
		}
		r.Dist(fmt.Sprintf("verify=%v same=%v", p.verify, ruleA == ruleB))
	}

	// 3. whole tunnels over both transports from address A (issue) and B (use, via X-Forwarded-For)
	listeners := []*hostListener{newHostListener()}
	defer listeners[0].close()
	gw := &protocol.Gateway{TokenAuth: true}
	gw.CheckPAACookie = security.CheckPAACookie
	gw.CheckHost = security.CheckSession(security.CheckHost)
	gws := startGateway(gw)
	defer gws.close()
	nt := r.N(24, 400)
	for i := 0; i < nt; i++ {
		verify := i%3 != 0
		same := i%2 == 0
		kind := []string{"ws", "legacy"}[(i/2)%2]
		security.VerifyClientIP = verify
		issueAddr := addrSpec{peer: "198.51.100.7:4000", xff: []string{"192.0.2.50, 10.0.0.1"}}
		idA, _ := enrich(issueAddr.request())
		idA.SetAttribute(identity.AttrAccessToken, "at-good")
		tok, err := security.GeneratePAAToken(ctxWithIdentity(idA), "alice", listeners[0].addr)
		if err != nil {
			r.Violation("c04-chain", "mint failed", err.Error())
			continue
		}
		useXFF := "192.0.2.50"
		if !same {
			useXFF = "192.0.2.51"
		}
		_, port := splitHostPort(listeners[0].addr)
		reads := [][]byte{
			mkPacket(tHandshake, bodyHandshake(1, 0, 0, 2)),
			mkPacket(tTunnel, bodyTunnelCreate(0, 1, append(utf16le(tok), 0, 0))),
			mkPacket(tAuth, bodyTunnelAuth(append(utf16le("PC"), 0, 0))),
			mkPacket(tChannel, bodyChannel(port, append(utf16le("127.0.0.1"), 0, 0))),
			mkPacket(tData, bodyData([]byte("x"))),
			mkPacket(tClose, nil),
		}
		// on the legacy transport the two legs are separate requests: every fourth legacy case sends
		// the RDG_OUT_DATA leg from the other address. The token is presented on the IN leg, whose
		// address is the one that counts
		outXFF := useXFF
		if kind == "legacy" && i%8 >= 4 {
			if same {
				outXFF = "192.0.2.51"
			} else {
				outXFF = "192.0.2.50"
			}
			legacyInHdr = "X-Forwarded-For: " + useXFF + "\r\n"
		}
		res := runTunnelAPIHdr(kind, gws, reads, listeners, "X-Forwarded-For: "+outXFF+"\r\n")
		legacyInHdr = ""
		if res.inconclusive != "" || (kind == "legacy" && len(res.pkts) == 0) {
			r.Inconclusive()
			continue
		}
		r.Count(fmt.Sprintf("tunnel:%s:%v:%v:%d", kind, verify, same, i))
		r.Dist("tunnel:" + kind)
		want := !verify || same
		dialed := res.hostConns > 0
		chanStatus := ""
		for _, p := range res.pkts {
			if len(p) >= 12 && p[0] == 9 {
				chanStatus = hx(p[8:12])
			}
		}
		rep := fmt.Sprintf("transport=%s verifyclientip=%v token issued to 192.0.2.50, presented from X-Forwarded-For %s (the RDG_OUT_DATA leg of a legacy tunnel from %s)\nresponses: %s\nbackend connections: %d\n", kind, verify, useXFF, outXFF, pktsCanon(res.pkts), res.hostConns)
		if dialed && !want {
			r.Violation("c04-tunnel-bound", "a tunnel presenting a token from another client address reached the backend", rep)
		} else if !want && chanStatus != "da590780" {
			r.Violation("c04-tunnel-status", "refusal for an address mismatch is not reported with the access-denied status 0x800759DA", rep)
		} else if want && !dialed {
			drift++
			if first == "" {
				first = rep
			}
		}
	}
	r.extra["model_disagreements"] = drift
	if drift > 0 && !r.HasViolation() {
		r.Unproven(fmt.Sprintf("correspondence (clientAddr / checkSession chain) broke on %d cases with no address-binding violation found", drift), first)
	}
}
