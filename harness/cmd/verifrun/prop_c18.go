package main

import (
	"bufio"
	"crypto/rsa"
	"fmt"
	"io"
	"net"
	"net/http"
	"net/http/cookiejar"
	"net/url"
	"os"
	"path/filepath"
	"strings"
	"time"
)

func init() { register("C18", runC18) }

type c18Case struct {
	mechs      []string
	tlsOff     bool
	tlsWord    string // another spelling given for server.tls (only "disable" itself disables TLS)
	basicAlias bool   // local authentication is spelled "basic"
	hostSel    string
	queryKey   string
	tokenAuth  bool
	userToken  bool
	keytab     bool
	hosts      int
	lens       map[string]int // key name -> configured length (-1 absent)
	via        string         // file | env | both
}

var c18Keys = []string{"security.paatokenencryptionkey", "security.paatokensigningkey", "security.usertokenencryptionkey", "server.sessionkey", "server.sessionencryptionkey"}

func keyOfLen(n int, seed byte) string {
	b := make([]byte, n)
	for i := range b {
		b[i] = "abcdefghijklmnopqrstuvwxyz0123456789"[(int(seed)+i*7)%36]
	}
	return string(b)
}

func has(ss []string, s string) bool { return contains(ss, s) }

func (c *c18Case) oracleLine() string {
	l := func(k string) int {
		if c.lens[k] < 0 {
			return 0
		}
		return c.lens[k]
	}
	kt := "-"
	if c.keytab {
		kt = "6b74"
	}
	return fmt.Sprintf("startup openid=%s kerberos=%s basic=%s ntlm=%s tlsoff=%s signed=%s tokenauth=%s usertoken=%s keytab=%s qkey=%s hosts=%d paaenc=%d paasign=%d userenc=%d sesskey=%d sessenc=%d",
		b01(has(c.mechs, "openid")), b01(has(c.mechs, "kerberos")), b01(has(c.mechs, "local")), b01(has(c.mechs, "ntlm")), b01(c.tlsOff), b01(c.hostSel == "signed"),
		b01(c.tokenAuth), b01(c.userToken), kt, hx([]byte(c.queryKey)), c.hosts,
		l("security.paatokenencryptionkey"), l("security.paatokensigningkey"), l("security.usertokenencryptionkey"), l("server.sessionkey"), l("server.sessionencryptionkey"))
}

var c18TlsWords = []string{"Disable", "DISABLE", "disabled", "off", "auto", "enable"}

// plainBasicChallenge reports whether the process answers a cleartext request with a Basic challenge.
func plainBasicChallenge(port int) (bool, string) {
	c, err := net.DialTimeout("tcp", fmt.Sprintf("127.0.0.1:%d", port), 2*time.Second)
	if err != nil {
		return false, ""
	}
	defer c.Close()
	c.SetDeadline(time.Now().Add(2 * time.Second))
	fmt.Fprintf(c, "RDG_OUT_DATA /remoteDesktopGateway/ HTTP/1.1\r\nHost: localhost\r\nContent-Length: 0\r\n\r\n")
	buf := make([]byte, 2048)
	n, _ := io.ReadAtLeast(c, buf, 12)
	head := string(buf[:n])
	low := strings.ToLower(head)
	return strings.HasPrefix(head, "HTTP/1.1 401") && strings.Contains(low, "www-authenticate: basic"), head
}

// startC18 starts the binary for a case; returns the process.
func startC18(c *c18Case, dir string, idpURL, sock, cert, key, keytab, krb5 string, seed byte) *gwProc {
	port := freePort()
	ta := c.tokenAuth
	tw := c.tlsWord
	if c.via == "env" {
		tw = ""
	}
	y := &gwYaml{port: port, tlsOn: !c.tlsOff, tlsWord: tw, sock: sock, tokenAuth: &ta, certFile: cert, keyFile: key, keys: map[string]string{}}
	var env []string
	put := func(section, k, v string) {
		switch c.via {
		case "env":
			env = append(env, fmt.Sprintf("RDPGW_%s__%s=%s", strings.ToUpper(section), strings.ToUpper(k), v))
		case "both":
			// the file says something else; the environment wins
			y.keys[section+"."+k] = "file-value-overridden"
			env = append(env, fmt.Sprintf("RDPGW_%s__%s=%s", strings.ToUpper(section), strings.ToUpper(k), v))
		default:
			y.keys[section+"."+k] = v
		}
	}
	if c.tlsWord != "" && c.via == "env" {
		env = append(env, "RDPGW_SERVER__TLS="+c.tlsWord)
	}
	for i, k := range c18Keys {
		if c.lens[k] >= 0 {
			p := strings.SplitN(k, ".", 2)
			put(p[0], p[1], keyOfLen(c.lens[k], seed+byte(i)))
		}
	}
	if c.queryKey != "" {
		put("security", "querytokensigningkey", c.queryKey)
	}
	if c.userToken {
		y.extraSec = append(y.extraSec, "enableusertoken: true")
	}
	spelled := append([]string{}, c.mechs...)
	if c.basicAlias {
		for i, m := range spelled {
			if m == "local" {
				spelled[i] = "basic" // the accepted alias
			}
		}
	}
	y.auth = spelled
	if c.via == "env" {
		y.auth = nil
		env = append(env, "RDPGW_SERVER__AUTHENTICATION="+strings.Join(spelled, " "))
	}
	for i := 0; i < c.hosts; i++ {
		y.hosts = append(y.hosts, fmt.Sprintf("10.0.0.%d:3389", i+1))
	}
	y.hostSelection = c.hostSel
	if has(c.mechs, "openid") {
		y.idpURL = idpURL
	}
	if has(c.mechs, "kerberos") {
		y.krb5conf = krb5
		if c.keytab {
			y.keytab = keytab
		}
	}
	return startBinary(dir, y.render(), env, port, !c.tlsOff)
}

func runC18(r *Run) {
	r.rule = "combinations of authentication mechanisms × TLS mode × host-selection mode (with/without the query-token key) × token-auth switch × presence and length (absent, 0, 1, 31, 32, 33) of each of the five substituted keys × host list size (0, 1, 2) × Kerberos keytab presence, given by file, by RDPGW_ environment variables or both, started as the real binary; cross-instance acceptance of session cookies and PAA tokens between two instances started from the same configuration; non-trivial = every start; distinct by configuration"
	rng := r.Rng
	r.TierRan("binary")
	if _, err := os.Stat(gwBinaryPath()); err != nil {
		r.Unproven("the gateway binary could not be built: the binary tier did not run", err.Error())
		return
	}
	dir := filepath.Join(verifRoot, "work", fmt.Sprintf("c18-%d", os.Getpid()))
	os.MkdirAll(dir, 0o755)
	defer os.RemoveAll(dir)
	idp := newFakeIdP()
	defer idp.close()
	sock := filepath.Join(dir, "auth.sock")
	fa := startFakeAuth(sock, map[string]string{"alice": "wonderland"})
	defer fa.stop()
	cert, key := selfSignedCert(dir)
	keytab, krb5 := writeKerberosFiles(dir)
	drift := 0
	first := ""

	lensChoices := []int{-1, 0, 1, 16, 24, 31, 32, 33}
	mk := func() *c18Case {
		c := &c18Case{lens: map[string]int{}, via: []string{"file", "file", "env", "both"}[rng.Intn(4)]}
		for _, m := range []string{"openid", "kerberos", "local", "ntlm"} {
			if rng.Intn(3) == 0 {
				c.mechs = append(c.mechs, m)
			}
		}
		if len(c.mechs) == 0 {
			c.mechs = []string{[]string{"openid", "local", "ntlm", "kerberos"}[rng.Intn(4)]}
		}
		c.basicAlias = rng.Intn(2) == 0
		c.tlsOff = rng.Intn(2) == 0
		if rng.Intn(4) == 0 { // another spelling of the TLS mode: only "disable" itself disables TLS
			c.tlsOff = false
			c.tlsWord = c18TlsWords[rng.Intn(len(c18TlsWords))]
		}
		c.hostSel = []string{"roundrobin", "signed", "unsigned", "any", ""}[rng.Intn(5)]
		if rng.Intn(2) == 0 {
			c.queryKey = keyOfLen([]int{1, 32}[rng.Intn(2)], 9)
		}
		c.tokenAuth = rng.Intn(4) != 0
		c.userToken = rng.Intn(3) == 0
		c.keytab = rng.Intn(3) != 0
		c.hosts = []int{1, 1, 2, 0}[rng.Intn(4)]
		for _, k := range c18Keys {
			c.lens[k] = lensChoices[rng.Intn(len(lensChoices))]
		}
		return c
	}
	// one case per refusal clause, deterministically, then random ones
	var cases []*c18Case
	base := func() *c18Case {
		c := &c18Case{mechs: []string{"openid"}, tlsOff: true, hostSel: "roundrobin", tokenAuth: true, hosts: 1, keytab: true, lens: map[string]int{}, via: "file"}
		for _, k := range c18Keys {
			c.lens[k] = 32
		}
		return c
	}
	c := base()
	cases = append(cases, c)
	c = base()
	c.tokenAuth = false
	cases = append(cases, c) // openid without tokenauth
	c = base()
	c.mechs = []string{"local"}
	cases = append(cases, c)        // local with tls disabled
	for i, w := range c18TlsWords { // local with the TLS mode spelled differently: TLS stays on
		c = base()
		c.mechs = []string{"local"}
		c.tokenAuth = false
		c.tlsOff = false
		c.tlsWord = w
		if i%2 == 1 {
			c.via = "env"
		}
		cases = append(cases, c)
	}
	c = base()
	c.mechs = []string{"ntlm", "kerberos"}
	cases = append(cases, c)
	c = base()
	c.mechs = []string{"kerberos"}
	c.keytab = false
	c.tokenAuth = false
	cases = append(cases, c)
	c = base()
	c.hostSel = "signed"
	cases = append(cases, c) // signed without query key
	c = base()
	c.hosts = 0
	cases = append(cases, c)
	for _, via := range []string{"env", "both"} {
		c = base()
		c.via = via
		c.tokenAuth = true
		for _, k := range c18Keys {
			c.lens[k] = 31
		}
		cases = append(cases, c)
	}
	for i := r.N(80, 2500); i > 0; i-- {
		cases = append(cases, mk())
	}
	var lines []string
	type obs struct {
		running    bool
		stderr     string
		plainBasic bool
		plainHead  string
	}
	observed := make([]obs, len(cases))
	for i, c := range cases {
		p := startC18(c, dir, idp.srv.URL, sock, cert, key, keytab, krb5, byte(i))
		observed[i] = obs{running: p.running(), stderr: p.stderr.String()}
		if observed[i].running && has(c.mechs, "local") {
			observed[i].plainBasic, observed[i].plainHead = plainBasicChallenge(p.port)
		}
		p.stop()
		lines = append(lines, c.oracleLine())
		r.Dist("via:" + c.via)
	}
	ans := r.Oracle(lines)
	for i, c := range cases {
		r.Count(lines[i] + c.via)
		want := strings.HasPrefix(ans[i], "running")
		rep := fmt.Sprintf("mechanisms=%v tls-disabled=%v (tls word %q, local spelled basic: %v) hostselection=%q querytokensigningkey=%d chars tokenauth=%v enableusertoken=%v keytab=%v hosts=%d key lengths=%v given by %s\nobserved: running=%v\nstderr tail: %s\nmodel: %s\n",
			c.mechs, c.tlsOff, c.tlsWord, c.basicAlias, c.hostSel, len(c.queryKey), c.tokenAuth, c.userToken, c.keytab, c.hosts, c.lens, c.via, observed[i].running, tail(observed[i].stderr, 400), ans[i])
		if i < 2 {
			r.Sample(map[string]interface{}{"mechanisms": c.mechs, "tls_disabled": c.tlsOff, "key_lengths": c.lens, "via": c.via, "running": observed[i].running, "model": ans[i]})
		}
		if observed[i].plainBasic {
			r.Violation("c18-basic-cleartext", "a gateway with local (basic) authentication is running without TLS: it answers a cleartext request with a Basic challenge", rep+fmt.Sprintf("server.tls given as %q\ncleartext answer: %q\n", c.tlsWord, observed[i].plainHead))
		}
		if observed[i].running && !want {
			r.Violation("c18-started", "the gateway started with a configuration the property says must be refused", rep)
		} else if !observed[i].running && want {
			drift++
			if first == "" {
				first = rep
			}
		}
	}

	// ---- cross-instance: keys absent or short → fresh per instance; configured 32-char keys → shared
	client := func() *http.Client {
		jar, _ := cookiejar.New(nil)
		return &http.Client{Jar: jar, CheckRedirect: func(*http.Request, []*http.Request) error { return http.ErrUseLastResponse }, Timeout: 8 * time.Second}
	}
	type crossCase struct {
		klen int    // length given to the keys named in only (all keys when only is empty)
		only string // one key gets klen, the others 32 characters
		via  string
	}
	var ccs []crossCase
	for _, klen := range []int{-1, 0, 1, 31, 32, 33} {
		for _, via := range []string{"file", "env"} {
			ccs = append(ccs, crossCase{klen, "", via})
		}
	}
	// one key of an unusual length (valid AES key sizes among them), the others as configured
	for _, only := range []string{"server.sessionkey", "server.sessionencryptionkey", "security.paatokensigningkey"} {
		for _, klen := range []int{16, 24} {
			ccs = append(ccs, crossCase{klen, only, "file"})
		}
	}
	for _, cc := range ccs {
		{
			klen, via := cc.klen, cc.via
			c := base()
			c.via = via
			for _, k := range c18Keys {
				c.lens[k] = klen
				if cc.only != "" && k != cc.only {
					c.lens[k] = 32
				}
			}
			a := startC18(c, dir, idp.srv.URL, sock, cert, key, keytab, krb5, 7)
			b := startC18(c, dir, idp.srv.URL, sock, cert, key, keytab, krb5, 7)
			if !a.running() || !b.running() {
				r.Violation("c18-cross-start", "a consistent configuration did not start", a.stderr.String()+b.stderr.String())
				a.stop()
				b.stop()
				continue
			}
			ua := fmt.Sprintf("http://127.0.0.1:%d", a.port)
			ub := fmt.Sprintf("http://127.0.0.1:%d", b.port)
			// session cookie of A presented to B
			ca := client()
			resp, err := ca.Get(ua + "/tokeninfo")
			if err == nil {
				resp.Body.Close()
			}
			pu, _ := url.Parse(ua)
			var sess *http.Cookie
			for _, ck := range ca.Jar.Cookies(pu) {
				if ck.Name == "RDPGWSESSION" {
					sess = ck
				}
			}
			crossCookie := "no-cookie"
			if sess != nil {
				req, _ := http.NewRequest("GET", ub+"/tokeninfo", nil)
				req.AddCookie(&http.Cookie{Name: "RDPGWSESSION", Value: sess.Value})
				if resp, err := client().Do(req); err == nil {
					resp.Body.Close()
					if resp.StatusCode == 500 {
						crossCookie = "refused"
					} else {
						crossCookie = "accepted"
					}
				}
			}
			// PAA token of A presented to B: full login on A, download, then a tunnel on B
			crossToken := "n/a"
			tok := loginAndDownload(ca, ua, idp)
			if tok != "" {
				crossToken = presentToken(b, tok)
				own := presentToken(a, tok)
				if own != "accepted" {
					r.Violation("c18-own-token", "an instance refuses the token it just minted", fmt.Sprintf("key length %d via %s: own=%s", klen, via, own))
				}
			}
			r.Count(fmt.Sprintf("cross:%d:%s", klen, via))
			which := "all five keys"
			if cc.only != "" {
				which = cc.only + " (the other keys 32 characters)"
			}
			rep := fmt.Sprintf("two instances started from the same configuration (%s: %d characters, given by %s)\nsession cookie of A at B: %s\nPAA token of A at B: %s\n", which, klen, via, crossCookie, crossToken)
			shared := klen == 32
			if cc.only != "" {
				// a key that is not 32 characters long is replaced per instance: what depends on it is not shared
				cookieMustDiffer := strings.HasPrefix(cc.only, "server.session")
				tokenMustDiffer := cc.only == "security.paatokensigningkey"
				if (cookieMustDiffer && crossCookie == "accepted") || (tokenMustDiffer && crossToken == "accepted") {
					r.Violation("c18-shared-fresh-keys", "with absent or short keys a session cookie or token of one instance is valid on another (no fresh random key was substituted)", rep)
				}
				a.stop()
				b.stop()
				continue
			}
			if !shared && (crossCookie == "accepted" || crossToken == "accepted") {
				r.Violation("c18-shared-fresh-keys", "with absent or short keys a session cookie or token of one instance is valid on another (no fresh random key was substituted)", rep)
			}
			if shared && (crossCookie == "refused" || crossToken == "refused") {
				drift++
				if first == "" {
					first = rep
				}
			}
			a.stop()
			b.stop()
		}
	}
	r.extra["model_disagreements"] = drift
	if drift > 0 && !r.HasViolation() {
		r.Unproven(fmt.Sprintf("correspondence Config.startup = config.Load + main() broke on %d configurations (the binary refuses what the model runs, or configured keys are not shared) with no unsafe start found", drift), first)
	}
}

func tail(s string, n int) string {
	if len(s) > n {
		return s[len(s)-n:]
	}
	return s
}

// loginAndDownload performs the OpenID login against the fake IdP and returns the PAA token of the downloaded file.
func loginAndDownload(c *http.Client, base string, idp *fakeIdP) string {
	_, tok := loginWith(c, base, idp, map[string]interface{}{"preferred_username": "alice"}, nil)
	return tok
}

// loginWith walks a browser through /connect → IdP → /callback → /connect at a real instance; the ID
// token the IdP hands out carries the standard claims edited by `extra` and is signed by `key` (nil = the
// IdP's own). Returns the status of the callback and the access token of the served file ("" = none served).
func loginWith(c *http.Client, base string, idp *fakeIdP, extra map[string]interface{}, key *rsa.PrivateKey) (int, string) {
	resp, err := c.Get(base + "/connect")
	if err != nil {
		return -1, ""
	}
	resp.Body.Close()
	loc := resp.Header.Get("Location")
	lu, err := url.Parse(loc)
	if err != nil || lu.Query().Get("state") == "" {
		return -1, ""
	}
	code := "c18-" + randHex(4)
	at := "at-" + code
	idp.setToken(at, "ok:alice")
	idp.mu.Lock()
	idp.codes[code] = codeResp{accessToken: at, idToken: idp.idToken(idp.stdClaims(extra), key)}
	idp.mu.Unlock()
	resp, err = c.Get(base + "/callback?state=" + lu.Query().Get("state") + "&code=" + code)
	if err != nil {
		return -1, ""
	}
	resp.Body.Close()
	cb := resp.StatusCode
	resp, err = c.Get(base + "/connect")
	if err != nil {
		return cb, ""
	}
	b, _ := io.ReadAll(resp.Body)
	resp.Body.Close()
	if resp.StatusCode != 200 {
		return cb, ""
	}
	return cb, rdpLines(string(b))["gatewayaccesstoken"]
}

// presentToken opens a websocket tunnel on an (openid-only) instance and presents the token.
func presentToken(p *gwProc, tok string) string {
	c, err := p.dial()
	if err != nil {
		return "dial"
	}
	defer c.Close()
	br := bufio.NewReader(c)
	resp := rawRequest(c, br, "RDG_OUT_DATA", fmt.Sprintf("localhost:%d", p.port), nil, true)
	if !resp.upgraded {
		return fmt.Sprintf("http-%d", resp.status)
	}
	w := &wsClient{c: c, br: br}
	w.send(mkPacket(tHandshake, bodyHandshake(1, 0, 0, 2)))
	w.send(mkPacket(tTunnel, bodyTunnelCreate(0, 1, append(utf16le(tok), 0, 0))))
	for i := 0; i < 2; i++ {
		m, err := w.recv(5 * time.Second)
		if err != nil {
			return "recv-error"
		}
		if len(m) >= 14 && m[0] == 5 {
			if hx(m[10:14]) == "00000000" {
				return "accepted"
			}
			return "refused"
		}
	}
	return "no-answer"
}
