package main

// Binary tier: the real rdpgw executable, started with a generated configuration,
// a fake IdP, a fake authentication service on a unix socket, generated
// certificate / keytab / krb5.conf. Depends on no Go identifier of the gateway.

import (
	"bytes"
	"context"
	"crypto/ecdsa"
	"crypto/elliptic"
	"crypto/rand"
	"crypto/tls"
	"crypto/x509"
	"crypto/x509/pkix"
	"encoding/pem"
	"fmt"
	"math/big"
	"net"
	"os"
	"os/exec"
	"path/filepath"
	"strings"
	"sync"
	"syscall"
	"time"

	krbkeytab "github.com/bolkedebruin/gokrb5/v8/keytab"
	authconfig "github.com/bolkedebruin/rdpgw/cmd/auth/config"
	"github.com/bolkedebruin/rdpgw/cmd/auth/database"
	authntlm "github.com/bolkedebruin/rdpgw/cmd/auth/ntlm"
	"github.com/bolkedebruin/rdpgw/shared/auth"
	"google.golang.org/grpc"
)

func gwBinaryPath() string { return filepath.Join(verifRoot, "work", "bin", "rdpgw") }

type gwProc struct {
	cmd    *exec.Cmd
	port   int
	tls    bool
	stderr *syncBuffer
	done   chan struct{}
	exit   error
	dir    string
}

type syncBuffer struct {
	mu sync.Mutex
	b  bytes.Buffer
}

func (s *syncBuffer) Write(p []byte) (int, error) {
	s.mu.Lock()
	defer s.mu.Unlock()
	return s.b.Write(p)
}
func (s *syncBuffer) String() string { s.mu.Lock(); defer s.mu.Unlock(); return s.b.String() }

func freePort() int {
	l, err := net.Listen("tcp4", "127.0.0.1:0")
	if err != nil {
		panic(err)
	}
	defer l.Close()
	return l.Addr().(*net.TCPAddr).Port
}

// startBinary starts the gateway with the given YAML (which must name `port`) and environment.
// It returns once the port accepts connections, or when the process has exited.
func startBinary(dir, yaml string, env []string, port int, useTLS bool) *gwProc {
	os.MkdirAll(dir, 0o755)
	cfgPath := filepath.Join(dir, fmt.Sprintf("rdpgw-%d.yaml", port))
	os.WriteFile(cfgPath, []byte(yaml), 0o600)
	cmd := exec.Command(gwBinaryPath(), "-c", cfgPath)
	cmd.Dir = dir
	cmd.Env = append([]string{"PATH=/usr/bin:/bin", "HOME=" + dir, "TMPDIR=" + dir}, env...)
	cmd.SysProcAttr = &syscall.SysProcAttr{Setpgid: true}
	sb := &syncBuffer{}
	cmd.Stderr = sb
	cmd.Stdout = sb
	p := &gwProc{cmd: cmd, port: port, tls: useTLS, stderr: sb, done: make(chan struct{}), dir: dir}
	if err := cmd.Start(); err != nil {
		p.exit = err
		close(p.done)
		return p
	}
	go func() { p.exit = cmd.Wait(); close(p.done) }()
	deadline := time.Now().Add(6 * time.Second)
	for time.Now().Before(deadline) {
		select {
		case <-p.done:
			return p
		default:
		}
		c, err := net.DialTimeout("tcp", fmt.Sprintf("127.0.0.1:%d", port), 200*time.Millisecond)
		if err == nil {
			c.Close()
			return p
		}
		time.Sleep(15 * time.Millisecond)
	}
	return p
}

func (p *gwProc) running() bool {
	select {
	case <-p.done:
		return false
	default:
		return true
	}
}

func (p *gwProc) stop() {
	if p.cmd.Process != nil {
		syscall.Kill(-p.cmd.Process.Pid, syscall.SIGKILL)
	}
	select {
	case <-p.done:
	case <-time.After(3 * time.Second):
	}
}

// dial opens a TCP (or TLS) connection to the gateway.
func (p *gwProc) dial() (net.Conn, error) {
	addr := fmt.Sprintf("127.0.0.1:%d", p.port)
	if p.tls {
		d := &net.Dialer{Timeout: 3 * time.Second}
		return tls.DialWithDialer(d, "tcp", addr, &tls.Config{InsecureSkipVerify: true})
	}
	return net.DialTimeout("tcp", addr, 3*time.Second)
}

// selfSignedCert writes cert.pem / key.pem into dir.
func selfSignedCert(dir string) (certFile, keyFile string) {
	certFile, keyFile = filepath.Join(dir, "cert.pem"), filepath.Join(dir, "key.pem")
	if _, err := os.Stat(certFile); err == nil {
		return
	}
	key, _ := ecdsa.GenerateKey(elliptic.P256(), rand.Reader)
	tpl := &x509.Certificate{SerialNumber: big.NewInt(1), Subject: pkix.Name{CommonName: "localhost"}, NotBefore: time.Now().Add(-time.Hour), NotAfter: time.Now().Add(240 * time.Hour),
		DNSNames: []string{"localhost"}, IPAddresses: []net.IP{net.IPv4(127, 0, 0, 1)}, KeyUsage: x509.KeyUsageDigitalSignature, ExtKeyUsage: []x509.ExtKeyUsage{x509.ExtKeyUsageServerAuth}}
	der, _ := x509.CreateCertificate(rand.Reader, tpl, tpl, &key.PublicKey, key)
	kb, _ := x509.MarshalECPrivateKey(key)
	os.WriteFile(certFile, pem.EncodeToMemory(&pem.Block{Type: "CERTIFICATE", Bytes: der}), 0o600)
	os.WriteFile(keyFile, pem.EncodeToMemory(&pem.Block{Type: "EC PRIVATE KEY", Bytes: kb}), 0o600)
	return
}

// ---------------------------------------------------------------------------
// fake authentication service (the gRPC service of cmd/auth, which cannot be built here):
// Basic credentials from a scripted table, NTLM through the real cmd/auth/ntlm verifier.

type fakeAuth struct {
	auth.UnimplementedAuthenticateServer
	users  map[string]string
	ntlm   *authntlm.NTLMAuth
	srv    *grpc.Server
	sock   string
	mu     sync.Mutex
	log    []string
	lastNT string // outcome of the last NTLM call: err | reject | challenge | ok:<user>
	// slow: how long the verification of "user:password" takes (a PAM or MFA backend)
	slow map[string]time.Duration
}

func startFakeAuth(sock string, users map[string]string) *fakeAuth {
	os.Remove(sock)
	var ucs []authconfig.UserConfig
	for u, p := range users {
		ucs = append(ucs, authconfig.UserConfig{Username: u, Password: p})
	}
	f := &fakeAuth{users: users, ntlm: authntlm.NewNTLMAuth(database.NewConfig(ucs)), sock: sock}
	l, err := net.Listen("unix", sock)
	if err != nil {
		panic(err)
	}
	f.srv = grpc.NewServer()
	auth.RegisterAuthenticateServer(f.srv, f)
	go f.srv.Serve(l)
	return f
}

func (f *fakeAuth) Authenticate(_ context.Context, m *auth.UserPass) (*auth.AuthResponse, error) {
	pw, ok := f.users[m.Username]
	f.mu.Lock()
	f.log = append(f.log, "basic:"+m.Username)
	d := f.slow[m.Username+":"+m.Password]
	f.mu.Unlock()
	if d > 0 {
		time.Sleep(d)
	}
	return &auth.AuthResponse{Authenticated: ok && pw != "" && pw == m.Password}, nil
}

func (f *fakeAuth) NTLM(_ context.Context, m *auth.NtlmRequest) (*auth.NtlmResponse, error) {
	r, err := f.ntlm.Authenticate(m)
	out := "reject"
	switch {
	case err != nil:
		out = "err"
	case r.Authenticated:
		out = "ok:" + r.Username
	case r.NtlmMessage != "":
		out = "challenge"
	}
	f.mu.Lock()
	f.log = append(f.log, "ntlm:"+m.Session+":"+out)
	f.lastNT = out
	f.mu.Unlock()
	return r, err
}

func (f *fakeAuth) stop() { f.srv.Stop(); os.Remove(f.sock) }

// a keytab with one generated service key and a krb5.conf for the kerberos mechanism
func writeKerberosFiles(dir string) (keytab, krb5conf string) {
	keytab, krb5conf = filepath.Join(dir, "gw.keytab"), filepath.Join(dir, "krb5.conf")
	kt := krbkeytab.New()
	kt.AddEntry("HTTP/localhost", "REALM.TEST", "keytab-password", time.Now(), 1, 18)
	kb, _ := kt.Marshal()
	os.WriteFile(keytab, kb, 0o600)
	os.WriteFile(krb5conf, []byte("[libdefaults]\n  default_realm = REALM.TEST\n  dns_lookup_kdc = false\n  dns_lookup_realm = false\n\n[realms]\n  REALM.TEST = {\n    kdc = 127.0.0.1:1\n  }\n"), 0o600)
	return
}

type gwYaml struct {
	port                  int
	tlsOn                 bool
	tlsWord               string // when set, written as the value of server.tls (certificate files are given too)
	auth                  []string
	hosts                 []string
	hostSelection         string
	sock                  string
	idpURL                string
	tokenAuth             *bool
	keys                  map[string]string // yaml path "section.key" -> value
	certFile, keyFile     string
	keytab, krb5conf      string
	extraServer, extraSec []string
	extraCaps             []string
	sendBuf, recvBuf      int
}

func (g *gwYaml) render() string {
	var sb strings.Builder
	sb.WriteString("Server:\n")
	fmt.Fprintf(&sb, "  gatewayaddress: localhost:%d\n  port: %d\n", g.port, g.port)
	if g.tlsWord != "" {
		fmt.Fprintf(&sb, "  certfile: %s\n  keyfile: %s\n  tls: %s\n", g.certFile, g.keyFile, g.tlsWord)
	} else if g.tlsOn {
		fmt.Fprintf(&sb, "  certfile: %s\n  keyfile: %s\n", g.certFile, g.keyFile)
	} else {
		sb.WriteString("  tls: disable\n")
	}
	if g.hosts != nil {
		sb.WriteString("  hosts:\n")
		for _, h := range g.hosts {
			fmt.Fprintf(&sb, "    - \"%s\"\n", h)
		}
	}
	if g.hostSelection != "" {
		fmt.Fprintf(&sb, "  hostselection: %s\n", g.hostSelection)
	}
	if g.auth != nil {
		sb.WriteString("  authentication:\n")
		for _, a := range g.auth {
			fmt.Fprintf(&sb, "    - %s\n", a)
		}
	}
	if g.sock != "" {
		fmt.Fprintf(&sb, "  authsocket: %s\n  basicauthtimeout: 5\n", g.sock)
	}
	if g.sendBuf > 0 {
		fmt.Fprintf(&sb, "  sendbuf: %d\n", g.sendBuf)
	}
	if g.recvBuf > 0 {
		fmt.Fprintf(&sb, "  receivebuf: %d\n", g.recvBuf)
	}
	for k, v := range g.keys {
		if strings.HasPrefix(k, "server.") {
			fmt.Fprintf(&sb, "  %s: \"%s\"\n", strings.TrimPrefix(k, "server."), v)
		}
	}
	for _, l := range g.extraServer {
		sb.WriteString("  " + l + "\n")
	}
	if g.idpURL != "" {
		fmt.Fprintf(&sb, "OpenId:\n  providerurl: %s\n  clientid: rdpgw-client\n  clientsecret: secret\n", g.idpURL)
	}
	if g.keytab != "" || g.krb5conf != "" {
		fmt.Fprintf(&sb, "Kerberos:\n  keytab: \"%s\"\n  krb5conf: \"%s\"\n", g.keytab, g.krb5conf)
	}
	if g.tokenAuth != nil {
		fmt.Fprintf(&sb, "Caps:\n  tokenauth: %v\n", *g.tokenAuth)
		for _, l := range g.extraCaps {
			sb.WriteString("  " + l + "\n")
		}
	}
	sb.WriteString("Security:\n  verifyclientip: true\n")
	for k, v := range g.keys {
		if strings.HasPrefix(k, "security.") {
			fmt.Fprintf(&sb, "  %s: \"%s\"\n", strings.TrimPrefix(k, "security."), v)
		}
	}
	for _, l := range g.extraSec {
		sb.WriteString("  " + l + "\n")
	}
	return sb.String()
}
