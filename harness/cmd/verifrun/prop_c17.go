package main

import (
	"encoding/binary"
	"fmt"
	"math/bits"
	"time"
)

func init() { register("C17", runC17) }

func runC17(r *Run) {
	r.rule = "handshake requests for every server setting of {cookie auth, smart card} × client extended-auth values (quick: all values with ≤ 2 bits set + 2000 random; thorough: all 65536) × version byte pairs; non-trivial = every case (each decides success/mismatch); distinct by (setting, client value, version bytes)"
	r.TierRan("hook")
	type hcase struct {
		cfg        *gwCfg
		client     int
		major, min byte
		ir         *implRun
		coalesced  bool
	}
	var cases []*hcase
	var clients []int
	if r.Thorough() {
		for v := 0; v < 65536; v++ {
			clients = append(clients, v)
		}
		r.exhaustive = true
	} else {
		for v := 0; v < 65536; v++ {
			if bits.OnesCount(uint(v)) <= 2 {
				clients = append(clients, v)
			}
		}
		for i := 0; i < 2000; i++ {
			clients = append(clients, r.Rng.Intn(65536))
		}
	}
	for s := 0; s < 4; s++ {
		for _, cl := range clients {
			cfg := &gwCfg{token: s&1 != 0, sc: s&2 != 0}
			cases = append(cases, &hcase{cfg: cfg, client: cl, major: byte(r.Rng.Intn(256)), min: byte(r.Rng.Intn(256))})
		}
	}
	var lines []string
	for ci, c := range cases {
		pkt := mkPacket(tHandshake, bodyHandshake(c.major, c.min, r.Rng.Intn(3), c.client))
		// a second packet shows whether the loop went on
		switch {
		case ci%4 == 1:
			// the handshake and the packet after it arrive in one transport read (a pipelining client):
			// the answer must not depend on what follows
			c.coalesced = true
			next := mkPacket(0x33, []byte("0123456789abcdef0123456789abcdef"))
			c.ir = runProcess(c.cfg, [][]byte{append(append([]byte{}, pkt...), next...)}, nil)
		case ci%8 == 2:
			c.ir = runProcess(c.cfg, [][]byte{pkt[:5], pkt[5:], mkPacket(0x33, nil)}, nil)
			// present the fragments as one element to the checks below
			if len(c.ir.elems) >= 2 {
				c.ir.elems = c.ir.elems[1:]
			}
		default:
			c.ir = runProcess(c.cfg, [][]byte{pkt, mkPacket(0x33, nil)}, nil)
		}
		lines = append(lines, fmt.Sprintf("matchauth token=%s sc=%s client=%d", b01(c.cfg.token), b01(c.cfg.sc), c.client))
		lines = append(lines, "decode pkt="+hx(firstWrite(c.ir)))
	}
	r.implTraces = len(cases)
	ans := r.Oracle(lines)
	drift := 0
	first := ""
	for i, c := range cases {
		caps := 0
		if c.cfg.sc {
			caps |= 1
		}
		if c.cfg.token {
			caps |= 2
		}
		// the property, restated: success iff both empty or a common bit
		want := (caps == 0 && c.client == 0) || caps&c.client != 0
		model := ans[2*i]
		dec := kv(ans[2*i+1])
		rep := fmt.Sprintf("server: token=%v smartcard=%v (caps %d)  client ext auth=%d (0x%x) version bytes %d %d\nresponse: %s\ndecoded: %s\nloop went on to the next packet: %v\nhandshake and the next packet delivered in one read: %v\nmodel matchAuth: %s\n",
			c.cfg.token, c.cfg.sc, caps, c.client, c.client, c.major, c.min, hx(firstWrite(c.ir)), ans[2*i+1], len(c.ir.elems) == 2, c.coalesced, model)
		r.Count(fmt.Sprintf("%d/%d/%d/%d", caps, c.client, c.major, c.min))
		if i%9973 == 0 {
			r.Sample(map[string]interface{}{"server_caps": caps, "client": c.client, "decoded_response": ans[2*i+1], "model": model})
		}
		if c.ir.panicked != "" || c.ir.timedOut {
			r.Violation("c17-panic", "handshake processing panicked or hung", rep)
			continue
		}
		if len(c.ir.elems) == 0 || len(c.ir.elems[0].writes) != 1 || ans[2*i+1] == "undecodable" {
			r.Violation("c17-noresponse", "handshake not answered by exactly one well-formed handshake response", rep)
			continue
		}
		st := dec["st"]
		wentOn := len(c.ir.elems) == 2
		ok := st == "0"
		if c.coalesced {
			wentOn = ok // not observable when both packets came in one read
		}
		if ok != want {
			r.Violation("c17-iff", "handshake outcome differs from the negotiation rule", rep)
			continue
		}
		if ok {
			if dec["ext"] != fmt.Sprint(caps) || dec["major"] != fmt.Sprint(c.major) || dec["minor"] != fmt.Sprint(c.min) || !wentOn {
				r.Violation("c17-advertise", "successful handshake does not advertise exactly the enabled mechanisms / echo the version bytes / continue", rep)
				continue
			}
		} else {
			if st != "2147965417" || wentOn { // 0x800759E9
				r.Violation("c17-mismatch", "failed handshake is not answered with capability-mismatch and the end of the tunnel", rep)
				continue
			}
		}
		mok := model != "mismatch"
		if mok != ok || (mok && model != fmt.Sprintf("ok %d", caps)) {
			drift++
			if first == "" {
				first = rep
			}
		}
	}
	// the same over the real handler and both real transports, several tunnels of one client at once
	r.TierRan("api")
	for s := 0; s < 8; s++ {
		// with and without an idle timeout configured (caps.idletimeout): negotiation does not depend on it
		cfg := &gwCfg{token: s&1 != 0, sc: s&2 != 0, idle: (s >> 2) * 30}
		caps := 0
		if cfg.sc {
			caps |= 1
		}
		if cfg.token {
			caps |= 2
		}
		gws := startGateway(cfg.gateway())
		for _, kind := range []string{"ws", "legacy"} {
			opened, failedOpen, lastErr := 0, 0, ""
			for _, client := range []int{0, 1, 2, 3, 4, 6} {
				want := (caps == 0 && client == 0) || caps&client != 0
				pkt := mkPacket(tHandshake, bodyHandshake(3, 9, 0, client))
				res := c17First(kind, gws, pkt, "X-Forwarded-For: 192.0.2.10\r\n")
				r.Count(fmt.Sprintf("api:%s:%d:%d:%d", kind, caps, client, cfg.idle))
				r.Dist("api:" + kind)
				if res.inconclusive != "" {
					failedOpen++
					lastErr = res.inconclusive
					r.Inconclusive()
					if failedOpen == 6 && opened == 0 {
						// not once could a tunnel be opened on this transport: no handshake can be answered
						r.Violation("c17-noresponse", "handshake not answered by exactly one well-formed handshake response", fmt.Sprintf("transport %s over the real handler; server caps %d: none of six attempts to open a tunnel succeeded (%s), so no handshake is ever answered on this transport\n", kind, caps, lastErr))
					}
					continue
				}
				opened++
				rep := fmt.Sprintf("transport %s over the real handler; server caps %d, idle timeout %d min, client ext auth %d\nresponses: %s ended=%v\n", kind, caps, cfg.idle, client, pktsCanon(res.pkts), res.ended)
				if len(res.pkts) != 1 || len(res.pkts[0]) < 18 || res.pkts[0][0] != 2 {
					if kind == "legacy" && len(res.pkts) == 0 && !res.ended {
						r.Inconclusive() // the IN handler's Drain took the handshake
						continue
					}
					r.Violation("c17-noresponse", "handshake not answered by exactly one well-formed handshake response", rep)
					continue
				}
				st := binary.LittleEndian.Uint32(res.pkts[0][8:12])
				if (st == 0) != want || (st != 0 && st != 0x800759E9) {
					r.Violation("c17-iff", "handshake outcome differs from the negotiation rule", rep)
				} else if st == 0 && (res.pkts[0][12] != 3 || res.pkts[0][13] != 9 || int(binary.LittleEndian.Uint16(res.pkts[0][16:18])) != caps) {
					r.Violation("c17-advertise", "successful handshake does not advertise exactly the enabled mechanisms / echo the version bytes / continue", rep)
				}
			}
		}
		// three tunnels of one client (same user, same address) held open at the same time
		var open []*wsClient
		for k := 0; k < 3; k++ {
			w, err := dialWS(gws.addr, "{"+randHex(8)+"}", "X-Forwarded-For: 192.0.2.10\r\n")
			if err != nil {
				r.Inconclusive()
				continue
			}
			open = append(open, w)
			client := caps
			w.send(mkPacket(tHandshake, bodyHandshake(1, 0, 0, client)))
			m, err := w.recv(2 * time.Second)
			r.Count(fmt.Sprintf("api-concurrent:%d:%d", caps, k))
			if err != nil || len(m) < 12 || m[0] != 2 || binary.LittleEndian.Uint32(m[8:12]) != 0 {
				r.Violation("c17-noresponse", "handshake not answered by exactly one well-formed handshake response", fmt.Sprintf("server caps %d; tunnel %d of three websocket tunnels opened by one client (same address) and held open together; client ext auth %d: response %s err %v\n", caps, k+1, client, hx(m), err))
			}
		}
		for _, w := range open {
			w.close()
		}
		gws.close()
	}
	if drift > 0 && !r.HasViolation() {
		r.Unproven(fmt.Sprintf("correspondence Model.matchAuth = Processor.matchAuth broke on %d cases", drift), first)
	}
}

func firstWrite(ir *implRun) []byte {
	if len(ir.elems) > 0 && len(ir.elems[0].writes) > 0 {
		return ir.elems[0].writes[0]
	}
	return nil
}

// c17First opens a tunnel over the real handler, sends one packet and returns what comes back
// within a second (the tunnel is closed afterwards).
func c17First(kind string, g *gwServer, pkt []byte, hdr string) *apiResult {
	res := &apiResult{}
	id := "{" + randHex(8) + "}"
	var cl gwClient
	var pr *packetReader
	if kind == "ws" {
		w, err := dialWS(g.addr, id, hdr)
		if err != nil {
			res.inconclusive = err.Error()
			return res
		}
		cl, pr = w, readWS(w, 2*time.Second)
	} else {
		l, err := dialLegacy(g.addr, id, hdr)
		if err != nil {
			res.inconclusive = err.Error()
			return res
		}
		cl, pr = l, readLegacy(l, 2*time.Second)
	}
	cl.send(pkt)
	waitFor(time.Second, func() bool {
		pk, ended := pr.snapshot()
		return len(pk) > 0 || ended
	})
	time.Sleep(20 * time.Millisecond)
	res.pkts, res.ended = pr.snapshot()
	cl.close()
	return res
}
