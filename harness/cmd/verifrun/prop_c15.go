package main

import (
	"bytes"
	"compress/flate"
	"context"
	"crypto/aes"
	"crypto/cipher"
	"crypto/hmac"
	"crypto/sha256"
	"encoding/base64"
	"encoding/binary"
	"encoding/json"
	"fmt"
	"io"
	"net/http"
	"net/http/httptest"
	"net/url"
	"os"
	"path/filepath"
	"strings"
	"time"

	"github.com/bolkedebruin/rdpgw/cmd/rdpgw/security"
	"github.com/bolkedebruin/rdpgw/cmd/rdpgw/web"
	"github.com/go-jose/go-jose/v4"
	"github.com/go-jose/go-jose/v4/jwt"
)

func init() { register("C15", runC15) }

type utFacts struct {
	jwe, dec, cty bool
	inner         string // claims | jws | other
	hs, sig       bool
	iss, sub      string
	exp, nbf, iat *int64
	plaintext     []byte
}

// a128cbcHS256Open implements RFC 7518 §5.2 decryption with std crypto only.
func a128cbcHS256Open(key, aad, iv, ct, tag []byte) ([]byte, bool) {
	if len(key) != 32 || len(iv) != 16 || len(ct) == 0 || len(ct)%16 != 0 {
		return nil, false
	}
	macKey, encKey := key[:16], key[16:]
	m := hmac.New(sha256.New, macKey)
	m.Write(aad)
	m.Write(iv)
	m.Write(ct)
	var al [8]byte
	binary.BigEndian.PutUint64(al[:], uint64(len(aad))*8)
	m.Write(al[:])
	if !hmac.Equal(m.Sum(nil)[:16], tag) {
		return nil, false
	}
	blk, _ := aes.NewCipher(encKey)
	pt := make([]byte, len(ct))
	cipher.NewCBCDecrypter(blk, iv).CryptBlocks(pt, ct)
	pad := int(pt[len(pt)-1])
	if pad == 0 || pad > 16 || pad > len(pt) {
		return nil, false
	}
	for _, b := range pt[len(pt)-pad:] {
		if int(b) != pad {
			return nil, false
		}
	}
	return pt[:len(pt)-pad], true
}

func dissectUserToken(tok string, encKey, signKey []byte) utFacts {
	f := utFacts{inner: "other"}
	parts := strings.Split(tok, ".")
	if len(parts) != 5 {
		return f
	}
	var seg [5][]byte
	for i, p := range parts {
		b, ok := b64dec(p)
		if !ok {
			return f
		}
		seg[i] = b
	}
	var hdr map[string]interface{}
	if json.Unmarshal(seg[0], &hdr) != nil || hdr == nil {
		return f
	}
	alg, _ := hdr["alg"].(string)
	enc, _ := hdr["enc"].(string)
	f.jwe = alg == "dir" && enc == "A128CBC-HS256"
	if !f.jwe {
		return f
	}
	cty, _ := hdr["cty"].(string)
	f.cty = strings.ToUpper(cty) == "JWT"
	// the AAD is the canonical base64url of the protected header
	aad := []byte(base64.RawURLEncoding.EncodeToString(seg[0]))
	pt, ok := a128cbcHS256Open(encKey, aad, seg[2], seg[3], seg[4])
	if !ok {
		return f
	}
	if z, _ := hdr["zip"].(string); z == "DEF" {
		out, err := io.ReadAll(flate.NewReader(bytes.NewReader(pt)))
		if err != nil {
			return f
		}
		pt = out
	} else if z != "" {
		return f
	}
	f.dec = true
	f.plaintext = pt
	var claims map[string]interface{}
	payload := pt
	if ip := strings.Split(string(pt), "."); len(ip) == 3 {
		hb, ok1 := b64dec(ip[0])
		pb, ok2 := b64dec(ip[1])
		sb, ok3 := b64dec(ip[2])
		var ih map[string]interface{}
		if ok1 && ok2 && ok3 && json.Unmarshal(hb, &ih) == nil && ih != nil {
			f.inner = "jws"
			a, _ := ih["alg"].(string)
			f.hs = a == "HS256"
			m := hmac.New(sha256.New, signKey)
			m.Write([]byte(base64.RawURLEncoding.EncodeToString(hb) + "." + base64.RawURLEncoding.EncodeToString(pb)))
			f.sig = hmac.Equal(m.Sum(nil), sb)
			payload = pb
		}
	}
	if json.Unmarshal(payload, &claims) == nil && claims != nil {
		if f.inner != "jws" {
			f.inner = "claims"
		}
		f.iss, _ = claims["iss"].(string)
		f.sub, _ = claims["sub"].(string)
		f.exp, _ = numDate(claims["exp"])
		f.nbf, _ = numDate(claims["nbf"])
		f.iat, _ = numDate(claims["iat"])
	} else if f.inner == "jws" {
		f.sig = false // unusable payload
	}
	return f
}

func runC15(r *Run) {
	r.rule = "user tokens in both key modes: freshly minted for generated user names, every single-character substitution of each of the five JWE segments (quick: 6 replacement characters per position), tokens made under other keys / algorithms / issuers, expired tokens, plain signed JWTs, cross-mode tokens, arbitrary strings; token-info requests with other methods and missing/empty parameters; non-trivial = five-segment tokens; distinct by (mode, token)"
	rng := r.Rng
	r.TierRan("api")
	encKey := []byte(keyUserEnc)
	signKey := []byte(keyUserSign)
	otherEnc := []byte("other-encrypt-key-0123456789abcd")
	otherSign := []byte("other-signing-key-0123456789abcd")
	setMode := func(sign bool) {
		security.UserEncryptionKey = encKey
		if sign {
			security.UserSigningKey = signKey
		} else {
			security.UserSigningKey = nil
		}
	}
	type ucase struct {
		sign       bool
		tok, class string
		fresh      string // user the token was minted for in this mode ("" = not fresh)
		exotic     bool
	}
	var cases []ucase
	users := []string{"alice", "bob@example.com", "Ünï", "a", "very-long-user-name-0123456789-0123456789-0123456789", "x y"}
	craft := func(ek, sk []byte, sign bool, claims jwt.Claims, alg jose.ContentEncryption) string {
		enc, err := jose.NewEncrypter(alg, jose.Recipient{Algorithm: jose.DIRECT, Key: ek}, (&jose.EncrypterOptions{Compression: jose.DEFLATE}).WithContentType("JWT"))
		if err != nil {
			return ""
		}
		var tok string
		if sign {
			sig, _ := jose.NewSigner(jose.SigningKey{Algorithm: jose.HS256, Key: sk}, nil)
			tok, _ = jwt.SignedAndEncrypted(sig, enc).Claims(claims).Serialize()
		} else {
			tok, _ = jwt.Encrypted(enc).Claims(claims).Serialize()
		}
		return tok
	}
	now := time.Now()
	for _, sign := range []bool{false, true} {
		setMode(sign)
		for _, u := range users {
			tok, err := security.GenerateUserToken(context.Background(), u)
			if err != nil {
				r.Violation("c15-mint", "GenerateUserToken failed", err.Error())
				continue
			}
			cases = append(cases, ucase{sign: sign, tok: tok, class: "mint", fresh: u})
			// the same token in the other mode
			cases = append(cases, ucase{sign: !sign, tok: tok, class: "cross-mode"})
			// confidentiality (a test, not a theorem): the user name is not readable from the token
			if len(u) >= 5 && (strings.Contains(tok, u) || strings.Contains(tok, base64.RawURLEncoding.EncodeToString([]byte(u)))) {
				r.Violation("c15-confidential", "the user name can be read from the token text", tok)
			}
			for _, p := range strings.Split(tok, ".") {
				if b, ok := b64dec(p); ok && len(u) >= 5 && bytes.Contains(b, []byte(u)) {
					r.Violation("c15-confidential", "the user name can be read from a decoded token segment", tok)
				}
			}
		}
		base, _ := security.GenerateUserToken(context.Background(), "alice")
		alphabet := "Aa0_-."
		if r.Thorough() {
			alphabet = "ABCDEFGHIJKLMNOPQRSTUVWXYZabcdefghijklmnopqrstuvwxyz0123456789-_.="
		}
		for i := 0; i < len(base); i++ {
			for _, c := range alphabet {
				if byte(c) == base[i] {
					continue
				}
				cases = append(cases, ucase{sign: sign, tok: base[:i] + string(c) + base[i+1:], class: "subst", exotic: true})
			}
		}
		std := jwt.Claims{Subject: "alice", Issuer: "rdpgw", Expiry: jwt.NewNumericDate(now.Add(5 * time.Minute))}
		variants := map[string]string{
			"other-enc-key":  craft(otherEnc, signKey, sign, std, jose.A128CBC_HS256),
			"other-sign-key": craft(encKey, otherSign, sign, std, jose.A128CBC_HS256),
			"other-issuer":   craft(encKey, signKey, sign, jwt.Claims{Subject: "alice", Issuer: "evil", Expiry: std.Expiry}, jose.A128CBC_HS256),
			"no-issuer":      craft(encKey, signKey, sign, jwt.Claims{Subject: "alice", Expiry: std.Expiry}, jose.A128CBC_HS256),
			"expired-1h":     craft(encKey, signKey, sign, jwt.Claims{Subject: "alice", Issuer: "rdpgw", Expiry: jwt.NewNumericDate(now.Add(-time.Hour))}, jose.A128CBC_HS256),
			"expired-63s":    craft(encKey, signKey, sign, jwt.Claims{Subject: "alice", Issuer: "rdpgw", Expiry: jwt.NewNumericDate(now.Add(-63 * time.Second))}, jose.A128CBC_HS256),
			"expired-57s":    craft(encKey, signKey, sign, jwt.Claims{Subject: "alice", Issuer: "rdpgw", Expiry: jwt.NewNumericDate(now.Add(-57 * time.Second))}, jose.A128CBC_HS256),
			"nbf-future":     craft(encKey, signKey, sign, jwt.Claims{Subject: "alice", Issuer: "rdpgw", Expiry: std.Expiry, NotBefore: jwt.NewNumericDate(now.Add(time.Hour))}, jose.A128CBC_HS256),
			"no-expiry":      craft(encKey, signKey, sign, jwt.Claims{Subject: "alice", Issuer: "rdpgw"}, jose.A128CBC_HS256),
			"right-keys":     craft(encKey, signKey, sign, std, jose.A128CBC_HS256),
			"a256gcm":        craft(encKey, signKey, sign, std, jose.A256GCM),
		}
		for name, tok := range variants {
			if tok != "" {
				cases = append(cases, ucase{sign: sign, tok: tok, class: name})
			}
		}
		// a plain signed JWT (not encrypted)
		sig, _ := jose.NewSigner(jose.SigningKey{Algorithm: jose.HS256, Key: signKey}, nil)
		plain, _ := jwt.Signed(sig).Claims(std).Serialize()
		cases = append(cases, ucase{sign: sign, tok: plain, class: "plain-jws"})
		for i := r.N(60, 2000); i > 0; i-- {
			b := make([]byte, rng.Intn(80))
			rng.Read(b)
			s := base64.RawURLEncoding.EncodeToString(b)
			cases = append(cases, ucase{sign: sign, tok: []string{string(b), s, s + "." + s + "." + s + "." + s + "." + s, "a.b.c.d.e", "....", " " + base}[rng.Intn(6)], class: "junk", exotic: true})
		}
	}

	var lines []string
	type out struct {
		ok  bool
		sub string
		pan string
		now int64
	}
	outs := make([]out, len(cases))
	for i, c := range cases {
		setMode(c.sign)
		func() {
			defer func() {
				if rec := recover(); rec != nil {
					outs[i].pan = fmt.Sprint(rec)
				}
			}()
			outs[i].now = time.Now().Unix()
			cl, err := security.UserInfo(context.Background(), c.tok)
			outs[i].ok = err == nil
			outs[i].sub = cl.Subject
		}()
		sk := signKey
		f := dissectUserToken(c.tok, encKey, sk)
		lines = append(lines, fmt.Sprintf("usertoken sign=%s jwe=%s dec=%s cty=%s inner=%s hs=%s sig=%s iss=%s exp=%s nbf=%s iat=%s sub=%s now=%d",
			b01(c.sign), b01(f.jwe), b01(f.dec), b01(f.cty), f.inner, b01(f.hs), b01(f.sig), hx([]byte(f.iss)), optN(f.exp), optN(f.nbf), optN(f.iat), hx([]byte(f.sub)), outs[i].now))
		r.Dist("class:" + c.class)
	}
	ans := r.Oracle(lines)
	drift, stricter := 0, 0
	first := ""
	for i, c := range cases {
		key := ""
		if strings.Count(c.tok, ".") == 4 {
			key = fmt.Sprintf("%v|%s", c.sign, c.tok)
		}
		r.Count(key)
		want := strings.HasPrefix(ans[i], "ok")
		rep := fmt.Sprintf("mode: sign-and-encrypt=%v\nclass: %s\ntoken: %q\nimplementation: accepted=%v subject=%q panic=%q\ndissected → model: %s\n  (%s)\n", c.sign, c.class, c.tok, outs[i].ok, outs[i].sub, outs[i].pan, ans[i], lines[i])
		if i < 2 {
			r.Sample(map[string]interface{}{"mode_sign": c.sign, "class": c.class, "token": c.tok, "impl_accepts": outs[i].ok, "model": ans[i]})
		}
		if outs[i].pan != "" {
			r.Violation("c15-panic", "UserInfo panicked", rep)
			continue
		}
		switch {
		case outs[i].ok && !want:
			r.Violation("c15-accepts", "claims returned for a token that does not decrypt/verify under the configured keys, or is expired, or names another issuer", rep)
		case outs[i].ok && want:
			if "ok "+hx([]byte(outs[i].sub)) != ans[i] {
				r.Violation("c15-subject", "the subject returned differs from the token's", rep)
			}
			if c.fresh != "" && outs[i].sub != c.fresh {
				r.Violation("c15-subject", "a token minted for user U does not yield subject U", rep)
			}
		case !outs[i].ok && want:
			if c.fresh != "" {
				r.Violation("c15-fresh", "a freshly minted token is refused in its own mode", rep)
			} else if c.exotic {
				stricter++
			} else {
				drift++
				if first == "" {
					first = rep
				}
			}
		}
	}
	r.extra["library_stricter_on_exotic_spellings"] = stricter

	// the token-info endpoint
	setMode(true)
	good, _ := security.GenerateUserToken(context.Background(), "alice")
	expiredTok := craft(encKey, signKey, true, jwt.Claims{Subject: "alice", Issuer: "rdpgw", Expiry: jwt.NewNumericDate(now.Add(-time.Hour))}, jose.A128CBC_HS256)
	otherIssTok := craft(encKey, signKey, true, jwt.Claims{Subject: "alice", Issuer: "someone-else", Expiry: jwt.NewNumericDate(now.Add(time.Hour))}, jose.A128CBC_HS256)
	type treq struct {
		method, query string
	}
	reqs := []treq{{"GET", "access_token=" + url.QueryEscape(good)}, {"GET", ""}, {"GET", "access_token="}, {"GET", "access_token=garbage"}, {"GET", "other=1"},
		{"POST", "access_token=" + url.QueryEscape(good)}, {"PUT", "access_token=" + url.QueryEscape(good)}, {"HEAD", "access_token=" + url.QueryEscape(good)}, {"DELETE", ""},
		{"GET", "access_token=&access_token=" + url.QueryEscape(good)}, {"GET", "access_token=" + url.QueryEscape(good[:len(good)-3])},
		{"GET", "access_token=" + url.QueryEscape(expiredTok)}, {"GET", "access_token=" + url.QueryEscape(otherIssTok)}}
	var tl []string
	var tst []int
	var tbody []string
	for _, q := range reqs {
		req := httptest.NewRequest(q.method, "http://gw/tokeninfo?"+q.query, nil)
		rec := httptest.NewRecorder()
		web.TokenInfo(rec, req)
		tst = append(tst, rec.Code)
		tbody = append(tbody, rec.Body.String())
		vals, _ := url.ParseQuery(q.query)
		param := "none"
		verdict := "refuse"
		if v, ok := vals["access_token"]; ok {
			param = hx([]byte(v[0]))
			if _, err := security.UserInfo(context.Background(), v[0]); err == nil && v[0] != "" {
				verdict = hx([]byte("alice"))
			}
		}
		tl = append(tl, fmt.Sprintf("tokeninfo get=%s param=%s verdict=%s", b01(q.method == http.MethodGet), param, verdict))
	}
	tans := r.Oracle(tl)
	for i, q := range reqs {
		r.Count("tokeninfo:" + q.method + q.query)
		f := strings.Fields(tans[i])
		rep := fmt.Sprintf("%s /tokeninfo?%s → %d %q; model %s\n", q.method, q.query, tst[i], tbody[i], tans[i])
		disclosed := strings.Contains(tbody[i], "alice") || strings.Contains(tbody[i], "\"sub\"")
		if disclosed && tst[i] != 200 {
			r.Violation("c15-disclose", "claims disclosed with a status other than 200", rep)
		}
		if fmt.Sprint(tst[i]) != f[0] {
			if tst[i] == 200 && f[0] != "200" {
				r.Violation("c15-status", "token-info answered 200 where the property demands a refusal", rep)
			} else {
				drift++
				if first == "" {
					first = rep
				}
			}
		}
	}
	// history and time: a token that was accepted is refused once it has expired (the expiry leeway
	// of the library is 60 s): accepted now, refused a few seconds later, whatever was answered before
	for _, sign := range []bool{true, false} {
		setMode(sign)
		tok := craft(encKey, signKey, sign, jwt.Claims{Subject: "alice", Issuer: "rdpgw", Expiry: jwt.NewNumericDate(time.Now().Add(-57 * time.Second))}, jose.A128CBC_HS256)
		ask := func() (int, string) {
			rec := httptest.NewRecorder()
			web.TokenInfo(rec, httptest.NewRequest("GET", "http://gw/tokeninfo?access_token="+url.QueryEscape(tok), nil))
			return rec.Code, rec.Body.String()
		}
		st1, _ := ask()
		ask()
		time.Sleep(4500 * time.Millisecond)
		st2, body2 := ask()
		r.Count(fmt.Sprintf("tokeninfo-history:%v", sign))
		if st1 == 200 && (st2 == 200 || strings.Contains(body2, "alice")) {
			r.Violation("c15-accepts", "claims returned for a token that does not decrypt/verify under the configured keys, or is expired, or names another issuer",
				fmt.Sprintf("signing mode %v: a token expiring 57 s ago (inside the 60 s leeway) was answered %d; the same token 4.5 s later (expired beyond the leeway) was answered %d %q\n", sign, st1, st2, body2))
		}
		if !sign {
			break // once is enough for the encrypt-only mode in the quick tier
		}
	}
	setMode(true)
	c15Binary(r, craft)
	r.extra["model_disagreements"] = drift
	if drift > 0 && !r.HasViolation() {
		r.Unproven(fmt.Sprintf("correspondence UserToken.verify / tokenInfo = UserInfo / TokenInfo broke on %d well-formed cases", drift), first)
	}
}

// c15Binary: the configured keys as the real process uses them. The gateway is started with a user
// token encryption key and a signing key that is absent, too short, or 32 characters; tokens made by
// the harness under those keys are presented to /tokeninfo. An encrypt-only token is acceptable only
// when no signing key is configured; a signed-and-encrypted one only under the configured 32-character key.
func c15Binary(r *Run, craft func(ek, sk []byte, sign bool, claims jwt.Claims, alg jose.ContentEncryption) string) {
	if _, err := os.Stat(gwBinaryPath()); err != nil {
		r.Note("gateway binary unavailable: binary tier skipped")
		return
	}
	r.TierRan("binary")
	dir := filepath.Join(verifRoot, "work", fmt.Sprintf("c15-%d", os.Getpid()))
	os.MkdirAll(dir, 0o755)
	defer os.RemoveAll(dir)
	idp := newFakeIdP()
	defer idp.close()
	enc := "user-token-encryption-key-32-ch!"
	sk32 := "user-token-signing-key-32-chars!"
	type keyCfg struct {
		enable bool
		enc    string // "" = not configured
		sk     string
	}
	cfgs := []keyCfg{
		{true, enc, ""}, {true, enc, "short-signing-key-21ch"}, {true, enc, sk32},
		// the endpoint is registered whether or not user tokens are enabled, and with them disabled the
		// loader leaves the keys as configured: every combination of present and absent keys
		{false, enc, ""}, {false, enc, sk32}, {false, "", sk32}, {false, "", ""}, {true, "", sk32},
	}
	for _, kc := range cfgs {
		sk := kc.sk
		port := freePort()
		ta := true
		y := &gwYaml{port: port, tlsOn: false, auth: []string{"openid"}, hosts: []string{"10.0.0.1:3389"}, idpURL: idp.srv.URL, tokenAuth: &ta,
			keys: map[string]string{}, extraSec: []string{fmt.Sprintf("enableusertoken: %v", kc.enable)}}
		if kc.enc != "" {
			y.keys["security.usertokenencryptionkey"] = kc.enc
		}
		if sk != "" {
			y.keys["security.usertokensigningkey"] = sk
		}
		p := startBinary(dir, y.render(), nil, port, false)
		if !p.running() {
			r.Note("binary did not start for the user-token configuration: " + tail(p.stderr.String(), 300))
			p.stop()
			continue
		}
		std := jwt.Claims{Subject: "alice", Issuer: "rdpgw", Expiry: jwt.NewNumericDate(time.Now().Add(5 * time.Minute))}
		toks := map[string]string{
			"encrypt-only":                         craft([]byte(enc), nil, false, std, jose.A128CBC_HS256),
			"signed under another key":             craft([]byte(enc), []byte("some-other-signing-key-32-chars!"), true, std, jose.A128CBC_HS256),
			"not a token":                          "garbage.garbage.garbage.garbage.garbage",
			"a plain signed JWT":                   signCompact(map[string]interface{}{"alg": "HS256", "typ": "JWT"}, map[string]interface{}{"iss": "rdpgw", "sub": "alice", "exp": time.Now().Unix() + 300}, "HS256", []byte(sk32)),
			"an expired token under the same keys": craft([]byte(enc), []byte(sk32), len(sk) == 32, jwt.Claims{Subject: "alice", Issuer: "rdpgw", Expiry: jwt.NewNumericDate(time.Now().Add(-time.Hour))}, jose.A128CBC_HS256),
		}
		if len(sk) == 32 {
			toks["signed under the configured key"] = craft([]byte(enc), []byte(sk), true, std, jose.A128CBC_HS256)
		}
		for name, tok := range toks {
			if tok == "" {
				continue
			}
			resp, err := http.Get(fmt.Sprintf("http://127.0.0.1:%d/tokeninfo?access_token=%s", port, url.QueryEscape(tok)))
			if err != nil {
				r.Inconclusive()
				continue
			}
			b, _ := io.ReadAll(resp.Body)
			resp.Body.Close()
			// acceptable only when the running gateway holds the encryption key the token was made under, and
			// then: an encrypt-only token when no signing key is configured, a signed one under the configured key
			want := kc.enc == enc && ((name == "encrypt-only" && sk == "") || name == "signed under the configured key")
			r.Count(fmt.Sprintf("binary:%v:%d:%d:%s", kc.enable, len(kc.enc), len(sk), name))
			r.Dist("binary:signing-key-len-" + fmt.Sprint(len(sk)))
			rep := fmt.Sprintf("real binary, enableusertoken: %v, usertokenencryptionkey of %d characters, usertokensigningkey of %d characters; token: %s → %d %q\n", kc.enable, len(kc.enc), len(sk), name, resp.StatusCode, b)
			if resp.StatusCode == 200 && !want {
				r.Violation("c15-accepts", "claims returned for a token that does not decrypt/verify under the configured keys, or is expired, or names another issuer", rep)
			} else if resp.StatusCode != 200 && want {
				r.Violation("c15-fresh", "a token made under the configured keys is refused by the running gateway", rep)
			} else if resp.StatusCode != 200 && (strings.Contains(string(b), "alice") || strings.Contains(string(b), "\"sub\"")) {
				r.Violation("c15-disclose", "claims disclosed with a status other than 200", rep)
			}
		}
		p.stop()
	}
}
