package main

import (
	"context"
	"encoding/json"
	"fmt"
	"io"
	"net/http"
	"net/http/cookiejar"
	"net/http/httptest"
	"net/url"
	"os"
	"path/filepath"
	"strings"
	"time"

	"golang.org/x/oauth2"

	"github.com/bolkedebruin/rdpgw/cmd/rdpgw/identity"
	"github.com/bolkedebruin/rdpgw/cmd/rdpgw/protocol"
	"github.com/bolkedebruin/rdpgw/cmd/rdpgw/security"
	"github.com/bolkedebruin/rdpgw/cmd/rdpgw/web"
	"github.com/coreos/go-oidc/v3/oidc"
)

func init() { register("C12", runC12) }

type dlCase struct {
	mode          string
	hosts         []string
	split, noUser bool
	tmpl          string
	auth          bool
	user, at, ip  string
	idpSub        string
	param         *string
	param2        *string // a second host parameter (only the first one counts)
	paramIsToken  string  // "", valid, expired, forged, wrong-issuer
	qsub          *string
}

func rdpLines(body string) map[string]string {
	m := map[string]string{}
	for _, ln := range strings.Split(body, "\r\n") {
		p := strings.SplitN(ln, ":", 3)
		if len(p) == 3 {
			m[p[0]] = p[2]
		}
	}
	return m
}

func jwtPayload(tok string) map[string]interface{} {
	parts := strings.Split(tok, ".")
	if len(parts) != 3 {
		return nil
	}
	b, ok := b64dec(parts[1])
	if !ok {
		return nil
	}
	var m map[string]interface{}
	json.Unmarshal(b, &m)
	return m
}

func runC12(r *Run) {
	r.rule = "download requests over host-selection modes × host lists (with/without the user placeholder) × host parameter (absent, listed, unlisted, valid/expired/forged/wrong-issuer query token) × user names (with/without @domain) × template settings × client addresses × session states (unauthenticated, authenticated), through the real Authenticated + HandleDownload handlers with the real token generators; the issued host and token are then presented to the real CheckPAACookie/CheckSession/CheckHost from the same address; non-trivial = authenticated requests; distinct by full case"
	rng := r.Rng
	r.TierRan("api")
	idp := setupSecurity()
	_, oauthCfg := idp.provider()
	verifier := security.OIDCProvider.Verifier(&oidc.Config{ClientID: idp.clientID})
	o := (&web.OIDCConfig{OAuth2Config: &oauthCfg, OIDCTokenVerifier: verifier}).New()
	gwURL, _ := url.Parse("https://gw.example.com:443/callback")
	issuer := "query-issuer"
	modes := []string{"roundrobin", "unsigned", "any", "signed", ""}
	hostSets := [][]string{{"RDS01.Corp.example.com:3389"}, {"Desktop-" + placeholder + ".Corp:3390", "10.0.0.1:3389"}, {"10.0.0.1:3389"}, {"10.0.0.1:3389", "rdp.example.com:3389"}, {"host-" + placeholder + ".corp:3389"}, {"10.0.0.1:3389", "pc-" + placeholder + ":3390", "10.0.0.9:3389"}, {placeholder + ":3389"}}
	users := []string{"alice", "bob@example.com", "carol@CORP@x", "d", "ü.ser@dom"}
	tmpls := []string{"", "", "{{ username }}", "CORP\\{{ username }}", "{{ username }}@corp", "fixed-name", "{{ token }}:{{ username }}"}
	n := r.N(2000, 60000)
	var cases []*dlCase
	for i := 0; i < n; i++ {
		c := &dlCase{mode: modes[rng.Intn(len(modes))], hosts: hostSets[rng.Intn(len(hostSets))], split: rng.Intn(2) == 0, noUser: rng.Intn(6) == 0,
			tmpl: tmpls[rng.Intn(len(tmpls))], auth: rng.Intn(8) != 0, user: users[rng.Intn(len(users))], ip: []string{"192.0.2.1", "2001:db8::7", "10.1.1.1"}[rng.Intn(3)]}
		c.at = fmt.Sprintf("at-c12-%d", i)
		if i%9 == 4 {
			// identity providers hand out long (JWT) access tokens; the gateway's token embeds them
			c.at += "-" + strings.Repeat("0123456789abcdef", []int{40, 60, 100}[i%3])
		}
		c.idpSub = c.user
		if rng.Intn(5) == 0 {
			c.idpSub = "sub-" + fmt.Sprint(rng.Intn(1000))
		}
		idp.setToken(c.at, "ok:"+c.idpSub)
		if rng.Intn(4) != 0 {
			var p string
			switch rng.Intn(5) {
			case 0:
				p = c.hosts[rng.Intn(len(c.hosts))]
			case 1:
				p = "evil.example:3389"
			case 2:
				p = strings.Replace(c.hosts[rng.Intn(len(c.hosts))], placeholder, c.user, 1)
			case 3:
				p = ""
			default:
				// a query token
				sub := c.hosts[rng.Intn(len(c.hosts))]
				if rng.Intn(4) == 0 {
					sub = "evil.example:3389"
				}
				now := time.Now().Unix()
				kind := []string{"valid", "valid", "expired", "forged", "wrong-issuer"}[rng.Intn(5)]
				claims := map[string]interface{}{"sub": sub, "iss": issuer, "exp": now + 300}
				key := []byte(keyQuery)
				switch kind {
				case "expired":
					claims["exp"] = now - 600
				case "forged":
					key = []byte("another-query-key-0123456789abcd")
				case "wrong-issuer":
					claims["iss"] = "someone-else"
				}
				p = signCompact(map[string]interface{}{"alg": "HS256"}, claims, "HS256", key)
				c.paramIsToken = kind
				if kind == "valid" {
					c.qsub = &sub
				}
			}
			c.param = &p
			if rng.Intn(4) == 0 {
				q := c.hosts[rng.Intn(len(c.hosts))]
				if rng.Intn(2) == 0 {
					q = "second.example:3389"
				}
				c.param2 = &q
			}
		}
		cases = append(cases, c)
	}
	type dlObs struct {
		status int
		body   string
		loc    string
		pan    string
		accept string // "", "1", "0"
	}
	obsv := make([]dlObs, len(cases))
	var lines []string
	for i, c := range cases {
		h := (&web.Config{PAATokenGenerator: security.GeneratePAAToken, QueryInfo: security.QueryInfo, QueryTokenIssuer: issuer,
			Hosts: c.hosts, HostSelection: c.mode, GatewayAddress: gwURL,
			RdpOpts: web.RdpOpts{UsernameTemplate: c.tmpl, SplitUserDomain: c.split, NoUsername: c.noUser}}).NewHandler()
		id := identity.NewUser()
		id.SetUserName(c.user)
		id.SetAuthenticated(c.auth)
		id.SetAttribute(identity.AttrClientIp, c.ip)
		id.SetAttribute(identity.AttrAccessToken, c.at)
		// as EnrichContext leaves it behind a reverse proxy: the peer is the proxy, not the client
		id.SetAttribute(identity.AttrRemoteAddr, "198.51.100.77:41000")
		id.SetAttribute(identity.AttrProxies, []string{"198.51.100.77"})
		q := ""
		if c.param != nil {
			q = "?host=" + url.QueryEscape(*c.param)
			if c.param2 != nil {
				q += "&host=" + url.QueryEscape(*c.param2)
			}
		}
		req := httptest.NewRequest("GET", "http://gw.example.com/connect"+q, nil)
		req = identity.AddToRequestCtx(id, req)
		rec := httptest.NewRecorder()
		func() {
			defer func() {
				if rc := recover(); rc != nil {
					obsv[i].pan = fmt.Sprint(rc)
				}
			}()
			o.Authenticated(http.HandlerFunc(h.HandleDownload)).ServeHTTP(rec, req)
		}()
		obsv[i].status = rec.Code
		obsv[i].body = rec.Body.String()
		obsv[i].loc = rec.Header().Get("Location")
		param, qsub := "none", "none"
		if c.param != nil {
			param = hx([]byte(*c.param))
		}
		if c.qsub != nil {
			qsub = hx([]byte(*c.qsub))
		}
		// which entry did round-robin pick? infer it from the file (membership is checked below)
		pick := 0
		if rec.Code == 200 {
			fa := rdpLines(obsv[i].body)["full address"]
			for k, e := range c.hosts {
				if strings.Replace(e, placeholder, c.user, 1) == fa {
					pick = k
				}
			}
		}
		lines = append(lines, fmt.Sprintf("download mode=%s hosts=%s split=%s tmpl=%s nouser=%s gw=%s auth=%s user=%s at=%s ip=%s param=%s qsub=%s pick=%d idpsub=%s verify=1 useip=%s",
			hx([]byte(c.mode)), hxStrs(c.hosts), b01(c.split), hx([]byte(c.tmpl)), b01(c.noUser), hx([]byte(gwURL.Host)), b01(c.auth), hx([]byte(c.user)), hx([]byte(c.at)), hx([]byte(c.ip)), param, qsub, pick, hx([]byte(c.idpSub)), hx([]byte(c.ip))))
		// present the issued host and token to the gateway's own tunnel checks, from the same address
		if rec.Code == 200 {
			ls := rdpLines(obsv[i].body)
			security.HostSelection = c.mode
			security.Hosts = c.hosts
			security.VerifyClientIP = true
			uid := identity.NewUser()
			uid.SetAttribute(identity.AttrClientIp, c.ip)
			t := &protocol.Tunnel{User: uid, RemoteAddr: c.ip + ":50000"}
			ctx := context.WithValue(ctxWithIdentity(uid), protocol.CtxTunnel, t)
			ok1, _ := security.CheckPAACookie(ctx, ls["gatewayaccesstoken"])
			ok2 := false
			if ok1 {
				ok2, _ = security.CheckSession(security.CheckHost)(ctx, ls["full address"])
			}
			obsv[i].accept = b01(ok1 && ok2)
			if ok1 && ok2 && len(c.at) > 200 {
				// the same through the packet loop's own parsing of the cookie (TUNNEL_CREATE)
				reads := [][]byte{mkPacket(tHandshake, bodyHandshake(1, 0, 0, 2)), mkPacket(tTunnel, bodyTunnelCreate(0, 1, append(utf16le(ls["gatewayaccesstoken"]), 0, 0)))}
				ir := runProcessWith(&gwCfg{token: true}, reads, nil, func(t *protocol.Tunnel, g *protocol.Gateway) context.Context {
					g.CheckPAACookie = security.CheckPAACookie
					t.User.SetAttribute(identity.AttrClientIp, c.ip)
					return context.WithValue(ctxWithIdentity(t.User), protocol.CtxTunnel, t)
				})
				if len(ir.elems) < 2 || len(ir.elems[1].writes) != 1 || hx(ir.elems[1].writes[0][10:14]) != "00000000" {
					obsv[i].accept = "0"
					obsv[i].body += "\n(refused at TUNNEL_CREATE by the packet loop: " + implModelCanon(ir, true) + ")"
				}
			}
		}
		r.Dist("mode:" + c.mode)
	}
	ans := r.Oracle(lines)
	drift := 0
	first := ""
	for i, c := range cases {
		ob := obsv[i]
		key := ""
		if c.auth {
			key = lines[i]
		}
		r.Count(key)
		p := "<absent>"
		if c.param != nil {
			p = *c.param
			if c.param2 != nil {
				p += "\" then a second host parameter \"" + *c.param2
			}
		}
		rep := fmt.Sprintf("mode=%q hosts=%q split=%v template=%q nousername=%v\nsession: authenticated=%v user=%q access token=%q address=%q (IdP subject %q)\nhost parameter: %q (%s)\nresponse: %d location=%q\n%s\nmodel: %s\n", c.mode, c.hosts, c.split, c.tmpl, c.noUser, c.auth, c.user, c.at, c.ip, c.idpSub, p, c.paramIsToken, ob.status, ob.loc, ob.body, ans[i])
		if i < 2 {
			r.Sample(map[string]interface{}{"case": strings.SplitN(rep, "\nresponse", 2)[0], "status": ob.status, "model": ans[i]})
		}
		if ob.pan != "" {
			r.Violation("c12-panic", "the download handler panicked: "+ob.pan, rep)
			continue
		}
		hasToken := strings.Contains(ob.body, "gatewayaccesstoken")
		if !c.auth {
			if ob.status != 302 || hasToken {
				r.Violation("c12-unauth", "a session that did not complete the login was not redirected to the identity provider or received a token", rep)
			}
			continue
		}
		a := ans[i]
		switch {
		case ob.status == 200:
			ls := rdpLines(ob.body)
			cl := jwtPayload(ls["gatewayaccesstoken"])
			host := ls["full address"]
			// host policy (membership, independent of the model's pick)
			allowed := false
			switch c.mode {
			case "any":
				allowed = c.param != nil && host == strings.Replace(*c.param, placeholder, c.user, 1)
			case "signed":
				allowed = c.qsub != nil && contains(c.hosts, *c.qsub) && host == strings.Replace(*c.qsub, placeholder, c.user, 1)
			case "unsigned":
				allowed = c.param != nil && contains(c.hosts, *c.param) && host == strings.Replace(*c.param, placeholder, c.user, 1)
			default:
				for _, e := range c.hosts {
					if strings.Replace(e, placeholder, c.user, 1) == host {
						allowed = true
					}
				}
			}
			if !allowed {
				r.Violation("c12-host-policy", "the file names a host the selection policy does not yield", rep)
				continue
			}
			if ls["gatewayhostname"] != gwURL.Host || ls["gatewaycredentialssource"] != "5" || ls["gatewayprofileusagemethod"] != "1" || ls["gatewayusagemethod"] != "1" {
				r.Violation("c12-forced", "the file does not name the configured gateway / cookie credential source and usage", rep)
				continue
			}
			wantUser := c.user
			if c.split {
				wantUser = strings.SplitN(c.user, "@", 2)[0]
			}
			gs := func(k string) string { s, _ := cl[k].(string); return s }
			if cl == nil || gs("remoteServer") != host || gs("sub") != wantUser || gs("clientIp") != c.ip || gs("accessToken") != c.at {
				r.Violation("c12-claims", "the token's claims are not exactly the file's host, the session's user name, the requesting address and the session's access token", rep+fmt.Sprintf("claims: %v\n", cl))
				continue
			}
			if !strings.HasPrefix(a, "file ") {
				r.Violation("c12-issued", "a file was issued where the model refuses", rep)
				continue
			}
			m := kv(a)
			// issued host and token accepted by the gateway's own checks (round-robin, unsigned, any)
			acceptRequired := c.mode == "roundrobin" || c.mode == "unsigned" || c.mode == "any"
			if acceptRequired && ob.accept != "1" {
				entryHasPh := false
				for _, e := range c.hosts {
					if strings.Contains(e, placeholder) && strings.Replace(e, placeholder, c.user, 1) == host {
						entryHasPh = true
					}
				}
				if entryHasPh && c.idpSub != c.user && m["accept"] == "0" {
					r.Violation("c12-issue-accept-sub-mismatch", "an issued file with a placeholder host is refused by the tunnel checks because they substitute the IdP subject, not the session's user name", rep)
				} else {
					r.Violation("c12-issue-refused", "the issued host and token, presented unmodified from the same address, are refused by the gateway's own tunnel checks", rep)
				}
				continue
			}
			want := fmt.Sprintf("host=%s", hx([]byte(host)))
			uname, hasU := ls["username"]
			wu := "none"
			if hasU {
				wu = hx([]byte(uname))
			}
			dname, hasD := ls["domain"]
			wd := "none"
			if hasD {
				wd = hx([]byte(dname))
			}
			// user-token templates put an unpredictable token into the name: compare the shape only
			if strings.Contains(c.tmpl, "{{ token }}") {
				wu = m["username"]
			}
			if !strings.Contains(a, want) || m["username"] != wu || m["domain"] != wd || (acceptRequired && m["accept"] != ob.accept) {
				drift++
				if first == "" {
					first = rep
				}
			}
		default:
			if hasToken {
				r.Violation("c12-token-on-error", "an error answer carries a token", rep)
				continue
			}
			if fmt.Sprint(ob.status) != a {
				if strings.HasPrefix(a, "file ") {
					drift++
					if first == "" {
						first = rep
					}
				} else {
					drift++
					if first == "" {
						first = rep
					}
				}
			}
		}
	}
	c12Roaming(r, idp, &oauthCfg, verifier, gwURL)
	c12Replay(r, idp, gwURL)
	r.extra["model_disagreements"] = drift
	if drift > 0 && !r.HasViolation() {
		r.Unproven(fmt.Sprintf("correspondence Download.download = HandleDownload broke on %d cases with no policy, claim or acceptance failure found", drift), first)
	}
}

// c12Roaming: the whole chain EnrichContext → Authenticated → HandleCallback / HandleDownload with
// a session store: a browser logs in from one address and asks for files from others. Each file's
// token must name the address of the request that asked for it (theorem C04.mint_records), not the
// address of the login or of an earlier download.
func c12Roaming(r *Run, idp *fakeIdP, oauthCfg *oauth2.Config, verifier *oidc.IDTokenVerifier, gwURL *url.URL) {
	dir := filepath.Join(verifRoot, "work", fmt.Sprintf("c12-sessions-%d", os.Getpid()))
	os.MkdirAll(dir, 0o700)
	defer os.RemoveAll(dir)
	oldTmp := os.Getenv("TMPDIR")
	os.Setenv("TMPDIR", dir)
	defer os.Setenv("TMPDIR", oldTmp)
	n := 0
	for _, store := range []string{"cookie", "file"} {
		web.InitStore([]byte("0123456789abcdef0123456789abcdef"), []byte("fedcba9876543210fedcba9876543210"), store, 0)
		o := (&web.OIDCConfig{OAuth2Config: oauthCfg, OIDCTokenVerifier: verifier}).New()
		h := (&web.Config{PAATokenGenerator: security.GeneratePAAToken, Hosts: []string{"10.0.0.1:3389"}, HostSelection: "roundrobin", GatewayAddress: gwURL}).NewHandler()
		mux := http.NewServeMux()
		mux.Handle("/connect", o.Authenticated(http.HandlerFunc(h.HandleDownload)))
		mux.HandleFunc("/callback", o.HandleCallback)
		srv := httptest.NewServer(web.EnrichContext(mux))
		for _, route := range [][]string{{"192.0.2.10", "198.51.100.7", "192.0.2.10", "198.51.100.7"}, {"2001:db8::1", "2001:db8::1", "203.0.113.5"}, {"10.1.1.1, 10.0.0.254", "10.1.1.2, 10.0.0.254", "10.1.1.1"}} {
			n++
			jar, _ := cookiejar.New(nil)
			cl := &http.Client{Jar: jar, CheckRedirect: func(*http.Request, []*http.Request) error { return http.ErrUseLastResponse }, Timeout: 10 * time.Second}
			get := func(u, xff string) (int, string, string) {
				req, _ := http.NewRequest("GET", u, nil)
				req.Header.Set("X-Forwarded-For", xff)
				resp, err := cl.Do(req)
				if err != nil {
					return -1, err.Error(), ""
				}
				defer resp.Body.Close()
				b, _ := io.ReadAll(resp.Body)
				return resp.StatusCode, string(b), resp.Header.Get("Location")
			}
			login := route[0]
			st, _, loc := get(srv.URL+"/connect", login)
			lu, err := url.Parse(loc)
			if st != 302 || err != nil || lu.Query().Get("state") == "" {
				r.Inconclusive()
				continue
			}
			code, at := fmt.Sprintf("c12-code-%d", n), fmt.Sprintf("at-c12-roam-%d", n)
			idp.setToken(at, "ok:alice")
			idp.mu.Lock()
			idp.codes[code] = codeResp{accessToken: at, idToken: idp.idToken(idp.stdClaims(map[string]interface{}{"preferred_username": "alice"}), nil)}
			idp.mu.Unlock()
			if st, _, _ := get(srv.URL+"/callback?state="+url.QueryEscape(lu.Query().Get("state"))+"&code="+code, login); st != 302 {
				r.Inconclusive()
				continue
			}
			for k, addr := range route[1:] {
				st, body, _ := get(srv.URL+"/connect", addr)
				r.Count(fmt.Sprintf("roaming:%s:%d:%d", store, n, k))
				r.Dist("roaming:" + store)
				if st != 200 {
					r.Violation("c12-roaming-refused", "a logged-in session does not get a connection file from another address", fmt.Sprintf("session store %s; login from %q; download %d from %q: status %d\n", store, login, k+1, addr, st))
					continue
				}
				cl := jwtPayload(rdpLines(body)["gatewayaccesstoken"])
				want := strings.TrimSpace(strings.Split(addr, ",")[0])
				got, _ := cl["clientIp"].(string)
				if got != want {
					r.Violation("c12-claims", "the token's claims are not exactly the file's host, the session's user name, the requesting address and the session's access token",
						fmt.Sprintf("session store %s; login from X-Forwarded-For %q; downloads from %q; download %d was requested from %q but its token names client address %q\n", store, login, route[1:], k+1, addr, got))
				}
			}
		}
		srv.Close()
	}
}

// c12Replay: what the file is for. A file served to a logged-in session is presented to the real tunnel
// handler over each transport: from the address it was issued to, the tunnel to the file's host opens; from
// another address it does not.
func c12Replay(r *Run, idp *fakeIdP, gwURL *url.URL) {
	host := newHostListener()
	defer host.close()
	web.InitStore([]byte("0123456789abcdef0123456789abcdef"), []byte("fedcba9876543210fedcba9876543210"), "cookie", 0)
	security.HostSelection = "roundrobin"
	security.Hosts = []string{host.addr}
	security.VerifyClientIP = true
	idp.setToken("at-c12-replay", "ok:alice")
	id := identity.NewUser()
	id.SetUserName("alice")
	id.SetAuthenticated(true)
	id.SetAttribute(identity.AttrClientIp, "203.0.113.77")
	id.SetAttribute(identity.AttrAccessToken, "at-c12-replay")
	h := (&web.Config{PAATokenGenerator: security.GeneratePAAToken, Hosts: []string{host.addr}, HostSelection: "roundrobin", GatewayAddress: gwURL}).NewHandler()
	rec := httptest.NewRecorder()
	h.HandleDownload(rec, identity.AddToRequestCtx(id, httptest.NewRequest("GET", "http://gw.example.com/connect", nil)))
	ls := rdpLines(rec.Body.String())
	tok, full := ls["gatewayaccesstoken"], ls["full address"]
	if rec.Code != 200 || tok == "" || full != host.addr {
		r.Inconclusive()
		return
	}
	gws := startGateway(c07Gateway(0))
	defer gws.close()
	hn, port := splitHostPort(full)
	for _, kind := range []string{"ws", "legacy"} {
		for _, from := range []string{"203.0.113.77", "203.0.113.78"} {
			host.poll()
			host.reset()
			hdr := "X-Forwarded-For: " + from + "\r\n"
			var cl gwClient
			var pr *packetReader
			connID := "{" + randHex(8) + "}"
			if kind == "ws" {
				if w, err := dialWS(gws.addr, connID, hdr); err == nil {
					cl, pr = w, readWS(w, 10*time.Second)
				}
			} else if l, err := dialLegacy(gws.addr, connID, hdr); err == nil {
				cl, pr = l, readLegacy(l, 10*time.Second)
			}
			if cl == nil {
				r.Inconclusive()
				continue
			}
			for _, pk := range [][]byte{mkPacket(tHandshake, bodyHandshake(1, 0, 0, 2)), mkPacket(tTunnel, bodyTunnelCreate(0, 1, append(utf16le(tok), 0, 0))),
				mkPacket(tAuth, bodyTunnelAuth(append(utf16le("PC"), 0, 0))), mkPacket(tChannel, bodyChannel(port, append(utf16le(hn), 0, 0)))} {
				cl.send(pk)
			}
			status := "none"
			deadline := time.Now().Add(5 * time.Second)
			for time.Now().Before(deadline) && status == "none" {
				pk, ended := pr.snapshot()
				for _, p := range pk {
					if len(p) >= 12 && p[0] == 9 {
						status = fmt.Sprintf("0x%08x", uint32(p[8])|uint32(p[9])<<8|uint32(p[10])<<16|uint32(p[11])<<24)
					}
				}
				if ended {
					break
				}
				time.Sleep(2 * time.Millisecond)
			}
			time.Sleep(20 * time.Millisecond)
			host.poll()
			n := len(host.conns)
			pk, _ := pr.snapshot()
			cl.close()
			r.Count("replay:" + kind + ":" + from)
			r.Dist("replay:" + kind)
			rep := fmt.Sprintf("file served to alice at 203.0.113.77 for host %s (roundrobin); presented over the %s transport of the real handler from %s\nresponses: %s; channel response %s; connections at the host: %d\n", full, kind, from, pktsCanon(pk), status, n)
			if kind == "legacy" && len(pk) == 0 {
				r.Inconclusive() // the IN handler's Drain took the first packet
				continue
			}
			if from == "203.0.113.77" && (status != "0x00000000" || n != 1) {
				r.Violation("c12-replay", "a connection file served to a logged-in session does not open the tunnel to its host when presented from the address it was issued to", rep)
			}
			if from != "203.0.113.77" && (status == "0x00000000" || n != 0) {
				r.Violation("c12-binding", "the file's token opens a tunnel from another address than the one it was issued to", rep)
			}
		}
	}
}
