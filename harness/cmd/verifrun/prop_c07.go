package main

import (
	"bufio"
	"bytes"
	"fmt"
	"math/rand"
	"net"
	"os"
	"os/exec"
	"path/filepath"
	"runtime"
	"strconv"
	"strings"
	"sync"
	"sync/atomic"
	"time"

	"github.com/bolkedebruin/rdpgw/cmd/rdpgw/identity"
	"github.com/bolkedebruin/rdpgw/cmd/rdpgw/protocol"
	"github.com/bolkedebruin/rdpgw/cmd/rdpgw/security"
	"github.com/bolkedebruin/rdpgw/cmd/rdpgw/web"
)

func init() {
	register("C07", runC07)
	register("C07-alone", runC07Alone)
}

// ---------------------------------------------------------------------------
// round specification: everything is decided here, from one PRNG, in terms of
// tunnel indices, so that the same round can be rebuilt in a fresh process.

type c07Tun struct {
	idx       int
	kind      string // ws | legacy
	idForm    int
	tokCase   string // own | foreign-token | foreign-host | minted-foreign | shared-user
	other     int    // the tunnel the case refers to
	nUp       int
	nDown     int
	ka        int
	end       string // close | drop | proto | none
	expectOpn bool
}

type c07Ev struct {
	t   int    // tunnel index, −1 for a stray request
	op  string // out in hs tc ta cc up down ka end | stray
	arg int
	sid int // stray: which id variant
}

type c07Spec struct {
	seed  int64
	round int
	maxN  int
	n     int
	burst bool
	storm int  // > 0: every tunnel pumps this many payloads each way at once
	stall bool // storm variant: every other client reads late, through a small receive buffer, and host payloads are large
	tuns  []*c07Tun
	evs   []c07Ev
}

func genC07Spec(seed int64, round int, maxN int, burst bool) *c07Spec {
	rng := rand.New(rand.NewSource(seed*1000003 + int64(round)*7907 + 17))
	s := &c07Spec{seed: seed, round: round, burst: burst, maxN: maxN}
	s.n = 1 + rng.Intn(maxN)
	if round%5 == 0 && maxN >= 2 && s.n < 2 {
		s.n = 2
	}
	for i := 0; i < s.n; i++ {
		t := &c07Tun{idx: i, kind: []string{"ws", "legacy"}[rng.Intn(2)], idForm: rng.Intn(5), tokCase: "own", other: i, expectOpn: true}
		if i > 0 {
			switch rng.Intn(10) {
			case 0:
				t.tokCase = "foreign-token"
			case 1:
				t.tokCase = "foreign-host"
			case 2:
				t.tokCase = "minted-foreign"
			case 3, 4:
				t.tokCase = "shared-user"
			}
			if t.tokCase != "own" {
				t.other = rng.Intn(i)
				// the referenced tunnel must have an identity of its own
				for s.tuns[t.other].tokCase == "shared-user" {
					t.other = s.tuns[t.other].other
				}
			}
		}
		t.expectOpn = t.tokCase == "own" || t.tokCase == "shared-user"
		if t.expectOpn {
			t.nUp = rng.Intn(4)
			t.nDown = rng.Intn(4)
			t.ka = rng.Intn(2)
			t.end = []string{"close", "drop", "proto", "none", "drop"}[rng.Intn(5)]
			if t.end == "close" && t.nUp == 0 {
				t.nUp = 1 // CLOSE_CHANNEL is honoured only in the opened state
			}
		} else {
			t.end = "none"
		}
		s.tuns = append(s.tuns, t)
	}
	// per-tunnel scripts, then a random merge
	scripts := make([][]c07Ev, s.n)
	for i, t := range s.tuns {
		sc := []c07Ev{{t: i, op: "out"}}
		if t.kind == "legacy" {
			sc = append(sc, c07Ev{t: i, op: "in"})
		}
		sc = append(sc, c07Ev{t: i, op: "hs"}, c07Ev{t: i, op: "tc"}, c07Ev{t: i, op: "ta"}, c07Ev{t: i, op: "cc"})
		var traffic []c07Ev
		for k := 0; k < t.nUp; k++ {
			traffic = append(traffic, c07Ev{t: i, op: "up", arg: k})
		}
		for k := 0; k < t.ka; k++ {
			traffic = append(traffic, c07Ev{t: i, op: "ka"})
		}
		// the first client payload goes first so that CLOSE_CHANNEL finds the opened state
		if len(traffic) > 1 {
			rest := traffic[1:]
			rng.Shuffle(len(rest), func(a, b int) { rest[a], rest[b] = rest[b], rest[a] })
		}
		var downs []c07Ev
		for k := 0; k < t.nDown; k++ {
			downs = append(downs, c07Ev{t: i, op: "down", arg: k})
		}
		// merge ups and downs keeping each in order
		for len(traffic)+len(downs) > 0 {
			if len(downs) == 0 || (len(traffic) > 0 && rng.Intn(2) == 0) {
				sc = append(sc, traffic[0])
				traffic = traffic[1:]
			} else {
				sc = append(sc, downs[0])
				downs = downs[1:]
			}
		}
		if t.end != "none" {
			sc = append(sc, c07Ev{t: i, op: "end"})
		}
		scripts[i] = sc
	}
	if burst {
		for _, sc := range scripts {
			s.evs = append(s.evs, sc...)
		}
		return s
	}
	remaining := 0
	for _, sc := range scripts {
		remaining += len(sc)
	}
	for remaining > 0 {
		i := rng.Intn(s.n)
		if len(scripts[i]) == 0 {
			continue
		}
		s.evs = append(s.evs, scripts[i][0])
		scripts[i] = scripts[i][1:]
		remaining--
		if rng.Intn(9) == 0 {
			s.evs = append(s.evs, c07Ev{t: -1, op: "stray", arg: rng.Intn(s.n), sid: rng.Intn(7)})
		}
	}
	return s
}

// genC07Storm: n open tunnels, each pumping m payloads in both directions at the same time.
func genC07Storm(seed int64, round, n, m int, stall bool) *c07Spec {
	rng := rand.New(rand.NewSource(seed*1000003 + int64(round)*7907 + 19))
	s := &c07Spec{seed: seed, round: round, burst: true, storm: m, maxN: n, n: n, stall: stall}
	for i := 0; i < n; i++ {
		t := &c07Tun{idx: i, kind: []string{"ws", "legacy"}[rng.Intn(2)], idForm: rng.Intn(5), tokCase: "own", other: i, expectOpn: true, nUp: m, nDown: m, end: "none"}
		if stall && i%2 == 0 && i%4 != 0 {
			t.kind = "legacy" // the legacy transport hands packets to the socket without a buffer of its own
		}
		s.tuns = append(s.tuns, t)
		s.evs = append(s.evs, c07Ev{t: i, op: "out"})
		if t.kind == "legacy" {
			s.evs = append(s.evs, c07Ev{t: i, op: "in"})
		}
		s.evs = append(s.evs, c07Ev{t: i, op: "hs"}, c07Ev{t: i, op: "tc"}, c07Ev{t: i, op: "ta"}, c07Ev{t: i, op: "cc"})
		for k := 0; k < m; k++ {
			s.evs = append(s.evs, c07Ev{t: i, op: "up", arg: k})
		}
		for k := 0; k < m; k++ {
			s.evs = append(s.evs, c07Ev{t: i, op: "down", arg: k})
		}
	}
	return s
}

func (s *c07Spec) String() string {
	if s.storm > 0 {
		return fmt.Sprintf("VERIF_SEED=%d round=%d (gateway idle timeout %d min): %d open tunnels, each relaying %d tagged payloads in both directions at the same time (slow readers with large host payloads: %v)\n", s.seed, s.round, c07Idle(s.round), s.n, s.storm, s.stall)
	}
	var b strings.Builder
	fmt.Fprintf(&b, "VERIF_SEED=%d round=%d tunnels=%d concurrent-drivers=%v gateway-idle-timeout=%dmin\n", s.seed, s.round, s.n, s.burst, c07Idle(s.round))
	for _, t := range s.tuns {
		fmt.Fprintf(&b, "  tunnel %d: transport=%s id-form=%d token-case=%s(ref %d) client-payloads=%d host-payloads=%d keepalives=%d end=%s\n", t.idx, t.kind, t.idForm, t.tokCase, t.other, t.nUp, t.nDown, t.ka, t.end)
	}
	b.WriteString("  schedule:")
	for _, e := range s.evs {
		if e.t < 0 {
			fmt.Fprintf(&b, " stray(id-of-%d,variant %d)", e.arg, e.sid)
		} else {
			fmt.Fprintf(&b, " %d.%s", e.t, e.op)
		}
	}
	b.WriteString("\n")
	return b.String()
}

// ---------------------------------------------------------------------------
// execution against the real handler

type c07Live struct {
	t        *c07Tun
	connID   string
	user     string // the IdP subject this tunnel's requests belong to
	xff      string
	token    string
	askHost  string
	host     *hostListener
	ws       *wsClient
	leg      *legacyClient
	out      net.Conn
	outBr    *bufio.Reader
	pr       *packetReader
	outConn  int
	inConn   int
	key      int
	hc       *hostConn
	upSent   []byte
	downSent []byte
	broken   string
	ended    bool
	cookie   string // session cookie sent with this tunnel's requests ("" = none)
	mu       sync.Mutex
}

type c07Stray struct {
	conn     int
	id       string
	accepted bool
	xff      string
}

type c07Round struct {
	spec    *c07Spec
	gw      *gwServer
	live    []*c07Live
	only    int
	connCtr int
	trace   []string // model events
	strays  []c07Stray
	tokens  map[string][3]string // cookie → host, ip, sub
	hosts   []string             // security.Hosts
	mu      sync.Mutex
}

func c07ID(form int, rng *rand.Rand, base string) string {
	g := fmt.Sprintf("%s-%s-%s-%s-%s", randHexR(rng, 4), randHexR(rng, 2), randHexR(rng, 2), randHexR(rng, 2), randHexR(rng, 6))
	switch form {
	case 0:
		return "{" + strings.ToUpper(g) + "}" // the form mstsc sends
	case 1:
		return g
	case 2: // ids that agree on a long prefix with another tunnel's id
		if base != "" {
			return base[:len(base)-2] + randHexR(rng, 1)[:1] + base[len(base)-1:]
		}
		return "{" + g + "}"
	case 3:
		return "{" + g + "}-" + fmt.Sprint(rng.Intn(100))
	default:
		return "c" + randHexR(rng, 2)
	}
}

func randHexR(rng *rand.Rand, n int) string {
	b := make([]byte, n)
	rng.Read(b)
	return hx(b)
}

func c07Payload(dir string, idx, seq int, seed int64, round int) []byte {
	rng := rand.New(rand.NewSource(seed*31 + int64(round)*131 + int64(idx)*7 + int64(seq)*3 + int64(len(dir))))
	return []byte(fmt.Sprintf("<%s%d#%d:%s>", dir, idx, seq, randHexR(rng, 1+rng.Intn(12))))
}

// c07Big is a large payload every 16 bytes of which name the sending side.
func c07Big(dir string, idx, seq int) []byte {
	unit := []byte(fmt.Sprintf("<%s%d#%d:%07d>", dir, idx, seq, 0))
	var b []byte
	for len(b) < 3900 {
		b = append(b, unit...)
	}
	return b
}

func (rd *c07Round) nextConn() int {
	rd.mu.Lock()
	defer rd.mu.Unlock()
	rd.connCtr++
	return rd.connCtr
}
func (rd *c07Round) emit(ev string) { rd.mu.Lock(); rd.trace = append(rd.trace, ev); rd.mu.Unlock() }

func c07Mint(user, host, xff string) string {
	req := addrSpec{peer: "198.51.100.7:4000", xff: []string{xff}}.request()
	id, _ := enrich(req)
	id.SetAttribute(identity.AttrAccessToken, "at-"+user)
	tok, err := security.GeneratePAAToken(ctxWithIdentity(id), user, host)
	if err != nil {
		panic("mint: " + err.Error())
	}
	return tok
}

// setupC07Round builds listeners, identities and tokens for every tunnel of the
// spec (also those that will not run when only ≥ 0).
func setupC07Round(spec *c07Spec, gw *gwServer, idp *fakeIdP, only int) *c07Round {
	rd := &c07Round{spec: spec, gw: gw, only: only, tokens: map[string][3]string{}}
	idRng := rand.New(rand.NewSource(spec.seed*97 + int64(spec.round)*13 + 5))
	rd.hosts = []string{"127.0.0.1:{{ preferred_username }}"}
	for _, t := range spec.tuns {
		l := &c07Live{t: t, host: newHostListener()}
		_, port := splitHostPort(l.host.addr)
		l.user = strconv.Itoa(port)
		l.xff = fmt.Sprintf("10.7.%d.%d", t.idx/250, t.idx%250+1)
		base := ""
		if t.idx > 0 {
			base = rd.live[idRng.Intn(t.idx)].connID
		}
		l.connID = c07ID(t.idForm, idRng, base)
		for _, o := range rd.live { // identifiers are distinct by hypothesis of the property
			if o.connID == l.connID {
				l.connID += "x"
			}
		}
		rd.live = append(rd.live, l)
	}
	for _, l := range rd.live {
		idp.setToken("at-"+l.user, "ok:"+l.user)
	}
	for _, l := range rd.live {
		o := rd.live[l.t.other]
		switch l.t.tokCase {
		case "own":
			l.token, l.askHost = c07Mint(l.user, l.host.addr, l.xff), l.host.addr
			rd.tokens[l.token] = [3]string{l.host.addr, l.xff, l.user}
		case "foreign-token": // another tunnel's token, presented from this tunnel's address
			l.token, l.askHost = c07Mint(o.user, o.host.addr, o.xff), o.host.addr
			rd.tokens[l.token] = [3]string{o.host.addr, o.xff, o.user}
		case "foreign-host": // own token, another tunnel's host
			l.token, l.askHost = c07Mint(l.user, l.host.addr, l.xff), o.host.addr
			rd.tokens[l.token] = [3]string{l.host.addr, l.xff, l.user}
		case "minted-foreign": // a token this user minted for another user's host
			l.token, l.askHost = c07Mint(l.user, o.host.addr, l.xff), o.host.addr
			rd.tokens[l.token] = [3]string{o.host.addr, l.xff, l.user}
		case "shared-user": // the same user, access token and web session (cookie) as another tunnel; a second host, an address of its own
			l.user = o.user
			if o.cookie == "" {
				o.cookie = c07SessionCookie(gw.addr)
			}
			l.cookie = o.cookie
			rd.hosts = append(rd.hosts, l.host.addr)
			l.token, l.askHost = c07Mint(l.user, l.host.addr, l.xff), l.host.addr
			rd.tokens[l.token] = [3]string{l.host.addr, l.xff, l.user}
		}
	}
	security.Hosts = rd.hosts
	security.HostSelection = "roundrobin"
	security.VerifyClientIP = true
	return rd
}

func (rd *c07Round) closeAll() {
	for _, l := range rd.live {
		if l.ws != nil {
			l.ws.close()
		}
		if l.leg != nil {
			l.leg.close()
		} else if l.out != nil {
			l.out.Close()
		}
		l.host.close()
	}
}

func (l *c07Live) startReader() {
	l.mu.Lock()
	defer l.mu.Unlock()
	if l.pr != nil {
		return
	}
	if l.ws != nil {
		if tc, ok := l.ws.c.(*net.TCPConn); ok {
			tc.SetReadBuffer(1 << 20)
		}
		l.pr = readWS(l.ws, 90*time.Second)
	} else if l.leg != nil {
		if tc, ok := l.leg.out.(*net.TCPConn); ok {
			tc.SetReadBuffer(1 << 20)
		}
		l.pr = readLegacy(l.leg, 90*time.Second)
	}
}

func (l *c07Live) reader() *packetReader { l.mu.Lock(); defer l.mu.Unlock(); return l.pr }

func (l *c07Live) send(p []byte) {
	if l.ws != nil {
		l.ws.send(p)
	} else if l.leg != nil {
		l.leg.send(p)
	}
}

// clientView splits what the client received into response packets and relayed bytes.
func (l *c07Live) clientView() (resps []string, down []byte) {
	pr := l.reader()
	if pr == nil {
		return nil, nil
	}
	pk, _ := pr.snapshot()
	for _, p := range pk {
		if len(p) >= 10 && p[0] == tData && p[1] == 0 {
			down = append(down, p[10:]...)
		} else {
			resps = append(resps, hx(p))
		}
	}
	return
}

func (rd *c07Round) hdr(l *c07Live) string {
	h := "X-Forwarded-For: " + l.xff + "\r\n"
	if l.cookie != "" {
		h += "Cookie: " + l.cookie + "\r\n"
	}
	return h
}

// c07SessionCookie makes a plain request and returns the session cookie the gateway sets.
func c07SessionCookie(addr string) string {
	c, err := net.DialTimeout("tcp", addr, 2*time.Second)
	if err != nil {
		return ""
	}
	defer c.Close()
	c.SetDeadline(time.Now().Add(2 * time.Second))
	fmt.Fprintf(c, "GET /remoteDesktopGateway/ HTTP/1.1\r\nHost: x\r\nConnection: close\r\n\r\n")
	br := bufio.NewReader(c)
	for {
		line, err := br.ReadString('\n')
		if err != nil || line == "\r\n" {
			return ""
		}
		if strings.HasPrefix(strings.ToLower(line), "set-cookie:") {
			v := strings.TrimSpace(line[len("set-cookie:"):])
			if i := strings.IndexByte(v, ';'); i >= 0 {
				v = v[:i]
			}
			return v
		}
	}
}

func (rd *c07Round) reqEvent(conn int, m, w string, id, xff string) string {
	return fmt.Sprintf("R%d.%s.%s.%s.-.%s", conn, m, w, hx([]byte(id)), hx([]byte(xff)))
}

func waitFor(d time.Duration, f func() bool) bool {
	deadline := time.Now().Add(d)
	for {
		if f() {
			return true
		}
		if time.Now().After(deadline) {
			return false
		}
		time.Sleep(time.Millisecond)
	}
}

func (rd *c07Round) exec(e c07Ev) {
	if e.t < 0 {
		rd.execStray(e)
		return
	}
	l := rd.live[e.t]
	if rd.only >= 0 && e.t != rd.only {
		return
	}
	if l.broken != "" && e.op != "end" {
		return
	}
	spec := rd.spec
	switch e.op {
	case "out":
		c := rd.nextConn()
		if l.t.kind == "ws" {
			rd.emit(rd.reqEvent(c, "o", "w", l.connID, l.xff))
			w, err := dialWS(rd.gw.addr, l.connID, rd.hdr(l))
			if err != nil {
				l.broken = "websocket upgrade: " + err.Error()
				return
			}
			l.ws, l.outConn, l.inConn, l.key = w, c, c, c
			if spec.stall && l.t.idx%2 == 0 {
				if tc, ok := w.c.(*net.TCPConn); ok {
					tc.SetReadBuffer(4096)
				}
			} else {
				l.startReader()
			}
		} else {
			rd.emit(rd.reqEvent(c, "o", "l", l.connID, l.xff))
			out, br, err := dialLegacyOut(rd.gw.addr, l.connID, rd.hdr(l))
			if err != nil {
				l.broken = "legacy OUT: " + err.Error()
				return
			}
			l.out, l.outBr, l.outConn, l.key = out, br, c, c
		}
	case "in":
		c := rd.nextConn()
		rd.emit(rd.reqEvent(c, "i", "l", l.connID, l.xff))
		in, ibr, err := dialLegacyIn(rd.gw.addr, l.connID, rd.hdr(l))
		if err != nil {
			l.broken = "legacy IN: " + err.Error()
			return
		}
		l.inConn = c
		l.leg = &legacyClient{out: l.out, outBr: l.outBr, in: in, inBr: ibr}
		if spec.stall && l.t.idx%2 == 0 {
			if tc, ok := l.out.(*net.TCPConn); ok {
				tc.SetReadBuffer(4096)
			}
		} else {
			l.startReader()
		}
	case "hs", "tc", "ta", "cc", "up", "ka":
		var p []byte
		switch e.op {
		case "hs":
			p = mkPacket(tHandshake, bodyHandshake(1, 0, 0, 2))
		case "tc":
			p = mkPacket(tTunnel, bodyTunnelCreate(0, 1, append(utf16le(l.token), 0, 0)))
		case "ta":
			p = mkPacket(tAuth, bodyTunnelAuth(append(utf16le(fmt.Sprintf("PC%d", l.t.idx)), 0, 0)))
		case "cc":
			h, port := splitHostPort(l.askHost)
			p = mkPacket(tChannel, bodyChannel(port, append(utf16le(h), 0, 0)))
		case "up":
			pl := c07Payload("C", l.t.idx, e.arg, spec.seed, spec.round)
			l.upSent = append(l.upSent, pl...)
			p = mkPacket(tData, bodyData(pl))
			if spec.storm == 0 && (e.arg+l.t.idx)%4 == 3 {
				// a DATA packet that declares more than it carries: only what it carries is forwarded
				p = mkPacket(tData, append(le16(len(pl)+1+(e.arg*977)%3000), pl...))
			}
		case "ka":
			p = mkPacket(tKeepalive, nil)
		}
		rd.emit(fmt.Sprintf("P%d.%s", l.inConn, hx(p)))
		l.send(p)
		if e.op == "cc" && l.t.expectOpn {
			ok := waitFor(4*time.Second, func() bool {
				rd.mu.Lock()
				defer rd.mu.Unlock()
				l.host.poll()
				return len(l.host.conns) > 0
			})
			if !ok {
				l.broken = "the backend of this tunnel saw no connection after CHANNEL_CREATE"
				return
			}
			l.hc = l.host.conns[0]
			if spec.stall && l.t.idx%2 == 0 {
				time.AfterFunc(600*time.Millisecond, l.startReader) // this client starts reading late
			}
		}
	case "down":
		if l.hc == nil {
			return
		}
		pl := c07Payload("H", l.t.idx, e.arg, spec.seed, spec.round)
		if spec.stall {
			pl = c07Big("H", l.t.idx, e.arg)
		}
		l.downSent = append(l.downSent, pl...)
		rd.emit(fmt.Sprintf("H%d.%s", l.key, hx(pl)))
		l.hc.c.Write(pl)
	case "end":
		if l.ended {
			return
		}
		l.ended = true
		if l.hc != nil && l.broken == "" { // let what is in flight arrive, so that the expectation is exact
			waitFor(4*time.Second, func() bool {
				_, down := l.clientView()
				return len(l.hc.received()) >= len(l.upSent) && len(down) >= len(l.downSent)
			})
		}
		switch l.t.end {
		case "close":
			p := mkPacket(tClose, nil)
			rd.emit(fmt.Sprintf("P%d.%s", l.inConn, hx(p)))
			l.send(p)
			if pr := l.reader(); pr != nil {
				select {
				case <-pr.done:
				case <-time.After(3 * time.Second):
				}
			}
		case "proto":
			p := mkPacket(tHandshake, bodyHandshake(1, 0, 0, 2))
			rd.emit(fmt.Sprintf("P%d.%s", l.inConn, hx(p)))
			l.send(p)
			if pr := l.reader(); pr != nil {
				select {
				case <-pr.done:
				case <-time.After(3 * time.Second):
				}
			}
		case "drop":
			rd.emit(fmt.Sprintf("X%d", l.inConn))
			if l.ws != nil {
				l.ws.close()
			} else if l.leg != nil {
				l.leg.in.Close()
			}
		}
	}
}

func (rd *c07Round) execStray(e c07Ev) {
	if rd.only >= 0 {
		return
	}
	ref := rd.live[e.arg]
	id := ref.connID
	switch e.sid {
	case 0:
		id = "{" + randHex(8) + "}" // unknown
	case 1: // last character changed
		id = id[:len(id)-1] + "~"
	case 2:
		id = id[:len(id)-1] // one shorter
	case 3:
		id = id + "0"
	case 4: // case changed
		if strings.ToLower(id) != id {
			id = strings.ToLower(id)
		} else {
			id = strings.ToUpper(id)
		}
		if id == ref.connID {
			id += "z"
		}
	case 5: // exactly the id of a tunnel whose inbound side is already running (or of a websocket tunnel)
		if ref.t.kind == "legacy" && ref.leg == nil {
			id = id + "-early" // would legitimately pair: same identifier
		}
	default:
		id = ""
	}
	c := rd.nextConn()
	xff := "10.99.0.1"
	if (e.arg+e.sid)%2 == 0 {
		xff = ref.xff // from the very address of a tunnel that may be half open at this moment
	}
	rd.emit(rd.reqEvent(c, "i", "l", id, xff))
	conn, err := net.DialTimeout("tcp", rd.gw.addr, 2*time.Second)
	st := c07Stray{conn: c, id: id, xff: xff}
	if err == nil {
		conn.SetDeadline(time.Now().Add(700 * time.Millisecond))
		conn.Write([]byte("RDG_IN_DATA /remoteDesktopGateway/ HTTP/1.1\r\nHost: x\r\nTransfer-Encoding: chunked\r\nRdg-Connection-Id: " + id + "\r\nX-Forwarded-For: " + xff + "\r\n\r\n"))
		head, _ := readHTTPHead(bufio.NewReader(conn))
		st.accepted = strings.Contains(head, " 200 ")
		conn.Close()
	}
	rd.strays = append(rd.strays, st)
}

// run executes the schedule: sequentially from one driver, or with one driver per tunnel.
func (rd *c07Round) run() {
	if rd.spec.burst && rd.only < 0 {
		var wg sync.WaitGroup
		per := map[int][]c07Ev{}
		for _, e := range rd.spec.evs {
			per[e.t] = append(per[e.t], e)
		}
		for i := range rd.live {
			wg.Add(1)
			go func(i int) {
				defer wg.Done()
				rng := rand.New(rand.NewSource(rd.spec.seed + int64(i)*101 + int64(rd.spec.round)))
				if rd.spec.storm > 0 { // client and host of the tunnel send at the same time
					var downs []c07Ev
					for _, e := range per[i] {
						if e.op == "down" {
							downs = append(downs, e)
						}
					}
					for _, e := range per[i] {
						if e.op == "down" {
							continue
						}
						rd.exec(e)
						if e.op == "cc" {
							wg.Add(1)
							go func() {
								defer wg.Done()
								for _, d := range downs {
									rd.exec(d)
								}
							}()
						}
					}
					return
				}
				for _, e := range per[i] {
					rd.exec(e)
					if rng.Intn(3) == 0 {
						time.Sleep(time.Duration(rng.Intn(1500)) * time.Microsecond)
					}
				}
			}(i)
		}
		wg.Wait()
	} else {
		for _, e := range rd.spec.evs {
			rd.exec(e)
		}
	}
	// settle: let in-flight bytes of tunnels that stay open arrive
	for _, l := range rd.live {
		if rd.only >= 0 && l.t.idx != rd.only {
			continue
		}
		if l.hc != nil && !l.ended && l.broken == "" {
			waitFor(10*time.Second, func() bool {
				_, down := l.clientView()
				return len(l.hc.received()) >= len(l.upSent) && len(down) >= len(l.downSent)
			})
		}
		if pr := l.reader(); !l.t.expectOpn && pr != nil { // refused tunnels are ended by the gateway
			select {
			case <-pr.done:
			case <-time.After(3 * time.Second):
			}
		}
	}
}

// observed is the canonical per-tunnel observation.
func (rd *c07Round) observed(l *c07Live) string {
	resps, down := l.clientView()
	var up []byte
	dialled := 0
	rd.mu.Lock()
	l.host.poll()
	rd.mu.Unlock()
	if l.hc != nil {
		up = l.hc.received()
	}
	// any connection at the host this tunnel asked for that carries this tunnel's payloads counts as its dial
	if l.hc != nil {
		dialled = 1
	}
	return fmt.Sprintf("S=%s V=%s U=%s D=%d", strings.Join(resps, ","), hx(down), hx(up), dialled)
}

// expected parses the model's log into the same canonical form, per tunnel.
func c07Expected(log string, live []*c07Live) (per map[int]string, acc map[int]bool) {
	S := map[int][]string{}
	V := map[int][]byte{}
	U := map[int][]byte{}
	D := map[int]int{}
	acc = map[int]bool{}
	for _, e := range strings.Split(log, ";") {
		if e == "" {
			continue
		}
		f := strings.Split(e[1:], ".")
		n0, _ := strconv.Atoi(f[0])
		switch e[0] {
		case 'A':
			acc[n0] = true
		case 'F':
			acc[n0] = false
		case 'S':
			S[n0] = append(S[n0], hx(unhx(f[2])))
		case 'V':
			V[n0] = append(V[n0], unhx(f[2])...)
		case 'U':
			U[n0] = append(U[n0], unhx(f[2])...)
		case 'D':
			if f[2] == "1" {
				D[n0] = 1
			}
		}
	}
	per = map[int]string{}
	for _, l := range live {
		per[l.t.idx] = fmt.Sprintf("S=%s V=%s U=%s D=%d", strings.Join(S[l.outConn], ","), hx(V[l.outConn]), hx(U[l.key]), D[l.key])
	}
	return
}

func (rd *c07Round) oracleLine() string {
	var toks []string
	for c, v := range rd.tokens {
		toks = append(toks, fmt.Sprintf("%s:%s:%s:%s", hx([]byte(c)), hx([]byte(v[0])), hx([]byte(v[1])), hx([]byte(v[2]))))
	}
	var dial []string
	for _, l := range rd.live {
		dial = append(dial, l.host.addr)
	}
	return fmt.Sprintf("multi token=1 sc=0 ccheck=1 ncheck=0 hcheck=1 redir=0000000 idle=%d pmode=%s phosts=%s pverify=1 tokens=%s dial=%s ev=%s",
		c07Idle(rd.spec.round), hx([]byte("roundrobin")), hxStrs(rd.hosts), strings.Join(toks, ","), hxStrs(dial), strings.Join(rd.trace, ";"))
}

// foreign looks for payloads of another tunnel in a byte stream.
func c07Foreign(stream []byte, dir string, own int) string {
	s := string(stream)
	for {
		i := strings.Index(s, "<"+dir)
		if i < 0 {
			return ""
		}
		s = s[i+2:]
		j := strings.IndexByte(s, '#')
		if j < 0 {
			return ""
		}
		if n, err := strconv.Atoi(s[:j]); err == nil && n != own {
			return fmt.Sprintf("%s%d", dir, n)
		}
	}
}

// c07FileStore switches the gateway's session store to the filesystem store (sessions shared by
// several requests are then decoded from one stored record); returns the clean-up.
func c07FileStore() func() {
	dir := filepath.Join(verifRoot, "work", fmt.Sprintf("c07-sessions-%d", os.Getpid()))
	os.MkdirAll(dir, 0o700)
	old := os.Getenv("TMPDIR")
	os.Setenv("TMPDIR", dir)
	web.InitStore([]byte("0123456789abcdef0123456789abcdef"), []byte("fedcba9876543210fedcba9876543210"), "file", 0)
	return func() { os.Setenv("TMPDIR", old); os.RemoveAll(dir) }
}

// c07Idle: the idle timeout (minutes) configured on the gateway of a round; rounds alternate between
// none and thirty minutes (caps.idletimeout is something deployments set).
func c07Idle(round int) int { return (round % 2) * 30 }

func c07Gateway(idle int) *protocol.Gateway {
	return &protocol.Gateway{IdleTimeout: idle, TokenAuth: true, CheckPAACookie: security.CheckPAACookie, CheckHost: security.CheckSession(security.CheckHost)}
}

func runC07(r *Run) {
	r.rule = "rounds of 1…N simultaneous tunnels (quick N ≤ 12, thorough N ≤ 64) on both transports against the real HTTP handler with the real token and host policy callbacks: distinct connection identifiers (mstsc brace form, bare, sharing long prefixes, suffixed, short), different users / client addresses / tokens / hosts, tunnels that present another tunnel's token, ask for another tunnel's host, or share a user, access token and web-session cookie (filesystem session store) from different addresses; DATA packets declaring more than they carry; tagged payloads in both directions; every way of ending; stray inbound requests with unknown, near-miss and other tunnels' identifiers; schedules are random merges of the per-tunnel scripts (one driver) or one driver per tunnel; non-trivial = every tunnel; distinct by (seed, round, tunnel)"
	idp := setupSecurity()
	gws0 := startGateway(c07Gateway(c07Idle(0)))
	defer gws0.close()
	gws1 := startGateway(c07Gateway(c07Idle(1)))
	defer gws1.close()
	defer c07FileStore()()
	r.TierRan("api")
	legacyDrainWait = 15 * time.Millisecond // many tunnels at once: give the IN handler time to reach its Drain
	rounds := r.N(36, 300)
	maxN := r.N(12, 64)
	for round := 0; round < rounds; round++ {
		burst := round%3 == 2
		mN := maxN
		if r.Thorough() && round%4 != 0 {
			mN = 16
		}
		spec := genC07Spec(r.Seed, round, mN, burst)
		if round%6 == 5 {
			spec = genC07Storm(r.Seed, round, r.N(8, 32), r.N(150, 600), false)
		}
		if round%12 == 3 || round%12 == 9 {
			// late readers behind small receive buffers, large host payloads: a packet held back by one
			// client's full pipe while the other tunnels keep producing packets
			spec = genC07Storm(r.Seed, round, r.N(12, 24), r.N(120, 300), true)
		}
		gws := gws0
		if c07Idle(round) != 0 {
			gws = gws1
		}
		rd := setupC07Round(spec, gws, idp, -1)
		r.Breadcrumb(spec.String())
		if spec.stall {
			// as on a small machine: the gateway's goroutines share two processors, or one
			procs := 2
			if round%12 == 9 {
				procs = 1
			}
			prev := runtime.GOMAXPROCS(procs)
			rd.run()
			runtime.GOMAXPROCS(prev)
		} else {
			rd.run()
		}
		obs := map[int]string{}
		for _, l := range rd.live {
			obs[l.t.idx] = rd.observed(l)
		}
		ans := r.Oracle([]string{rd.oracleLine()})[0]
		exp, acc := c07Expected(strings.TrimPrefix(ans, "log="), rd.live)
		r.Dist(fmt.Sprintf("tunnels:%d", bucket(spec.n)))
		if burst {
			r.Dist("drivers:per-tunnel")
		} else {
			r.Dist("drivers:one")
		}
		var again map[int]bool
		for _, l := range rd.live {
			r.Count(fmt.Sprintf("%d/%d/%d", r.Seed, round, l.t.idx))
			r.Dist("transport:" + l.t.kind)
			r.Dist("case:" + l.t.tokCase)
			r.Dist("end:" + l.t.end)
			if round == 0 && l.t.idx == 0 {
				r.Sample(map[string]interface{}{"round": spec.String(), "tunnel": 0, "observed": obs[0], "model": exp[0]})
			}
			// 1. the property, directly: foreign payloads at this tunnel's client or host
			_, down := l.clientView()
			var up []byte
			for _, hc := range l.host.conns {
				up = append(up, hc.received()...)
			}
			ownerOfHost := l.t.idx
			if f := c07Foreign(down, "H", l.t.idx); f != "" {
				r.Violation("c07-client-foreign-bytes", fmt.Sprintf("the client of tunnel %d received bytes produced by the host of another tunnel (%s)", l.t.idx, f), spec.String()+fmt.Sprintf("tunnel %d client received: %q\n", l.t.idx, down))
			}
			if l.hc != nil && !bytes.HasPrefix(l.upSent, l.hc.received()) {
				got := l.hc.received()
				r.Violation("c07-host-foreign-bytes", fmt.Sprintf("the host of tunnel %d received bytes that its own tunnel's client did not send", l.t.idx),
					spec.String()+fmt.Sprintf("client of tunnel %d sent %d payload bytes; its host received %d bytes, first difference at offset %d\nsent:     %q\nreceived: %q\n", l.t.idx, len(l.upSent), len(got), firstDiff(got, l.upSent), c07Clip(l.upSent), c07Clip(got)))
			}
			if f := c07Foreign(up, "C", ownerOfHost); f != "" {
				r.Violation("c07-host-foreign-bytes", fmt.Sprintf("the host of tunnel %d received bytes sent by the client of another tunnel (%s)", l.t.idx, f), spec.String()+fmt.Sprintf("host of tunnel %d received: %q\n", l.t.idx, up))
			}
			if !l.t.expectOpn {
				// a refused tunnel must not have reached the host it asked for: look for its connection there
				o := rd.live[l.t.other]
				extra := len(o.host.conns)
				if o.t.expectOpn && o.hc != nil {
					extra--
				}
				if extra > 0 {
					r.Violation("c07-identity-leak", fmt.Sprintf("tunnel %d (%s) was let through to the host of tunnel %d, which only that tunnel's user, token and client address permit", l.t.idx, l.t.tokCase, o.t.idx), spec.String()+"observed: "+obs[l.t.idx]+"\n")
				}
			}
			// 2. correspondence with the model, classified by running the tunnel alone in a fresh process
			if obs[l.t.idx] != exp[l.t.idx] {
				// once more, the same round: a difference that comes from the harness's own timing (the
				// legacy IN handler discards whatever its first read returns, see dialLegacyIn) does not repeat
				if again == nil {
					rd.closeAll()
					rd2 := setupC07Round(spec, gws, idp, -1)
					rd2.run()
					o2 := map[int]string{}
					for _, l2 := range rd2.live {
						o2[l2.t.idx] = rd2.observed(l2)
					}
					e2, _ := c07Expected(strings.TrimPrefix(r.Oracle([]string{rd2.oracleLine()})[0], "log="), rd2.live)
					again = map[int]bool{}
					for _, l2 := range rd2.live {
						again[l2.t.idx] = o2[l2.t.idx] != e2[l2.t.idx]
					}
					rd2.closeAll()
				}
				if !again[l.t.idx] {
					r.Inconclusive()
					r.Note(fmt.Sprintf("round %d tunnel %d: a difference from the model did not repeat when the round was run again (harness timing)", round, l.t.idx))
					continue
				}
				alone := c07RunAlone(r, spec, l.t.idx)
				rep := spec.String() + fmt.Sprintf("tunnel %d\n  in the mix : %s\n  model      : %s\n  alone      : %s\n  note       : %s\n", l.t.idx, c07Short(obs[l.t.idx]), c07Short(exp[l.t.idx]), c07Short(alone), l.broken)
				if alone == obs[l.t.idx] {
					r.Unproven(fmt.Sprintf("correspondence Multi.run ↔ gateway broke for tunnel %d (alone it behaves as in the mix, so no interference is shown)", l.t.idx), rep)
				} else {
					r.Violation("c07-interference", fmt.Sprintf("tunnel %d behaves differently among other tunnels than alone", l.t.idx), rep)
				}
			}
		}
		for _, st := range rd.strays {
			r.Count(fmt.Sprintf("%d/%d/stray%d", r.Seed, round, st.conn))
			r.Dist("stray-request")
			if st.accepted != acc[st.conn] {
				if st.accepted {
					r.Violation("c07-pairing", "an inbound request was paired with a tunnel whose outbound request carried a different connection identifier", spec.String()+fmt.Sprintf("stray RDG_IN_DATA with Rdg-Connection-Id %q was accepted\n", st.id))
				} else {
					r.Unproven("correspondence (request pairing) broke: the model accepts a request the gateway refused", spec.String()+fmt.Sprintf("id %q\n", st.id))
				}
			}
		}
		rd.closeAll()
		if r.HasViolation() {
			break
		}
	}
	c07BlockedWriter(r)
}

func c07Short(s string) string {
	fs := strings.Fields(s)
	for i, f := range fs {
		if len(f) > 400 {
			sum := 0
			for _, c := range []byte(f) {
				sum = (sum*31 + int(c)) % 1000000007
			}
			fs[i] = fmt.Sprintf("%s…(%d hex digits, digest %d)…%s", f[:120], len(f), sum, f[len(f)-40:])
		}
	}
	return strings.Join(fs, " ")
}

func c07Clip(b []byte) []byte {
	if len(b) > 600 {
		return b[:600]
	}
	return b
}

func bucket(n int) int {
	switch {
	case n <= 1:
		return 1
	case n <= 4:
		return 4
	case n <= 16:
		return 16
	default:
		return 64
	}
}

// c07RunAlone runs one tunnel of the round alone in a fresh process.
func c07RunAlone(r *Run, spec *c07Spec, idx int) string {
	cmd := exec.Command(os.Args[0], "-prop", "C07-alone", "-tier", r.Tier)
	b := 0
	if spec.burst {
		b = 1
	}
	cmd.Env = append(os.Environ(), fmt.Sprintf("VERIF_SEED=%d", spec.seed), fmt.Sprintf("VERIF_C07_ALONE=%d:%d:%d:%d", spec.round, spec.maxN, idx, b))
	if spec.storm > 0 {
		cmd.Env = append(cmd.Env, fmt.Sprintf("VERIF_C07_STORM=%d", spec.storm), "VERIF_C07_STALL="+b01(spec.stall))
	}
	var out bytes.Buffer
	cmd.Stdout = &out
	done := make(chan error, 1)
	go func() { done <- cmd.Run() }()
	select {
	case <-done:
	case <-time.After(60 * time.Second):
		cmd.Process.Kill()
		return "timeout"
	}
	for _, ln := range strings.Split(out.String(), "\n") {
		if strings.HasPrefix(ln, "ALONE ") {
			return strings.TrimPrefix(ln, "ALONE ")
		}
	}
	return "no-answer"
}

func runC07Alone(r *Run) {
	var round, n, idx, b int
	fmt.Sscanf(os.Getenv("VERIF_C07_ALONE"), "%d:%d:%d:%d", &round, &n, &idx, &b)
	legacyDrainWait = 15 * time.Millisecond
	idp := setupSecurity()
	gws := startGateway(c07Gateway(c07Idle(round)))
	defer gws.close()
	defer c07FileStore()()
	// regenerate the same round: the tunnel count is forced to the recorded one
	spec := genC07Spec(r.Seed, round, n, b == 1)
	if st := os.Getenv("VERIF_C07_STORM"); st != "" {
		m, _ := strconv.Atoi(st)
		spec = genC07Storm(r.Seed, round, n, m, os.Getenv("VERIF_C07_STALL") == "1")
	}
	if idx >= len(spec.tuns) {
		fmt.Println("ALONE cannot-rebuild")
		return
	}
	rd := setupC07Round(spec, gws, idp, idx)
	rd.run()
	fmt.Println("ALONE " + rd.observed(rd.live[idx]))
	rd.closeAll()
	r.Count("alone")
	r.Count("alone2")
}

// c07BlockedWriter: one tunnel whose client does not read (small receive buffer, host streaming) until the
// gateway's write towards it is blocked with a packet half handed to the socket; meanwhile other tunnels
// relay thousands of packets of their own; then the first client reads. Every payload byte it gets must be
// its own host's. Run with the gateway's goroutines on one processor and on two.
func c07BlockedWriter(r *Run) {
	for _, procs := range []int{1, 2} {
		func() {
			prev := runtime.GOMAXPROCS(procs)
			defer runtime.GOMAXPROCS(prev)
			gws := startGateway(&protocol.Gateway{})
			defer gws.close()
			hostA := newHostListener()
			defer hostA.close()
			open := func(kind string, host *hostListener, rcvbuf int) (gwClient, *legacyClient, *wsClient) {
				_, port := splitHostPort(host.addr)
				connID := "{" + randHex(8) + "}"
				var cl gwClient
				var lc *legacyClient
				var wc *wsClient
				if kind == "ws" {
					w, err := dialWS(gws.addr, connID, "")
					if err != nil {
						return nil, nil, nil
					}
					cl, wc = w, w
				} else {
					l, err := dialLegacy(gws.addr, connID, "")
					if err != nil {
						return nil, nil, nil
					}
					if tc, ok := l.out.(*net.TCPConn); ok && rcvbuf > 0 {
						tc.SetReadBuffer(rcvbuf)
					}
					cl, lc = l, l
				}
				for _, pk := range [][]byte{mkPacket(tHandshake, bodyHandshake(1, 0, 0, 0)), mkPacket(tTunnel, bodyTunnelCreate(0, 0, nil)),
					mkPacket(tAuth, bodyTunnelAuth(append(utf16le("PC"), 0, 0))), mkPacket(tChannel, bodyChannel(port, append(utf16le("127.0.0.1"), 0, 0)))} {
					cl.send(pk)
				}
				return cl, lc, wc
			}
			// A: legacy, not reading
			clA, lA, _ := open("legacy", hostA, 4096)
			if clA == nil || !waitFor(4*time.Second, func() bool { hostA.poll(); return len(hostA.conns) > 0 }) {
				r.Inconclusive()
				return
			}
			defer clA.close()
			hcA := hostA.conns[0]
			stop := make(chan struct{})
			blocked := make(chan struct{})
			sentA := int64(0)
			var wg sync.WaitGroup
			wg.Add(1)
			go func() {
				defer wg.Done()
				chunk := bytes.Repeat([]byte{'A'}, 4000)
				for {
					select {
					case <-stop:
						return
					default:
					}
					hcA.c.SetWriteDeadline(time.Now().Add(100 * time.Millisecond))
					n, err := hcA.c.Write(chunk)
					atomic.AddInt64(&sentA, int64(n))
					if err != nil {
						if !isTimeout(err) {
							return
						}
						select {
						case <-blocked:
						default:
							close(blocked)
						}
					}
				}
			}()
			select {
			case <-blocked:
			case <-time.After(8 * time.Second):
			}
			// B1..B3: busy tunnels
			foreign := ""
			var bw sync.WaitGroup
			for k := 0; k < 3; k++ {
				bw.Add(1)
				go func(k int) {
					defer bw.Done()
					hostB := newHostListener()
					defer hostB.close()
					kind := []string{"ws", "legacy", "legacy"}[k]
					clB, lB, wB := open(kind, hostB, 0)
					if clB == nil || !waitFor(4*time.Second, func() bool { hostB.poll(); return len(hostB.conns) > 0 }) {
						return
					}
					defer clB.close()
					var pr *packetReader
					if wB != nil {
						pr = readWS(wB, 10*time.Second)
					} else {
						pr = readLegacy(lB, 10*time.Second)
					}
					hc := hostB.conns[0]
					chunk := bytes.Repeat([]byte{'B'}, 1000+k)
					total := 0
					for i := 0; i < 1500; i++ {
						hc.c.Write(chunk)
						total += len(chunk)
					}
					waitFor(8*time.Second, func() bool { pk, _ := pr.snapshot(); pl, _ := dataPayloads(pk); return len(pl) >= total })
					pk, _ := pr.snapshot()
					pl, bad := dataPayloads(pk)
					if bad != "" {
						foreign = fmt.Sprintf("busy tunnel %d (%s): %s", k, kind, bad)
					}
					for _, b := range pl {
						if b != 'B' {
							foreign = fmt.Sprintf("busy tunnel %d (%s) received the byte %q, which its host never sent", k, kind, b)
							break
						}
					}
				}(k)
			}
			bw.Wait()
			close(stop)
			wg.Wait()
			// now A reads
			if tc, ok := lA.out.(*net.TCPConn); ok {
				tc.SetReadBuffer(1 << 20)
			}
			prA := readLegacy(lA, 10*time.Second)
			want := int(atomic.LoadInt64(&sentA))
			waitFor(15*time.Second, func() bool { pk, _ := prA.snapshot(); pl, _ := dataPayloads(pk); return len(pl) >= want })
			pk, _ := prA.snapshot()
			pl, bad := dataPayloads(pk)
			r.Count(fmt.Sprintf("blocked-writer:%d", procs))
			r.Dist("blocked-writer")
			rep := fmt.Sprintf("GOMAXPROCS=%d; tunnel A (legacy, client receive buffer 4096, not reading) with its host streaming 'A' until the host's own writes block (%d bytes accepted); then three tunnels (ws, legacy, legacy) relay 1500 payloads of 'B' each and their clients read them; then A's client reads\nA's client received %d payload bytes in %d packets\n", procs, want, len(pl), len(pk))
			if bad != "" {
				r.Violation("c07-client-foreign-bytes", "the client of a tunnel received a packet stream that is not its own host's (malformed after another tunnel's traffic): "+bad, rep)
				return
			}
			for i, b := range pl {
				if b != 'A' {
					r.Violation("c07-client-foreign-bytes", fmt.Sprintf("the client of tunnel A received bytes produced by the host of another tunnel (payload byte %d is %q)", i, b), rep+fmt.Sprintf("around the first foreign byte: %q\n", pl[max0(i-20):min(len(pl), i+40)]))
					return
				}
			}
			if foreign != "" {
				r.Violation("c07-client-foreign-bytes", "the client of a tunnel received bytes produced by the host of another tunnel: "+foreign, rep)
				return
			}
			if len(pl) < want {
				r.Note(fmt.Sprintf("blocked-writer scenario: A's client got %d of %d bytes within the wait (no foreign byte among them)", len(pl), want))
			}
		}()
	}
}
