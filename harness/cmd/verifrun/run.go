package main

import (
	"bufio"
	"encoding/json"
	"fmt"
	"math/rand"
	"os"
	"os/exec"
	"path/filepath"
	"sort"
	"strings"
	"sync"
	"time"
)

const verifRoot = "/verif"

// Run carries everything one property check needs.
type Run struct {
	Prop, Tier string
	Seed       int64
	Rng        *rand.Rand
	OraclePath string
	AuditPath  string
	EvPath     string
	ReplayPath string

	mu          sync.Mutex
	evals       int
	distinct    map[string]struct{}
	samples     []interface{}
	dist        map[string]int
	violations  []violation
	known       []knownFinding
	knownHit    map[string]bool
	tiers       map[string]bool
	notes       []string
	inconcl     int
	extra       map[string]interface{}
	rule        string
	exhaustive  bool
	implTraces  int
	assumptions []string
}

type violation struct {
	sig, what, replay string
	noInput           bool
}

type knownFinding struct {
	prop, sig, what string
}

func newRun(prop, tier string, seed int64, oracle, audit, ev, replay string) *Run {
	r := &Run{Prop: prop, Tier: tier, Seed: seed, OraclePath: oracle, AuditPath: audit, EvPath: ev, ReplayPath: replay}
	r.Rng = rand.New(rand.NewSource(seed*7919 + int64(len(prop))))
	r.distinct = map[string]struct{}{}
	r.dist = map[string]int{}
	r.knownHit = map[string]bool{}
	r.tiers = map[string]bool{}
	r.extra = map[string]interface{}{}
	r.assumptions = []string{}
	r.notes = []string{}
	r.loadKnown()
	return r
}

func (r *Run) Thorough() bool { return r.Tier == "thorough" }

// N picks the case count for the tier.
func (r *Run) N(quick, thorough int) int {
	if r.Thorough() {
		return thorough
	}
	return quick
}

func (r *Run) loadKnown() {
	f, err := os.Open(filepath.Join(verifRoot, "KNOWN_FINDINGS.txt"))
	if err != nil {
		return
	}
	defer f.Close()
	sc := bufio.NewScanner(f)
	for sc.Scan() {
		line := strings.TrimSpace(sc.Text())
		if !strings.HasPrefix(line, "KNOWN-FINDING:") {
			continue
		}
		rest := strings.TrimSpace(strings.TrimPrefix(line, "KNOWN-FINDING:"))
		parts := strings.SplitN(rest, "| sig=", 2)
		if len(parts) != 2 {
			continue
		}
		head := strings.TrimSpace(parts[0])
		sig := strings.TrimSpace(parts[1])
		fields := strings.Fields(head)
		if len(fields) == 0 || !strings.HasPrefix(fields[0], "property=") {
			continue
		}
		r.known = append(r.known, knownFinding{prop: strings.TrimPrefix(fields[0], "property="), sig: sig, what: strings.TrimSpace(strings.TrimPrefix(head, fields[0]))})
	}
}

// Count records one evaluated case. key identifies the case for distinctness
// (empty = trivial, not counted as distinct non-trivial).
func (r *Run) Count(key string) {
	r.mu.Lock()
	r.evals++
	if key != "" {
		r.distinct[key] = struct{}{}
	}
	r.mu.Unlock()
}

func (r *Run) Dist(bucket string) {
	r.mu.Lock()
	r.dist[bucket]++
	r.mu.Unlock()
}

func (r *Run) Sample(s interface{}) {
	r.mu.Lock()
	if len(r.samples) < 6 {
		r.samples = append(r.samples, s)
	}
	r.mu.Unlock()
}

func (r *Run) TierRan(t string) { r.mu.Lock(); r.tiers[t] = true; r.mu.Unlock() }
func (r *Run) Note(s string)    { r.mu.Lock(); r.notes = append(r.notes, s); r.mu.Unlock() }
func (r *Run) Inconclusive()    { r.mu.Lock(); r.inconcl++; r.mu.Unlock() }
func (r *Run) Assume(s string)  { r.mu.Lock(); r.assumptions = append(r.assumptions, s); r.mu.Unlock() }

// Violation reports a failing case. sig is the machine-checkable signature used
// to match KNOWN_FINDINGS.txt entries; replay is the content of the replay file.
func (r *Run) Violation(sig, what, replay string) {
	r.mu.Lock()
	defer r.mu.Unlock()
	for _, k := range r.known {
		if k.prop == r.Prop && k.sig == sig {
			if !r.knownHit[sig] {
				r.knownHit[sig] = true
				fmt.Printf("KNOWN-FINDING: property=%s %s\n", r.Prop, k.what)
			}
			return
		}
	}
	if len(r.violations) < 20 {
		r.violations = append(r.violations, violation{sig: sig, what: what, replay: replay})
	}
}

// Unproven reports that a proof obligation or a correspondence no longer checks
// although no input violating the property was found.
func (r *Run) Unproven(what, replay string) {
	r.mu.Lock()
	defer r.mu.Unlock()
	if len(r.violations) < 20 {
		r.violations = append(r.violations, violation{sig: "unproven", what: what, replay: replay, noInput: true})
	}
}

// Breadcrumb records the case about to run, so that a crash of the whole process (a panic in a
// goroutine of the code under test that nothing recovers) can be reported with its input.
func (r *Run) Breadcrumb(s string) {
	os.WriteFile(filepath.Join(verifRoot, "work", "replay", r.Prop+".current"), []byte(s), 0o644)
}

func (r *Run) HasViolation() bool { r.mu.Lock(); defer r.mu.Unlock(); return len(r.violations) > 0 }

type auditInfo struct {
	Obligations int               `json:"obligations"`
	Discharged  int               `json:"discharged"`
	Theorems    map[string]string `json:"theorems"`
	CheckerCmd  string            `json:"checker_cmd"`
	Failed      []string          `json:"failed"`
	BuildOK     bool              `json:"build_ok"`
	BuildLog    string            `json:"build_log"`
	Extract     []string          `json:"extract_notes"`
	LeanChecker string            `json:"leanchecker"`
}

func (r *Run) finish(wall time.Duration) {
	var au auditInfo
	haveAudit := false
	if r.AuditPath != "" {
		if b, err := os.ReadFile(r.AuditPath); err == nil {
			if json.Unmarshal(b, &au) == nil {
				haveAudit = true
			}
		}
	}
	replayDir := filepath.Join(verifRoot, "work", "replay")
	os.MkdirAll(replayDir, 0o755)

	// a broken proof obligation with no failing input found by the dynamic part
	if haveAudit && (!au.BuildOK || au.Discharged != au.Obligations || len(au.Failed) > 0) {
		foundInput := false
		for _, v := range r.violations {
			if !v.noInput {
				foundInput = true
			}
		}
		if !foundInput {
			what := fmt.Sprintf("proof obligations no longer check: build_ok=%v discharged=%d/%d failed=%v", au.BuildOK, au.Discharged, au.Obligations, au.Failed)
			r.violations = append(r.violations, violation{sig: "proof", what: what, replay: what + "\n\n" + au.BuildLog, noInput: true})
		}
	}

	// the regenerated half of the tie could not be produced for this property's own table
	if haveAudit {
		for _, n := range au.Extract {
			if strings.Contains(n, "static tie unavailable") &&
				((r.Prop == "C09" && strings.Contains(n, "access table")) || (r.Prop == "C11" && strings.Contains(n, "deferred calls"))) {
				foundInput := false
				for _, v := range r.violations {
					if !v.noInput {
						foundInput = true
					}
				}
				if !foundInput {
					r.violations = append(r.violations, violation{sig: "translator", what: "the translator could not regenerate this property's table from the current source: the theorems are only known to hold for the table of the verified tree", replay: n, noInput: true})
				}
			}
		}
	}

	exit := 0
	// prefer violations with a concrete input
	sort.SliceStable(r.violations, func(i, j int) bool { return !r.violations[i].noInput && r.violations[j].noInput })
	for i, v := range r.violations {
		path := filepath.Join(replayDir, fmt.Sprintf("%s-%d.txt", r.Prop, i))
		content := fmt.Sprintf("property=%s tier=%s seed=%d\nwhat: %s\nsig: %s\n\n%s\n", r.Prop, r.Tier, r.Seed, v.what, v.sig, v.replay)
		os.WriteFile(path, []byte(content), 0o644)
		if v.noInput {
			fmt.Printf("VIOLATION property=%s replay=%s no-failing-input-found\n", r.Prop, path)
		} else {
			fmt.Printf("VIOLATION property=%s replay=%s\n", r.Prop, path)
		}
		exit = 1
		if i >= 4 {
			break
		}
	}

	tiers := []string{}
	for t := range r.tiers {
		tiers = append(tiers, t)
	}
	sort.Strings(tiers)
	known := []string{}
	for s := range r.knownHit {
		known = append(known, s)
	}
	sort.Strings(known)

	cov := map[string]interface{}{
		"evaluations":                   r.evals,
		"distinct_nontrivial":           len(r.distinct),
		"rule":                          r.rule,
		"samples":                       r.samples,
		"distribution":                  r.dist,
		"tiers_ran":                     tiers,
		"inconclusive":                  r.inconcl,
		"notes":                         r.notes,
		"known_findings_hit":            known,
		"traces_validated_against_impl": r.implTraces,
	}
	if r.exhaustive {
		cov["exhaustive"] = true
	}
	for k, v := range r.extra {
		cov[k] = v
	}
	if len(r.samples) == 0 {
		cov["samples"] = []interface{}{"(no case generated)"}
	}
	if haveAudit {
		cov["obligations"] = au.Obligations
		cov["discharged"] = au.Discharged
		cov["checker_cmd"] = au.CheckerCmd
		cov["theorem_axioms"] = au.Theorems
		cov["extract_notes"] = au.Extract
		if au.LeanChecker != "" {
			cov["leanchecker"] = au.LeanChecker
		}
	}
	cov["trusted_base"] = append([]string{
		"Lean 4.33.0 kernel; axioms limited to propext, Classical.choice, Quot.sound (audited per theorem)",
		"hand-written Lean model tied to the Go code only by this run's correspondence (sampled) and by the extractor for tables/constants",
		"harness canonicalisers, the Lean oracle's line codec, the extractor (go/parser + go/types)",
	}, r.assumptions...)

	ev := map[string]interface{}{
		"property_id": r.Prop,
		"tier":        r.Tier,
		"seed":        r.Seed,
		"level":       "proof",
		"coverage":    cov,
		"assumptions": r.assumptions,
		"wall_s":      wall.Seconds(),
		"violations":  len(r.violations),
	}
	if r.EvPath != "" {
		b, _ := json.MarshalIndent(ev, "", " ")
		os.MkdirAll(filepath.Dir(r.EvPath), 0o755)
		os.WriteFile(r.EvPath, b, 0o644)
	}
	os.Exit(exit)
}

// ---------------------------------------------------------------------------
// Oracle: batch interface. Lines are sent to the Lean executable; answers come
// back one per line in order.

func (r *Run) Oracle(lines []string) []string {
	if len(lines) == 0 {
		return nil
	}
	cmd := exec.Command(r.OraclePath)
	stdin, err := cmd.StdinPipe()
	if err != nil {
		panic(err)
	}
	stdout, err := cmd.StdoutPipe()
	if err != nil {
		panic(err)
	}
	cmd.Stderr = os.Stderr
	if err := cmd.Start(); err != nil {
		panic(fmt.Sprintf("cannot start oracle %s: %v", r.OraclePath, err))
	}
	go func() {
		w := bufio.NewWriterSize(stdin, 1<<20)
		for _, l := range lines {
			w.WriteString(l)
			w.WriteByte('\n')
		}
		w.Flush()
		stdin.Close()
	}()
	out := make([]string, 0, len(lines))
	sc := bufio.NewScanner(stdout)
	sc.Buffer(make([]byte, 1<<20), 1<<28)
	for sc.Scan() {
		out = append(out, sc.Text())
	}
	cmd.Wait()
	if len(out) != len(lines) {
		panic(fmt.Sprintf("oracle answered %d lines for %d requests", len(out), len(lines)))
	}
	return out
}

// kv parses "k=v k=v" answers.
func kv(s string) map[string]string {
	m := map[string]string{}
	for _, t := range strings.Fields(s) {
		if i := strings.IndexByte(t, '='); i >= 0 {
			m[t[:i]] = t[i+1:]
		}
	}
	return m
}

const hexdigits = "0123456789abcdef"

func hx(b []byte) string {
	if len(b) == 0 {
		return "-"
	}
	out := make([]byte, 2*len(b))
	for i, c := range b {
		out[2*i] = hexdigits[c>>4]
		out[2*i+1] = hexdigits[c&15]
	}
	return string(out)
}

func hxList(bs [][]byte) string {
	if len(bs) == 0 {
		return "_"
	}
	ss := make([]string, len(bs))
	for i, b := range bs {
		ss[i] = hx(b)
	}
	return strings.Join(ss, ",")
}

func hxStrs(ss []string) string {
	bs := make([][]byte, len(ss))
	for i, s := range ss {
		bs[i] = []byte(s)
	}
	return hxList(bs)
}

func b01(b bool) string {
	if b {
		return "1"
	}
	return "0"
}
