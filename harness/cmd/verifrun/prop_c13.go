package main

import (
	"bytes"
	"crypto/rand"
	"crypto/rsa"
	"encoding/base64"
	"fmt"
	"io"
	"net/http"
	"net/http/cookiejar"
	"net/http/httptest"
	"net/url"
	"os"
	"path/filepath"
	"strings"
	"time"

	"github.com/bolkedebruin/rdpgw/cmd/rdpgw/identity"
	"github.com/bolkedebruin/rdpgw/cmd/rdpgw/web"
	"github.com/coreos/go-oidc/v3/oidc"
)

func init() { register("C13", runC13) }

type oidcCase struct {
	store    string
	point    string // which check fails ("" = none)
	userName string
	claimKey string
}

func runC13(r *Run) {
	r.rule = "browser logins through the real Authenticated/HandleCallback handlers with a fake IdP: every failure point of the callback (unknown state, refused code, missing id_token, bad signature, wrong issuer, wrong audience, expired ID token, no / empty / non-string user-name claim) × both session stores (cookie, file), successful logins for generated identities and claim names, then /connect to see 200 vs 302; every single-character substitution and truncation of a valid session cookie, cross-instance reuse; non-trivial = every flow; distinct by (store, failure point, identity)"
	rng := r.Rng
	r.TierRan("api")
	idp := newFakeIdP()
	defer idp.close()
	provider, oauthCfg := idp.provider()
	verifier := provider.Verifier(&oidc.Config{ClientID: idp.clientID})
	dir := filepath.Join(verifRoot, "work", fmt.Sprintf("c13-%d", os.Getpid()))
	os.MkdirAll(dir, 0o755)
	defer os.RemoveAll(dir)
	os.Setenv("TMPDIR", dir)
	otherKey, _ := rsa.GenerateKey(rand.Reader, 2048)
	keyA := []byte("0123456789abcdef0123456789abcdef")
	keyB := []byte("fedcba9876543210fedcba9876543210")

	newServer := func(store string, k1, k2 []byte) (*httptest.Server, *web.OIDC) {
		web.InitStore(k1, k2, store, 0)
		o := (&web.OIDCConfig{OAuth2Config: &oauthCfg, OIDCTokenVerifier: verifier}).New()
		mux := http.NewServeMux()
		mux.Handle("/connect", o.Authenticated(http.HandlerFunc(func(w http.ResponseWriter, req *http.Request) {
			id := identity.FromRequestCtx(req)
			at, _ := id.GetAttribute(identity.AttrAccessToken).(string)
			fmt.Fprintf(w, "auth=%v user=%s at=%s", id.Authenticated(), hx([]byte(id.UserName())), hx([]byte(at)))
		})))
		mux.HandleFunc("/callback", o.HandleCallback)
		return httptest.NewServer(web.EnrichContext(mux)), o
	}
	newClient := func() *http.Client {
		jar, _ := cookiejar.New(nil)
		return &http.Client{Jar: jar, CheckRedirect: func(*http.Request, []*http.Request) error { return http.ErrUseLastResponse }, Timeout: 10 * time.Second}
	}
	get := func(c *http.Client, u string) (int, string, string) {
		resp, err := c.Get(u)
		if err != nil {
			return -1, err.Error(), ""
		}
		defer resp.Body.Close()
		b, _ := io.ReadAll(resp.Body)
		return resp.StatusCode, string(b), resp.Header.Get("Location")
	}

	points := []string{"", "unknown-state", "code-refused", "no-id-token", "bad-signature", "wrong-issuer", "wrong-audience", "expired-id-token", "no-username-claim", "empty-username", "nonstring-username"}
	names := []string{"alice", "bob@example.com", "Ünï Ködé", "a b", "x", "日本"}
	claimKeys := []string{"preferred_username", "unique_name", "upn", "username"}
	var cases []oidcCase
	for _, store := range []string{"cookie", "file"} {
		for _, p := range points {
			reps := 1
			if p == "" {
				reps = r.N(6, 200)
			} else {
				reps = r.N(2, 40)
			}
			for k := 0; k < reps; k++ {
				cases = append(cases, oidcCase{store: store, point: p, userName: names[rng.Intn(len(names))], claimKey: claimKeys[rng.Intn(len(claimKeys))]})
			}
		}
	}
	drift := 0
	first := ""
	var lines []string
	type obs struct {
		cbStatus, connStatus int
		connBody             string
		rep                  string
	}
	var observed []obs
	curStore := ""
	var srv *httptest.Server
	var curOIDC *web.OIDC
	lifetimeChecked := 0
	sleptFor := map[string]bool{}
	codeN := 0
	for _, c := range cases {
		if c.store != curStore {
			if srv != nil {
				srv.Close()
			}
			srv, curOIDC = newServer(c.store, keyA, keyB)
			curStore = c.store
		}
		cl := newClient()
		st, _, loc := get(cl, srv.URL+"/connect?x=1")
		if st != 302 || !strings.Contains(loc, "state=") {
			r.Violation("c13-first-connect", "an unauthenticated /connect is not redirected to the identity provider", fmt.Sprintf("status %d location %q", st, loc))
			observed = append(observed, obs{})
			lines = append(lines, "oidc-callback state=none")
			continue
		}
		lu, _ := url.Parse(loc)
		state := lu.Query().Get("state")
		issuedState := state
		exp0, found0 := web.VerifStateExpiry(curOIDC, issuedState)
		// a state value lives two minutes (hook: expiry as recorded by the state store)
		if exp, found := web.VerifStateExpiry(curOIDC, state); lifetimeChecked < 50 {
			lifetimeChecked++
			left := time.Until(exp)
			if !found || left > 121*time.Second || left < 110*time.Second {
				r.Violation("c13-state-lifetime", "a state value issued by the gateway does not expire two minutes after issuance", fmt.Sprintf("state %s found=%v expires in %v\n", state, found, left))
			}
		}
		codeN++
		code := fmt.Sprintf("code-%d", codeN)
		at := fmt.Sprintf("at-%d", codeN)
		claims := idp.stdClaims(map[string]interface{}{c.claimKey: c.userName})
		cr := codeResp{accessToken: at}
		f := map[string]string{"state": "5", "code": "1", "idtok": "1", "verifies": "1", "claims": "1", "user": hx([]byte(c.userName))}
		switch c.point {
		case "unknown-state":
			state = "deadbeef" + state[8:]
			f["state"] = "none"
		case "code-refused":
			cr.refuse = true
			f["code"] = "0"
		case "no-id-token":
			cr.noIDToken = true
			f["idtok"] = "0"
		case "bad-signature":
			cr.idToken = idp.idToken(claims, otherKey)
			f["verifies"] = "0"
		case "wrong-issuer":
			claims["iss"] = "https://evil.example"
			f["verifies"] = "0"
		case "wrong-audience":
			claims["aud"] = "another-client"
			f["verifies"] = "0"
		case "expired-id-token":
			claims["exp"] = time.Now().Add(-time.Hour).Unix()
			f["verifies"] = "0"
		case "no-username-claim":
			delete(claims, c.claimKey)
			f["user"] = "none"
		case "empty-username":
			claims[c.claimKey] = ""
			f["user"] = "-"
		case "nonstring-username":
			claims[c.claimKey] = 12345
			f["user"] = "none"
		}
		if cr.idToken == "" && !cr.noIDToken {
			cr.idToken = idp.idToken(claims, nil)
		}
		idp.mu.Lock()
		idp.codes[code] = cr
		idp.mu.Unlock()
		if !sleptFor[c.store+c.point] && (c.point == "code-refused" || c.point == "no-id-token" || c.point == "bad-signature" || (r.Thorough() && c.point != "" && c.point != "unknown-state")) {
			// once per failure point and store: let a second pass between issuance and callback, so
			// that a renewed lifetime is told apart from the original one
			sleptFor[c.store+c.point] = true
			time.Sleep(1100 * time.Millisecond)
		}
		cbStatus, _, _ := get(cl, srv.URL+"/callback?state="+url.QueryEscape(state)+"&code="+code)
		// whatever the callback did, the state it was issued with does not live longer than the two
		// minutes it got at issuance (a retry path must not renew it)
		if exp1, found1 := web.VerifStateExpiry(curOIDC, issuedState); found0 && found1 && exp1.After(exp0.Add(700*time.Millisecond)) {
			r.Violation("c13-state-lifetime", "a state value issued by the gateway does not expire two minutes after issuance", fmt.Sprintf("store=%s: state %s expired at %s when issued; after a callback that failed at %q it expires at %s\n", c.store, issuedState, exp0.Format(time.RFC3339Nano), c.point, exp1.Format(time.RFC3339Nano)))
		}
		connStatus, connBody, _ := get(cl, srv.URL+"/connect?x=1")
		observed = append(observed, obs{cbStatus, connStatus, connBody, fmt.Sprintf("store=%s failure point=%q claim %s=%q\ncallback status %d; following /connect: %d %q\n", c.store, c.point, c.claimKey, c.userName, cbStatus, connStatus, connBody)})
		lines = append(lines, fmt.Sprintf("oidc-callback state=%s code=%s idtok=%s verifies=%s claims=%s user=%s at=%s sess=0 suser=-", f["state"], f["code"], f["idtok"], f["verifies"], f["claims"], f["user"], hx([]byte(at))))
		r.Dist("point:" + c.point + "/" + c.store)
	}
	if srv != nil {
		srv.Close()
	}
	ans := r.Oracle(lines)
	for i, c := range cases {
		o := observed[i]
		if o.rep == "" {
			continue
		}
		r.Count(fmt.Sprintf("%s|%s|%s|%s|%d", c.store, c.point, c.claimKey, c.userName, i))
		if i < 2 {
			r.Sample(map[string]interface{}{"store": c.store, "failure_point": c.point, "callback_status": o.cbStatus, "connect": fmt.Sprintf("%d %s", o.connStatus, o.connBody), "model": ans[i]})
		}
		m := kv(ans[i])
		wantAuth := m["auth"] == "1"
		gotAuth := o.connStatus == 200 && strings.Contains(o.connBody, "auth=true")
		rep := o.rep + "model: " + ans[i] + "\n"
		if gotAuth && !wantAuth {
			r.Violation("c13-auth-without-login", "a session became authenticated although the callback failed at "+c.point, rep)
			continue
		}
		if gotAuth && wantAuth {
			if !strings.Contains(o.connBody, "user="+hx([]byte(c.userName))+" ") {
				r.Violation("c13-identity", "the session's user name is not the verified user-name claim (identity not restored unchanged)", rep)
				continue
			}
		}
		if !gotAuth && wantAuth {
			r.Violation("c13-login-lost", "a fully verified login did not yield an authenticated session", rep)
			continue
		}
		if fmt.Sprint(o.cbStatus) != strings.Fields(ans[i])[0] {
			drift++
			if first == "" {
				first = rep
			}
		}
	}

	// ---- session cookie integrity (exploration of securecookie through the real handlers)
	for _, store := range []string{"cookie", "file"} {
		srv, _ := newServer(store, keyA, keyB)
		cl := newClient()
		_, _, loc := get(cl, srv.URL+"/connect")
		lu, _ := url.Parse(loc)
		codeN++
		code := fmt.Sprintf("code-%d", codeN)
		idp.mu.Lock()
		idp.codes[code] = codeResp{accessToken: "at-x", idToken: idp.idToken(idp.stdClaims(map[string]interface{}{"preferred_username": "victim"}), nil)}
		idp.mu.Unlock()
		get(cl, srv.URL+"/callback?state="+lu.Query().Get("state")+"&code="+code)
		su, _ := url.Parse(srv.URL)
		var cookie *http.Cookie
		for _, ck := range cl.Jar.Cookies(su) {
			if ck.Name == "RDPGWSESSION" {
				cookie = ck
			}
		}
		if cookie == nil {
			r.Violation("c13-no-cookie", "no session cookie after a successful login", store)
			srv.Close()
			continue
		}
		try := func(val string) (int, string) {
			req, _ := http.NewRequest("GET", srv.URL+"/connect", nil)
			req.AddCookie(&http.Cookie{Name: "RDPGWSESSION", Value: val})
			c2 := &http.Client{CheckRedirect: func(*http.Request, []*http.Request) error { return http.ErrUseLastResponse }, Timeout: 10 * time.Second}
			resp, err := c2.Do(req)
			if err != nil {
				return -1, err.Error()
			}
			defer resp.Body.Close()
			b, _ := io.ReadAll(resp.Body)
			return resp.StatusCode, string(b)
		}
		if st, body := try(cookie.Value); st != 200 || !strings.Contains(body, "auth=true user="+hx([]byte("victim"))) {
			r.Violation("c13-restore", "a valid session cookie does not restore the authenticated identity", fmt.Sprintf("store=%s status=%d body=%q", store, st, body))
		}
		v := cookie.Value
		stride := 1
		if !r.Thorough() && len(v) > 150 {
			stride = len(v) / 150
		}
		nm := 0
		for i := 0; i < len(v); i += stride {
			for _, ch := range "Aa0_-" {
				if byte(ch) == v[i] {
					continue
				}
				mv := v[:i] + string(ch) + v[i+1:]
				// a substitution in the unused trailing bits of the base64 text decodes to the very
				// same bytes: that is the same cookie, not an altered one
				if d0, e0 := base64.URLEncoding.DecodeString(v); e0 == nil {
					if d1, e1 := base64.URLEncoding.DecodeString(mv); e1 == nil && bytes.Equal(d0, d1) {
						continue
					}
				}
				nm++
				st, body := try(mv)
				r.Count("cookie:" + store + mv)
				if st == 200 && strings.Contains(body, "auth=true") {
					r.Violation("c13-forged-cookie", "an altered session cookie yields an authenticated session", fmt.Sprintf("store=%s\noriginal: %s\naltered:  %s\nresponse: %d %q\n", store, v, mv, st, body))
				}
			}
		}
		for i := 0; i < len(v); i += stride * 3 {
			st, body := try(v[:i])
			r.Count("cookie-trunc:" + store + fmt.Sprint(i))
			if st == 200 && strings.Contains(body, "auth=true") {
				r.Violation("c13-forged-cookie", "a truncated session cookie yields an authenticated session", fmt.Sprintf("store=%s truncated to %d chars: %d %q", store, i, st, body))
			}
		}
		r.extra["cookie_mutations_"+store] = nm
		srv.Close()
		// cross-instance reuse: another gateway instance with other keys
		srv2, _ := newServer(store, []byte("another-session-key-0123456789ab"), []byte("another-encrypt-key-0123456789ab"))
		req, _ := http.NewRequest("GET", srv2.URL+"/connect", nil)
		req.AddCookie(&http.Cookie{Name: "RDPGWSESSION", Value: v})
		c2 := &http.Client{CheckRedirect: func(*http.Request, []*http.Request) error { return http.ErrUseLastResponse }, Timeout: 10 * time.Second}
		if resp, err := c2.Do(req); err == nil {
			b, _ := io.ReadAll(resp.Body)
			resp.Body.Close()
			r.Count("cross-instance:" + store)
			if resp.StatusCode == 200 && strings.Contains(string(b), "auth=true") {
				r.Violation("c13-cross-instance", "a session cookie of another gateway instance (other keys) yields an authenticated session", fmt.Sprintf("store=%s: %d %q", store, resp.StatusCode, b))
			}
		}
		srv2.Close()
	}
	// leave the default store for other users of this process
	web.InitStore(keyA, keyB, "cookie", 0)
	r.extra["model_disagreements"] = drift
	c13Binary(r)
	if drift > 0 && !r.HasViolation() {
		r.Unproven(fmt.Sprintf("correspondence Oidc.callback = HandleCallback broke on %d flows (status codes differ) with no wrongly authenticated session found", drift), first)
	}
}

// c13Binary: two real gateway processes started from the same configuration (no session keys
// configured, one temporary directory, as two instances on one machine have). A browser logs in at
// A; its session cookie, presented to B, must not yield an authenticated session there — and A
// restarted must not honour it either.
func c13Binary(r *Run) {
	if _, err := os.Stat(gwBinaryPath()); err != nil {
		r.Note("gateway binary unavailable: binary tier skipped")
		return
	}
	r.TierRan("binary")
	dir := filepath.Join(verifRoot, "work", fmt.Sprintf("c13b-%d", os.Getpid()))
	os.MkdirAll(dir, 0o755)
	defer os.RemoveAll(dir)
	idp := newFakeIdP()
	defer idp.close()
	// the ID-token verifier as main() builds it (issuer, client id, keys, clock): every failure point of the
	// property at the real executable
	func() {
		port := freePort()
		ta := true
		y := &gwYaml{port: port, tlsOn: false, auth: []string{"openid"}, hosts: []string{"10.0.0.1:3389"}, idpURL: idp.srv.URL, tokenAuth: &ta, keys: map[string]string{}}
		p := startBinary(dir, y.render(), nil, port, false)
		defer p.stop()
		if !p.running() {
			r.Note("binary did not start: " + tail(p.stderr.String(), 300))
			return
		}
		base := fmt.Sprintf("http://127.0.0.1:%d", port)
		otherKey, _ := rsa.GenerateKey(rand.Reader, 2048)
		now := time.Now().Unix()
		for _, tc := range []struct {
			name  string
			extra map[string]interface{}
			key   *rsa.PrivateKey
			ok    bool
		}{
			{"valid ID token", map[string]interface{}{"preferred_username": "alice"}, nil, true},
			{"ID token expired an hour ago", map[string]interface{}{"preferred_username": "alice", "exp": now - 3600}, nil, false},
			{"ID token expired twenty seconds ago", map[string]interface{}{"preferred_username": "alice", "exp": now - 20}, nil, false},
			{"ID token expired two seconds ago", map[string]interface{}{"preferred_username": "alice", "exp": now - 2}, nil, false},
			{"ID token for another client id", map[string]interface{}{"preferred_username": "alice", "aud": "another-client"}, nil, false},
			{"ID token of another issuer", map[string]interface{}{"preferred_username": "alice", "iss": "https://idp.invalid"}, nil, false},
			{"ID token signed by another key", map[string]interface{}{"preferred_username": "alice"}, otherKey, false},
			{"ID token without a user-name claim", map[string]interface{}{}, nil, false},
			{"valid ID token with the upn claim", map[string]interface{}{"upn": "alice@example.com"}, nil, true},
		} {
			jar, _ := cookiejar.New(nil)
			cl := &http.Client{Jar: jar, CheckRedirect: func(*http.Request, []*http.Request) error { return http.ErrUseLastResponse }, Timeout: 8 * time.Second}
			cb, tok := loginWith(cl, base, idp, tc.extra, tc.key)
			r.Count("binary-verifier:" + tc.name)
			r.Dist("binary:verifier")
			rep := fmt.Sprintf("real binary, authentication openid; the IdP hands out: %s\ncallback answered %d; /connect afterwards %s\n", tc.name, cb, map[bool]string{true: "served a connection file", false: "did not serve a file"}[tok != ""])
			if cb < 0 {
				r.Inconclusive()
				continue
			}
			if !tc.ok && tok != "" {
				r.Violation("c13-auth-without-login", "a session became authenticated without a verified OpenID login", rep)
			}
			if tc.ok && tok == "" {
				r.Violation("c13-login-lost", "a session that completed the login is not authenticated at the instance that logged it in", rep)
			}
		}
	}()
	for _, store := range []string{"cookie", "file"} {
		mk := func() *gwProc {
			port := freePort()
			ta := true
			y := &gwYaml{port: port, tlsOn: false, auth: []string{"openid"}, hosts: []string{"10.0.0.1:3389"}, idpURL: idp.srv.URL, tokenAuth: &ta, keys: map[string]string{}, extraServer: []string{"sessionstore: " + store}}
			return startBinary(dir, y.render(), nil, port, false)
		}
		a, b := mk(), mk()
		if !a.running() || !b.running() {
			r.Note("binary did not start: " + tail(a.stderr.String()+b.stderr.String(), 300))
			a.stop()
			b.stop()
			continue
		}
		jar, _ := cookiejar.New(nil)
		cl := &http.Client{Jar: jar, CheckRedirect: func(*http.Request, []*http.Request) error { return http.ErrUseLastResponse }, Timeout: 8 * time.Second}
		ua, ub := fmt.Sprintf("http://127.0.0.1:%d", a.port), fmt.Sprintf("http://127.0.0.1:%d", b.port)
		if loginAndDownload(cl, ua, idp) == "" {
			r.Inconclusive()
			a.stop()
			b.stop()
			continue
		}
		pu, _ := url.Parse(ua)
		present := func(base string) (int, string) {
			req, _ := http.NewRequest("GET", base+"/connect", nil)
			for _, ck := range jar.Cookies(pu) {
				req.AddCookie(&http.Cookie{Name: ck.Name, Value: ck.Value})
			}
			resp, err := (&http.Client{CheckRedirect: func(*http.Request, []*http.Request) error { return http.ErrUseLastResponse }, Timeout: 8 * time.Second}).Do(req)
			if err != nil {
				return -1, err.Error()
			}
			defer resp.Body.Close()
			b, _ := io.ReadAll(resp.Body)
			return resp.StatusCode, string(b)
		}
		stA, _ := present(ua)
		stB, bodyB := present(ub)
		a.stop()
		a2 := mk()
		stA2, bodyA2 := -1, ""
		if a2.running() {
			stA2, bodyA2 = present(fmt.Sprintf("http://127.0.0.1:%d", a2.port))
		}
		a2.stop()
		b.stop()
		r.Count("binary-cross-instance:" + store)
		r.Dist("binary:" + store)
		rep := fmt.Sprintf("session store %s, no session keys configured, both instances share one temporary directory\nlogin at A; the cookie at A: %d; at B: %d; at a restarted instance: %d\n", store, stA, stB, stA2)
		if stA != 200 {
			r.Violation("c13-login-lost", "a session that completed the login is not authenticated at the instance that logged it in", rep)
		}
		if stB == 200 && strings.Contains(bodyB, "gatewayaccesstoken") || stA2 == 200 && strings.Contains(bodyA2, "gatewayaccesstoken") {
			r.Violation("c13-forged-cookie", "an altered session cookie yields an authenticated session", rep+"a session cookie that this gateway process did not produce was honoured (keys generated at start-up are shared between processes)\n")
		}
	}
}
