package main

import (
	"context"
	"fmt"
	"net/http/httptest"
	"net/url"
	"os"
	"path/filepath"
	"reflect"
	"sort"
	"strings"

	"github.com/bolkedebruin/rdpgw/cmd/rdpgw/identity"
	"github.com/bolkedebruin/rdpgw/cmd/rdpgw/rdp"
	rdpparser "github.com/bolkedebruin/rdpgw/cmd/rdpgw/rdp/koanf/parsers/rdp"
	"github.com/bolkedebruin/rdpgw/cmd/rdpgw/web"
)

func init() { register("C19", runC19) }

// canonMap renders a parsed settings map in the oracle's entry syntax, sorted by key.
func canonMap(m map[string]interface{}) string {
	keys := make([]string, 0, len(m))
	for k := range m {
		keys = append(keys, k)
	}
	sort.Strings(keys)
	var parts []string
	for _, k := range keys {
		switch v := m[k].(type) {
		case int:
			parts = append(parts, fmt.Sprintf("%s=i:%d", hx([]byte(k)), v))
		case string:
			parts = append(parts, fmt.Sprintf("%s=s:%s", hx([]byte(k)), hx([]byte(v))))
		case bool:
			if v {
				parts = append(parts, fmt.Sprintf("%s=i:1", hx([]byte(k))))
			} else {
				parts = append(parts, fmt.Sprintf("%s=i:0", hx([]byte(k))))
			}
		default:
			parts = append(parts, fmt.Sprintf("%s=?", hx([]byte(k))))
		}
	}
	if len(parts) == 0 {
		return "_"
	}
	return strings.Join(parts, ",")
}

// sortEntries sorts the oracle's `k=v,k=v` answer by key bytes.
func sortEntries(s string) string {
	if s == "_" || s == "" {
		return "_"
	}
	es := strings.Split(s, ",")
	sort.Slice(es, func(i, j int) bool {
		return string(unhx(strings.SplitN(es[i], "=", 2)[0])) < string(unhx(strings.SplitN(es[j], "=", 2)[0]))
	})
	return strings.Join(es, ",")
}

func runC19(r *Run) {
	r.rule = "settings maps (names free of ':' and blanks at the ends; integers over the int range; strings with ':', CR inside, non-ASCII text, up to 4 KiB) marshalled and parsed back; arbitrary byte strings and structured malformed files offered to the parser; random assignments to the ~60 builder settings; template files with natural and weakly typed values; non-trivial = at least two lines; distinct by content"
	rng := r.Rng
	r.TierRan("api")
	p := rdpparser.Parser()
	drift := 0
	first := ""
	note := func(s string) {
		drift++
		if first == "" {
			first = s
		}
	}
	words := []string{"full address", "gatewayhostname", "audiomode", "x", "use multimon", "a.b-c_d", "Ünï", "k9"}
	strVals := []string{"", "host:3389", "a:b:c", "été 日本", "x\ry", "C:\\Program Files\\x", "  ", "v", "tab\there", "0", "-12", "\u00a0x", "x\u2003", "\u3000"}
	randStr := func() string {
		switch rng.Intn(5) {
		case 0:
			b := make([]byte, rng.Intn(12))
			for i := range b {
				b[i] = byte(32 + rng.Intn(95))
			}
			return string(b)
		case 1:
			return strings.Repeat("x", 1+rng.Intn(4096))
		default:
			return strVals[rng.Intn(len(strVals))]
		}
	}
	okEnds := func(s string) bool { return strings.TrimSpace(s) == s && !strings.Contains(s, "\n") }

	// 1. marshal → parse round trip on generated maps
	type mcase struct {
		m      map[string]interface{}
		canon  string
		out    []byte
		inProp bool // inside the property's input class
	}
	var mcases []*mcase
	for i := r.N(3000, 100000); i > 0; i-- {
		mc := &mcase{m: map[string]interface{}{}, inProp: true}
		for k := rng.Intn(8); k >= 0; k-- {
			key := words[rng.Intn(len(words))]
			if rng.Intn(4) == 0 {
				key = key + fmt.Sprint(rng.Intn(50))
			}
			switch rng.Intn(4) {
			case 0:
				mc.m[key] = []int{0, 1, -1, 2147483647, -2147483648, 9223372036854775807, -9223372036854775808, 42}[rng.Intn(8)]
			case 1:
				mc.m[key] = rng.Intn(2) == 0
			default:
				s := randStr()
				mc.m[key] = s
				if !okEnds(s) {
					mc.inProp = false
				}
			}
		}
		mcases = append(mcases, mc)
	}
	var lines []string
	for _, mc := range mcases {
		out, err := p.Marshal(mc.m)
		if err != nil {
			r.Violation("c19-marshal-err", "Marshal failed on a map of integers, booleans and strings", fmt.Sprintf("%v", mc.m))
		}
		mc.out = out
		mc.canon = canonMap(mc.m)
		lines = append(lines, "rdp-marshal entries="+mc.canon)
		lines = append(lines, "rdp-parse data="+hx(out))
	}
	ans := r.Oracle(lines)
	for i, mc := range mcases {
		key := ""
		if len(mc.m) >= 2 {
			key = mc.canon
		}
		r.Count(key)
		if i < 2 {
			r.Sample(map[string]interface{}{"map": mc.canon, "file": string(mc.out)})
		}
		back, err := p.Unmarshal(mc.out)
		if mc.inProp {
			if err != nil || canonMap(back) != mc.canon {
				r.Violation("c19-roundtrip", "parse(marshal(m)) differs from m for a map inside the property's input class",
					fmt.Sprintf("map: %s\nfile: %q\nparsed back: %s err=%v\n", mc.canon, mc.out, canonMap(back), err))
				continue
			}
			// CRLF-terminated name:type:value lines
			for _, ln := range strings.SplitAfter(string(mc.out), "\r\n") {
				if ln == "" {
					continue
				}
				if !strings.HasSuffix(ln, "\r\n") || strings.Count(ln, ":") < 2 {
					r.Violation("c19-line-form", "a marshalled line is not a CRLF-terminated name:type:value line", fmt.Sprintf("%q", ln))
				}
			}
		}
		if ans[2*i] != hx(mc.out) {
			note(fmt.Sprintf("Marshal differs from the model\nmap: %s\nimpl:  %q\nmodel: %q\n", mc.canon, mc.out, unhx(ans[2*i])))
		}
		got := "err"
		if err == nil {
			got = "ok " + canonMap(back)
		}
		want := ans[2*i+1]
		if strings.HasPrefix(want, "ok ") {
			want = "ok " + sortEntries(want[3:])
		}
		if got != want {
			note(fmt.Sprintf("Unmarshal differs from the model on %q\nimpl:  %s\nmodel: %s\n", mc.out, got, want))
		}
	}

	// 2. arbitrary and malformed input to the parser
	var pin [][]byte
	var malformedLine []bool
	frag := []string{"a:i:1", "b:s:x", "c:b:y", "# comment", "", "   ", "bad", "k:i", "k:x:1", "k:i:abc", "k:i:", "k:i:+5", "k:i:-0", "k:i:99999999999999999999", " k : s : v ", "k:s:a:b:c", ":s:", "::", "k:I:1", "k:i:1 2", "\u00a0k:s:v\u00a0", "k:i:0x10", "k:i:1_0"}
	for i := r.N(4000, 120000); i > 0; i-- {
		var b []byte
		bad := false
		if rng.Intn(4) == 0 {
			b = make([]byte, rng.Intn(60))
			rng.Read(b)
		} else {
			n := 1 + rng.Intn(6)
			for k := 0; k < n; k++ {
				f := frag[rng.Intn(len(frag))]
				b = append(b, f...)
				b = append(b, []string{"\r\n", "\n", "\r\n", "\r\r\n"}[rng.Intn(4)]...)
			}
			if rng.Intn(5) == 0 {
				if cut := 1 + rng.Intn(2); cut <= len(b) {
					b = b[:len(b)-cut]
				}
			}
		}
		pin = append(pin, b)
		malformedLine = append(malformedLine, bad)
	}
	var plines []string
	for _, b := range pin {
		plines = append(plines, "rdp-parse data="+hx(b))
	}
	pans := r.Oracle(plines)
	for i, b := range pin {
		r.Count("parse:" + hx(b))
		var got string
		func() {
			defer func() {
				if rec := recover(); rec != nil {
					got = "panic " + fmt.Sprint(rec)
				}
			}()
			m, err := p.Unmarshal(b)
			if err != nil {
				got = "err"
			} else {
				got = "ok " + canonMap(m)
			}
		}()
		want := pans[i]
		if strings.HasPrefix(want, "ok ") {
			want = "ok " + sortEntries(want[3:])
		}
		if strings.HasPrefix(got, "panic") {
			r.Violation("c19-parser-panic", "the RDP parser panicked", fmt.Sprintf("%q\n%s\n", b, got))
			continue
		}
		// the property on the implementation: a malformed non-comment line is an error, never skipped
		if got != "err" && want == "err" {
			r.Violation("c19-malformed-skipped", "a malformed line was accepted or silently skipped by the parser", fmt.Sprintf("input: %q\nimplementation: %s\nmodel: err\n", b, got))
			continue
		}
		if got != want {
			note(fmt.Sprintf("Unmarshal differs from the model on %q\nimpl:  %s\nmodel: %s\n", b, got, want))
		}
	}

	// 3. the builder
	st := reflect.TypeOf(rdp.RdpSettings{})
	var blines []string
	type bcase struct {
		out   string
		vals  string
		held  map[string]string // tag -> held value in the oracle's value syntax, for every field
		inSet map[string]string // tag -> expected line value for non-default fields (by construction unknown; derived from parse)
	}
	var bcases []*bcase
	for i := r.N(1500, 60000); i > 0; i-- {
		b := rdp.NewBuilder()
		v := reflect.ValueOf(&b.Settings).Elem()
		var vals []string
		for f := 0; f < st.NumField(); f++ {
			if rng.Intn(4) != 0 {
				continue
			}
			fld := v.Field(f)
			name := st.Field(f).Name
			switch fld.Kind() {
			case reflect.Bool:
				x := rng.Intn(2) == 0
				fld.SetBool(x)
				vals = append(vals, fmt.Sprintf("%s=i:%s", hx([]byte(name)), b01(x)))
			case reflect.Int:
				x := []int{0, 1, 2, 3, -1, 1500, 1 << 40, 1920}[rng.Intn(8)]
				fld.SetInt(int64(x))
				vals = append(vals, fmt.Sprintf("%s=i:%d", hx([]byte(name)), x))
			case reflect.String:
				s := randStr()
				for !okEnds(s) || strings.Contains(s, "\r") {
					s = randStr()
				}
				if rng.Intn(3) == 0 {
					s = []string{"true", "false", "0", ""}[rng.Intn(4)]
				}
				fld.SetString(s)
				vals = append(vals, fmt.Sprintf("%s=s:%s", hx([]byte(name)), hx([]byte(s))))
			}
		}
		held := map[string]string{}
		for f := 0; f < st.NumField(); f++ {
			fld := v.Field(f)
			tag := st.Field(f).Tag.Get("rdp")
			switch fld.Kind() {
			case reflect.Bool:
				held[tag] = "i:" + b01(fld.Bool())
			case reflect.Int:
				held[tag] = fmt.Sprintf("i:%d", fld.Int())
			case reflect.String:
				held[tag] = "s:" + hx([]byte(fld.String()))
			}
		}
		bc := &bcase{out: b.String(), vals: strings.Join(vals, ","), held: held}
		if bc.vals == "" {
			bc.vals = "_"
		}
		bcases = append(bcases, bc)
		blines = append(blines, "rdp-build vals="+bc.vals)
	}
	bans := r.Oracle(blines)
	for i, bc := range bcases {
		r.Count("build:" + bc.vals)
		// properties on the implementation: CRLF lines, at most one line per setting, parses back
		seen := map[string]bool{}
		okLines := true
		for _, ln := range strings.SplitAfter(bc.out, "\r\n") {
			if ln == "" {
				continue
			}
			parts := strings.SplitN(ln, ":", 3)
			if !strings.HasSuffix(ln, "\r\n") || len(parts) != 3 {
				okLines = false
				break
			}
			if seen[parts[0]] {
				r.Violation("c19-duplicate-line", "the builder wrote two lines for one setting", fmt.Sprintf("%q\n", bc.out))
			}
			seen[parts[0]] = true
		}
		if !okLines {
			r.Violation("c19-builder-form", "the builder wrote a line that is not CRLF-terminated name:type:value", fmt.Sprintf("%q\n", bc.out))
			continue
		}
		back, err := p.Unmarshal([]byte(bc.out))
		if err != nil {
			r.Violation("c19-builder-unparseable", "the gateway's own reader rejects what the builder wrote", fmt.Sprintf("%q\n%v\n", bc.out, err))
			continue
		}
		// reading back yields exactly the settings the builder held: a line says the held value,
		// an absent line means the held value is the built-in default
		for f := 0; f < st.NumField(); f++ {
			tag := st.Field(f).Tag.Get("rdp")
			def := st.Field(f).Tag.Get("default")
			var want string
			if pv, ok := back[tag]; ok {
				switch x := pv.(type) {
				case int:
					want = fmt.Sprintf("i:%d", x)
				case string:
					want = "s:" + hx([]byte(x))
				}
			} else {
				switch st.Field(f).Type.Kind() {
				case reflect.Bool:
					want = "i:" + b01(def == "true" || def == "1")
				case reflect.Int:
					n := 0
					fmt.Sscanf(def, "%d", &n)
					want = fmt.Sprintf("i:%d", n)
				case reflect.String:
					want = "s:" + hx([]byte(def))
				}
			}
			if bc.held[tag] != want {
				r.Violation("c19-builder-readback", "reading the generated file back does not yield the setting the builder held",
					fmt.Sprintf("setting %q: builder held %s, file says %s\nfile: %q\n", tag, bc.held[tag], want, bc.out))
				break
			}
		}
		if bans[i] != hx([]byte(bc.out)) {
			note(fmt.Sprintf("Builder.String() differs from the model\nvalues: %s\nimpl:  %q\nmodel: %q\n", bc.vals, bc.out, unhx(bans[i])))
		}
	}

	// 4. templates
	dir := filepath.Join(verifRoot, "work", fmt.Sprintf("c19-%d", os.Getpid()))
	os.MkdirAll(dir, 0o755)
	defer os.RemoveAll(dir)
	var tlines []string
	var touts []string
	var tins []string
	for i := r.N(400, 15000); i > 0; i-- {
		var sb strings.Builder
		for f := 0; f < st.NumField(); f++ {
			if rng.Intn(5) != 0 {
				continue
			}
			tag := st.Field(f).Tag.Get("rdp")
			switch st.Field(f).Type.Kind() {
			case reflect.Bool:
				fmt.Fprintf(&sb, "%s:i:%d\r\n", tag, []int{0, 1, 1, 0, 2}[rng.Intn(5)])
			case reflect.Int:
				if rng.Intn(6) == 0 {
					fmt.Fprintf(&sb, "%s:s:%d\r\n", tag, rng.Intn(5))
				} else {
					fmt.Fprintf(&sb, "%s:i:%d\r\n", tag, []int{0, 1, 2, 3, 1500, -4}[rng.Intn(6)])
				}
			case reflect.String:
				if rng.Intn(5) == 0 {
					fmt.Fprintf(&sb, "%s:i:%d\r\n", tag, rng.Intn(9))
				} else {
					fmt.Fprintf(&sb, "%s:s:%s\r\n", tag, []string{"x", "host:1", "", "true", "false", "a b"}[rng.Intn(6)])
				}
			}
		}
		if rng.Intn(4) == 0 {
			sb.WriteString("some unknown setting:s:kept?\r\n")
		}
		if rng.Intn(15) == 0 {
			sb.WriteString("broken line\r\n")
		}
		fn := filepath.Join(dir, fmt.Sprintf("t%d.rdp", i))
		os.WriteFile(fn, []byte(sb.String()), 0o644)
		b, err := rdp.NewBuilderFromFile(fn)
		os.Remove(fn)
		got := "err"
		if err == nil {
			got = "ok " + hx([]byte(b.String()))
		}
		touts = append(touts, got)
		tins = append(tins, sb.String())
		tlines = append(tlines, "rdp-template data="+hx([]byte(sb.String())))
	}
	tans := r.Oracle(tlines)
	for i := range tans {
		r.Count("tpl:" + tins[i])
		if touts[i] != "err" && strings.Contains(tins[i], "broken line") {
			r.Violation("c19-template-malformed", "a template with a malformed line was accepted", fmt.Sprintf("%q\n", tins[i]))
			continue
		}
		if touts[i] != tans[i] {
			note(fmt.Sprintf("NewBuilderFromFile(...).String() differs from the model\ntemplate: %q\nimpl:  %s\nmodel: %s\n", tins[i], touts[i], tans[i]))
		}
	}
	// 5. the download handler with a template: every file is a function of the template and of the
	// request it answers — what an earlier download wrote must not show up in a later one
	for ti, tpl := range []string{"domain:s:TEMPLATEDOM\r\naudiomode:i:2\r\nusername:s:from-template\r\n", "audiomode:i:1\r\nalternate shell:s:notepad.exe\r\n", "domain:s:D\r\nfull address:s:template-host:1\r\ngatewayhostname:s:template-gw\r\n",
		"alternate shell:s:%windir%\\system32\\notepad.exe\r\nremoteapplicationcmdline:s:%USERPROFILE%\\100%s %d%%\r\naudiomode:i:2\r\n"} {
		fn := filepath.Join(dir, fmt.Sprintf("dl-template-%d.rdp", ti))
		os.WriteFile(fn, []byte(tpl), 0o644)
		// the gateway's own address as config.Load leaves it: with a scheme, or "//" + what was configured;
		// names, IPv4 and bracketed IPv6 literals, with and without a port
		gwURL, _ := url.Parse([]string{"https://gw.example.com:443/", "//[2001:db8::7]:8443", "//[::1]", "//192.0.2.7:9443"}[ti%4])
		for _, split := range []bool{true, false} {
			h := (&web.Config{PAATokenGenerator: func(context.Context, string, string) (string, error) { return "tok", nil },
				Hosts: []string{"10.0.0.1:3389"}, HostSelection: "roundrobin", GatewayAddress: gwURL, TemplateFile: fn,
				RdpOpts: web.RdpOpts{SplitUserDomain: split}}).NewHandler()
			download := func(user string) string {
				id := identity.NewUser()
				id.SetUserName(user)
				id.SetAuthenticated(true)
				id.SetAttribute(identity.AttrClientIp, "192.0.2.1")
				req := identity.AddToRequestCtx(id, httptest.NewRequest("GET", "http://gw.example.com/connect", nil))
				rec := httptest.NewRecorder()
				h.HandleDownload(rec, req)
				return fmt.Sprintf("%d %s", rec.Code, rec.Body.String())
			}
			seq := []string{"bob", "alice@corp.example", "bob", "carol@other.example", "alice@corp.example", "bob", "100%20sure@corp.example", "bob"}
			firstOf := map[string]string{}
			var log []string
			for k, u := range seq {
				out := download(u)
				log = append(log, fmt.Sprintf("download %d by %q: %q", k+1, u, out))
				r.Count(fmt.Sprintf("dl-history:%d:%v:%d", ti, split, k))
				// template settings the gateway does not control are kept verbatim, and the user name arrives as it is
				if strings.HasPrefix(out, "200 ") {
					body := out[4:]
					for _, tl := range strings.Split(strings.TrimSuffix(tpl, "\r\n"), "\r\n") {
						key := strings.SplitN(tl, ":", 2)[0]
						if key == "username" || key == "domain" || key == "full address" || strings.HasPrefix(key, "gateway") {
							continue
						}
						if !strings.Contains(body, tl+"\r\n") {
							r.Violation("c19-template-kept", "a template setting that the gateway does not control is not kept as it is in the generated file", fmt.Sprintf("template line %q\nuser %q splituserdomain=%v\nfile: %q\n", tl, u, split, body))
						}
					}
					wantUser := u
					if split {
						wantUser = strings.SplitN(u, "@", 2)[0]
					}
					if !strings.Contains(body, "gatewayhostname:s:"+gwURL.Host+"\r\n") {
						r.Violation("c19-gateway-host", "the generated file does not name the gateway by its configured address", fmt.Sprintf("gateway address %q (expected line gatewayhostname:s:%s)\nfile: %q\n", gwURL.String(), gwURL.Host, body))
					}
					if !strings.Contains(body, "username:s:"+wantUser+"\r\n") {
						r.Violation("c19-template-kept", "a template setting that the gateway does not control is not kept as it is in the generated file", fmt.Sprintf("user name %q (expected line username:s:%s) splituserdomain=%v\nfile: %q\n", u, wantUser, split, body))
					}
				}
				if prev, ok := firstOf[u]; ok && prev != out {
					r.Violation("c19-template-history", "a connection file depends on earlier downloads: the same user, template and settings give a different file than before", fmt.Sprintf("template: %q splituserdomain=%v\n%s\nfirst file for %q: %q\n", tpl, split, strings.Join(log, "\n"), u, prev))
					break
				}
				firstOf[u] = out
			}
		}
		os.Remove(fn)
	}
	r.extra["model_disagreements"] = drift
	if drift > 0 && !r.HasViolation() {
		r.Unproven(fmt.Sprintf("correspondence RdpFile model = rdp parser/marshaller/builder broke on %d cases with no round-trip or well-formedness failure found", drift), first)
	}
}
