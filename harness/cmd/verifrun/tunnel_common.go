package main

import (
	"fmt"
	"math/rand"
	"strings"
)

// packet type numbers as the client sends them (protocol facts, not taken from the code under test)
const (
	tHandshake = 0x1
	tTunnel    = 0x4
	tAuth      = 0x6
	tChannel   = 0x8
	tData      = 0xA
	tKeepalive = 0xD
	tClose     = 0x10
)

// implTraceCanon renders an implementation run for the oracle's `mon` command
// and for comparison with the model: per request `ty:body|events|stop`.
func implMonTrace(reads [][]byte, ir *implRun) string {
	var sb strings.Builder
	for i, e := range ir.elems {
		if i > 0 {
			sb.WriteByte(';')
		}
		pkt := reads[e.readIdx]
		ty := int(pkt[0]) | int(pkt[1])<<8
		var evs []string
		for _, d := range e.dials {
			evs = append(evs, "D"+hx([]byte(d))+":1")
		}
		for _, w := range e.writes {
			evs = append(evs, "S"+hx(w))
		}
		ev := "_"
		if len(evs) > 0 {
			ev = strings.Join(evs, ",")
		}
		fmt.Fprintf(&sb, "%d:%s|%s|%s", ty, hx(pkt[8:]), ev, b01(e.stopped))
	}
	if sb.Len() == 0 {
		return "_"
	}
	return sb.String()
}

// implModelCanon renders an implementation run in the model's own trace syntax
// (`[ev,ev|stop]…`) minus what cannot be observed: failed dials and the relay start.
func implModelCanon(ir *implRun, exactBytes bool) string {
	var sb strings.Builder
	for _, e := range ir.elems {
		var evs []string
		for _, d := range e.dials {
			evs = append(evs, "D"+hx([]byte(d))+":1")
		}
		for _, w := range e.writes {
			evs = append(evs, "S"+hx(w))
		}
		fmt.Fprintf(&sb, "[%s|%s]", strings.Join(evs, ","), b01(e.stopped))
	}
	return sb.String()
}

// modelCanon strips from the model's trace what the harness cannot observe
// (failed dial attempts, relay start, bytes towards the host — compared separately).
func modelCanon(trace string) (canon string, up []byte) {
	var sb strings.Builder
	elems := strings.Split(strings.TrimSuffix(strings.TrimPrefix(trace, "["), "]"), "][")
	if trace == "" {
		return "", nil
	}
	for _, el := range elems {
		parts := strings.SplitN(el, "|", 2)
		var evs []string
		if parts[0] != "" {
			for _, ev := range strings.Split(parts[0], ",") {
				switch {
				case ev == "R":
				case strings.HasPrefix(ev, "D") && strings.HasSuffix(ev, ":0"):
				case strings.HasPrefix(ev, "U"):
					up = append(up, unhx(ev[1:])...)
				default:
					evs = append(evs, ev)
				}
			}
		}
		fmt.Fprintf(&sb, "[%s|%s]", strings.Join(evs, ","), parts[1])
	}
	return sb.String(), up
}

func unhx(s string) []byte {
	if s == "-" || s == "" {
		return nil
	}
	out := make([]byte, len(s)/2)
	for i := range out {
		out[i] = hexv(s[2*i])<<4 | hexv(s[2*i+1])
	}
	return out
}

func hexv(c byte) byte {
	switch {
	case c >= '0' && c <= '9':
		return c - '0'
	case c >= 'a' && c <= 'f':
		return c - 'a' + 10
	case c >= 'A' && c <= 'F':
		return c - 'A' + 10
	}
	return 0
}

// ---------------------------------------------------------------------------
// generators

type histGen struct {
	rng       *rand.Rand
	listeners []*hostListener
	closed    string
}

func (g *histGen) randBytes(n int) []byte {
	b := make([]byte, n)
	g.rng.Read(b)
	return b
}

func (g *histGen) pick(ss ...string) string { return ss[g.rng.Intn(len(ss))] }

// cfg draws a gateway configuration and an environment.
func (g *histGen) cfg() *gwCfg {
	r := g.rng
	c := &gwCfg{}
	c.token = r.Intn(4) != 0
	c.sc = r.Intn(5) == 0
	c.ccheck = c.token
	if r.Intn(10) == 0 {
		c.ccheck = !c.ccheck
	}
	c.ncheck = r.Intn(6) == 0
	c.hcheck = r.Intn(8) != 0
	for i := range c.redir {
		c.redir[i] = r.Intn(2) == 0
	}
	if r.Intn(3) != 0 {
		c.redir[5], c.redir[6] = false, false
	}
	c.idle = []int{0, 1, 30, -1, 65535, 1 << 20}[r.Intn(6)]
	c.cookies = []string{"good-cookie", "tok2"}
	c.clients = []string{"PC1", "laptop"}
	// policy allows listener 0 and 1 and the closed port; listener 2 is a canary
	c.hosts = []string{g.listeners[0].addr, g.listeners[1].addr, g.closed}
	for _, l := range g.listeners {
		c.dial = append(c.dial, l.addr)
	}
	return c
}

func (g *histGen) extFor(c *gwCfg, valid bool) int {
	caps := 0
	if c.sc {
		caps |= 1
	}
	if c.token {
		caps |= 2
	}
	if valid {
		if caps == 0 {
			return 0
		}
		// any value sharing a bit
		v := caps & (1 + g.rng.Intn(3))
		if v == 0 {
			v = caps
		}
		return v | (g.rng.Intn(2) * 4)
	}
	if caps == 0 {
		return 1 + g.rng.Intn(7)
	}
	if g.rng.Intn(2) == 0 {
		return 0
	}
	return (^caps) & 7 &^ 0 & (4 | (^caps & 3))
}

type step struct {
	kind string
	pkt  []byte
}

func (g *histGen) hs(c *gwCfg, valid bool) step {
	return step{"hs", mkPacket(tHandshake, bodyHandshake(byte(g.rng.Intn(3)), byte(g.rng.Intn(3)), g.rng.Intn(2), g.extFor(c, valid)))}
}

func (g *histGen) tc(c *gwCfg, cookie string) step {
	return step{"tc", mkPacket(tTunnel, bodyTunnelCreate(uint32(g.rng.Intn(64)), 1, append(utf16le(cookie), 0, 0)))}
}

func (g *histGen) ta(name string) step {
	return step{"ta", mkPacket(tAuth, bodyTunnelAuth(append(utf16le(name), 0, 0)))}
}

func (g *histGen) cc(addr string) step {
	h, p := splitHostPort(addr)
	name := append(utf16le(h), 0, 0)
	switch g.rng.Intn(5) {
	case 0: // further resource names and alternate names: carried by the protocol, inert for the gateway
		return step{"cc", mkPacket(tChannel, bodyChannelMulti(p, [][]byte{name, append(utf16le("localhost"), 0, 0)}, nil))}
	case 1:
		return step{"cc", mkPacket(tChannel, bodyChannelMulti(p, [][]byte{name}, [][]byte{append(utf16le("localhost"), 0, 0), append(utf16le("127.0.0.1"), 0, 0)}))}
	}
	return step{"cc", mkPacket(tChannel, bodyChannel(p, name))}
}

func (g *histGen) data(n int) step { return step{"data", mkPacket(tData, bodyData(g.randBytes(n)))} }

func (g *histGen) validPrefix(c *gwCfg, n int) []step {
	all := []step{g.hs(c, true), g.tc(c, "good-cookie"), g.ta("PC1"), g.cc(g.listeners[g.rng.Intn(2)].addr),
		g.data(g.rng.Intn(40)), g.data(1 + g.rng.Intn(10))}
	if n > len(all) {
		n = len(all)
	}
	return all[:n]
}

// anyStep draws one arbitrary (valid-looking or hostile) packet.
func (g *histGen) anyStep(c *gwCfg) step {
	r := g.rng
	switch r.Intn(16) {
	case 0:
		return g.hs(c, true)
	case 1:
		return g.hs(c, false)
	case 2:
		return g.tc(c, "good-cookie")
	case 3:
		return g.tc(c, g.pick("bad", "", "good-cookiE", "tok2"))
	case 4:
		return g.ta(g.pick("PC1", "intruder", ""))
	case 5:
		return g.cc(g.listeners[r.Intn(len(g.listeners))].addr)
	case 6:
		return g.cc(g.closed)
	case 7:
		return g.data(r.Intn(30))
	case 8:
		return step{"ka", mkPacket(tKeepalive, nil)}
	case 9:
		return step{"close", mkPacket(tClose, g.randBytes(r.Intn(5)))}
	case 10:
		ty := []int{0, 2, 3, 5, 7, 9, 0xB, 0xC, 0xE, 0xF, 0x11, 0x12, 0xFF, 0x100, 0xFFFF}[r.Intn(15)]
		return step{"unk", mkPacket(ty, g.randBytes(r.Intn(12)))}
	case 11: // truncated body of a step packet
		ty := []int{tHandshake, tTunnel, tAuth, tChannel, tData}[r.Intn(5)]
		return step{"trunc", mkPacket(ty, g.randBytes(r.Intn(6)))}
	case 12: // over-long inner length field
		name := utf16le("127.0.0.1")
		b := bodyChannel(3389, name)
		b[6], b[7] = byte(len(name)+3+r.Intn(50)), byte(r.Intn(2))
		return step{"overlong", mkPacket(tChannel, b)}
	case 13: // tunnel create without the cookie field
		return step{"tc-nocookie", mkPacket(tTunnel, bodyTunnelCreate(0, 0, nil))}
	case 14:
		return g.cc(fmt.Sprintf("127.0.0.1:%d", 1+r.Intn(65535)))
	default:
		return g.data(0)
	}
}

// history draws one request history: a valid prefix, one perturbation, a random tail.
func (g *histGen) history(c *gwCfg) ([]step, string) {
	r := g.rng
	n := r.Intn(7)
	steps := g.validPrefix(c, n)
	shape := "valid"
	switch r.Intn(9) {
	case 0:
		shape = "valid-only"
	case 1: // repeat a step
		if len(steps) > 0 {
			steps = append(steps, steps[r.Intn(len(steps))])
			shape = "repeat"
		}
	case 2: // skip a step
		if len(steps) > 1 {
			i := r.Intn(len(steps) - 1)
			steps = append(append([]step{}, steps[:i]...), steps[i+1:]...)
			shape = "skip"
		}
	case 3: // swap two steps
		if len(steps) > 1 {
			i := r.Intn(len(steps) - 1)
			steps = append([]step{}, steps...)
			steps[i], steps[i+1] = steps[i+1], steps[i]
			shape = "swap"
		}
	case 4:
		steps = append(steps, g.anyStep(c))
		shape = "perturb"
	case 5: // rejected at the next step
		switch len(steps) {
		case 0:
			steps = append(steps, g.hs(c, false))
		case 1:
			steps = append(steps, g.tc(c, "bad"))
		case 2:
			steps = append(steps, g.ta("intruder"))
		case 3:
			steps = append(steps, g.cc(g.pick(g.listeners[2].addr, g.closed)))
		}
		shape = "rejected"
	case 6:
		steps = append(steps, step{"close", mkPacket(tClose, nil)})
		shape = "close"
	case 7:
		steps = append(steps, step{"unk", mkPacket(0x33, g.randBytes(3))})
		shape = "unknown"
	}
	tail := r.Intn(5)
	for i := 0; i < tail; i++ {
		steps = append(steps, g.anyStep(c))
	}
	if len(steps) > 14 {
		steps = steps[:14]
	}
	return steps, shape
}
