package main

import (
	"context"
	"encoding/binary"
	"fmt"
	"io"
	"net"
	"os"
	"strings"
	"sync"
	"syscall"
	"time"
	"unicode/utf16"

	"github.com/bolkedebruin/rdpgw/cmd/rdpgw/identity"
	"github.com/bolkedebruin/rdpgw/cmd/rdpgw/protocol"
)

// ---------------------------------------------------------------------------
// packet builders (independent of the code under test)

func le16(n int) []byte { b := make([]byte, 2); binary.LittleEndian.PutUint16(b, uint16(n)); return b }
func le32(n uint32) []byte {
	b := make([]byte, 4)
	binary.LittleEndian.PutUint32(b, n)
	return b
}

func mkPacket(ty int, body []byte) []byte {
	out := append(le16(ty), 0, 0)
	out = append(out, le32(uint32(8+len(body)))...)
	return append(out, body...)
}

// mkPacketLen builds a packet with an arbitrary length field.
func mkPacketLen(ty int, length uint32, body []byte) []byte {
	out := append(le16(ty), 0, 0)
	out = append(out, le32(length)...)
	return append(out, body...)
}

func utf16le(s string) []byte {
	u := utf16.Encode([]rune(s))
	out := make([]byte, 0, 2*len(u))
	for _, c := range u {
		out = append(out, byte(c), byte(c>>8))
	}
	return out
}

func bodyHandshake(major, minor byte, version, ext int) []byte {
	return append(append([]byte{major, minor}, le16(version)...), le16(ext)...)
}

func bodyTunnelCreate(caps uint32, fields int, cookie []byte) []byte {
	b := append(le32(caps), le16(fields)...)
	b = append(b, 0, 0)
	if fields&1 != 0 || cookie != nil {
		b = append(b, le16(len(cookie))...)
		b = append(b, cookie...)
	}
	return b
}

func bodyTunnelAuth(name []byte) []byte { return append(le16(len(name)), name...) }

func bodyChannel(port int, name []byte) []byte {
	b := []byte{1, 0}
	b = append(b, le16(port)...)
	b = append(b, le16(3)...)
	b = append(b, le16(len(name))...)
	return append(b, name...)
}

// bodyChannelMulti is a CHANNEL_CREATE body with several resource names and alternate names (the
// gateway uses the first resource name; the others are carried by the protocol and must be inert).
func bodyChannelMulti(port int, names [][]byte, alts [][]byte) []byte {
	b := []byte{byte(len(names)), byte(len(alts))}
	b = append(b, le16(port)...)
	b = append(b, le16(3)...)
	for _, n := range append(append([][]byte{}, names...), alts...) {
		b = append(b, le16(len(n))...)
		b = append(b, n...)
	}
	return b
}

func bodyData(payload []byte) []byte { return append(le16(len(payload)), payload...) }

// ---------------------------------------------------------------------------
// scripted transport

type writeRec struct {
	afterRead int // index of the last read delivered before this write (−1: none)
	data      []byte
}

type scriptTransport struct {
	mu       sync.Mutex
	reads    [][]byte
	next     int
	writes   []writeRec
	onRead   func(idx int) // called before read idx is delivered (idx == len(reads): the failing read)
	closed   bool
	readErr  error
	lastRead int
}

func newScript(reads [][]byte) *scriptTransport {
	return &scriptTransport{reads: reads, lastRead: -1, readErr: io.EOF}
}

func (s *scriptTransport) ReadPacket() (int, []byte, error) {
	s.mu.Lock()
	idx := s.next
	s.mu.Unlock()
	if s.onRead != nil {
		s.onRead(idx)
	}
	s.mu.Lock()
	defer s.mu.Unlock()
	if s.next >= len(s.reads) {
		s.next++
		return 0, []byte{0, 0}, s.readErr
	}
	b := s.reads[s.next]
	s.lastRead = s.next
	s.next++
	p := make([]byte, len(b))
	copy(p, b)
	return len(p), p, nil
}

func (s *scriptTransport) WritePacket(b []byte) (int, error) {
	s.mu.Lock()
	defer s.mu.Unlock()
	c := make([]byte, len(b))
	copy(c, b)
	s.writes = append(s.writes, writeRec{afterRead: s.lastRead, data: c})
	return len(b), nil
}

func (s *scriptTransport) Close() error { s.mu.Lock(); s.closed = true; s.mu.Unlock(); return nil }

// readsConsumed is the number of ReadPacket calls that delivered data.
func (s *scriptTransport) readsConsumed() int {
	s.mu.Lock()
	defer s.mu.Unlock()
	if s.next > len(s.reads) {
		return len(s.reads)
	}
	return s.next
}

// askedBeyond tells whether the loop asked for more after the last delivered read.
func (s *scriptTransport) calls() int { s.mu.Lock(); defer s.mu.Unlock(); return s.next }

// ---------------------------------------------------------------------------
// loopback "remote desktop hosts"

type hostConn struct {
	c    net.Conn
	mu   sync.Mutex
	buf  []byte
	eof  bool
	done chan struct{}
}

func (h *hostConn) received() []byte {
	h.mu.Lock()
	defer h.mu.Unlock()
	out := make([]byte, len(h.buf))
	copy(out, h.buf)
	return out
}

type hostListener struct {
	ln    *net.TCPListener
	addr  string
	conns []*hostConn
	// hangup: the host closes every connection right after accepting it, before sending a byte
	hangup bool
	// slow: the host reads through a small receive buffer with pauses (a busy or distant host)
	slow bool
}

func newHostListener() *hostListener { return newHostListenerOn(net.IPv4(127, 0, 0, 1)) }

func newHostListenerOn(ip net.IP) *hostListener {
	ln, err := net.ListenTCP("tcp4", &net.TCPAddr{IP: ip})
	if err != nil {
		panic(err)
	}
	return &hostListener{ln: ln, addr: ln.Addr().String()}
}

// poll accepts every connection that is already established (the dial has
// returned on the other side, so it sits in the accept queue).
func (h *hostListener) poll() int {
	n := 0
	rc, err := h.ln.SyscallConn()
	if err != nil {
		panic(err)
	}
	for {
		nfd := -1
		rc.Control(func(fd uintptr) {
			f, _, e := syscall.Accept4(int(fd), syscall.SOCK_CLOEXEC)
			if e == nil {
				nfd = f
			}
		})
		if nfd < 0 {
			return n
		}
		file := os.NewFile(uintptr(nfd), "host-conn")
		c, err := net.FileConn(file)
		file.Close()
		if err != nil {
			return n
		}
		hc := &hostConn{c: c, done: make(chan struct{})}
		h.conns = append(h.conns, hc)
		if h.hangup {
			c.Close()
			hc.eof = true
			close(hc.done)
			n++
			continue
		}
		slow := h.slow
		if tc, ok := c.(*net.TCPConn); ok && slow {
			tc.SetReadBuffer(64 * 1024)
		}
		go func() {
			defer close(hc.done)
			buf := make([]byte, 65536)
			for {
				if slow {
					time.Sleep(time.Millisecond)
				}
				k, err := c.Read(buf)
				hc.mu.Lock()
				hc.buf = append(hc.buf, buf[:k]...)
				if err != nil {
					hc.eof = true
					hc.mu.Unlock()
					return
				}
				hc.mu.Unlock()
			}
		}()
		n++
	}
}

func (h *hostListener) reset() {
	for _, c := range h.conns {
		c.c.Close()
	}
	h.conns = nil
}

func (h *hostListener) close() { h.reset(); h.ln.Close() }

// closedPort returns a loopback address on which nothing listens.
func closedPort() string {
	// bound but not listening: connections are refused, and the port stays reserved for the life of
	// the process (a merely freed port can be handed out as the local port of the very connection
	// that is supposed to fail, which then connects to itself)
	fd, err := syscall.Socket(syscall.AF_INET, syscall.SOCK_STREAM, 0)
	if err != nil {
		panic(err)
	}
	if err := syscall.Bind(fd, &syscall.SockaddrInet4{Port: 0, Addr: [4]byte{127, 0, 0, 1}}); err != nil {
		panic(err)
	}
	sa, err := syscall.Getsockname(fd)
	if err != nil {
		panic(err)
	}
	return fmt.Sprintf("127.0.0.1:%d", sa.(*syscall.SockaddrInet4).Port)
}

func splitHostPort(addr string) (string, int) {
	h, p, _ := net.SplitHostPort(addr)
	var port int
	fmt.Sscanf(p, "%d", &port)
	return h, port
}

// ---------------------------------------------------------------------------
// gateway configuration shared by model and implementation

type gwCfg struct {
	token, sc                     bool
	ccheck, ncheck, hcheck        bool
	redir                         [7]bool // clipboard port drive printer pnp disableAll enableAll
	idle                          int
	cookies, clients, hosts, dial []string
}

func (c *gwCfg) oracleArgs() string {
	var rb strings.Builder
	for _, b := range c.redir {
		rb.WriteString(b01(b))
	}
	return fmt.Sprintf("token=%s sc=%s ccheck=%s ncheck=%s hcheck=%s redir=%s idle=%d cookies=%s clients=%s hosts=%s dial=%s",
		b01(c.token), b01(c.sc), b01(c.ccheck), b01(c.ncheck), b01(c.hcheck), rb.String(), c.idle,
		hxStrs(c.cookies), hxStrs(c.clients), hxStrs(c.hosts), hxStrs(c.dial))
}

func contains(ss []string, s string) bool {
	for _, x := range ss {
		if x == s {
			return true
		}
	}
	return false
}

func (c *gwCfg) gateway() *protocol.Gateway {
	g := &protocol.Gateway{
		RedirectFlags: protocol.RedirectFlags{
			Clipboard: c.redir[0], Port: c.redir[1], Drive: c.redir[2], Printer: c.redir[3],
			Pnp: c.redir[4], DisableAll: c.redir[5], EnableAll: c.redir[6],
		},
		IdleTimeout:   c.idle,
		SmartCardAuth: c.sc,
		TokenAuth:     c.token,
	}
	// the installed callbacks report a refusal with an error value (as security.CheckHost and
	// CheckPAACookie do) or without one, and an acceptance sometimes with a stray error: only the
	// boolean decides
	verdict := func(ok bool, s string) (bool, error) {
		if (len(s)+c.idle)%2 == 0 {
			return ok, nil
		}
		if ok {
			return true, nil
		}
		return false, fmt.Errorf("refused %q", s)
	}
	if c.ccheck {
		g.CheckPAACookie = func(ctx context.Context, s string) (bool, error) {
			ok := contains(c.cookies, s)
			if ok {
				// as security.CheckPAACookie does on acceptance: the token's host and address go into the tunnel
				// record (here: a host that accepts connections, so that a connection made on the strength of
				// the record alone would be seen)
				if t, _ := ctx.Value(protocol.CtxTunnel).(*protocol.Tunnel); t != nil && len(c.dial) > 0 {
					t.TargetServer = c.dial[0]
					t.RemoteAddr = "192.0.2.1"
				}
			}
			return verdict(ok, s)
		}
	}
	if c.ncheck {
		g.CheckClientName = func(_ context.Context, s string) (bool, error) { return verdict(contains(c.clients, s), s) }
	}
	if c.hcheck {
		g.CheckHost = func(_ context.Context, s string) (bool, error) { return verdict(contains(c.hosts, s), s) }
	}
	return g
}

// ---------------------------------------------------------------------------
// running the real packet loop over a script

type implElem struct {
	readIdx int
	writes  [][]byte
	dials   []string // addresses that accepted a connection during this step
	stopped bool
}

type implRun struct {
	elems     []implElem
	hostBytes map[string][]byte // per listener address, bytes received (all connections, in order)
	accepted  map[string]int
	panicked  string
	err       error
	timedOut  bool
}

// runProcess feeds `reads` (one transport read each) to the real Processor.
// listeners are polled after every read so that connection attempts are
// attributed to the request that caused them.
func runProcess(cfg *gwCfg, reads [][]byte, listeners []*hostListener) *implRun {
	return runProcessWith(cfg, reads, listeners, nil)
}

// runProcessWith lets the caller adjust the tunnel and gateway (real policy
// callbacks, token fields) and supply the context before the loop starts.
func runProcessWith(cfg *gwCfg, reads [][]byte, listeners []*hostListener, prep func(*protocol.Tunnel, *protocol.Gateway) context.Context) *implRun {
	for _, l := range listeners {
		l.poll()
		l.reset()
	}
	st := newScript(reads)
	res := &implRun{hostBytes: map[string][]byte{}, accepted: map[string]int{}}
	dialsAt := map[int][]string{}
	st.onRead = func(idx int) {
		// everything the loop did for read idx-1 has happened by now
		for _, l := range listeners {
			if n := l.poll(); n > 0 {
				for i := 0; i < n; i++ {
					dialsAt[idx-1] = append(dialsAt[idx-1], l.addr)
				}
				res.accepted[l.addr] += n
			}
		}
	}
	user := identity.NewUser()
	user.SetAttribute(identity.AttrClientIp, "192.0.2.1")
	t := protocol.VerifNewTunnel(st, st, user)
	gw := cfg.gateway()
	var pctx context.Context
	if prep != nil {
		pctx = prep(t, gw)
	}
	p := protocol.NewProcessor(gw, t)
	done := make(chan struct{})
	go func() {
		defer close(done)
		defer func() {
			if rec := recover(); rec != nil {
				res.panicked = fmt.Sprint(rec)
			}
		}()
		ctx := pctx
		if ctx == nil {
			ctx = context.WithValue(context.Background(), protocol.CtxTunnel, t)
		}
		res.err = p.Process(ctx)
	}()
	select {
	case <-done:
	case <-time.After(20 * time.Second):
		res.timedOut = true
		return res
	}
	for _, l := range listeners {
		if l.hangup && len(res.accepted) > 0 {
			time.Sleep(25 * time.Millisecond) // a connection opened behind the loop's back shows up here
			break
		}
	}
	protocol.VerifCloseBackend(t)
	// final sweep: stray connection attempts belong to the last request read
	last := st.readsConsumed() - 1
	for _, l := range listeners {
		if n := l.poll(); n > 0 {
			for i := 0; i < n; i++ {
				dialsAt[last] = append(dialsAt[last], l.addr)
			}
			res.accepted[l.addr] += n
		}
	}
	// wait for the hosts to see EOF so that what they received is complete
	for _, l := range listeners {
		for _, c := range l.conns {
			select {
			case <-c.done:
			case <-time.After(3 * time.Second):
			}
			res.hostBytes[l.addr] = append(res.hostBytes[l.addr], c.received()...)
		}
	}
	consumed := st.readsConsumed()
	calls := st.calls()
	for i := 0; i < consumed; i++ {
		e := implElem{readIdx: i, dials: dialsAt[i]}
		for _, w := range st.writes {
			if w.afterRead == i {
				e.writes = append(e.writes, w.data)
			}
		}
		// stopped: the loop never asked for another read after this one
		e.stopped = (i == consumed-1) && calls == consumed
		res.elems = append(res.elems, e)
	}
	return res
}
