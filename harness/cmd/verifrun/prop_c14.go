package main

import (
	"bytes"
	"encoding/base64"
	"fmt"
	"strings"

	authconfig "github.com/bolkedebruin/rdpgw/cmd/auth/config"
	"github.com/bolkedebruin/rdpgw/cmd/auth/database"
	authntlm "github.com/bolkedebruin/rdpgw/cmd/auth/ntlm"
	"github.com/bolkedebruin/rdpgw/shared/auth"
	"github.com/m7913d/go-ntlm/ntlm"
)

func init() { register("C14", runC14) }

type ntlmStep struct {
	sid  string // "" = empty session
	kind byte   // N A M G B E
	user string
	pw   string
	from int    // index of the history step whose challenge the proof is for (A only), -1 = none available
	as   string // scripted histories: the name written into the message instead of user ("" = user)
}

// c14Scripted: histories that run first in every run, whatever the seed. On one session: an attempt that
// is rejected (right user, wrong password), then a new negotiate and a proof made with one user's password
// under another user's name, in both orders and with the honest login before or after.
func c14Scripted() [][]ntlmStep {
	n := func(sid string) ntlmStep { return ntlmStep{sid: sid, kind: 'N', from: -1} }
	a := func(sid, user, pw, as string) ntlmStep {
		return ntlmStep{sid: sid, kind: 'A', user: user, pw: pw, as: as, from: -1}
	}
	return [][]ntlmStep{
		{n("s1"), a("s1", "alice", "wrong", ""), n("s1"), a("s1", "alice", "secret1", "carol")},
		{n("s1"), a("s1", "carol", "wrong", ""), n("s1"), a("s1", "carol", "hunter2", "alice")},
		{n("s1"), a("s1", "alice", "secret1", ""), n("s1"), a("s1", "alice", "secret1", "carol"), n("s1"), a("s1", "carol", "hunter2", "")},
		{n("s1"), a("s1", "alice", "wrong", ""), n("s1"), a("s1", "alice", "wrong", ""), n("s1"), a("s1", "alice", "secret1", "")},
		{n("s1"), n("s2"), a("s1", "alice", "wrong", ""), a("s2", "alice", "secret1", "carol"), n("s2"), a("s2", "carol", "hunter2", "")},
		{n("10.0.0.1:4711"), a("10.0.0.1:4711", "alice", "x", ""), n("10.0.0.1:4711"), a("10.0.0.1:4711", "alice", "secret1", "Alice")},
	}
}

func runC14(r *Run) {
	r.rule = "histories of ≤ 12 calls over ≤ 3 session identifiers (and the empty one) against random user databases: negotiate, authenticate messages produced by the go-ntlm client for chosen (user, password, challenge of any earlier negotiate — same session, other session, superseded), malformed negotiate, garbage, bad base64, empty; non-trivial = contains at least one authenticate after a negotiate; distinct by (database, history)"
	rng := r.Rng
	r.TierRan("api")
	names := []string{"alice", "bob", "carol", "Alice", "nopass"}
	pws := []string{"secret1", "hunter2", "pässwörd", "x", ""}
	n := r.N(2500, 100000)
	drift := 0
	first := ""
	var lines []string
	type hcase struct {
		db    map[string]string
		steps []ntlmStep
		outs  []string
		pan   string
		model []string // the history in the oracle's syntax
		doms  []string // per call: the domain field of an authenticate message ("-" otherwise)
	}
	var cases []*hcase
	scripted := c14Scripted()
	for i := 0; i < n; i++ {
		hc := &hcase{db: map[string]string{}}
		var users []authconfig.UserConfig
		var script []ntlmStep
		if i < len(scripted) {
			script = scripted[i]
		}
		for _, nm := range names {
			if script != nil {
				pw := map[string]string{"alice": "secret1", "bob": "x", "carol": "hunter2", "Alice": "pässwörd", "nopass": ""}[nm]
				hc.db[nm] = pw
				users = append(users, authconfig.UserConfig{Username: nm, Password: pw})
				continue
			}
			if rng.Intn(3) != 0 {
				pw := pws[rng.Intn(len(pws)-1)]
				if nm == "nopass" {
					pw = ""
				}
				hc.db[nm] = pw
				users = append(users, authconfig.UserConfig{Username: nm, Password: pw})
			}
		}
		server := authntlm.NewNTLMAuth(database.NewConfig(users))
		challenges := map[int][]byte{} // step index -> challenge message bytes
		chalNonce := map[int]int{}     // step index -> model nonce
		nonce := 0
		nsteps := 1 + rng.Intn(12)
		if script != nil {
			nsteps = len(script)
		}
		sidNo := map[string]string{}
		var negs []int
		for k := 0; k < nsteps; k++ {
			// session identifiers are peer addresses in practice: short ones, ones that share a host, and
			// long ones (fully written IPv6 with 5-digit ports, long opaque ids) that agree on a long prefix
			sidSets := [][]string{
				{"s1", "s1", "s2", "10.0.0.1:4711", "10.0.0.1:4712", "10.0.0.1:4711", ""},
				{"[2001:0db8:1111:2222:3333:4444:5555:6666]:50012", "[2001:0db8:1111:2222:3333:4444:5555:6666]:50013", "[2001:0db8:1111:2222:3333:4444:5555:6666]:50012", "[2001:0db8:1111:2222:3333:4444:5555:6666]:5001"},
				{strings.Repeat("x", 64) + "A", strings.Repeat("x", 64) + "B", strings.Repeat("x", 64), strings.Repeat("x", 32) + "A", strings.Repeat("x", 32) + "B"},
				{"S1", "s1", "s1 ", " s1", "s1\x00", "s1\x00x"},
			}
			set := sidSets[0]
			if i%3 == 1 {
				set = sidSets[1+(i/3)%3]
			}
			st := ntlmStep{sid: set[rng.Intn(len(set))], from: -1}
			switch x := rng.Intn(12); {
			case x < 4:
				st.kind = 'N'
			case x < 9:
				st.kind = 'A'
				st.user = names[rng.Intn(len(names))]
				if pw, ok := hc.db[st.user]; ok && rng.Intn(3) != 0 {
					st.pw = pw
				} else {
					st.pw = pws[rng.Intn(len(pws))]
				}
				if rng.Intn(6) == 0 {
					// a logon name as users type it (UPN, down-level) around a configured account name, with that
					// account's password: only the exact configured names exist
					base := st.user
					st.user = []string{base + "@corp.example", "CORP\\" + base, base + "@", "x@y\\" + base, base + " ", "\\" + base}[rng.Intn(6)]
					if pw, ok := hc.db[base]; ok {
						st.pw = pw
					}
				}
				if len(negs) > 0 {
					st.from = negs[len(negs)-1-rng.Intn(min(len(negs), 3))]
				}
			case x == 9:
				st.kind = 'M'
			case x == 10:
				st.kind = []byte{'G', 'B'}[rng.Intn(2)]
			default:
				st.kind = 'E'
			}
			if script != nil {
				st = script[k]
				if st.kind == 'A' { // the proof answers the latest challenge drawn on the same session
					for j := len(negs) - 1; j >= 0; j-- {
						if hc.steps[negs[j]].sid == st.sid {
							st.from = negs[j]
							break
						}
					}
				}
			}
			// build the message
			var msg string
			dom := "-"
			mstr := string(st.kind)
			switch st.kind {
			case 'N':
				cl := ntlm.V2ClientSession{}
				cl.SetUserInfo("x", "y", "")
				nm, _ := cl.GenerateNegotiateMessage()
				msg = base64.StdEncoding.EncodeToString(nm.Bytes())
			case 'A':
				if st.from < 0 {
					// no challenge to answer: send an authenticate-shaped message for a made-up challenge
					st.kind = 'G'
					mstr = "G"
					msg = base64.StdEncoding.EncodeToString([]byte("NTLMSSP\x00\x03\x00\x00\x00junkjunkjunk"))
					break
				}
				cl := ntlm.V2ClientSession{}
				// the domain field is the client's to fill in (empty, a NetBIOS name, a DNS name): the proof covers it
				// (one client, one domain: it follows from the session identifier)
				h := len(st.sid)
				for _, b := range []byte(st.sid) {
					h += int(b)
				}
				dom = []string{"", "CORP", "", "corp.example"}[h%4]
				cl.SetUserInfo(st.user, st.pw, dom)
				cl.GenerateNegotiateMessage()
				cm, err := ntlm.ParseChallengeMessage(challenges[st.from])
				if err != nil {
					panic(err)
				}
				cl.ProcessChallengeMessage(cm)
				am, err := cl.GenerateAuthenticateMessage()
				if err != nil {
					panic(err)
				}
				raw := am.Bytes()
				named := st.user
				if st.as != "" && len(st.as) == len(st.user) {
					named = st.as
					raw = bytes.Replace(raw, utf16le(st.user), utf16le(st.as), 1)
				} else if script == nil && rng.Intn(4) == 0 {
					// the message names another user than the one whose password made the proof
					for _, o := range names {
						if o != st.user && len(o) == len(st.user) && rng.Intn(2) == 0 {
							named = o
							raw = bytes.Replace(raw, utf16le(st.user), utf16le(o), 1)
							break
						}
					}
				}
				msg = base64.StdEncoding.EncodeToString(raw)
				mstr = fmt.Sprintf("A%s:%s:%s:%d", hx([]byte(named)), hx([]byte(st.user)), hx([]byte(st.pw)), chalNonce[st.from])
			case 'M':
				msg = base64.StdEncoding.EncodeToString([]byte("NTLMSSP\x00\x01\x00\x00\x00\x07"))
			case 'G':
				b := make([]byte, 5+rng.Intn(40))
				rng.Read(b)
				msg = base64.StdEncoding.EncodeToString(b)
			case 'B':
				msg = "!!!not base64!!!"
			case 'E':
				msg = ""
			}
			var out string
			func() {
				defer func() {
					if rec := recover(); rec != nil {
						hc.pan = fmt.Sprint(rec)
						out = "PANIC"
					}
				}()
				resp, err := server.Authenticate(&auth.NtlmRequest{Session: st.sid, NtlmMessage: msg})
				switch {
				case resp != nil && resp.Authenticated:
					out = "OK" + hx([]byte(resp.Username))
				case err != nil:
					out = "ERR"
				case resp != nil && resp.NtlmMessage != "":
					cb, _ := base64.StdEncoding.DecodeString(resp.NtlmMessage)
					challenges[k] = cb
					chalNonce[k] = nonce
					out = fmt.Sprintf("C%d", nonce)
					negs = append(negs, k)
				default:
					out = "REJ"
				}
			}()
			if st.kind == 'N' && st.sid != "" {
				nonce++
			}
			sid := "-"
			if st.sid != "" {
				if _, ok := sidNo[st.sid]; !ok {
					sidNo[st.sid] = fmt.Sprint(len(sidNo) + 1)
				}
				sid = sidNo[st.sid]
			}
			hc.steps = append(hc.steps, st)
			hc.outs = append(hc.outs, out)
			hc.model = append(hc.model, sid+"/"+mstr)
			hc.doms = append(hc.doms, fmt.Sprintf("%q", dom))
		}
		var dbs []string
		for u, p := range hc.db {
			dbs = append(dbs, hx([]byte(u))+":"+hx([]byte(p)))
		}
		dbarg := "_"
		if len(dbs) > 0 {
			dbarg = strings.Join(dbs, ",")
		}
		lines = append(lines, "ntlm db="+dbarg+" hist="+strings.Join(hc.model, ";"))
		cases = append(cases, hc)
	}
	ans := r.Oracle(lines)
	for i, hc := range cases {
		nontrivial := false
		for _, s := range hc.steps {
			if s.kind == 'A' {
				nontrivial = true
			}
		}
		key := ""
		if nontrivial {
			key = lines[i]
		}
		r.Count(key)
		if i < 2 {
			r.Sample(map[string]interface{}{"db": hc.db, "history": hc.model, "impl": hc.outs, "model": ans[i]})
		}
		rep := fmt.Sprintf("database: %v\nhistory (session/message; A<named>:<user>:<password>:<challenge no.>): %s\ndomain field per call: %s\nimplementation: %s\nmodel:          %s\n", hc.db, strings.Join(hc.model, " "), strings.Join(hc.doms, " "), strings.Join(hc.outs, ","), ans[i])
		if hc.pan != "" {
			r.Violation("c14-panic", "the NTLM verifier panicked: "+hc.pan, rep)
			continue
		}
		mo := strings.Split(ans[i], ",")
		bad := false
		for k, o := range hc.outs {
			if strings.HasPrefix(o, "OK") && (k >= len(mo) || mo[k] != o) {
				r.Violation("c14-authenticated", "a user was reported authenticated without proof of the configured password against the session's current challenge (or under another name)", rep+fmt.Sprintf("offending call: %d\n", k))
				bad = true
				break
			}
			if k < len(mo) && strings.HasPrefix(mo[k], "OK") && o != mo[k] {
				r.Violation("c14-complete", "a client that knows the password and followed the exchange was not authenticated", rep+fmt.Sprintf("offending call: %d\n", k))
				bad = true
				break
			}
		}
		if !bad && strings.Join(hc.outs, ",") != ans[i] {
			drift++
			if first == "" {
				first = rep
			}
		}
	}
	// many exchanges left half open by other clients (abandoned first legs, rejected attempts) must
	// not keep a client that knows the password and follows the exchange from being authenticated
	{
		server := authntlm.NewNTLMAuth(database.NewConfig([]authconfig.UserConfig{{Username: "alice", Password: "secret1"}}))
		cl0 := ntlm.V2ClientSession{}
		cl0.SetUserInfo("mallory", "x", "")
		neg, _ := cl0.GenerateNegotiateMessage()
		negB64 := base64.StdEncoding.EncodeToString(neg.Bytes())
		nAbandoned := r.N(3000, 20000)
		for i := 0; i < nAbandoned; i++ {
			server.Authenticate(&auth.NtlmRequest{Session: fmt.Sprintf("198.51.100.%d:%d", i%250, 1024+i), NtlmMessage: negB64})
		}
		cl := ntlm.V2ClientSession{}
		cl.SetUserInfo("alice", "secret1", "")
		nm, _ := cl.GenerateNegotiateMessage()
		out := "no challenge"
		resp, err := server.Authenticate(&auth.NtlmRequest{Session: "203.0.113.5:50000", NtlmMessage: base64.StdEncoding.EncodeToString(nm.Bytes())})
		if err == nil && resp != nil && resp.NtlmMessage != "" {
			if cb, e := base64.StdEncoding.DecodeString(resp.NtlmMessage); e == nil {
				if cm, e := ntlm.ParseChallengeMessage(cb); e == nil {
					cl.ProcessChallengeMessage(cm)
					if am, e := cl.GenerateAuthenticateMessage(); e == nil {
						r2, e2 := server.Authenticate(&auth.NtlmRequest{Session: "203.0.113.5:50000", NtlmMessage: base64.StdEncoding.EncodeToString(am.Bytes())})
						out = fmt.Sprintf("authenticated=%v user=%q err=%v", r2 != nil && r2.Authenticated, func() string {
							if r2 != nil {
								return r2.Username
							}
							return ""
						}(), e2)
					}
				}
			}
		} else {
			out = fmt.Sprintf("negotiate refused: %v", err)
		}
		r.Count("after-abandoned-exchanges")
		if !strings.HasPrefix(out, "authenticated=true user=\"alice\"") {
			r.Violation("c14-complete", "a client that knows the password and followed the exchange was not authenticated", fmt.Sprintf("%d negotiate messages on distinct sessions, never answered; then alice (password known) runs a regular exchange on a new session: %s\n", nAbandoned, out))
		}
	}
	r.extra["model_disagreements"] = drift
	if drift > 0 && !r.HasViolation() {
		r.Unproven(fmt.Sprintf("correspondence Ntlm.step = NTLMAuth.Authenticate broke on %d histories with no wrongly authenticated or wrongly refused user found", drift), first)
	}
}
