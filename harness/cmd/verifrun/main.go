// verifrun runs the correspondence part of one property check: it generates
// cases from one PRNG, runs the real rdpgw code on them, runs the Lean oracle
// (the executable models and property predicates) on the same cases, compares
// canonical outputs, classifies differences and writes the evidence file.
package main

import (
	"flag"
	"fmt"
	"io"
	"log"
	"os"
	"runtime/debug"
	"sort"
	"strconv"
	"time"
)

type propFn func(r *Run)

var props = map[string]propFn{}

func register(id string, f propFn) { props[id] = f }

func main() {
	prop := flag.String("prop", "", "property id (C01…C20)")
	tier := flag.String("tier", "quick", "quick|thorough")
	audit := flag.String("audit", "", "audit json written by ./check (proof obligations)")
	evidence := flag.String("evidence", "", "evidence file to write")
	replay := flag.String("replay", "", "replay a case file instead of generating")
	oracle := flag.String("oracle", "/verif/lean/.lake/build/bin/rdpgw_oracle", "oracle binary")
	flag.Parse()

	log.SetOutput(io.Discard) // the code under test logs a lot

	seed := int64(1)
	if s := os.Getenv("VERIF_SEED"); s != "" {
		if v, err := strconv.ParseInt(s, 10, 64); err == nil {
			seed = v
		}
	}
	f, ok := props[*prop]
	if !ok {
		ids := []string{}
		for k := range props {
			ids = append(ids, k)
		}
		sort.Strings(ids)
		fmt.Fprintf(os.Stderr, "unknown property %q; have %v\n", *prop, ids)
		os.Exit(2)
	}
	r := newRun(*prop, *tier, seed, *oracle, *audit, *evidence, *replay)
	start := time.Now()
	func() {
		defer func() {
			if rec := recover(); rec != nil {
				r.Violation("harness-panic", fmt.Sprintf("the harness itself panicked: %v", rec), string(debug.Stack()))
			}
		}()
		f(r)
	}()
	r.finish(time.Since(start))
}
