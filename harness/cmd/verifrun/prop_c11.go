package main

import (
	"bufio"
	"encoding/base64"
	"fmt"
	"io"
	"net"
	"os"
	"path/filepath"
	"runtime"
	"strings"
	"time"

	"github.com/bolkedebruin/rdpgw/cmd/rdpgw/protocol"
	"github.com/prometheus/client_golang/prometheus"
)

func init() { register("C11", runC11) }

// gwGoroutines counts goroutines with a frame in the gateway's protocol or transport package.
func gwGoroutines() (int, string) {
	buf := make([]byte, 1<<20)
	for {
		n := runtime.Stack(buf, true)
		if n < len(buf) {
			buf = buf[:n]
			break
		}
		buf = make([]byte, 2*len(buf))
	}
	cnt := 0
	var kept []string
	for _, g := range strings.Split(string(buf), "\n\n") {
		if strings.Contains(g, "rdpgw/cmd/rdpgw/protocol.") || strings.Contains(g, "rdpgw/cmd/rdpgw/transport.") {
			cnt++
			lines := strings.Split(g, "\n")
			var fr []string
			for _, l := range lines {
				if strings.Contains(l, "rdpgw/cmd/rdpgw/") && !strings.HasPrefix(l, "\t") {
					fr = append(fr, strings.TrimSpace(l[strings.LastIndex(l, "/")+1:]))
				}
			}
			kept = append(kept, strings.Join(fr, " < "))
		}
	}
	return cnt, strings.Join(kept, "\n    ")
}

func gaugeValue(name string) float64 {
	mfs, err := prometheus.DefaultGatherer.Gather()
	if err != nil {
		return -1
	}
	for _, mf := range mfs {
		if mf.GetName() == name {
			for _, m := range mf.GetMetric() {
				if m.GetGauge() != nil {
					return m.GetGauge().GetValue()
				}
			}
		}
	}
	return -1
}

type c11Case struct {
	transport  string // ws | legacy
	stage      int    // 0 nothing sent, 1 after handshake, 2 after tunnel create, 3 after tunnel auth, 4 channel refused (dial fails), 5 channel open, 6 opened (one payload), 7 host streaming, 8 client streaming, 9 both
	cause      string // close order frame dropws dropin dropout
	reset      bool   // TCP reset instead of an orderly close
	politeHost bool   // the host closes when it sees end of stream
	buffers    bool   // the gateway is configured with socket send/receive buffer sizes (stage 10: host streaming, client not reading)
	retry      bool   // legacy: while the tunnel is up, an RDG_IN_DATA request for the same identifier arrives again (a client or proxy retry) and is dropped by the client after the answer
}

func (c c11Case) String() string {
	st := []string{"before the handshake", "after the handshake", "after tunnel create", "after tunnel authorization", "after a refused channel (host unreachable)", "channel open, idle", "channel open, one payload exchanged", "host streaming to the client", "client streaming to the host", "both streaming", "host streaming to a client that does not read (the gateway's writes towards it are blocked)", "the host went away first, the client kept sending (200 DATA packets)"}[c.stage]
	ca := map[string]string{"close": "CLOSE_CHANNEL", "order": "out-of-order packet", "frame": "unframeable bytes (length field 3)", "dropws": "TCP end of the websocket", "dropin": "TCP end of the legacy IN connection", "dropout": "TCP end of the legacy OUT connection"}[c.cause]
	k := "close"
	if c.reset {
		k = "reset"
	}
	h := "host keeps its side open and keeps writing"
	if c.politeHost {
		h = "host closes on end of stream"
	}
	bf := ""
	if c.buffers {
		bf = " gateway with sendbuf/receivebuf=65536"
	}
	if c.retry {
		bf += " (a repeated RDG_IN_DATA request for the same identifier came in while the tunnel was up)"
	}
	return fmt.Sprintf("transport=%s point=%q ending=%q tcp=%s %s%s", c.transport, st, ca, k, h, bf)
}

type c11Obs struct {
	backendDialled bool
	backendEOF     bool // the host saw end of stream / reset
	backendDead    bool // writes by the host fail: the gateway's socket is gone
	clientEOF      bool // every client-facing connection the client did not end itself was closed by the gateway
	goroutines     int
	gdump          string
	registry       int
	cache          int
	wsGauge        float64
	legacyGauge    float64
	inconclusive   string
}

func (o c11Obs) released() bool {
	return (!o.backendDialled || (o.backendEOF && o.backendDead)) && o.clientEOF && o.goroutines == 0 && o.registry == 0 && o.cache == 0 && o.wsGauge == 0 && o.legacyGauge == 0
}

func (o c11Obs) String() string {
	return fmt.Sprintf("backend dialled=%v saw-end=%v socket-gone=%v; client connections closed by the gateway=%v; gateway goroutines left=%d; registry=%d cache=%d websocket gauge=%v legacy gauge=%v\n    %s", o.backendDialled, o.backendEOF, o.backendDead, o.clientEOF, o.goroutines, o.registry, o.cache, o.wsGauge, o.legacyGauge, o.gdump)
}

func tcpEnd(c net.Conn, reset bool) {
	if tc, ok := c.(*net.TCPConn); ok && reset {
		tc.SetLinger(0)
	}
	c.Close()
}

// sawEOF reports whether reading c ends (EOF or error) within d.
func sawEOF(c net.Conn, br *bufio.Reader, d time.Duration) bool {
	deadline := time.Now().Add(d)
	buf := make([]byte, 65536)
	for {
		c.SetReadDeadline(deadline)
		var err error
		if br != nil {
			_, err = br.Read(buf)
		} else {
			_, err = c.Read(buf)
		}
		if err != nil {
			return !isTimeout(err)
		}
	}
}

// runC11Case drives one tunnel to the point, ends it, and observes what is left after `bound`.
func runC11Case(gws *gwServer, cs c11Case, host *hostListener, bound time.Duration) c11Obs {
	var o c11Obs
	host.poll()
	host.reset()
	connID := "{" + randHex(8) + "}"
	var ws *wsClient
	var out, in net.Conn
	var outBr *bufio.Reader
	var err error
	send := func(p []byte) {
		if ws != nil {
			ws.send(p)
		} else if in != nil {
			in.Write([]byte(fmt.Sprintf("%x\r\n%s\r\n", len(p), p)))
		}
	}
	if cs.transport == "ws" {
		ws, err = dialWS(gws.addr, connID, "")
		if err != nil {
			o.inconclusive = err.Error()
			return o
		}
	} else {
		out, outBr, err = dialLegacyOut(gws.addr, connID, "")
		if err != nil {
			o.inconclusive = err.Error()
			return o
		}
		in, _, err = dialLegacyIn(gws.addr, connID, "")
		if err != nil {
			out.Close()
			o.inconclusive = err.Error()
			return o
		}
	}
	_, port := splitHostPort(host.addr)
	dialHost := "127.0.0.1"
	if cs.stage == 4 {
		_, port = splitHostPort(closedPort())
	}
	steps := [][]byte{
		mkPacket(tHandshake, bodyHandshake(1, 0, 0, 0)),
		mkPacket(tTunnel, bodyTunnelCreate(0, 0, nil)),
		mkPacket(tAuth, bodyTunnelAuth(append(utf16le("PC"), 0, 0))),
		mkPacket(tChannel, bodyChannel(port, append(utf16le(dialHost), 0, 0))),
	}
	nsteps := cs.stage
	if nsteps > 4 {
		nsteps = 4
	}
	for i := 0; i < nsteps; i++ {
		send(steps[i])
	}
	var hc *hostConn
	if cs.stage >= 5 {
		if !waitFor(4*time.Second, func() bool { host.poll(); return len(host.conns) > 0 }) {
			o.inconclusive = "the channel did not open"
			if ws != nil {
				ws.close()
			} else {
				in.Close()
				out.Close()
			}
			return o
		}
		hc = host.conns[0]
		o.backendDialled = true
	} else if cs.stage == 4 {
		time.Sleep(20 * time.Millisecond) // let the refused dial come back
	} else {
		time.Sleep(5 * time.Millisecond)
	}
	if cs.retry && cs.transport == "legacy" {
		if c2, err := net.DialTimeout("tcp", gws.addr, 2*time.Second); err == nil {
			c2.SetDeadline(time.Now().Add(500 * time.Millisecond))
			c2.Write([]byte("RDG_IN_DATA /remoteDesktopGateway/ HTTP/1.1\r\nHost: " + gws.addr + "\r\nTransfer-Encoding: chunked\r\nRdg-Connection-Id: " + connID + "\r\n\r\n"))
			buf := make([]byte, 512)
			c2.Read(buf)
			c2.Close()
		}
		time.Sleep(10 * time.Millisecond)
	}
	if cs.stage == 11 {
		hc.c.Close()
		time.Sleep(20 * time.Millisecond)
		small := mkPacket(tData, bodyData([]byte("after the host left")))
		for i := 0; i < 200; i++ {
			send(small)
		}
		time.Sleep(20 * time.Millisecond)
	}
	stop := make(chan struct{})
	streamsDone := make(chan struct{}, 2)
	nstreams := 0
	if cs.stage >= 6 && cs.stage != 11 {
		send(mkPacket(tData, bodyData([]byte("hello"))))
		hc.c.Write([]byte("welcome"))
		waitFor(2*time.Second, func() bool { return len(hc.received()) >= 5 })
	}
	blocked := make(chan struct{})
	if cs.stage == 7 || cs.stage == 9 || cs.stage == 10 {
		nstreams++
		go func() {
			defer func() { streamsDone <- struct{}{} }()
			chunk := make([]byte, 4000)
			for {
				select {
				case <-stop:
					return
				default:
				}
				hc.c.SetWriteDeadline(time.Now().Add(50 * time.Millisecond))
				if _, err := hc.c.Write(chunk); err != nil {
					if !isTimeout(err) {
						return
					}
					select { // the pipe to the client is full
					case <-blocked:
					default:
						close(blocked)
					}
				}
			}
		}()
	}
	if cs.stage == 10 {
		select {
		case <-blocked:
		case <-time.After(4 * time.Second):
		}
	}
	if cs.stage == 8 || cs.stage == 9 {
		nstreams++
		go func() {
			defer func() { streamsDone <- struct{}{} }()
			p := mkPacket(tData, bodyData(make([]byte, 3000)))
			for i := 0; i < 400; i++ {
				select {
				case <-stop:
					return
				default:
				}
				send(p)
			}
		}()
	}
	if nstreams > 0 {
		time.Sleep(15 * time.Millisecond)
	}
	// a client that reads what the gateway sends (so that the gateway is not blocked on a full socket)
	clientEnded := map[string]bool{}
	switch cs.cause {
	case "close":
		send(mkPacket(tClose, nil))
	case "order":
		if cs.stage == 0 {
			send(mkPacket(tTunnel, bodyTunnelCreate(0, 0, nil)))
		} else {
			send(mkPacket(tHandshake, bodyHandshake(1, 0, 0, 0)))
		}
	case "frame":
		send(mkPacketLen(tData, 3, []byte{1, 2, 3}))
	case "dropws":
		tcpEnd(ws.c, cs.reset)
		clientEnded["ws"] = true
	case "dropin":
		tcpEnd(in, cs.reset)
		clientEnded["in"] = true
	case "dropout":
		tcpEnd(out, cs.reset)
		clientEnded["out"] = true
	}
	start := time.Now()
	// ---- observe, within the bound
	eofCh := make(chan bool, 3)
	waiting := 0
	lateRead := cs.stage == 10 // the client keeps not reading: end-of-stream is looked for after the bound
	if lateRead {
		// nothing
	} else if ws != nil && !clientEnded["ws"] {
		waiting++
		go func() { eofCh <- sawEOF(ws.c, ws.br, bound) }()
	}
	if !lateRead && in != nil && !clientEnded["in"] {
		waiting++
		go func() { eofCh <- sawEOF(in, nil, bound) }()
	}
	if !lateRead && out != nil && !clientEnded["out"] {
		waiting++
		go func() { eofCh <- sawEOF(out, outBr, bound) }()
	}
	o.clientEOF = true
	for i := 0; i < waiting; i++ {
		if !<-eofCh {
			o.clientEOF = false
		}
	}
	if hc != nil {
		select {
		case <-hc.done:
			o.backendEOF = true
		case <-time.After(time.Until(start.Add(bound))):
		}
		if cs.politeHost {
			hc.c.Close()
			o.backendDead = o.backendEOF
		} else {
			// a host that keeps its side open: once the gateway has closed its socket, writes fail
			o.backendDead = waitFor(time.Until(start.Add(bound))+50*time.Millisecond, func() bool {
				hc.c.SetWriteDeadline(time.Now().Add(20 * time.Millisecond))
				_, err := hc.c.Write([]byte("still here"))
				return err != nil && !isTimeout(err)
			})
		}
	}
	close(stop)
	for i := 0; i < nstreams; i++ {
		select {
		case <-streamsDone:
		case <-time.After(2 * time.Second):
		}
	}
	waitFor(time.Until(start.Add(bound))+20*time.Millisecond, func() bool {
		n, _ := gwGoroutines()
		return n == 0 && protocol.VerifRegistrySize() == 0 && protocol.VerifCacheItems() == 0 &&
			gaugeValue("rdpgw_websocket_connections") == 0 && gaugeValue("rdpgw_legacy_connections") == 0
	})
	o.goroutines, o.gdump = gwGoroutines()
	o.registry = protocol.VerifRegistrySize()
	o.cache = protocol.VerifCacheItems()
	o.wsGauge = gaugeValue("rdpgw_websocket_connections")
	o.legacyGauge = gaugeValue("rdpgw_legacy_connections")
	if lateRead {
		// now the client reads: what is left in the pipe, then the end of stream
		if ws != nil && !clientEnded["ws"] && !sawEOF(ws.c, ws.br, time.Second) {
			o.clientEOF = false
		}
		if in != nil && !clientEnded["in"] && !sawEOF(in, nil, time.Second) {
			o.clientEOF = false
		}
		if out != nil && !clientEnded["out"] && !sawEOF(out, outBr, time.Second) {
			o.clientEOF = false
		}
	}
	// ---- clean up whatever is left so that the next case starts from nothing
	if ws != nil {
		ws.close()
	}
	if in != nil {
		in.Close()
	}
	if out != nil {
		out.Close()
	}
	host.poll()
	host.reset()
	waitFor(3*time.Second, func() bool {
		n, _ := gwGoroutines()
		return n == 0 && protocol.VerifRegistrySize() == 0
	})
	return o
}

func c11OracleLine(cs c11Case, dialled bool) string {
	return fmt.Sprintf("lifecycle t=%s cause=%s dialled=%s hostclosed=0", cs.transport, cs.cause, b01(dialled))
}

func runC11(r *Run) {
	r.rule = "fault matrix on both transports: every point of the exchange (before the handshake, after each step, after a refused channel, channel open idle / one payload / host streaming / client streaming / both) × every way of ending (CLOSE_CHANNEL, out-of-order packet, unframeable bytes, TCP close and TCP reset of the websocket, of the legacy IN connection, of the legacy OUT connection) × host that closes on end of stream or keeps its side open and keeps writing; a parked legacy OUT request whose client goes away; then tunnels over the real binary with the gauges read from /metrics; non-trivial = every case; distinct by the case"
	gws := startGateway(&protocol.Gateway{})
	defer gws.close()
	r.TierRan("api")
	host := newHostListener()
	defer host.close()
	bound := 3 * time.Second
	// nothing of the gateway must be running before the first case
	if n, d := gwGoroutines(); n != 0 {
		r.Note("gateway goroutines before the first case: " + d)
	}
	var cases []c11Case
	for _, tr := range []string{"ws", "legacy"} {
		causes := []string{"close", "order", "frame", "dropws"}
		if tr == "legacy" {
			causes = []string{"close", "order", "frame", "dropin", "dropout"}
		}
		for stage := 0; stage <= 11; stage++ {
			for _, ca := range causes {
				if stage == 10 && (ca == "close" || ca == "order") {
					// these endings are answered with a response packet: with the pipe to the client full the
					// gateway waits for the client to read (recorded in DESIGN.md as an observation)
					continue
				}
				resets := []bool{false}
				if strings.HasPrefix(ca, "drop") {
					resets = []bool{false, true}
				}
				for _, rs := range resets {
					polite := []bool{false}
					if stage == 11 {
						polite = []bool{true}
					} else if stage >= 5 && r.Thorough() {
						polite = []bool{false, true}
					} else if stage >= 5 && (stage+len(ca))%3 == 0 {
						polite = []bool{true}
					}
					for _, ph := range polite {
						cases = append(cases, c11Case{transport: tr, stage: stage, cause: ca, reset: rs, politeHost: ph})
					}
				}
			}
		}
	}
	// the same over a gateway configured with socket buffer sizes (websocket only: the legacy
	// handlers do not tune the socket)
	gwsBuf := startGateway(&protocol.Gateway{SendBuf: 65536, ReceiveBuf: 65536})
	defer gwsBuf.close()
	for _, stage := range []int{0, 3, 6} {
		for _, ca := range []string{"close", "order", "frame", "dropws"} {
			cases = append(cases, c11Case{transport: "ws", stage: stage, cause: ca, buffers: true})
		}
	}
	for _, stage := range []int{1, 3, 6, 9} {
		for _, ca := range []string{"close", "dropin", "frame"} {
			cases = append(cases, c11Case{transport: "legacy", stage: stage, cause: ca, retry: true, politeHost: stage == 9})
		}
	}
	reps := r.N(1, 6)
	var lines []string
	var obs []c11Obs
	var run []c11Case
	for rep := 0; rep < reps; rep++ {
		// the endings nothing in the gateway notices take the whole bound each: they run side by side,
		// each with a host of its own (the process-wide counters then count all of them)
		var batch []c11Case
		for _, cs := range cases {
			if cs.cause == "dropout" && (r.Thorough() || cs.stage == 0 || cs.stage == 5 || cs.stage == 9) {
				batch = append(batch, cs)
			}
		}
		type bres struct {
			cs c11Case
			o  c11Obs
		}
		bch := make(chan bres, len(batch))
		for _, cs := range batch {
			go func(cs c11Case) {
				h := newHostListener()
				defer h.close()
				bch <- bres{cs, runC11Case(gws, cs, h, bound)}
			}(cs)
		}
		for range batch {
			b := <-bch
			if b.o.inconclusive != "" {
				r.Inconclusive()
				continue
			}
			run = append(run, b.cs)
			obs = append(obs, b.o)
			lines = append(lines, c11OracleLine(b.cs, b.o.backendDialled))
			r.Count(fmt.Sprintf("%v/%d", b.cs, rep))
			r.Dist("transport:" + b.cs.transport)
			r.Dist("ending:" + b.cs.cause)
			r.Dist(fmt.Sprintf("point:%d", b.cs.stage))
		}
		waitFor(3*time.Second, func() bool { n, _ := gwGoroutines(); return n == 0 })
		for _, cs := range cases {
			if cs.cause == "dropout" {
				continue
			}
			r.Breadcrumb(cs.String())
			g := gws
			if cs.buffers {
				g = gwsBuf
			}
			o := runC11Case(g, cs, host, bound)
			if o.inconclusive != "" {
				r.Inconclusive()
				continue
			}
			run = append(run, cs)
			obs = append(obs, o)
			lines = append(lines, c11OracleLine(cs, o.backendDialled))
			r.Count(fmt.Sprintf("%v/%d", cs, rep))
			r.Dist("transport:" + cs.transport)
			r.Dist("ending:" + cs.cause)
			r.Dist(fmt.Sprintf("point:%d", cs.stage))
		}
	}
	ans := r.Oracle(lines)
	drift := 0
	firstDrift := ""
	for i, cs := range run {
		o := obs[i]
		want := kv(ans[i])["released"] == "1"
		got := o.released()
		if i < 2 {
			r.Sample(map[string]interface{}{"case": cs.String(), "observed": o.String(), "model": ans[i]})
		}
		rep := cs.String() + "\nobserved after 3 s: " + o.String() + "\nmodel: " + ans[i] + "\n"
		switch {
		case !got && cs.cause == "dropout":
			// the property's full statement includes this ending; model and code agree it is not noticed
			r.Violation("c11-legacy-out-drop-unnoticed", "after the legacy OUT connection is lost the tunnel is not released while the IN connection stays open (nothing reads the OUT connection)", rep)
			if want {
				drift++
			}
		case !got:
			what := "the tunnel's resources are not all released within 3 s of the client side ending"
			if o.backendDialled && !(o.backendEOF && o.backendDead) {
				what = "the connection to the remote desktop host is still held 3 s after the client side ended"
			} else if o.goroutines > 0 {
				what = "goroutines serving the tunnel are still running 3 s after the client side ended"
			} else if !o.clientEOF {
				what = "a client-facing connection of the ended tunnel is still open after 3 s"
			}
			r.Violation("c11-leak:"+cs.transport+":"+cs.cause, what, rep)
		case got && !want:
			drift++
			if firstDrift == "" {
				firstDrift = rep
			}
		}
	}
	// ---- a parked legacy OUT request whose client goes away before any IN request
	for i := 0; i < r.N(2, 10); i++ {
		out, _, err := dialLegacyOut(gws.addr, "{"+randHex(8)+"}", "")
		if err != nil {
			r.Inconclusive()
			continue
		}
		time.Sleep(5 * time.Millisecond)
		tcpEnd(out, i%2 == 1)
		released := waitFor(bound, func() bool { return protocol.VerifCacheItems() == 0 })
		r.Count(fmt.Sprintf("parked-out/%d", i))
		r.Dist("parked-out")
		if !released {
			r.Violation("c11-parked-out-held", "a legacy OUT request whose client went away before sending the IN request keeps its cache entry and hijacked connection (until the 5 minute cache expiry, the connection for ever)", fmt.Sprintf("RDG_OUT_DATA accepted, client closes (reset=%v), no RDG_IN_DATA follows; cache items after 3 s: %d\n", i%2 == 1, protocol.VerifCacheItems()))
		}
	}
	// the cache is process-wide: entries of parked requests would make later observations wrong
	r.extra["model_disagreements"] = drift
	if drift > 0 && !r.HasViolation() {
		r.Unproven(fmt.Sprintf("correspondence Lifecycle.life ↔ handlers broke on %d cases (the code releases where the model says it does not)", drift), firstDrift)
	}

	// ---- binary tier: the real process, gauges from /metrics
	r.TierRan("binary")
	if _, err := os.Stat(gwBinaryPath()); err != nil {
		r.Note("gateway binary unavailable: binary tier skipped")
		return
	}
	dir := filepath.Join(verifRoot, "work", fmt.Sprintf("c11-%d", os.Getpid()))
	os.MkdirAll(dir, 0o755)
	defer os.RemoveAll(dir)
	sock := filepath.Join(dir, "auth.sock")
	fa := startFakeAuth(sock, map[string]string{"alice": "wonderland"})
	defer fa.stop()
	cert, key := selfSignedCert(dir)
	bport := freePort()
	ta := false
	y := &gwYaml{port: bport, tlsOn: true, auth: []string{"local"}, hosts: []string{host.addr}, hostSelection: "any", sock: sock, tokenAuth: &ta, certFile: cert, keyFile: key}
	p := startBinary(dir, y.render(), nil, bport, true)
	defer p.stop()
	if !p.running() {
		r.Note("binary did not start: " + tail(p.stderr.String(), 400))
		return
	}
	metrics := func() (wsg, lg string) {
		c, err := p.dial()
		if err != nil {
			return "?", "?"
		}
		defer c.Close()
		c.SetDeadline(time.Now().Add(3 * time.Second))
		fmt.Fprintf(c, "GET /metrics HTTP/1.1\r\nHost: localhost\r\nConnection: close\r\n\r\n")
		body, _ := io.ReadAll(c)
		for _, ln := range strings.Split(string(body), "\n") {
			if strings.HasPrefix(ln, "rdpgw_websocket_connections ") {
				wsg = strings.TrimSpace(strings.TrimPrefix(ln, "rdpgw_websocket_connections "))
			}
			if strings.HasPrefix(ln, "rdpgw_legacy_connections ") {
				lg = strings.TrimSpace(strings.TrimPrefix(ln, "rdpgw_legacy_connections "))
			}
		}
		return
	}
	basic := "Basic " + base64.StdEncoding.EncodeToString([]byte("alice:wonderland"))
	for i, ending := range []string{"close", "order", "dropws", "dropws-reset", "frame"} {
		host.poll()
		host.reset()
		c, err := p.dial()
		if err != nil {
			r.Inconclusive()
			continue
		}
		br := bufio.NewReader(c)
		resp := rawRequest(c, br, "RDG_OUT_DATA", fmt.Sprintf("localhost:%d", bport), []string{basic}, true)
		if !resp.upgraded {
			r.Inconclusive()
			c.Close()
			continue
		}
		w := &wsClient{c: c, br: br}
		_, hp := splitHostPort(host.addr)
		for _, pk := range [][]byte{mkPacket(tHandshake, bodyHandshake(1, 0, 0, 0)), mkPacket(tTunnel, bodyTunnelCreate(0, 0, nil)), mkPacket(tAuth, bodyTunnelAuth(append(utf16le("PC"), 0, 0))), mkPacket(tChannel, bodyChannel(hp, append(utf16le("127.0.0.1"), 0, 0))), mkPacket(tData, bodyData([]byte("hi")))} {
			w.send(pk)
		}
		if !waitFor(4*time.Second, func() bool { host.poll(); return len(host.conns) > 0 }) {
			r.Inconclusive()
			c.Close()
			continue
		}
		hc := host.conns[0]
		g1, _ := metrics()
		switch ending {
		case "close":
			w.send(mkPacket(tClose, nil))
		case "order":
			w.send(mkPacket(tHandshake, bodyHandshake(1, 0, 0, 0)))
		case "frame":
			w.send(mkPacketLen(tData, 3, []byte{1, 2, 3}))
		case "dropws", "dropws-reset":
			// under TLS the TCP connection is reached through NetConn
			c.Close()
		}
		eof := false
		select {
		case <-hc.done:
			eof = true
		case <-time.After(bound):
		}
		gaugeBack := waitFor(bound, func() bool { g, _ := metrics(); return g == "0" })
		g2, l2 := metrics()
		c.Close()
		r.Count(fmt.Sprintf("binary/%s/%d", ending, i))
		r.Dist("binary:" + ending)
		rep := fmt.Sprintf("real binary (TLS, local authentication), websocket tunnel with an open channel, ending=%s\nwebsocket gauge while open=%s, 3 s after the end=%s (legacy gauge %s); backend saw end of stream=%v\n", ending, g1, g2, l2, eof)
		if !eof || !gaugeBack {
			r.Violation("c11-binary-leak:"+ending, "the real gateway process does not release a tunnel within 3 s of its client side ending", rep)
		}
	}
}
