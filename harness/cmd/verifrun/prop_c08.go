package main

import (
	"bytes"
	"errors"
	"fmt"
	"io"
	"strings"
	"time"

	"github.com/bolkedebruin/rdpgw/cmd/rdpgw/identity"
	"github.com/bolkedebruin/rdpgw/cmd/rdpgw/protocol"
)

func init() { register("C08", runC08) }

// readAllImpl runs the real Tunnel.Read loop over the given transport reads.
func readAllImpl(segs [][]byte) (pkts string, end string, panicked string) {
	st := newScript(segs)
	t := protocol.VerifNewTunnel(st, st, identity.NewUser())
	var parts []string
	func() {
		defer func() {
			if rec := recover(); rec != nil {
				panicked = fmt.Sprint(rec)
			}
		}()
		for i := 0; i < 1<<20; i++ {
			pt, _, body, err := t.Read()
			if err != nil {
				if errors.Is(err, io.EOF) {
					end = "eof"
				} else {
					end = "bad"
				}
				return
			}
			parts = append(parts, fmt.Sprintf("%d:%s", pt, hx(body)))
		}
		end = "runaway"
	}()
	return strings.Join(parts, ";"), end, panicked
}

func cutAt(stream []byte, cuts []int) [][]byte {
	var segs [][]byte
	prev := 0
	for _, c := range cuts {
		if c < prev {
			c = prev
		}
		if c > len(stream) {
			c = len(stream)
		}
		segs = append(segs, stream[prev:c])
		prev = c
	}
	return append(segs, stream[prev:])
}

type c08Case struct {
	segs  [][]byte
	shape string
}

func runC08(r *Run) {
	r.rule = "byte streams of MS-TSGU packets (standard exchange, random packets, unframeable headers, truncated tails) under segmentations: all one-cut and two-cut positions (exhaustive for the standard exchange), random multi-cuts, coalescing, empty reads, reads larger than 4096; non-trivial = at least two packets or a packet split across reads; distinct by segment list"
	r.TierRan("hook")
	rng := r.Rng
	g := &histGen{rng: rng}

	// the standard exchange: handshake, tunnel, auth, channel, 3 data, close
	std := [][]byte{
		mkPacket(tHandshake, bodyHandshake(1, 0, 0, 2)),
		mkPacket(tTunnel, bodyTunnelCreate(0x3f, 1, append(utf16le("good-cookie"), 0, 0))),
		mkPacket(tAuth, bodyTunnelAuth(append(utf16le("PC1"), 0, 0))),
		mkPacket(tChannel, bodyChannel(3389, append(utf16le("127.0.0.1"), 0, 0))),
		mkPacket(tData, bodyData([]byte("hello"))),
		mkPacket(tData, bodyData(nil)),
		mkPacket(tData, bodyData(bytes.Repeat([]byte{0xAB}, 300))),
		mkPacket(tClose, nil),
	}
	stdStream := bytes.Join(std, nil)

	var cases []c08Case
	add := func(shape string, segs [][]byte) { cases = append(cases, c08Case{segs, shape}) }
	add("unsegmented", [][]byte{stdStream})
	add("one-per-read", std)
	// all one-cut positions
	for c := 0; c <= len(stdStream); c++ {
		add("one-cut", cutAt(stdStream, []int{c}))
	}
	// two-cut positions: exhaustive in thorough, strided in quick
	stride := r.N(7, 1)
	n2 := 0
	for a := 0; a <= len(stdStream); a += stride {
		for b := a; b <= len(stdStream); b += stride {
			add("two-cut", cutAt(stdStream, []int{a, b}))
			n2++
		}
	}
	r.extra["standard_exchange_bytes"] = len(stdStream)
	r.extra["two_cut_segmentations"] = n2
	r.exhaustive = false
	if stride == 1 {
		r.extra["two_cut_exhaustive"] = true
	}
	// byte-by-byte
	var single [][]byte
	for i := range stdStream {
		single = append(single, stdStream[i:i+1])
	}
	add("byte-by-byte", single)

	nRand := r.N(6000, 400000)
	for i := 0; i < nRand; i++ {
		// a random packet sequence
		np := 1 + rng.Intn(6)
		var stream []byte
		shape := "random"
		for k := 0; k < np; k++ {
			var body []byte
			switch rng.Intn(12) {
			case 0:
				body = g.randBytes(4090 + rng.Intn(12)) // around one read buffer
			case 1:
				body = g.randBytes(8190 + rng.Intn(6))
			case 2:
				if rng.Intn(6) == 0 {
					body = g.randBytes(65535 + 2)
				} else {
					body = g.randBytes(rng.Intn(600))
				}
			default:
				body = g.randBytes(rng.Intn(40))
			}
			ty := []int{1, 4, 6, 8, 0xA, 0xD, 0x10, 0x33, 0xFFFF}[rng.Intn(9)]
			stream = append(stream, mkPacket(ty, body)...)
		}
		perturb := rng.Intn(10)
		if perturb == 3 && rng.Intn(15) != 0 {
			perturb = 9
		}
		switch perturb {
		case 0: // unframeable: length below the header size
			stream = append(stream, mkPacketLen(0xA, uint32(rng.Intn(8)), g.randBytes(rng.Intn(20)))...)
			stream = append(stream, mkPacket(1, []byte{1, 2})...)
			shape = "short-length"
		case 1: // unframeable: huge length
			stream = append(stream, mkPacketLen(0xA, []uint32{131073, 1 << 20, 1<<31 + 5, 0xFFFFFFFF}[rng.Intn(4)], g.randBytes(rng.Intn(20)))...)
			shape = "huge-length"
		case 2: // never completed
			p := mkPacket(4, g.randBytes(10+rng.Intn(30)))
			stream = append(stream, p[:1+rng.Intn(len(p)-1)]...)
			shape = "incomplete"
		case 3: // exactly the cap
			stream = append(stream, mkPacket(0xA, g.randBytes(131072-8))...)
			shape = "at-cap"
		}
		// a random segmentation
		var cuts []int
		switch rng.Intn(5) {
		case 0: // coalesced: everything in one read
		case 1: // few cuts
			for k := rng.Intn(4); k > 0; k-- {
				cuts = append(cuts, rng.Intn(len(stream)+1))
			}
		case 2: // many small reads
			pos := 0
			for pos < len(stream) && len(cuts) < 400 {
				pos += 1 + rng.Intn(9)
				cuts = append(cuts, pos)
			}
		case 3: // reads of at most 4096 like the legacy transport
			for pos := 4096; pos < len(stream); pos += 4096 {
				cuts = append(cuts, pos)
			}
		case 4: // cuts inside headers
			pos := 0
			for pos < len(stream) && len(cuts) < 60 {
				pos += rng.Intn(8)
				cuts = append(cuts, pos)
				pos += 20 + rng.Intn(60)
			}
		}
		sortInts(cuts)
		segs := cutAt(stream, cuts)
		if rng.Intn(6) == 0 { // sprinkle empty reads
			var s2 [][]byte
			for _, s := range segs {
				if rng.Intn(3) == 0 {
					s2 = append(s2, nil)
				}
				s2 = append(s2, s)
			}
			segs = s2
		}
		add(shape, segs)
	}

	// implementation vs model vs the implementation on the unsegmented stream
	var lines []string
	type res struct{ pkts, end, pan string }
	impl := make([]res, len(cases))
	unseg := make([]res, len(cases))
	for i, c := range cases {
		p, e, pn := readAllImpl(c.segs)
		impl[i] = res{p, e, pn}
		whole := bytes.Join(c.segs, nil)
		p2, e2, pn2 := readAllImpl([][]byte{whole})
		unseg[i] = res{p2, e2, pn2}
		lines = append(lines, "frame segs="+hxList(c.segs))
		r.Dist("shape:" + c.shape)
	}
	r.implTraces = len(cases)
	ans := r.Oracle(lines)
	drift := 0
	firstDrift := ""
	for i, c := range cases {
		m := kv(ans[i])
		mend := m["end"]
		if strings.HasPrefix(mend, "eof") {
			mend = "eof"
		}
		mp := m["pkts"]
		rep := func() string {
			return fmt.Sprintf("shape: %s\nsegments (one transport read each): %s\nimplementation: pkts=%s end=%s panic=%q\nimplementation on the unsegmented stream: pkts=%s end=%s\nmodel: %s\n", c.shape, hxList(c.segs), impl[i].pkts, impl[i].end, impl[i].pan, unseg[i].pkts, unseg[i].end, ans[i])
		}
		key := ""
		if strings.Count(mp, ";") >= 1 || len(c.segs) > 1 {
			key = hxList(c.segs)
		}
		r.Count(key)
		if i < 3 {
			r.Sample(map[string]interface{}{"shape": c.shape, "segments": len(c.segs), "impl": impl[i].pkts + " end=" + impl[i].end, "model": mp + " end=" + mend})
		}
		if impl[i].pan != "" {
			r.Violation("c08-panic", "the reader panicked: "+impl[i].pan, rep())
			continue
		}
		if impl[i].end == "runaway" {
			r.Violation("c08-runaway", "the reader did not terminate", rep())
			continue
		}
		if m["spec"] != "1" {
			r.Violation("c08-model-spec", "the model's reader disagrees with the stream spec (theorem reader_refines_stream contradicted?)", rep())
		}
		// the property on the implementation: same packets, same end as for the unsegmented stream
		if impl[i].pkts != unseg[i].pkts || impl[i].end != unseg[i].end {
			r.Violation("c08-segmentation", "the same byte stream yields different packets under a different segmentation", rep())
			continue
		}
		// an unframeable stream must end in an error, not be misparsed
		if (c.shape == "short-length" || c.shape == "huge-length") && impl[i].end != "bad" {
			r.Violation("c08-unframeable", "an unframeable length field did not end the stream with an error", rep())
			continue
		}
		if impl[i].pkts != mp || impl[i].end != mend {
			drift++
			if firstDrift == "" {
				firstDrift = rep()
			}
		}
	}
	r.extra["model_disagreements"] = drift

	// same effects through the real packet loop: the standard exchange under segmentations
	listeners := []*hostListener{newHostListener()}
	defer listeners[0].close()
	cfg := &gwCfg{token: true, ccheck: true, hcheck: true, cookies: []string{"good-cookie"}, hosts: []string{listeners[0].addr}, dial: []string{listeners[0].addr}}
	_, port := splitHostPort(listeners[0].addr)
	std[3] = mkPacket(tChannel, bodyChannel(port, append(utf16le("127.0.0.1"), 0, 0)))
	stdStream = bytes.Join(std, nil)
	ref := runProcess(cfg, std, listeners)
	refFlat := flatEvents(ref)
	refHost := ref.hostBytes[listeners[0].addr]
	nSeg := r.N(150, 3000)
	var tl []string
	var segsList [][][]byte
	for i := 0; i < nSeg; i++ {
		var cuts []int
		for k := 1 + rng.Intn(6); k > 0; k-- {
			cuts = append(cuts, rng.Intn(len(stdStream)+1))
		}
		sortInts(cuts)
		segs := cutAt(stdStream, cuts)
		ir := runProcess(cfg, segs, listeners)
		fl := flatEvents(ir)
		host := ir.hostBytes[listeners[0].addr]
		r.Count("proc:" + hxList(segs))
		if fl != refFlat || !bytes.Equal(host, refHost) {
			r.Violation("c08-effects", "the packet loop's effects depend on the segmentation of the client's byte stream",
				fmt.Sprintf("segments: %s\neffects:   %s host=%s\nreference (one packet per read): %s host=%s\n", hxList(segs), fl, hx(host), refFlat, hx(refHost)))
		}
		tl = append(tl, "tunnel "+cfg.oracleArgs()+" segs="+hxList(segs))
		segsList = append(segsList, segs)
	}
	tans := r.Oracle(tl)
	for i := range tans {
		m := kv(tans[i])
		canon, up := modelCanon(m["trace"])
		mflat := flatModel(canon)
		iflat := refFlat
		if mflat != iflat || !bytes.Equal(up, refHost) {
			drift++
			if firstDrift == "" {
				firstDrift = fmt.Sprintf("packet loop over segments %s\nmodel effects: %s up=%s\nimpl effects:  %s host=%s\n", hxList(segsList[i]), mflat, hx(up), iflat, hx(refHost))
			}
		}
	}
	r.extra["process_level_segmentations"] = nSeg

	// exported-API tier: the real HTTP handler with the real websocket and legacy transports
	r.TierRan("api")
	gws := startGateway(cfg.gateway())
	defer gws.close()
	refWS := runTunnelAPI("ws", gws, std, listeners, 3*time.Second)
	refS := pktsCanon(refWS.pkts)
	if refWS.inconclusive != "" || refS != flatOnlyS(refFlat) {
		// the reference over the real transport must equal the hook-tier reference
		if refWS.inconclusive != "" {
			r.Inconclusive()
			r.Note("api tier reference inconclusive: " + refWS.inconclusive)
		} else {
			r.Violation("c08-api-ref", "the standard exchange over a real websocket gives other responses than over the scripted transport",
				fmt.Sprintf("websocket: %s\nscripted:  %s\n", refS, flatOnlyS(refFlat)))
		}
	}
	type apiCase struct {
		kind string
		segs [][]byte
	}
	var apiCases []apiCase
	bounds := []int{0}
	for _, p := range std {
		bounds = append(bounds, bounds[len(bounds)-1]+len(p))
	}
	mkCuts := func() []int {
		var cuts []int
		switch rng.Intn(4) {
		case 0: // random
			for k := 1 + rng.Intn(6); k > 0; k-- {
				cuts = append(cuts, rng.Intn(len(stdStream)+1))
			}
		case 1: // a packet plus the first 1..12 bytes of the next one, then the rest
			b := bounds[1+rng.Intn(len(bounds)-2)]
			cuts = append(cuts, b+1+rng.Intn(12))
			if rng.Intn(2) == 0 {
				cuts = append(cuts, bounds[1+rng.Intn(len(bounds)-2)]+rng.Intn(8))
			}
		case 2: // small pieces inside headers
			b := bounds[rng.Intn(len(bounds)-1)]
			cuts = append(cuts, b+1+rng.Intn(7), b+8+rng.Intn(6))
		case 3: // coalesce everything up to a boundary, cut again shortly after
			b := bounds[1+rng.Intn(len(bounds)-2)]
			cuts = append(cuts, b, b+1+rng.Intn(5))
		}
		sortInts(cuts)
		return cuts
	}
	for i := r.N(120, 3000); i > 0; i-- {
		apiCases = append(apiCases, apiCase{"ws", cutAt(stdStream, mkCuts())})
	}
	for i := r.N(60, 1000); i > 0; i-- {
		apiCases = append(apiCases, apiCase{"legacy", cutAt(stdStream, mkCuts())})
	}
	// a client that sends its first chunk together with the request head
	for i := r.N(6, 60); i > 0; i-- {
		apiCases = append(apiCases, apiCase{"legacy-eager", cutAt(stdStream, mkCuts())})
	}
	apiCases = append(apiCases, apiCase{"legacy-eager", std})
	for _, ac := range apiCases {
		var res *apiResult
		for attempt := 0; attempt < 3; attempt++ {
			res = runTunnelAPI(ac.kind, gws, ac.segs, listeners, 3*time.Second)
			if res.inconclusive == "" && (!strings.HasPrefix(ac.kind, "legacy") || len(res.pkts) > 0) {
				break
			}
		}
		if res.inconclusive != "" {
			r.Inconclusive()
			continue
		}
		r.Count("api:" + ac.kind + hxList(ac.segs))
		r.Dist("api:" + ac.kind)
		got := pktsCanon(res.pkts)
		if got != refS || !bytes.Equal(res.hostBytes, refHost) {
			if ac.kind == "legacy" && len(res.pkts) == 0 {
				// the IN handler's Drain() raced with our first chunk: not a verdict
				r.Inconclusive()
				continue
			}
			r.Violation("c08-api-effects", "over the real "+ac.kind+" transport the gateway's responses or the bytes relayed to the host depend on the segmentation of the client's byte stream",
				fmt.Sprintf("transport: %s\nsegments (one message/chunk each): %s\nresponses: %s\nhost bytes: %s\nreference responses: %s\nreference host bytes: %s\n", ac.kind, hxList(ac.segs), got, hx(res.hostBytes), refS, hx(refHost)))
		}
	}
	// a long exchange: many legal packets, delivered one per message, or coalesced into messages far
	// larger than any single packet may be
	bulk := append([][]byte{}, std[:4]...)
	for k := 0; k < 45; k++ {
		bulk = append(bulk, mkPacket(tData, bodyData(bytes.Repeat([]byte{byte(k + 1)}, 4000))))
	}
	bulk = append(bulk, mkPacket(tClose, nil))
	bulkStream := bytes.Join(bulk, nil)
	bulkRef := runTunnelAPI("ws", gws, bulk, listeners, 4*time.Second)
	for _, bc := range []struct {
		kind string
		cuts []int
	}{{"ws", nil}, {"ws", []int{len(bulkStream) / 2}}, {"ws", []int{150, 140000}}, {"legacy", []int{60000, 120000}}, {"legacy", nil}} {
		res := runTunnelAPI(bc.kind, gws, cutAt(bulkStream, bc.cuts), listeners, 4*time.Second)
		if res.inconclusive != "" || bulkRef.inconclusive != "" || (bc.kind == "legacy" && len(res.pkts) == 0) {
			r.Inconclusive()
			continue
		}
		r.Count(fmt.Sprintf("api-bulk:%s:%v", bc.kind, bc.cuts))
		r.Dist("api-bulk:" + bc.kind)
		if pktsCanon(res.pkts) != pktsCanon(bulkRef.pkts) || !bytes.Equal(res.hostBytes, bulkRef.hostBytes) {
			r.Violation("c08-api-effects", "over the real "+bc.kind+" transport the gateway's responses or the bytes relayed to the host depend on the segmentation of the client's byte stream",
				fmt.Sprintf("transport: %s; %d packets (%d bytes: handshake, tunnel, authorization, channel, 45 DATA of 4000 bytes, close) delivered as messages/chunks cut at %v\nresponses: %s\nhost received %d bytes, reference (one packet per message) %d bytes\nreference responses: %s\n", bc.kind, len(bulk), len(bulkStream), bc.cuts, pktsCanon(res.pkts), len(res.hostBytes), len(bulkRef.hostBytes), pktsCanon(bulkRef.pkts)))
		}
	}
	// complete packets must take effect without waiting for more bytes from the client: DATA packets
	// delivered in one chunk / message of exactly 4096·k bytes (the transports' read size), then silence
	for _, kind := range []string{"legacy", "ws"} {
		for _, total := range []int{4096, 8192, 12288} {
			host := listeners[0]
			host.poll()
			host.reset()
			var cl gwClient
			id := "{" + randHex(8) + "}"
			if kind == "ws" {
				w, err := dialWS(gws.addr, id, "")
				if err != nil {
					r.Inconclusive()
					continue
				}
				cl = w
				go func() {
					for {
						if _, err := w.recv(10 * time.Second); err != nil {
							return
						}
					}
				}()
			} else {
				l, err := dialLegacy(gws.addr, id, "")
				if err != nil {
					r.Inconclusive()
					continue
				}
				cl = l
				go io.Copy(io.Discard, l.outBr)
			}
			for _, p := range std[:4] {
				cl.send(p)
			}
			if !waitFor(4*time.Second, func() bool { host.poll(); return len(host.conns) > 0 }) {
				cl.close()
				r.Inconclusive()
				continue
			}
			hc := host.conns[0]
			// two DATA packets filling the chunk exactly
			p1 := mkPacket(tData, bodyData(bytes.Repeat([]byte{0x5a}, 3000-10)))
			p2 := mkPacket(tData, bodyData(bytes.Repeat([]byte{0xa5}, total-3000-10)))
			cl.send(append(append([]byte{}, p1...), p2...))
			want := total - 20
			ok := waitFor(3*time.Second, func() bool { return len(hc.received()) >= want })
			got := len(hc.received())
			cl.close()
			r.Count(fmt.Sprintf("api-exact-chunk:%s:%d", kind, total))
			r.Dist("api-exact-chunk:" + kind)
			if !ok {
				r.Violation("c08-api-effects", "over the real "+kind+" transport the gateway's responses or the bytes relayed to the host depend on the segmentation of the client's byte stream",
					fmt.Sprintf("transport: %s; after the channel is open two complete DATA packets (%d and %d bytes) arrive in one chunk/message of exactly %d bytes and the client then stays silent: the host has %d of %d payload bytes after 3 s (delivered one packet per chunk they arrive at once)\n", kind, len(p1), len(p2), total, got, want))
			}
		}
	}
	if drift > 0 && !r.HasViolation() {
		r.Unproven(fmt.Sprintf("correspondence Model.Frame.readStream = Tunnel.Read loop broke on %d cases although the implementation is segmentation independent on everything explored; theorems of Props/C08 no longer transfer", drift), firstDrift)
	}
}

// flatEvents renders the effects of a run without attributing them to reads:
// the responses in order, then the connection attempts in order.
func flatEvents(ir *implRun) string {
	var ss, ds []string
	for _, e := range ir.elems {
		for _, d := range e.dials {
			ds = append(ds, "D"+hx([]byte(d))+":1")
		}
		for _, w := range e.writes {
			ss = append(ss, "S"+hx(w))
		}
	}
	return strings.Join(append(ss, ds...), ",")
}

// flatModel does the same for a model trace in canonical form.
func flatModel(canon string) string {
	var ss, ds []string
	for _, el := range strings.Split(strings.TrimSuffix(strings.TrimPrefix(canon, "["), "]"), "][") {
		parts := strings.SplitN(el, "|", 2)
		if parts[0] == "" {
			continue
		}
		for _, ev := range strings.Split(parts[0], ",") {
			if strings.HasPrefix(ev, "D") {
				ds = append(ds, ev)
			} else if strings.HasPrefix(ev, "S") {
				ss = append(ss, ev)
			}
		}
	}
	return strings.Join(append(ss, ds...), ",")
}

// flatOnlyS keeps the responses of a flat event list.
func flatOnlyS(flat string) string {
	var ss []string
	for _, e := range strings.Split(flat, ",") {
		if strings.HasPrefix(e, "S") {
			ss = append(ss, e)
		}
	}
	return strings.Join(ss, ",")
}

func sortInts(a []int) {
	for i := 1; i < len(a); i++ {
		for j := i; j > 0 && a[j] < a[j-1]; j-- {
			a[j], a[j-1] = a[j-1], a[j]
		}
	}
}
