package main

import (
	"context"
	"crypto/rand"
	"crypto/rsa"
	"encoding/json"
	"fmt"
	"net/http"
	"net/http/httptest"
	"strings"
	"sync"
	"time"

	"github.com/coreos/go-oidc/v3/oidc"
	"github.com/go-jose/go-jose/v4"
	"github.com/go-jose/go-jose/v4/jwt"
	"golang.org/x/oauth2"
)

// fakeIdP is a scripted OpenID provider: discovery, key set, token and
// userinfo endpoints, with per-token / per-code behaviour.
type fakeIdP struct {
	srv *httptest.Server
	key *rsa.PrivateKey
	mu  sync.Mutex
	// access token -> state: "ok:<sub>", "revoked", "error", "hangup"
	tokens map[string]string
	// authorization code -> token endpoint behaviour
	codes       map[string]codeResp
	userinfoLog []string
	clientID    string
}

type codeResp struct {
	refuse      bool
	noIDToken   bool
	idToken     string
	accessToken string
}

func newFakeIdP() *fakeIdP {
	k, err := rsa.GenerateKey(rand.Reader, 2048)
	if err != nil {
		panic(err)
	}
	f := &fakeIdP{key: k, tokens: map[string]string{}, codes: map[string]codeResp{}, clientID: "rdpgw-client"}
	mux := http.NewServeMux()
	mux.HandleFunc("/.well-known/openid-configuration", func(w http.ResponseWriter, r *http.Request) {
		json.NewEncoder(w).Encode(map[string]interface{}{
			"issuer":                                f.srv.URL,
			"authorization_endpoint":                f.srv.URL + "/auth",
			"token_endpoint":                        f.srv.URL + "/token",
			"userinfo_endpoint":                     f.srv.URL + "/userinfo",
			"jwks_uri":                              f.srv.URL + "/jwks",
			"id_token_signing_alg_values_supported": []string{"RS256"},
		})
	})
	mux.HandleFunc("/jwks", func(w http.ResponseWriter, r *http.Request) {
		json.NewEncoder(w).Encode(jose.JSONWebKeySet{Keys: []jose.JSONWebKey{{Key: &k.PublicKey, KeyID: "k1", Algorithm: "RS256", Use: "sig"}}})
	})
	mux.HandleFunc("/userinfo", func(w http.ResponseWriter, r *http.Request) {
		tok := strings.TrimPrefix(r.Header.Get("Authorization"), "Bearer ")
		f.mu.Lock()
		st, ok := f.tokens[tok]
		f.userinfoLog = append(f.userinfoLog, tok)
		f.mu.Unlock()
		switch {
		case ok && strings.HasPrefix(st, "ok:"):
			w.Header().Set("Content-Type", "application/json")
			json.NewEncoder(w).Encode(map[string]interface{}{"sub": strings.TrimPrefix(st, "ok:")})
		case st == "error":
			http.Error(w, "boom", http.StatusInternalServerError)
		case st == "hangup":
			if hj, ok := w.(http.Hijacker); ok {
				c, _, _ := hj.Hijack()
				c.Close()
			}
		default: // unknown or revoked
			http.Error(w, "invalid_token", http.StatusUnauthorized)
		}
	})
	mux.HandleFunc("/token", func(w http.ResponseWriter, r *http.Request) {
		r.ParseForm()
		code := r.Form.Get("code")
		f.mu.Lock()
		cr, ok := f.codes[code]
		f.mu.Unlock()
		if !ok || cr.refuse {
			w.Header().Set("Content-Type", "application/json")
			w.WriteHeader(http.StatusBadRequest)
			w.Write([]byte(`{"error":"invalid_grant"}`))
			return
		}
		resp := map[string]interface{}{"access_token": cr.accessToken, "token_type": "Bearer", "expires_in": 3600}
		if !cr.noIDToken {
			resp["id_token"] = cr.idToken
		}
		w.Header().Set("Content-Type", "application/json")
		json.NewEncoder(w).Encode(resp)
	})
	f.srv = httptest.NewServer(mux)
	return f
}

func (f *fakeIdP) close() { f.srv.Close() }

func (f *fakeIdP) setToken(tok, state string) { f.mu.Lock(); f.tokens[tok] = state; f.mu.Unlock() }

// provider builds the go-oidc provider and oauth2 config the gateway's main() would.
func (f *fakeIdP) provider() (*oidc.Provider, oauth2.Config) {
	p, err := oidc.NewProvider(context.Background(), f.srv.URL)
	if err != nil {
		panic(err)
	}
	cfg := oauth2.Config{ClientID: f.clientID, ClientSecret: "secret", RedirectURL: "https://gw.example/callback", Endpoint: p.Endpoint(), Scopes: []string{oidc.ScopeOpenID, "profile", "email"}}
	return p, cfg
}

// idToken signs an ID token with the given claims; key nil = the IdP's key.
func (f *fakeIdP) idToken(claims map[string]interface{}, key *rsa.PrivateKey) string {
	if key == nil {
		key = f.key
	}
	sig, err := jose.NewSigner(jose.SigningKey{Algorithm: jose.RS256, Key: jose.JSONWebKey{Key: key, KeyID: "k1"}}, nil)
	if err != nil {
		panic(err)
	}
	s, err := jwt.Signed(sig).Claims(claims).Serialize()
	if err != nil {
		panic(err)
	}
	return s
}

func (f *fakeIdP) stdClaims(extra map[string]interface{}) map[string]interface{} {
	c := map[string]interface{}{"iss": f.srv.URL, "aud": f.clientID, "sub": "subject-1", "exp": time.Now().Add(time.Hour).Unix(), "iat": time.Now().Unix()}
	for k, v := range extra {
		if v == nil {
			delete(c, k)
		} else {
			c[k] = v
		}
	}
	return c
}

var _ = fmt.Sprint
