package main

import (
	"bufio"
	"bytes"
	"crypto/tls"
	"encoding/base64"
	"fmt"
	"log"
	"net"
	"net/http"
	"net/http/httptest"
	"os"
	"path/filepath"
	"strings"
	"sync"
	"time"

	authconfig "github.com/bolkedebruin/rdpgw/cmd/auth/config"
	"github.com/bolkedebruin/rdpgw/cmd/auth/database"
	authntlm "github.com/bolkedebruin/rdpgw/cmd/auth/ntlm"
	"github.com/bolkedebruin/rdpgw/cmd/rdpgw/protocol"
	"github.com/bolkedebruin/rdpgw/cmd/rdpgw/web"
	"github.com/bolkedebruin/rdpgw/shared/auth"
	"github.com/m7913d/go-ntlm/ntlm"
)

func init() { register("C10", runC10) }

type lockedBuf struct {
	mu sync.Mutex
	b  bytes.Buffer
}

func (l *lockedBuf) Write(p []byte) (int, error) {
	l.mu.Lock()
	defer l.mu.Unlock()
	return l.b.Write(p)
}
func (l *lockedBuf) String() string { l.mu.Lock(); defer l.mu.Unlock(); return l.b.String() }
func (l *lockedBuf) Reset()         { l.mu.Lock(); defer l.mu.Unlock(); l.b.Reset() }

func runC10(r *Run) {
	r.rule = "hostile client input: packet streams with every type value, length fields 0…2^32−1 (below 8, huge), truncated headers, inner length fields shorter/longer than the body, before and after authorization; every ordering of the legacy IN/OUT requests; Authorization strings of every class through the NTLM and Basic handlers; NTLM messages truncated / with field offsets and lengths outside the message / wrong type against the real verifier; socket-buffer tuning on TLS, TCP and other connections; then the same against the real binary in {TLS on/off} × {buffers unset/set} with a liveness probe; non-trivial = every input; distinct by input"
	rng := r.Rng
	randBytes := func(n int) []byte { b := make([]byte, n); rng.Read(b); return b }

	// ---- 1. hook tier: hostile packet streams through the real reader and packet loop
	r.TierRan("hook")
	listeners := []*hostListener{newHostListener()}
	defer listeners[0].close()
	g := &histGen{rng: rng, listeners: []*hostListener{listeners[0], listeners[0], listeners[0]}, closed: closedPort()}
	n1 := r.N(6000, 400000)
	for i := 0; i < n1; i++ {
		cfg := g.cfg()
		var reads [][]byte
		// an optional valid prefix, so that hostile packets also arrive after authorization
		for _, s := range g.validPrefix(cfg, rng.Intn(6)) {
			reads = append(reads, s.pkt)
		}
		for k := 1 + rng.Intn(4); k > 0; k-- {
			ty := []int{0, 1, 2, 3, 4, 5, 6, 7, 8, 9, 0xA, 0xB, 0xC, 0xD, 0x10, 0x11, 0xFF, 0x7FFF, 0xFFFF}[rng.Intn(19)]
			body := randBytes([]int{0, 1, 2, 3, 5, 7, 9, 16, 40}[rng.Intn(9)])
			var pkt []byte
			switch rng.Intn(7) {
			case 0:
				pkt = mkPacketLen(ty, uint32(rng.Intn(8)), body) // below the header size
			case 1:
				pkt = mkPacketLen(ty, []uint32{1 << 31, 0xFFFFFFFF, 131073, 1 << 24}[rng.Intn(4)], body)
			case 2:
				p := mkPacket(ty, body)
				pkt = p[:rng.Intn(len(p))] // truncated
			case 3: // inner length field longer than the body
				b := append(le16(len(body)+1+rng.Intn(60000)), body...)
				pkt = mkPacket(ty, b)
			case 4: // inner length shorter
				b := append(le16(rng.Intn(len(body)+1)), body...)
				pkt = mkPacket(ty, b)
			default:
				pkt = mkPacket(ty, body)
			}
			if rng.Intn(5) == 0 && len(pkt) > 3 { // split across reads
				c := 1 + rng.Intn(len(pkt)-1)
				reads = append(reads, pkt[:c], pkt[c:])
			} else {
				reads = append(reads, pkt)
			}
		}
		ir := runProcess(cfg, reads, listeners)
		r.Count("loop:" + hxList(reads))
		if i < 2 {
			r.Sample(map[string]interface{}{"tier": "hook", "reads": hxList(reads), "outcome": fmt.Sprintf("panic=%q hang=%v", ir.panicked, ir.timedOut)})
		}
		if ir.panicked != "" {
			r.Violation("c10-loop-panic", "the packet loop panicked on client input: "+ir.panicked, "reads (one transport read each): "+hxList(reads)+"\nconfig: "+cfg.oracleArgs()+"\n")
		}
		if ir.timedOut {
			r.Violation("c10-loop-hang", "the packet loop did not end on a finite client stream", "reads: "+hxList(reads)+"\n")
		}
	}

	r.Breadcrumb("legacy IN/OUT request orderings and malformed HTTP against the in-process handler")
	// ---- 2. API tier: legacy IN/OUT orderings and raw junk against the real HTTP handler
	r.TierRan("api")
	errLog := &lockedBuf{}
	gw := &protocol.Gateway{}
	initSessionStore()
	srv := httptest.NewUnstartedServer(web.EnrichContext(http.HandlerFunc(gw.HandleGatewayProtocol)))
	srv.Config.ErrorLog = log.New(errLog, "", 0)
	srv.Start()
	defer srv.Close()
	addr := strings.TrimPrefix(srv.URL, "http://")
	sendRaw := func(s string) {
		c, err := net.DialTimeout("tcp", addr, 2*time.Second)
		if err != nil {
			return
		}
		defer c.Close()
		c.SetDeadline(time.Now().Add(800 * time.Millisecond))
		c.Write([]byte(s))
		buf := make([]byte, 4096)
		c.Read(buf)
	}
	orderings := [][]string{{"IN"}, {"IN", "IN"}, {"OUT", "OUT"}, {"IN", "OUT"}, {"OUT", "IN", "IN"}, {"OUT", "IN", "OUT"}, {"IN", "OUT", "IN"}}
	for _, ord := range orderings {
		id := "{" + randHex(6) + "}"
		var conns []net.Conn
		for _, m := range ord {
			c, err := net.DialTimeout("tcp", addr, 2*time.Second)
			if err != nil {
				continue
			}
			conns = append(conns, c)
			te := ""
			if m == "IN" {
				te = "Transfer-Encoding: chunked\r\n"
			}
			c.SetDeadline(time.Now().Add(time.Second))
			c.Write([]byte("RDG_" + m + "_DATA /remoteDesktopGateway/ HTTP/1.1\r\nHost: x\r\n" + te + "Rdg-Connection-Id: " + id + "\r\n\r\n"))
			buf := make([]byte, 512)
			c.Read(buf)
			if m == "IN" {
				c.Write([]byte{0})
				time.Sleep(3 * time.Millisecond)
				p := mkPacket(tHandshake, bodyHandshake(1, 0, 0, 0))
				c.Write([]byte(fmt.Sprintf("%x\r\n%s\r\n", len(p), p)))
				c.Read(buf)
			}
		}
		for _, c := range conns {
			c.Close()
		}
		r.Count("order:" + strings.Join(ord, ","))
	}
	for i := r.N(150, 5000); i > 0; i-- {
		m := []string{"RDG_OUT_DATA", "RDG_IN_DATA", "GET", "POST", "RDG_OUT_DATA"}[rng.Intn(5)]
		hdr := []string{"", "Connection: Upgrade\r\nUpgrade: websocket\r\n", "Connection: Upgrade\r\nUpgrade: websocket\r\nSec-WebSocket-Version: 13\r\nSec-WebSocket-Key: AAAA\r\n", "Transfer-Encoding: chunked\r\n", "Rdg-Connection-Id: \r\n", "Content-Length: 5\r\n"}[rng.Intn(6)]
		body := []string{"", "5\r\nhello\r\n", "zz\r\n", "ffffffff\r\n", string(randBytes(rng.Intn(30)))}[rng.Intn(5)]
		sendRaw(m + " /remoteDesktopGateway/ HTTP/1.1\r\nHost: x\r\n" + hdr + "\r\n" + body)
		r.Count("raw:" + m + hdr + body)
	}
	// a client that sends back the session cookie it was given (every browser and many clients do), on
	// every kind of request
	if ck := c07SessionCookie(addr); ck != "" {
		for _, m := range []string{"GET", "RDG_OUT_DATA", "RDG_IN_DATA", "POST"} {
			for _, extra := range []string{"", "Connection: Upgrade\r\nUpgrade: websocket\r\nSec-WebSocket-Version: 13\r\nSec-WebSocket-Key: AAAAAAAAAAAAAAAAAAAAAA==\r\n", "X-Forwarded-For: 192.0.2.9, 10.0.0.1\r\n"} {
				sendRaw(m + " /remoteDesktopGateway/ HTTP/1.1\r\nHost: x\r\nCookie: " + ck + "\r\nRdg-Connection-Id: {" + randHex(6) + "}\r\n" + extra + "\r\n")
				r.Count("cookie-replay:" + m + extra)
			}
		}
		// and a second-generation cookie (the one set in answer to a request that carried the first)
		if ck2 := c07SessionCookie(addr); ck2 != "" {
			sendRaw("GET /remoteDesktopGateway/ HTTP/1.1\r\nHost: x\r\nCookie: " + ck + "; " + ck2 + "\r\n\r\n")
		}
	} else {
		r.Note("the gateway set no session cookie on a plain request")
	}
	// one connection identifier used on both transports, in every order, then everything dropped
	tunnelAlive := func() bool {
		w, err := dialWS(addr, "{"+randHex(8)+"}", "")
		if err != nil {
			return false
		}
		defer w.close()
		w.send(mkPacket(tHandshake, bodyHandshake(1, 0, 0, 0)))
		m, err := w.recv(3 * time.Second)
		return err == nil && len(m) >= 8 && m[0] == 2
	}
	for _, ord := range [][]string{{"OUT", "IN", "WS"}, {"WS", "OUT", "IN"}, {"OUT", "WS", "IN"}, {"OUT", "IN", "WS", "WS"}, {"WS", "WS"}} {
		id := "{" + randHex(6) + "}"
		var closers []func()
		for _, m := range ord {
			switch m {
			case "WS":
				if w, err := dialWS(addr, id, ""); err == nil {
					w.send(mkPacket(tHandshake, bodyHandshake(1, 0, 0, 0)))
					w.recv(300 * time.Millisecond)
					closers = append(closers, w.close)
				}
			case "OUT":
				if c, _, err := dialLegacyOut(addr, id, ""); err == nil {
					closers = append(closers, func() { c.Close() })
				}
			case "IN":
				if c, _, err := dialLegacyIn(addr, id, ""); err == nil {
					p := mkPacket(tHandshake, bodyHandshake(1, 0, 0, 0))
					c.Write([]byte(fmt.Sprintf("%x\r\n%s\r\n", len(p), p)))
					closers = append(closers, func() { c.Close() })
				}
			}
		}
		time.Sleep(20 * time.Millisecond)
		for _, f := range closers {
			f()
		}
		time.Sleep(30 * time.Millisecond)
		r.Count("same-id-both-transports:" + strings.Join(ord, ","))
		if !tunnelAlive() {
			r.Violation("c10-handler-wedged", "after one client used one connection identifier on both transports and went away, a new tunnel of another client gets no handshake response within 3 s: the gateway no longer serves other clients", "requests with one Rdg-Connection-Id, in this order: "+strings.Join(ord, ", ")+" (WS = websocket upgrade, OUT/IN = legacy requests), each followed by a handshake packet where possible, then all connections closed\n")
			break
		}
	}
	// clients that are slow or silent in the middle of setting a tunnel up, and stay connected: everybody
	// else must be served meanwhile (a probe tunnel on each transport while the slow client is still there)
	legacyAlive := func() bool {
		l, err := dialLegacy(addr, "{"+randHex(8)+"}", "")
		if err != nil {
			return false
		}
		defer l.close()
		pr := readLegacy(l, 3*time.Second)
		for try := 0; try < 2; try++ {
			l.send(mkPacket(tHandshake, bodyHandshake(1, 0, 0, 0)))
			deadline := time.Now().Add(1500 * time.Millisecond)
			for time.Now().Before(deadline) {
				if pk, _ := pr.snapshot(); len(pk) > 0 {
					return pk[0][0] == 2
				}
				time.Sleep(2 * time.Millisecond)
			}
		}
		return false
	}
	rawReq := func(method, id, extra string) net.Conn {
		c, err := net.DialTimeout("tcp", addr, 2*time.Second)
		if err != nil {
			return nil
		}
		c.Write([]byte(method + " /remoteDesktopGateway/ HTTP/1.1\r\nHost: x\r\nRdg-Connection-Id: " + id + "\r\n" + extra + "\r\n"))
		return c
	}
	for _, sc := range []struct {
		name string
		open func(id string) []net.Conn
	}{
		{"RDG_OUT_DATA, then RDG_IN_DATA with the same identifier, then nothing (not a byte of body)", func(id string) []net.Conn {
			return []net.Conn{rawReq("RDG_OUT_DATA", id, ""), rawReq("RDG_IN_DATA", id, "Transfer-Encoding: chunked\r\n")}
		}},
		{"RDG_OUT_DATA only, nothing after it", func(id string) []net.Conn { return []net.Conn{rawReq("RDG_OUT_DATA", id, "")} }},
		{"RDG_IN_DATA with half a chunk header, then nothing", func(id string) []net.Conn {
			o := rawReq("RDG_OUT_DATA", id, "")
			i := rawReq("RDG_IN_DATA", id, "Transfer-Encoding: chunked\r\n")
			if i != nil {
				time.Sleep(20 * time.Millisecond)
				i.Write([]byte("1\r\n\x00\r\n1"))
			}
			return []net.Conn{o, i}
		}},
		{"a websocket upgrade that never sends a frame", func(id string) []net.Conn {
			return []net.Conn{rawReq("RDG_OUT_DATA", id, "Connection: Upgrade\r\nUpgrade: websocket\r\nSec-WebSocket-Version: 13\r\nSec-WebSocket-Key: AAAAAAAAAAAAAAAAAAAAAA==\r\n")}
		}},
		{"half a request head", func(id string) []net.Conn {
			c, err := net.DialTimeout("tcp", addr, 2*time.Second)
			if err != nil {
				return nil
			}
			c.Write([]byte("RDG_IN_DATA /remoteDesktopGateway/ HTTP/1.1\r\nHost: x\r\nRdg-Conn"))
			return []net.Conn{c}
		}},
	} {
		conns := sc.open("{" + randHex(6) + "}")
		time.Sleep(60 * time.Millisecond)
		okWS := tunnelAlive()
		okLegacy := legacyAlive()
		for _, c := range conns {
			if c != nil {
				c.Close()
			}
		}
		r.Count("silent-client:" + sc.name)
		if !okWS || !okLegacy {
			r.Violation("c10-handler-wedged", "while one client sits silent in the middle of setting up a tunnel, a new tunnel of another client gets no handshake response within 3 s: the gateway no longer serves other clients",
				fmt.Sprintf("the silent client: %s (its connections stay open)\nmeanwhile a fresh websocket tunnel is answered: %v; a fresh legacy tunnel is answered: %v\n", sc.name, okWS, okLegacy))
			break
		}
	}
	// request headers a client controls, with values that are unusual but legal on the wire: the tunnel is
	// served or refused, and nothing panics
	hostileVals := []string{"Caf\xe9-RDP/1.0", "\xff\xfe\x80", strings.Repeat("A", 6000), "", "   ", "a\tb", "%00%ff%zz", "\"quoted\" (comment) ;=,", "unknown", "\xe2\x82", "{00000000-0000-0000-0000-000000000000}", "../../etc/passwd", "0", "-1"}
	hostileHdrs := []string{"User-Agent", "Rdg-User-Id", "X-Forwarded-For", "Accept-Language", "Origin", "Referer", "Sec-WebSocket-Protocol", "Cookie", "Authorization", "Rdg-Correlation-Id", "Content-Type", "Accept-Encoding"}
	for hi, hn := range hostileHdrs {
		for vi, v := range hostileVals {
			if !r.Thorough() && (hi+vi)%3 != 0 && hn != "User-Agent" {
				continue
			}
			extra := hn + ": " + v + "\r\n"
			for _, kind := range []string{"ws", "legacy"} {
				var cl gwClient
				if kind == "ws" {
					if w, err := dialWS(addr, "{"+randHex(8)+"}", extra); err == nil {
						cl = w
						w.send(mkPacket(tHandshake, bodyHandshake(1, 0, 0, 0)))
						w.recv(400 * time.Millisecond)
					}
				} else if l, err := dialLegacy(addr, "{"+randHex(8)+"}", extra); err == nil {
					cl = l
					l.send(mkPacket(tHandshake, bodyHandshake(1, 0, 0, 0)))
					time.Sleep(5 * time.Millisecond)
				}
				if cl != nil {
					cl.close()
				}
				r.Count(fmt.Sprintf("header:%s:%d:%s", hn, vi, kind))
			}
			if s := errLog.String(); strings.Contains(s, "panic") {
				r.Violation("c10-handler-panic", "the gateway's HTTP handler panicked on a client request (recovered per connection by net/http, but a runtime panic all the same)",
					fmt.Sprintf("a tunnel opened (both transports) with the request header %s: %q\n%s", hn, v, tail(s, 2000)))
				errLog.Reset()
			}
		}
	}
	if !tunnelAlive() {
		r.Violation("c10-handler-wedged", "after tunnels with unusual request header values, a new tunnel gets no handshake response within 3 s", "header values tried: see the rule\n")
	}
	time.Sleep(50 * time.Millisecond)
	if s := errLog.String(); strings.Contains(s, "panic") {
		r.Violation("c10-handler-panic", "the gateway's HTTP handler panicked on a client request (recovered per connection by net/http, but a runtime panic all the same)", tail(s, 2500))
	}

	// ---- 3. Authorization strings through the NTLM and Basic middlewares
	authVals := []string{"", "N", "NTLM", "NTLM ", "NTLMx", "Negotiate", "Negotiate ", "Negotiat", "Basic", "Basic ", "basic x", "xNTLMx", "NTLM " + base64.StdEncoding.EncodeToString([]byte("x")), "Negotiate !!!", "NTLM\x00", strings.Repeat("A", 5000)}
	for i := r.N(100, 5000); i > 0; i-- {
		authVals = append(authVals, string(randBytes(rng.Intn(14))))
	}
	nh := web.NTLMAuthHandler{SocketAddress: filepath.Join(verifRoot, "work", "no-such-socket"), Timeout: 1}
	bh := web.BasicAuthHandler{SocketAddress: filepath.Join(verifRoot, "work", "no-such-socket"), Timeout: 1}
	next := func(http.ResponseWriter, *http.Request) {}
	for _, v := range authVals {
		for name, h := range map[string]http.HandlerFunc{"ntlm": nh.NTLMAuth(next), "basic": bh.BasicAuth(next)} {
			func() {
				defer func() {
					if rec := recover(); rec != nil {
						r.Violation("c10-auth-panic", fmt.Sprintf("the %s authentication handler panicked on an Authorization value: %v", name, rec), fmt.Sprintf("Authorization: %q\n", v))
					}
				}()
				req := httptest.NewRequest("RDG_OUT_DATA", "http://gw/remoteDesktopGateway/", nil)
				req.Header["Authorization"] = []string{v}
				h(httptest.NewRecorder(), req)
			}()
			r.Count("auth:" + name + ":" + v)
		}
	}

	// ---- 4. NTLM messages against the real verifier (the authentication service)
	server := authntlm.NewNTLMAuth(database.NewConfig([]authconfig.UserConfig{{Username: "alice", Password: "wonderland"}}))
	cl := ntlm.V2ClientSession{}
	cl.SetUserInfo("alice", "wonderland", "")
	nm, _ := cl.GenerateNegotiateMessage()
	resp, _ := server.Authenticate(&auth.NtlmRequest{Session: "seed", NtlmMessage: base64.StdEncoding.EncodeToString(nm.Bytes())})
	var amBytes []byte
	if resp != nil && resp.NtlmMessage != "" {
		cb, _ := base64.StdEncoding.DecodeString(resp.NtlmMessage)
		if cm, err := ntlm.ParseChallengeMessage(cb); err == nil {
			cl.ProcessChallengeMessage(cm)
			if am, err := cl.GenerateAuthenticateMessage(); err == nil {
				amBytes = am.Bytes()
			}
		}
	}
	seeds := [][]byte{nm.Bytes(), amBytes}
	for i := r.N(20000, 600000); i > 0; i-- {
		base := seeds[rng.Intn(2)]
		if len(base) == 0 {
			continue
		}
		m := append([]byte{}, base...)
		switch rng.Intn(5) {
		case 0:
			m = m[:rng.Intn(len(m))]
		case 1: // a field's length/offset words
			off := 12 + 8*rng.Intn(6)
			if off+8 <= len(m) {
				copy(m[off:], randBytes(8))
			}
		case 2:
			m[8] = byte(rng.Intn(5)) // message type
		case 3:
			for k := rng.Intn(4); k >= 0; k-- {
				m[rng.Intn(len(m))] = byte(rng.Intn(256))
			}
		default:
			m = append(m[:8], randBytes(rng.Intn(40))...)
		}
		sess := fmt.Sprintf("s%d", i%7)
		func() {
			defer func() {
				if rec := recover(); rec != nil {
					r.Violation("c10-ntlm-panic", fmt.Sprintf("the NTLM verifier panicked on a malformed message (this ends the authentication service): %v", rec), "session "+sess+" message "+hx(m)+"\n")
				}
			}()
			// a negotiate first so that authenticate-shaped messages reach the parser
			if i%3 == 0 {
				server.Authenticate(&auth.NtlmRequest{Session: sess, NtlmMessage: base64.StdEncoding.EncodeToString(nm.Bytes())})
			}
			server.Authenticate(&auth.NtlmRequest{Session: sess, NtlmMessage: base64.StdEncoding.EncodeToString(m)})
		}()
		r.Count("ntlm:" + hx(m))
	}

	// ---- 5. socket-buffer tuning on every connection kind
	ln, _ := net.Listen("tcp4", "127.0.0.1:0")
	defer ln.Close()
	go func() {
		for {
			c, err := ln.Accept()
			if err != nil {
				return
			}
			defer c.Close()
		}
	}()
	tcp, _ := net.Dial("tcp", ln.Addr().String())
	tcp2, _ := net.Dial("tcp", ln.Addr().String())
	p1, p2 := net.Pipe()
	defer p1.Close()
	defer p2.Close()
	kinds := map[string]net.Conn{"tcp": tcp, "tls": tls.Client(tcp2, &tls.Config{InsecureSkipVerify: true}), "pipe": p1}
	for kind, c := range kinds {
		for _, sb := range []int{0, -1, 1, 65536} {
			for _, rb := range []int{0, 1, 65536} {
				func() {
					defer func() {
						if rec := recover(); rec != nil {
							r.Violation("c10-buffers-panic", fmt.Sprintf("setSendReceiveBuffers panicked: %v", rec), fmt.Sprintf("connection kind %s sendbuf=%d receivebuf=%d\n", kind, sb, rb))
						}
					}()
					protocol.VerifSetSendReceiveBuffers(&protocol.Gateway{SendBuf: sb, ReceiveBuf: rb}, c)
				}()
				r.Count(fmt.Sprintf("buf:%s:%d:%d", kind, sb, rb))
			}
		}
	}

	// ---- 6. binary tier: the real process must survive everything and keep serving
	r.TierRan("binary")
	if _, err := os.Stat(gwBinaryPath()); err != nil {
		r.Note("gateway binary unavailable: binary tier skipped")
	} else {
		dir := filepath.Join(verifRoot, "work", fmt.Sprintf("c10-%d", os.Getpid()))
		os.MkdirAll(dir, 0o755)
		defer os.RemoveAll(dir)
		idp := newFakeIdP()
		defer idp.close()
		sock := filepath.Join(dir, "auth.sock")
		fa := startFakeAuth(sock, map[string]string{"alice": "wonderland"})
		defer fa.stop()
		cert, key := selfSignedCert(dir)
		for _, tlsOn := range []bool{false, true} {
			for _, bufs := range []int{0, 65536} {
				for _, mechs := range [][]string{{"openid"}, {"ntlm"}, {"local", "openid"}} {
					if has(mechs, "local") && !tlsOn {
						continue
					}
					port := freePort()
					ta := has(mechs, "openid")
					y := &gwYaml{port: port, tlsOn: tlsOn, auth: mechs, hosts: []string{"127.0.0.1:1"}, sock: sock, tokenAuth: &ta, certFile: cert, keyFile: key, sendBuf: bufs, recvBuf: bufs}
					if ta {
						y.idpURL = idp.srv.URL
					}
					p := startBinary(dir, y.render(), nil, port, tlsOn)
					if !p.running() {
						r.Violation("c10-binary-start", "a supported configuration did not start", p.stderr.String())
						continue
					}
					batch := r.N(40, 1500)
					for i := 0; i < batch; i++ {
						c, err := p.dial()
						if err != nil {
							break
						}
						c.SetDeadline(time.Now().Add(1500 * time.Millisecond))
						br := bufio.NewReader(c)
						av := authVals[rng.Intn(len(authVals))]
						if strings.ContainsAny(av, "\r\n\x00") {
							av = "NTLM"
						}
						var auths []string
						if rng.Intn(3) != 0 {
							auths = []string{av}
						}
						resp := rawRequest(c, br, "RDG_OUT_DATA", fmt.Sprintf("localhost:%d", port), auths, true)
						if resp.upgraded {
							w := &wsClient{c: c, br: br}
							for k := 1 + rng.Intn(3); k > 0; k-- {
								switch rng.Intn(4) {
								case 0:
									w.send(mkPacketLen(rng.Intn(20), uint32(rng.Intn(8)), randBytes(rng.Intn(10))))
								case 1:
									w.send(randBytes(rng.Intn(12)))
								case 2:
									w.send(mkPacket(tHandshake, bodyHandshake(1, 0, 0, 2)))
								default:
									w.send(mkPacket(rng.Intn(0x12), randBytes(rng.Intn(30))))
								}
							}
							w.recv(300 * time.Millisecond)
						}
						c.Close()
						r.Count(fmt.Sprintf("bin:%v:%d:%v:%d", tlsOn, bufs, mechs, i))
					}
					// liveness: the process still runs and answers a fresh connection
					alive := false
					if p.running() {
						if c, err := p.dial(); err == nil {
							c.SetDeadline(time.Now().Add(3 * time.Second))
							resp := rawRequest(c, bufio.NewReader(c), "GET", fmt.Sprintf("localhost:%d", port), nil, false)
							alive = resp.status > 0
							c.Close()
						}
					}
					p.stop()
					se := p.stderr.String()
					conf := fmt.Sprintf("tls=%v sendbuf/receivebuf=%d authentication=%v", tlsOn, bufs, mechs)
					if !alive {
						r.Violation("c10-binary-dead", "the gateway process stopped serving after hostile input", conf+"\n"+tail(se, 2500))
					} else if strings.Contains(se, "fatal error:") || strings.Contains(se, "panic:") || strings.Contains(se, "http: panic serving") {
						r.Violation("c10-binary-panic", "the gateway process hit a runtime panic on client input", conf+"\n"+tail(se, 2500))
					}
					r.Dist("binary:" + conf)
				}
			}
		}
		// an open, busy tunnel: the host streams while the client, reading slowly, sends keep-alives,
		// payloads and junk. A panic in the relay goroutine (nothing recovers there) ends the process.
		for _, tlsOn := range []bool{true} {
			host := newHostListener()
			port := freePort()
			ta := false
			y := &gwYaml{port: port, tlsOn: tlsOn, auth: []string{"local"}, hosts: []string{host.addr}, hostSelection: "any", sock: sock, tokenAuth: &ta, certFile: cert, keyFile: key}
			p := startBinary(dir, y.render(), nil, port, tlsOn)
			if !p.running() {
				r.Violation("c10-binary-start", "a supported configuration did not start", p.stderr.String())
				host.close()
				continue
			}
			basic := "Basic " + base64.StdEncoding.EncodeToString([]byte("alice:wonderland"))
			for round := 0; round < r.N(3, 30) && p.running(); round++ {
				host.poll()
				host.reset()
				c, err := p.dial()
				if err != nil {
					break
				}
				br := bufio.NewReader(c)
				resp := rawRequest(c, br, "RDG_OUT_DATA", fmt.Sprintf("localhost:%d", port), []string{basic}, true)
				if !resp.upgraded {
					c.Close()
					r.Inconclusive()
					continue
				}
				w := &wsClient{c: c, br: br}
				_, hp := splitHostPort(host.addr)
				for _, pk := range [][]byte{mkPacket(tHandshake, bodyHandshake(1, 0, 0, 0)), mkPacket(tTunnel, bodyTunnelCreate(0, 0, nil)), mkPacket(tAuth, bodyTunnelAuth(append(utf16le("PC"), 0, 0))), mkPacket(tChannel, bodyChannel(hp, append(utf16le("127.0.0.1"), 0, 0)))} {
					w.send(pk)
				}
				if !waitFor(4*time.Second, func() bool { host.poll(); return len(host.conns) > 0 }) {
					c.Close()
					r.Inconclusive()
					continue
				}
				hc := host.conns[0]
				stop := make(chan struct{})
				go func() { // the host streams
					chunk := make([]byte, 4000)
					for {
						select {
						case <-stop:
							return
						default:
						}
						hc.c.SetWriteDeadline(time.Now().Add(50 * time.Millisecond))
						if _, err := hc.c.Write(chunk); err != nil && !isTimeout(err) {
							return
						}
					}
				}()
				// the client does not read for a while (the gateway's writes towards it fill the socket
				// buffers and block) and keeps sending
				time.Sleep(time.Duration(20+60*(round%3)) * time.Millisecond)
				for k := 0; k < 300 && p.running(); k++ {
					switch rng.Intn(4) {
					case 0, 1:
						w.send(mkPacket(tKeepalive, nil))
					case 2:
						w.send(mkPacket(tData, bodyData(randBytes(rng.Intn(200)))))
					default:
						w.send(mkPacket(rng.Intn(0x14), randBytes(rng.Intn(12))))
					}
					if k%50 == 49 {
						time.Sleep(10 * time.Millisecond)
					}
				}
				go func() { // now drain
					buf := make([]byte, 65536)
					for {
						c.SetReadDeadline(time.Now().Add(300 * time.Millisecond))
						if _, err := br.Read(buf); err != nil {
							return
						}
					}
				}()
				time.Sleep(150 * time.Millisecond)
				close(stop)
				c.Close()
				r.Count(fmt.Sprintf("bin-active:%d", round))
			}
			alive := false
			if p.running() {
				if c, err := p.dial(); err == nil {
					c.SetDeadline(time.Now().Add(3 * time.Second))
					resp := rawRequest(c, bufio.NewReader(c), "GET", fmt.Sprintf("localhost:%d", port), nil, false)
					alive = resp.status > 0
					c.Close()
				}
			}
			p.stop()
			host.close()
			se := p.stderr.String()
			if !alive {
				r.Violation("c10-binary-dead", "the gateway process stopped serving: a busy tunnel (host streaming, client sending keep-alives, payloads and junk while reading slowly) brought it down", "tls=true authentication=[local]\n"+tail(se, 3000))
			} else if strings.Contains(se, "fatal error:") || strings.Contains(se, "panic:") || strings.Contains(se, "http: panic serving") {
				r.Violation("c10-binary-panic", "the gateway process hit a runtime panic on a busy tunnel", tail(se, 3000))
			}
			r.Dist("binary:busy-tunnel")
		}
	}
}
