package main

import (
	"context"
	"net/http"
	"net/http/httptest"
	"sync"

	"github.com/bolkedebruin/rdpgw/cmd/rdpgw/identity"
	"github.com/bolkedebruin/rdpgw/cmd/rdpgw/security"
	"github.com/bolkedebruin/rdpgw/cmd/rdpgw/web"
)

const (
	keySign     = "paa-signing-key-0123456789abcdef"
	keyEnc      = "paa-encrypt-key-0123456789abcdef"
	keyUserEnc  = "usr-encrypt-key-0123456789abcdef"
	keyUserSign = "usr-signing-key-0123456789abcdef"
	keyQuery    = "qry-signing-key-0123456789abcdef"
)

var (
	idpOnce   sync.Once
	sharedIdP *fakeIdP
)

// setupSecurity points the security package at a fake IdP and fixed keys, the
// way main() does from the configuration.
func setupSecurity() *fakeIdP {
	idpOnce.Do(func() {
		sharedIdP = newFakeIdP()
		p, cfg := sharedIdP.provider()
		security.OIDCProvider = p
		security.Oauth2Config = cfg
	})
	security.SigningKey = []byte(keySign)
	security.EncryptionKey = []byte(keyEnc)
	security.UserEncryptionKey = []byte(keyUserEnc)
	security.UserSigningKey = []byte(keyUserSign)
	security.QuerySigningKey = []byte(keyQuery)
	initSessionStore()
	return sharedIdP
}

// enrich runs a request through the real web.EnrichContext and returns the
// identity the next handler sees (nil if the middleware did not call it).
func enrich(req *http.Request) (id identity.Identity, status int) {
	initSessionStore()
	var got identity.Identity
	h := web.EnrichContext(http.HandlerFunc(func(w http.ResponseWriter, r *http.Request) {
		got = identity.FromRequestCtx(r)
	}))
	rec := httptest.NewRecorder()
	h.ServeHTTP(rec, req)
	return got, rec.Code
}

func ctxWithIdentity(id identity.Identity) context.Context {
	return context.WithValue(context.Background(), identity.CTXKey, id)
}
