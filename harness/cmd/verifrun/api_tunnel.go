package main

import (
	"fmt"
	"time"
)

type apiResult struct {
	pkts         [][]byte // packets the gateway sent to the client
	ended        bool     // the gateway ended the tunnel (client saw EOF)
	hostBytes    []byte
	hostConns    int
	inconclusive string
}

// runTunnelAPI drives one tunnel through the real HTTP handler. Each element of
// segs is delivered as one websocket message / one HTTP chunk.
func runTunnelAPI(kind string, g *gwServer, segs [][]byte, hosts []*hostListener, wait time.Duration) *apiResult {
	return runTunnelAPIFull(kind, g, segs, hosts, wait, "")
}

// runTunnelAPIHdr is runTunnelAPI with extra request headers on every HTTP request of the tunnel.
func runTunnelAPIHdr(kind string, g *gwServer, segs [][]byte, hosts []*hostListener, hdr string) *apiResult {
	return runTunnelAPIFull(kind, g, segs, hosts, 3*time.Second, hdr)
}

func runTunnelAPIFull(kind string, g *gwServer, segs [][]byte, hosts []*hostListener, wait time.Duration, hdr string) *apiResult {
	res := &apiResult{}
	for _, h := range hosts {
		h.poll()
		h.reset()
	}
	connID := "{" + randHex(8) + "}"
	var cl gwClient
	var pr *packetReader
	switch kind {
	case "ws":
		w, err := dialWS(g.addr, connID, hdr)
		if err != nil {
			res.inconclusive = "ws dial: " + err.Error()
			return res
		}
		cl = w
		pr = readWS(w, wait)
	case "legacy", "legacy-eager":
		if kind == "legacy-eager" && len(segs) > 0 {
			legacyEagerFirst = segs[0]
			segs = segs[1:]
		}
		l, err := dialLegacy(g.addr, connID, hdr)
		legacyEagerFirst = nil
		if err != nil {
			res.inconclusive = "legacy dial: " + err.Error()
			return res
		}
		cl = l
		pr = readLegacy(l, wait)
	default:
		panic("kind")
	}
	defer cl.close()
	for _, s := range segs {
		if err := cl.send(s); err != nil {
			break
		}
	}
	select {
	case <-pr.done:
	case <-time.After(wait + time.Second):
	}
	res.pkts, res.ended = pr.snapshot()
	cl.close()
	for _, h := range hosts {
		h.poll()
		for _, c := range h.conns {
			select {
			case <-c.done:
			case <-time.After(2 * time.Second):
			}
			res.hostBytes = append(res.hostBytes, c.received()...)
			res.hostConns++
		}
	}
	return res
}

func pktsCanon(pkts [][]byte) string {
	s := ""
	for i, p := range pkts {
		if i > 0 {
			s += ","
		}
		s += "S" + hx(p)
	}
	return s
}

var _ = fmt.Sprint
