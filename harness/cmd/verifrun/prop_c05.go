package main

import (
	"bufio"
	"encoding/base64"
	"fmt"
	"io"
	"net"
	"os"
	"path/filepath"
	"sort"
	"strconv"
	"strings"
	"time"

	"github.com/m7913d/go-ntlm/ntlm"
)

func init() { register("C05", runC05) }

type rawResp struct {
	status   int
	wwwAuth  []string
	cookies  []string // name=value of every Set-Cookie
	upgraded bool
	err      string
}

// rawKeepCookies: the client sends back, on every later request of whatever connection, the cookies
// the gateway has set so far (as a browser-like or cookie-keeping client does); rawCookieJar holds them.
var rawKeepCookies bool
var rawCookieJar []string

// rawExtraHdr is added to every request rawRequest writes (client-controlled headers such as
// X-Forwarded-For must not change who gets in).
var rawExtraHdr string

// rawRequest writes one HTTP/1.1 request with the given Authorization values and reads the answer.
func rawRequest(c net.Conn, br *bufio.Reader, method, host string, auths []string, upgrade bool) rawResp {
	var sb strings.Builder
	fmt.Fprintf(&sb, "%s /remoteDesktopGateway/ HTTP/1.1\r\nHost: %s\r\n%s", method, host, rawExtraHdr)
	for _, a := range auths {
		fmt.Fprintf(&sb, "Authorization: %s\r\n", a)
	}
	if rawKeepCookies && len(rawCookieJar) > 0 {
		fmt.Fprintf(&sb, "Cookie: %s\r\n", strings.Join(rawCookieJar, "; "))
	}
	if upgrade {
		sb.WriteString("Connection: Upgrade\r\nUpgrade: websocket\r\nSec-WebSocket-Version: 13\r\nSec-WebSocket-Key: dGhlIHNhbXBsZSBub25jZQ==\r\nRdg-Connection-Id: {" + randHex(6) + "}\r\n")
	} else {
		sb.WriteString("Content-Length: 0\r\n")
	}
	sb.WriteString("\r\n")
	c.SetDeadline(time.Now().Add(8 * time.Second))
	if _, err := c.Write([]byte(sb.String())); err != nil {
		return rawResp{err: "write: " + err.Error()}
	}
	line, err := br.ReadString('\n')
	if err != nil {
		return rawResp{err: "read: " + err.Error()}
	}
	var r rawResp
	parts := strings.SplitN(strings.TrimSpace(line), " ", 3)
	if len(parts) >= 2 {
		r.status, _ = strconv.Atoi(parts[1])
	}
	cl := 0
	for {
		h, err := br.ReadString('\n')
		if err != nil {
			r.err = "headers: " + err.Error()
			return r
		}
		h = strings.TrimRight(h, "\r\n")
		if h == "" {
			break
		}
		kv := strings.SplitN(h, ":", 2)
		if len(kv) != 2 {
			continue
		}
		k, v := strings.ToLower(strings.TrimSpace(kv[0])), strings.TrimSpace(kv[1])
		switch k {
		case "www-authenticate":
			r.wwwAuth = append(r.wwwAuth, v)
		case "content-length":
			cl, _ = strconv.Atoi(v)
		case "set-cookie":
			nv := strings.TrimSpace(strings.SplitN(v, ";", 2)[0])
			r.cookies = append(r.cookies, nv)
			if rawKeepCookies {
				name := strings.SplitN(nv, "=", 2)[0] + "="
				kept := rawCookieJar[:0]
				for _, c := range rawCookieJar {
					if !strings.HasPrefix(c, name) {
						kept = append(kept, c)
					}
				}
				rawCookieJar = append(kept, nv)
			}
		}
	}
	if r.status == 101 {
		r.upgraded = true
		return r
	}
	if cl > 0 {
		io.CopyN(io.Discard, br, int64(cl))
	}
	return r
}

func challengeSchemes(vals []string) string {
	var s []string
	for _, v := range vals {
		s = append(s, strings.SplitN(v, " ", 2)[0])
	}
	sort.Strings(s)
	return strings.Join(s, ",")
}

func sortedCSV(s string) string {
	if s == "" {
		return ""
	}
	p := strings.Split(s, ",")
	sort.Strings(p)
	return strings.Join(p, ",")
}

type c05Req struct {
	method  string
	auths   []string
	upgrade bool
	class   string
	newConn bool
}

func runC05(r *Run) {
	r.rule = "every startable subset of {openid, kerberos, local, ntlm} started as the real binary (TLS as the configuration demands, fake IdP, fake gRPC authentication service wrapping the real NTLM verifier, generated keytab/krb5.conf) × Authorization headers: absent, empty, bare scheme keywords, truncated and wrong-case schemes, a disabled mechanism's scheme, several headers, well-formed wrong and right credentials, NTLM exchanges in order / out of order / across connections × methods; non-trivial = every request; distinct by (subset, request)"
	r.TierRan("binary")
	if _, err := os.Stat(gwBinaryPath()); err != nil {
		r.Unproven("the gateway binary could not be built: the binary tier (the only tier that sees main()'s route table) did not run", err.Error())
		return
	}
	dir := filepath.Join(verifRoot, "work", fmt.Sprintf("c05-%d", os.Getpid()))
	os.MkdirAll(dir, 0o755)
	defer os.RemoveAll(dir)
	idp := newFakeIdP()
	defer idp.close()
	host := newHostListener()
	defer host.close()
	_, hostPort := splitHostPort(host.addr)
	portUser := fmt.Sprint(hostPort) // a user whose name is the port of "his" desktop host
	users := map[string]string{"alice": "wonderland", "bob": "builder", "nopass": "", portUser: "port-user-password", "longpw": strings.Repeat("correct horse battery staple ", 320)}
	var userPairs []string
	for u, pw := range users {
		userPairs = append(userPairs, hx([]byte(u))+":"+hx([]byte(pw)))
	}
	sort.Strings(userPairs)
	usersHex := strings.Join(userPairs, ",")
	sock := filepath.Join(dir, "auth.sock")
	fa := startFakeAuth(sock, users)
	defer fa.stop()
	cert, key := selfSignedCert(dir)
	keytab, krb5conf := writeKerberosFiles(dir)
	drift := 0
	first := ""
	b64 := func(s string) string { return base64.StdEncoding.EncodeToString([]byte(s)) }

	for mask := 1; mask < 16; mask++ {
		openid, kerberos, local, ntlmOn := mask&1 != 0, mask&2 != 0, mask&4 != 0, mask&8 != 0
		if ntlmOn && kerberos {
			continue // refused at startup (C18)
		}
		var mechs []string
		if openid {
			mechs = append(mechs, "openid")
		}
		if kerberos {
			mechs = append(mechs, "kerberos")
		}
		if local {
			// "basic" is the accepted alias of "local"
			if mask%2 == 1 {
				mechs = append(mechs, "basic")
			} else {
				mechs = append(mechs, "local")
			}
		}
		if ntlmOn {
			mechs = append(mechs, "ntlm")
		}
		port := freePort()
		ta := openid
		y := &gwYaml{port: port, tlsOn: local, auth: mechs, hosts: []string{"127.0.0.1:{{ preferred_username }}"}, sock: sock, tokenAuth: &ta, certFile: cert, keyFile: key}
		if openid {
			y.idpURL = idp.srv.URL
		}
		if kerberos {
			y.keytab, y.krb5conf = keytab, krb5conf
		}
		p := startBinary(dir, y.render(), nil, port, local)
		if !p.running() {
			r.Violation("c05-start", "a startable mechanism combination did not start: "+strings.Join(mechs, "+"), p.stderr.String())
			continue
		}
		hostHdr := fmt.Sprintf("localhost:%d", port)
		// the request battery
		reqs := []c05Req{
			{"RDG_OUT_DATA", nil, true, "absent", true},
			{"RDG_OUT_DATA", []string{""}, true, "empty", true},
			{"RDG_OUT_DATA", []string{"NTLM"}, true, "bare-ntlm", true},
			{"RDG_OUT_DATA", []string{"Negotiate"}, true, "bare-negotiate", true},
			{"RDG_OUT_DATA", []string{"Basic"}, true, "bare-basic", true},
			{"RDG_OUT_DATA", []string{"NTL"}, true, "truncated", true},
			{"RDG_OUT_DATA", []string{"Basi YWxpY2U6d29uZGVybGFuZA=="}, true, "truncated", true},
			{"RDG_OUT_DATA", []string{"Basic " + b64("alice:wonderland")}, true, "basic-right", true},
			{"RDG_OUT_DATA", []string{"Basic " + b64("alice:wrong")}, true, "basic-wrong", true},
			{"RDG_OUT_DATA", []string{"Basic " + b64("nopass:")}, true, "basic-empty-password", true},
			{"RDG_OUT_DATA", []string{"Basic " + b64("mallory:x")}, true, "basic-unknown-user", true},
			{"RDG_OUT_DATA", []string{"basic " + b64("alice:wonderland")}, true, "basic-lowercase-scheme", true},
			{"RDG_OUT_DATA", []string{"BASIC " + b64("alice:wonderland")}, true, "basic-uppercase-scheme", true},
			{"RDG_OUT_DATA", []string{"Basic !!!notbase64"}, true, "basic-malformed", true},
			{"RDG_OUT_DATA", []string{"Basic " + b64("alice-no-colon")}, true, "basic-malformed", true},
			{"RDG_OUT_DATA", []string{"Bearer abc.def.ghi"}, true, "other-scheme", true},
			{"RDG_OUT_DATA", []string{"Bearer xNTLMx"}, true, "substring-ntlm", true},
			{"RDG_OUT_DATA", []string{"Bearer Basic"}, true, "substring-basic", true},
			{"RDG_OUT_DATA", []string{"Bearer x", "Basic " + b64("alice:wonderland")}, true, "second-header-basic", true},
			{"RDG_OUT_DATA", []string{"Basic " + b64("alice:wonderland"), "Bearer x"}, true, "first-header-basic", true},
			{"RDG_OUT_DATA", []string{"Negotiate " + b64("not a spnego token")}, true, "negotiate-junk", true},
			{"RDG_OUT_DATA", []string{"NTLM " + b64("garbage message")}, true, "ntlm-garbage", true},
			{"RDG_OUT_DATA", []string{"NTLM !!!"}, true, "ntlm-badbase64", true},
			{"GET", nil, false, "get-absent", true},
			{"GET", []string{"Basic " + b64("alice:wonderland")}, false, "get-basic-right", true},
			{"GET", []string{"Basic " + b64("alice:nope")}, false, "get-basic-wrong", true},
			{"POST", []string{"Bearer x"}, false, "post-other", true},
			{"RDG_IN_DATA", []string{"Basic " + b64("bob:wrong")}, false, "in-basic-wrong", true},
			// right after a confirmed login: pairs whose concatenation, user name or password coincide
			// with the confirmed one (a cache of confirmed credentials must not let them through)
			{"RDG_OUT_DATA", []string{"Basic " + b64("alice:wonderland")}, true, "basic-right", true},
			{"RDG_OUT_DATA", []string{"Basic " + b64("alicew:onderland")}, true, "basic-shifted-split", true},
			{"RDG_OUT_DATA", []string{"Basic " + b64("alic:ewonderland")}, true, "basic-shifted-split", true},
			{"RDG_OUT_DATA", []string{"Basic " + b64("alicewonderland:")}, true, "basic-shifted-split", true},
			{"RDG_OUT_DATA", []string{"Basic " + b64(":alicewonderland")}, true, "basic-shifted-split", true},
			{"RDG_OUT_DATA", []string{"Basic " + b64("alice:wonderland ")}, true, "basic-near-password", true},
			{"RDG_OUT_DATA", []string{"Basic " + b64("alice:Wonderland")}, true, "basic-near-password", true},
			{"RDG_OUT_DATA", []string{"Basic " + b64("Alice:wonderland")}, true, "basic-near-user", true},
			{"RDG_OUT_DATA", []string{"Basic " + b64("bob:wonderland")}, true, "basic-other-user-same-password", true},
			{"RDG_OUT_DATA", []string{"Basic " + b64("alice:builder")}, true, "basic-other-users-password", true},
			{"RDG_OUT_DATA", []string{"Basic " + b64("alice:wonderland:x")}, true, "basic-extra-colon", true},
			{"GET", []string{"Basic " + b64("alicew:onderland")}, false, "get-basic-shifted-split", true},
			// one scheme's keyword inside another scheme's payload (the route table matches keywords anywhere in the value)
			{"RDG_OUT_DATA", []string{"NTLM BasicAAA"}, true, "ntlm-payload-spelling-basic", true},
			{"RDG_OUT_DATA", []string{"Negotiate AABasicAA"}, true, "negotiate-payload-spelling-basic", true},
			{"RDG_OUT_DATA", []string{"Basic " + b64("al:52\u0300")}, true, "basic-payload-spelling-ntlm", true}, // YWw6NTLMgA==
			{"RDG_OUT_DATA", []string{"Basic " + b64("Negotiate:NTLM")}, true, "basic-credentials-naming-schemes", true},
			// the syntax of the Basic value: padding, alphabet, separators (the model decodes base64 itself)
			{"RDG_OUT_DATA", []string{"Basic " + strings.TrimRight(b64("alice:wonderland"), "=")}, true, "basic-syntax", true},
			{"RDG_OUT_DATA", []string{"Basic " + b64("alice:wonderland") + "="}, true, "basic-syntax", true},
			{"RDG_OUT_DATA", []string{"Basic " + b64("alice:wonderland") + b64("x")}, true, "basic-syntax", true},
			{"RDG_OUT_DATA", []string{"Basic " + b64("bob:builder")}, true, "basic-syntax-right-no-padding", true},
			{"RDG_OUT_DATA", []string{"Basic " + b64("bob:builder") + "===="}, true, "basic-syntax", true},
			{"RDG_OUT_DATA", []string{"Basic  " + b64("alice:wonderland")}, true, "basic-syntax-two-spaces", true},
			{"RDG_OUT_DATA", []string{"Basic\t" + b64("alice:wonderland")}, true, "basic-syntax-tab", true},
			{"RDG_OUT_DATA", []string{"Basic" + b64("alice:wonderland")}, true, "basic-syntax-no-space", true},
			{"RDG_OUT_DATA", []string{"bAsIc " + b64("alice:wonderland")}, true, "basic-syntax-mixed-case", true},
			{"RDG_OUT_DATA", []string{"Basic " + strings.NewReplacer("+", "-", "/", "_").Replace(b64("alice:wonderland"))}, true, "basic-syntax", true},
			{"RDG_OUT_DATA", []string{"Basic " + base64.URLEncoding.EncodeToString([]byte("bob:builder?>"))}, true, "basic-syntax-url-alphabet", true},
			{"RDG_OUT_DATA", []string{"Basic " + b64("alice:wonderland")[:8] + "=" + b64("alice:wonderland")[9:]}, true, "basic-syntax-inner-padding", true},
			{"RDG_OUT_DATA", []string{"Basic " + b64("alice:wonderland")[:8] + " " + b64("alice:wonderland")[8:]}, true, "basic-syntax-inner-space", true},
			{"RDG_OUT_DATA", []string{"Basic YWxpY2U6d29uZGVybGFuZB=="}, true, "basic-syntax-nonzero-trailing-bits", true},
			{"RDG_OUT_DATA", []string{"Basic " + b64("alice:wonderland\x00")}, true, "basic-syntax-nul", true},
			{"RDG_OUT_DATA", []string{"Basic " + b64("alice\x00:wonderland")}, true, "basic-syntax-nul", true},
			{"RDG_OUT_DATA", []string{"Basic " + b64(":")}, true, "basic-syntax-empty-pair", true},
			{"RDG_OUT_DATA", []string{"Basic " + b64("alice:")}, true, "basic-syntax-empty-password", true},
			{"RDG_OUT_DATA", []string{"Basic " + b64(":wonderland")}, true, "basic-syntax-empty-user", true},
			{"RDG_OUT_DATA", []string{"Basic" + " " + b64("alice:wonderland"), "Basic " + b64("bob:builder")}, true, "basic-syntax-two-pairs", true},
			{"RDG_OUT_DATA", []string{"Basic " + b64("alice:wrong"), "Basic " + b64("alice:wonderland")}, true, "basic-syntax-right-pair-second", true},
			{"RDG_OUT_DATA", []string{"ntlm " + b64("garbage message")}, true, "ntlm-lowercase-scheme", true},
			{"RDG_OUT_DATA", []string{"negotiate " + b64("garbage message")}, true, "negotiate-lowercase-scheme", true},
			{"RDG_OUT_DATA", []string{"Bearer x", "NTLM " + b64("garbage message")}, true, "second-header-ntlm", true},
			// confirmed credentials that make a request head of 13 KB
			{"RDG_OUT_DATA", []string{"Basic " + b64("longpw:"+users["longpw"])}, true, "basic-right-long", true},
			{"RDG_OUT_DATA", []string{"Basic " + b64("longpw:"+users["longpw"][:9000]+"x")}, true, "basic-wrong-long", true},
		}
		run := func(q c05Req, conn net.Conn, br *bufio.Reader) (rawResp, string, net.Conn, *bufio.Reader) {
			if conn == nil || q.newConn {
				if conn != nil {
					conn.Close()
				}
				c, err := p.dial()
				if err != nil {
					return rawResp{err: "dial: " + err.Error()}, "", nil, nil
				}
				conn, br = c, bufio.NewReader(c)
			}
			fa.mu.Lock()
			before := len(fa.log)
			fa.mu.Unlock()
			resp := rawRequest(conn, br, q.method, hostHdr, q.auths, q.upgrade)
			fa.mu.Lock()
			ntres := "reject"
			if len(fa.log) > before && strings.HasPrefix(fa.log[len(fa.log)-1], "ntlm:") {
				ntres = fa.lastNT
			}
			fa.mu.Unlock()
			return resp, ntres, conn, br
		}
		check := func(q c05Req, resp rawResp, ntres string) {
			firstV := ""
			if len(q.auths) > 0 {
				firstV = q.auths[0]
			}
			// the model parses the header's values itself (Http.classify: Header.Get, r.BasicAuth(), HeadersRegexp)
			// and looks the pair up in the backend's table
			authsHex := "_"
			if len(q.auths) > 0 {
				var hs []string
				for _, a := range q.auths {
					hs = append(hs, hx([]byte(a)))
				}
				authsHex = strings.Join(hs, ",")
			}
			nt := ntres
			if strings.HasPrefix(nt, "ok:") {
				nt = "ok:" + hx([]byte(strings.TrimPrefix(nt, "ok:")))
			}
			line := fmt.Sprintf("route openid=%s kerberos=%s basic=%s ntlm=%s auths=%s users=%s ntlmres=%s spnego=none",
				b01(openid), b01(kerberos), b01(local), b01(ntlmOn), authsHex, usersHex, nt)
			want := r.Oracle([]string{line})[0]
			r.Count(strings.Join(mechs, "+") + "|" + q.method + "|" + strings.Join(q.auths, "|") + "|" + q.class)
			r.Dist("mechs:" + strings.Join(mechs, "+"))
			rep := fmt.Sprintf("mechanisms: %s (tls=%v)\nrequest: %s with Authorization values %q (%s)\nanswer: status %d WWW-Authenticate %q upgraded=%v %s\nmodel: %s   [%s]\n", strings.Join(mechs, "+"), local, q.method, q.auths, q.class, resp.status, resp.wwwAuth, resp.upgraded, resp.err, want, line)
			if len(r.samples) < 3 {
				r.Sample(map[string]interface{}{"mechanisms": mechs, "method": q.method, "authorization": q.auths, "status": resp.status, "challenges": resp.wwwAuth, "model": want})
			}
			// reaching HandleGatewayProtocol: 101 for an upgrade request; for other methods the handler does
			// nothing (200, empty) — or, for RDG_IN_DATA without an OUT channel, hijacks and closes the connection
			reached := resp.upgraded || (!q.upgrade && resp.status == 200 && len(resp.wwwAuth) == 0) ||
				(q.method == "RDG_IN_DATA" && resp.status == 0 && strings.Contains(resp.err, "EOF"))
			wantHandler := strings.HasPrefix(want, "handler:")
			if reached && !wantHandler {
				r.Violation("c05-reached", "the tunnel handler was reached without confirmed credentials of an enabled scheme", rep)
				return
			}
			if !reached && wantHandler {
				if resp.err != "" && resp.status == 0 {
					r.Violation("c05-dropped", "a request that should reach the handler got no answer", rep)
				} else {
					r.Violation("c05-refused", "confirmed credentials of an enabled scheme did not reach the tunnel handler", rep)
				}
				return
			}
			if firstV == "" && !(openid && !kerberos && !local && !ntlmOn) {
				// one challenge per enabled scheme
				var exp []string
				if ntlmOn {
					exp = append(exp, "NTLM", "Negotiate")
				}
				if local {
					exp = append(exp, "Basic")
				}
				if kerberos {
					exp = append(exp, "Negotiate")
				}
				sort.Strings(exp)
				if resp.status != 401 || challengeSchemes(resp.wwwAuth) != strings.Join(exp, ",") {
					r.Violation("c05-challenges", "a request without Authorization is not answered 401 with one challenge per enabled scheme", rep)
					return
				}
			}
			obs := fmt.Sprint(resp.status)
			if resp.status == 401 {
				obs = "401:" + challengeSchemes(resp.wwwAuth)
			}
			if wantHandler {
				return
			}
			w := want
			if strings.HasPrefix(w, "401:") {
				w = "401:" + sortedCSV(strings.TrimPrefix(w, "401:"))
			}
			if obs != w {
				drift++
				if first == "" {
					first = rep
				}
			}
		}
		var conn net.Conn
		var br *bufio.Reader
		for _, q := range reqs {
			var resp rawResp
			var nt string
			fa.mu.Lock()
			logBefore := len(fa.log)
			fa.mu.Unlock()
			resp, nt, conn, br = run(q, conn, br)
			check(q, resp, nt)
			// the authentication backend is asked only on behalf of an enabled mechanism
			fa.mu.Lock()
			added := append([]string{}, fa.log[logBefore:]...)
			fa.mu.Unlock()
			for _, e := range added {
				if (strings.HasPrefix(e, "ntlm:") && !ntlmOn) || (strings.HasPrefix(e, "basic:") && !local) {
					r.Violation("c05-disabled-backend", "credentials of a mechanism that is not enabled were passed to the authentication backend", fmt.Sprintf("mechanisms: %s\nrequest: %s with Authorization %q (%s)\nbackend call: %s\nanswer: status %d WWW-Authenticate %q\n", strings.Join(mechs, "+"), q.method, q.auths, q.class, e, resp.status, resp.wwwAuth))
				}
			}
			if resp.upgraded && conn != nil {
				conn.Close()
				conn = nil
			}
		}
		if conn != nil {
			conn.Close()
			conn = nil
		}
		// NTLM exchanges (messages from the go-ntlm client), in order, out of order, across connections
		ntlmExchange := func(scheme, user, pw string, sameConn, skipNegotiate bool, class string) {
			cl := ntlm.V2ClientSession{}
			cl.SetUserInfo(user, pw, "")
			nm, _ := cl.GenerateNegotiateMessage()
			c1, err := p.dial()
			if err != nil {
				return
			}
			defer c1.Close()
			b1 := bufio.NewReader(c1)
			q1 := c05Req{"RDG_OUT_DATA", []string{scheme + " " + base64.StdEncoding.EncodeToString(nm.Bytes())}, true, class + "/negotiate", false}
			fa.mu.Lock()
			before := len(fa.log)
			fa.mu.Unlock()
			resp1 := rawRequest(c1, b1, q1.method, hostHdr, q1.auths, true)
			fa.mu.Lock()
			nt1 := "reject"
			if len(fa.log) > before {
				nt1 = fa.lastNT
			}
			fa.mu.Unlock()
			check(q1, resp1, nt1)
			var chal string
			for _, v := range resp1.wwwAuth {
				if strings.HasPrefix(v, scheme+" ") {
					chal = strings.TrimPrefix(v, scheme+" ")
				}
			}
			if chal == "" {
				return
			}
			cb, _ := base64.StdEncoding.DecodeString(chal)
			cm, err := ntlm.ParseChallengeMessage(cb)
			if err != nil {
				return
			}
			cl.ProcessChallengeMessage(cm)
			am, err := cl.GenerateAuthenticateMessage()
			if err != nil {
				return
			}
			c2, b2 := c1, b1
			if !sameConn {
				cc, err := p.dial()
				if err != nil {
					return
				}
				defer cc.Close()
				c2, b2 = cc, bufio.NewReader(cc)
			}
			q2 := c05Req{"RDG_OUT_DATA", []string{scheme + " " + base64.StdEncoding.EncodeToString(am.Bytes())}, true, class + "/authenticate", false}
			fa.mu.Lock()
			before = len(fa.log)
			fa.mu.Unlock()
			resp2 := rawRequest(c2, b2, q2.method, hostHdr, q2.auths, true)
			fa.mu.Lock()
			nt2 := "reject"
			if len(fa.log) > before {
				nt2 = fa.lastNT
			}
			fa.mu.Unlock()
			check(q2, resp2, nt2)
			// the property, directly: an exchange completed on one connection with the right password is the only way in
			should := ntlmOn && sameConn && users[user] == pw && pw != ""
			if resp2.upgraded != should && ntlmOn {
				rep := fmt.Sprintf("mechanisms: %s; NTLM exchange (%s) as %q, password correct=%v, same connection=%v, extra headers %q, cookies kept and sent back=%v → upgraded=%v (status %d)\n", strings.Join(mechs, "+"), scheme, user, users[user] == pw, sameConn, rawExtraHdr, rawKeepCookies, resp2.upgraded, resp2.status)
				if resp2.upgraded {
					r.Violation("c05-ntlm-reached", "an NTLM exchange that does not prove the password on this connection reached the tunnel handler", rep)
				} else {
					r.Violation("c05-ntlm-refused", "a correct NTLM exchange on one connection did not reach the tunnel handler", rep)
				}
			}
			if resp2.upgraded && should {
				// the tunnel's user is the confirmed one: the host list names 127.0.0.1:<port>; run the exchange
				_ = skipNegotiate
			}
		}
		// the tunnel's user name is the one the backend confirmed: the only host entry is
		// 127.0.0.1:{{ preferred_username }}, so only the user named like the host's port gets a channel to it
		tunnelAs := func(user, pw string) (chanStatus string, dialed bool) {
			c, err := p.dial()
			if err != nil {
				return "dial", false
			}
			defer c.Close()
			br := bufio.NewReader(c)
			host.poll()
			host.reset()
			resp := rawRequest(c, br, "RDG_OUT_DATA", hostHdr, []string{"Basic " + b64(user+":"+pw)}, true)
			if !resp.upgraded {
				return fmt.Sprintf("http-%d", resp.status), false
			}
			w := &wsClient{c: c, br: br}
			for _, pk := range [][]byte{mkPacket(tHandshake, bodyHandshake(1, 0, 0, 0)), mkPacket(tTunnel, bodyTunnelCreate(0, 0, nil)), mkPacket(tAuth, bodyTunnelAuth(append(utf16le("PC"), 0, 0))),
				mkPacket(tChannel, bodyChannel(hostPort, append(utf16le("127.0.0.1"), 0, 0)))} {
				w.send(pk)
			}
			for i := 0; i < 4; i++ {
				m, err := w.recv(4 * time.Second)
				if err != nil {
					return "recv-error", false
				}
				if len(m) >= 12 && m[0] == 9 {
					chanStatus = hx(m[8:12])
				}
			}
			time.Sleep(5 * time.Millisecond)
			return chanStatus, host.poll() > 0
		}
		if local && !openid {
			st, dialed := tunnelAs(portUser, users[portUser])
			r.Count("tunnel-user:" + strings.Join(mechs, "+") + ":port-user")
			if st != "00000000" || !dialed {
				r.Violation("c05-user", "the tunnel does not carry the user name the backend confirmed (the confirmed user's own host entry is refused)", fmt.Sprintf("mechanisms %s: Basic login as %q, channel to 127.0.0.1:%d → status %s dialed=%v\n", strings.Join(mechs, "+"), portUser, hostPort, st, dialed))
			}
			st, dialed = tunnelAs("alice", "wonderland")
			r.Count("tunnel-user:" + strings.Join(mechs, "+") + ":alice")
			if st != "da590780" || dialed {
				r.Violation("c05-user", "the tunnel carries another user name than the one the backend confirmed (another user's host entry is allowed)", fmt.Sprintf("mechanisms %s: Basic login as alice, channel to 127.0.0.1:%d → status %s dialed=%v\n", strings.Join(mechs, "+"), hostPort, st, dialed))
			}
		}
		if local {
			// two requests of one user overlap at a slow backend: the wrong password must not ride on the
			// verification of the right one (and the right one must still get in)
			fa.mu.Lock()
			fa.slow = map[string]time.Duration{"alice:wonderland": 350 * time.Millisecond}
			fa.mu.Unlock()
			type res struct {
				up     bool
				status int
			}
			rightCh, wrongCh := make(chan res, 1), make(chan res, 2)
			go func() {
				c, err := p.dial()
				if err != nil {
					rightCh <- res{}
					return
				}
				defer c.Close()
				rr := rawRequest(c, bufio.NewReader(c), "RDG_OUT_DATA", hostHdr, []string{"Basic " + b64("alice:wonderland")}, true)
				rightCh <- res{rr.upgraded, rr.status}
			}()
			time.Sleep(80 * time.Millisecond)
			for _, wrong := range []string{"alice:wrong", "alice:"} {
				go func(cred string) {
					c, err := p.dial()
					if err != nil {
						wrongCh <- res{}
						return
					}
					defer c.Close()
					rr := rawRequest(c, bufio.NewReader(c), "RDG_OUT_DATA", hostHdr, []string{"Basic " + b64(cred)}, true)
					wrongCh <- res{rr.upgraded, rr.status}
				}(wrong)
			}
			w1, w2, rt := <-wrongCh, <-wrongCh, <-rightCh
			fa.mu.Lock()
			fa.slow = nil
			fa.mu.Unlock()
			r.Count("concurrent-basic:" + strings.Join(mechs, "+"))
			rep := fmt.Sprintf("mechanisms: %s; the backend takes 350 ms to confirm alice:wonderland; 80 ms after that request two more arrive for alice with wrong passwords\nright password: upgraded=%v status %d; wrong passwords: upgraded=%v status %d, upgraded=%v status %d\n", strings.Join(mechs, "+"), rt.up, rt.status, w1.up, w1.status, w2.up, w2.status)
			if w1.up || w2.up {
				r.Violation("c05-reached", "the tunnel handler was reached without confirmed credentials of an enabled scheme", rep)
			} else if !rt.up {
				r.Violation("c05-refused", "confirmed credentials did not reach the tunnel handler", rep)
			}
		}
		ntlmExchange("NTLM", "alice", "wonderland", true, false, "ntlm-right")
		ntlmExchange("Negotiate", "bob", "builder", true, false, "negotiate-ntlm-right")
		ntlmExchange("NTLM", "alice", "wrong-password", true, false, "ntlm-wrong")
		ntlmExchange("NTLM", "mallory", "x", true, false, "ntlm-unknown")
		ntlmExchange("NTLM", "alice", "wonderland", false, false, "ntlm-other-connection")
		// the same from a client that keeps the cookies the gateway sets and sends them on every connection
		rawKeepCookies, rawCookieJar = true, nil
		ntlmExchange("NTLM", "alice", "wonderland", false, false, "ntlm-other-connection-same-cookies")
		ntlmExchange("NTLM", "alice", "wonderland", true, false, "ntlm-right-with-cookies")
		ntlmExchange("Negotiate", "bob", "builder", false, false, "negotiate-other-connection-same-cookies")
		ntlmExchange("NTLM", "alice", "wrong-password", true, false, "ntlm-wrong-with-cookies")
		rawKeepCookies, rawCookieJar = false, nil
		// the same with client-controlled address headers equal on both connections
		for _, hdr := range []string{"X-Forwarded-For: 203.0.113.9\r\n", "X-Forwarded-For: 203.0.113.9, 10.0.0.1\r\nX-Real-Ip: 203.0.113.9\r\n", "Forwarded: for=203.0.113.9\r\n"} {
			rawExtraHdr = hdr
			ntlmExchange("NTLM", "alice", "wonderland", false, false, "ntlm-other-connection-same-forwarded-address")
			ntlmExchange("NTLM", "alice", "wonderland", true, false, "ntlm-right-forwarded-address")
			rawExtraHdr = ""
		}
		p.stop()
		if strings.Contains(p.stderr.String(), "panic") && !strings.Contains(p.stderr.String(), "http: panic serving") {
			r.Violation("c05-crash", "the gateway process crashed during the request battery", p.stderr.String()[max0(len(p.stderr.String())-2000):])
		}
	}
	r.extra["model_disagreements"] = drift
	if drift > 0 && !r.HasViolation() {
		r.Unproven(fmt.Sprintf("correspondence Http.route = main()'s route table and middlewares broke on %d requests with no unauthenticated access found", drift), first)
	}
}
