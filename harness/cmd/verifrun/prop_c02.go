package main

import (
	"context"
	"crypto"
	"crypto/hmac"
	"crypto/rand"
	"crypto/rsa"
	"crypto/sha256"
	"crypto/sha512"
	"encoding/base64"
	"encoding/json"
	"fmt"
	"hash"
	"strings"
	"time"

	"github.com/bolkedebruin/rdpgw/cmd/rdpgw/identity"
	"github.com/bolkedebruin/rdpgw/cmd/rdpgw/protocol"
	"github.com/bolkedebruin/rdpgw/cmd/rdpgw/security"
)

func init() { register("C02", runC02) }

// ---------------------------------------------------------------------------
// independent dissector: std base64 / json / hmac only, never go-jose

type cookieFacts struct {
	empty, c3, dec, alg, mac bool
	iss                      string
	exp, nbf, iat            *int64
	host, ip, at             string
}

func b64dec(s string) ([]byte, bool) {
	b, err := base64.RawURLEncoding.DecodeString(s)
	return b, err == nil
}

func numDate(v interface{}) (*int64, bool) {
	if v == nil {
		return nil, true
	}
	f, ok := v.(float64)
	if !ok {
		return nil, false
	}
	n := int64(f)
	return &n, true
}

func strClaim(m map[string]interface{}, k string) (string, bool) {
	v, ok := m[k]
	if !ok || v == nil {
		return "", true
	}
	s, ok := v.(string)
	return s, ok
}

func dissectCookie(tok string, key []byte) cookieFacts {
	f := cookieFacts{empty: tok == ""}
	parts := strings.Split(tok, ".")
	f.c3 = len(parts) == 3
	if !f.c3 {
		return f
	}
	hb, ok1 := b64dec(parts[0])
	pb, ok2 := b64dec(parts[1])
	sb, ok3 := b64dec(parts[2])
	var hdr map[string]interface{}
	var claims map[string]interface{}
	okh := ok1 && json.Unmarshal(hb, &hdr) == nil && hdr != nil
	okp := ok2 && json.Unmarshal(pb, &claims) == nil && claims != nil
	f.dec = okh && okp && ok3
	if !f.dec {
		return f
	}
	a, _ := hdr["alg"].(string)
	f.alg = a == "HS256"
	m := hmac.New(sha256.New, key)
	m.Write([]byte(base64.RawURLEncoding.EncodeToString(hb) + "." + base64.RawURLEncoding.EncodeToString(pb)))
	f.mac = hmac.Equal(m.Sum(nil), sb)
	var ok bool
	if f.iss, ok = strClaim(claims, "iss"); !ok {
		f.dec = false
	}
	if f.exp, ok = numDate(claims["exp"]); !ok {
		f.dec = false
	}
	if f.nbf, ok = numDate(claims["nbf"]); !ok {
		f.dec = false
	}
	if f.iat, ok = numDate(claims["iat"]); !ok {
		f.dec = false
	}
	if f.host, ok = strClaim(claims, "remoteServer"); !ok {
		f.dec = false
	}
	if f.ip, ok = strClaim(claims, "clientIp"); !ok {
		f.dec = false
	}
	if f.at, ok = strClaim(claims, "accessToken"); !ok {
		f.dec = false
	}
	for _, k := range []string{"sub", "jti"} {
		if _, ok := strClaim(claims, k); !ok {
			f.dec = false
		}
	}
	return f
}

func optN(p *int64) string {
	if p == nil || *p < 0 {
		if p != nil {
			return "0"
		}
		return "none"
	}
	return fmt.Sprint(*p)
}

// signCompact builds a compact JWS by hand.
func signCompact(header, payload map[string]interface{}, alg string, key interface{}) string {
	hb, _ := json.Marshal(header)
	pb, _ := json.Marshal(payload)
	in := base64.RawURLEncoding.EncodeToString(hb) + "." + base64.RawURLEncoding.EncodeToString(pb)
	var sig []byte
	switch alg {
	case "HS256", "HS384", "HS512":
		var hf func() hash.Hash
		switch alg {
		case "HS256":
			hf = sha256.New
		case "HS384":
			hf = sha512.New384
		default:
			hf = sha512.New
		}
		m := hmac.New(hf, key.([]byte))
		m.Write([]byte(in))
		sig = m.Sum(nil)
	case "RS256":
		h := sha256.Sum256([]byte(in))
		sig, _ = rsa.SignPKCS1v15(rand.Reader, key.(*rsa.PrivateKey), crypto.SHA256, h[:])
	case "none":
		sig = nil
	}
	return in + "." + base64.RawURLEncoding.EncodeToString(sig)
}

type cookieCase struct {
	tok, class, atState string
	fresh               bool // minted by the gateway just now, unmodified
	exotic              bool // classes on which the library may legitimately be stricter than the model
}

func runC02(r *Run) {
	r.rule = "cookie strings: freshly minted tokens, every single-character substitution (quick: 8 replacement characters per position; thorough: the base64url alphabet plus . = newline) and single-bit flip of header, payload and signature, segment swaps/drops/extra dots, re-signing under other keys and algorithms (none, HS384, HS512, RS256), claim edits re-signed with the right key (iss, exp, nbf, iat changed or missing, around the leeway boundary), JSON serialisation, nested JWS, empty string, random bytes × IdP conditions (valid, unknown, revoked, error, unreachable); non-trivial = three-segment tokens; distinct by (cookie, IdP condition)"
	rng := r.Rng
	r.TierRan("api")
	idp := setupSecurity()
	states := map[string]string{"at-valid": "ok:subject-1", "at-valid2": "ok:other-subject", "at-revoked": "revoked", "at-error": "error", "at-hangup": "hangup"}
	for k, v := range states {
		idp.setToken(k, v)
	}
	key := []byte(keySign)
	otherKey := []byte("another-signing-key-0123456789ab")
	rsaKey, _ := rsa.GenerateKey(rand.Reader, 2048)

	mint := func(at, host, ip string) string {
		id := identity.NewUser()
		id.SetAttribute(identity.AttrClientIp, ip)
		id.SetAttribute(identity.AttrAccessToken, at)
		tok, err := security.GeneratePAAToken(ctxWithIdentity(id), "alice", host)
		if err != nil {
			panic(err)
		}
		return tok
	}
	now := time.Now().Unix()
	claims := func(at string, edit func(m map[string]interface{})) map[string]interface{} {
		m := map[string]interface{}{"iss": "rdpgw", "sub": "alice", "exp": now + 300, "remoteServer": "host:3389", "clientIp": "192.0.2.1", "accessToken": at}
		if edit != nil {
			edit(m)
		}
		return m
	}
	hdr := func() map[string]interface{} { return map[string]interface{}{"alg": "HS256", "typ": "JWT"} }

	var cases []cookieCase
	add := func(tok, class, at string, fresh, exotic bool) {
		cases = append(cases, cookieCase{tok: tok, class: class, atState: at, fresh: fresh, exotic: exotic})
	}
	ats := []string{"at-valid", "at-valid2", "at-revoked", "at-error", "at-hangup", "at-unknown"}
	for _, at := range ats {
		add(mint(at, "host:3389", "192.0.2.1"), "mint", at, true, false)
	}
	base := mint("at-valid", "host:3389", "192.0.2.1")
	// single-character substitutions
	alphabet := "Aa0_-.=\n"
	if r.Thorough() {
		alphabet = "ABCDEFGHIJKLMNOPQRSTUVWXYZabcdefghijklmnopqrstuvwxyz0123456789-_.=\n"
	}
	for i := 0; i < len(base); i++ {
		for _, c := range alphabet {
			if byte(c) == base[i] {
				continue
			}
			add(base[:i]+string(c)+base[i+1:], "subst", "at-valid", false, true)
		}
	}
	// single-bit flips
	for i := 0; i < len(base); i++ {
		bitsN := 8
		if !r.Thorough() {
			bitsN = 2
		}
		for b := 0; b < bitsN; b++ {
			bit := uint(b)
			if !r.Thorough() {
				bit = uint(rng.Intn(8))
			}
			add(base[:i]+string(base[i]^(1<<bit))+base[i+1:], "bitflip", "at-valid", false, true)
		}
	}
	parts := strings.Split(base, ".")
	segOps := []string{
		parts[1] + "." + parts[0] + "." + parts[2], parts[0] + "." + parts[1], parts[0] + "." + parts[1] + ".", parts[0] + ".." + parts[2],
		base + ".", "." + base, base + "." + parts[2], parts[0] + "." + parts[1] + "." + parts[2] + "." + parts[2], "..", ".", parts[0], " " + base, base + " ", base + "\n",
	}
	for _, s := range segOps {
		add(s, "segments", "at-valid", false, true)
	}
	// other keys and algorithms
	for _, at := range []string{"at-valid", "at-revoked"} {
		add(signCompact(hdr(), claims(at, nil), "HS256", key), "resign-right-key", at, false, false)
		add(signCompact(hdr(), claims(at, nil), "HS256", otherKey), "other-key", at, false, false)
		add(signCompact(map[string]interface{}{"alg": "none"}, claims(at, nil), "none", nil), "alg-none", at, false, false)
		add(signCompact(map[string]interface{}{"alg": "HS384"}, claims(at, nil), "HS384", key), "alg-hs384", at, false, false)
		add(signCompact(map[string]interface{}{"alg": "HS512"}, claims(at, nil), "HS512", key), "alg-hs512", at, false, false)
		add(signCompact(map[string]interface{}{"alg": "RS256"}, claims(at, nil), "RS256", rsaKey), "alg-rs256", at, false, false)
		// header says HS256 but the tag is HS512 / the header lies about the algorithm
		add(signCompact(hdr(), claims(at, nil), "HS512", key), "alg-confusion", at, false, false)
		add(signCompact(map[string]interface{}{"alg": "hs256"}, claims(at, nil), "HS256", key), "alg-case", at, false, false)
	}
	// claim edits under the right key
	edits := map[string]func(m map[string]interface{}){
		"iss-other":    func(m map[string]interface{}) { m["iss"] = "rdpgw2" },
		"iss-missing":  func(m map[string]interface{}) { delete(m, "iss") },
		"iss-case":     func(m map[string]interface{}) { m["iss"] = "RDPGW" },
		"exp-long-ago": func(m map[string]interface{}) { m["exp"] = now - 3600 },
		"exp-63s-ago":  func(m map[string]interface{}) { m["exp"] = now - 63 },
		"exp-57s-ago":  func(m map[string]interface{}) { m["exp"] = now - 57 },
		"exp-in-299s":  func(m map[string]interface{}) { m["exp"] = now + 299 },
		"exp-missing":  func(m map[string]interface{}) { delete(m, "exp") },
		"exp-far":      func(m map[string]interface{}) { m["exp"] = now + 86400*365 },
		"nbf-in-63s":   func(m map[string]interface{}) { m["nbf"] = now + 63 },
		"nbf-in-57s":   func(m map[string]interface{}) { m["nbf"] = now + 57 },
		"nbf-past":     func(m map[string]interface{}) { m["nbf"] = now - 10 },
		"iat-in-1h":    func(m map[string]interface{}) { m["iat"] = now + 3600 },
		"iat-past":     func(m map[string]interface{}) { m["iat"] = now - 10 },
		"no-accesstok": func(m map[string]interface{}) { delete(m, "accessToken") },
		"other-host":   func(m map[string]interface{}) { m["remoteServer"] = "evil:3389" },
		"exp-string":   func(m map[string]interface{}) { m["exp"] = "tomorrow" },
		"extra-claims": func(m map[string]interface{}) { m["aud"] = "x"; m["foo"] = 1 },
	}
	for name, e := range edits {
		for _, at := range []string{"at-valid", "at-unknown"} {
			add(signCompact(hdr(), claims(at, e), "HS256", key), "edit:"+name, at, false, name == "exp-string")
		}
	}
	// other serialisations and junk
	hb, _ := json.Marshal(hdr())
	pb, _ := json.Marshal(claims("at-valid", nil))
	jsonForm := fmt.Sprintf(`{"payload":"%s","protected":"%s","signature":"%s"}`, base64.RawURLEncoding.EncodeToString(pb), base64.RawURLEncoding.EncodeToString(hb), parts[2])
	add(jsonForm, "json-serialisation", "at-valid", false, false)
	inner := signCompact(hdr(), claims("at-valid", nil), "HS256", otherKey)
	nested := signCompact(map[string]interface{}{"alg": "HS256", "cty": "JWT"}, map[string]interface{}{"jws": inner}, "HS256", key)
	add(nested, "nested", "at-valid", false, false)
	add("", "empty", "at-valid", false, false)
	for i := r.N(200, 5000); i > 0; i-- {
		b := make([]byte, rng.Intn(120))
		rng.Read(b)
		switch rng.Intn(3) {
		case 0:
			add(string(b), "random-bytes", "at-valid", false, true)
		case 1:
			add(base64.RawURLEncoding.EncodeToString(b)+"."+base64.RawURLEncoding.EncodeToString(b)+"."+base64.RawURLEncoding.EncodeToString(b), "random-3seg", "at-valid", false, true)
		default:
			add(parts[0]+"."+base64.RawURLEncoding.EncodeToString(b)+"."+parts[2], "random-payload", "at-valid", false, true)
		}
	}

	// run
	type outcome struct {
		ok      bool
		sess    string
		pan     string
		nowUnix int64
	}
	outs := make([]outcome, len(cases))
	var lines []string
	for i, c := range cases {
		id := identity.NewUser()
		t := &protocol.Tunnel{User: id}
		ctx := context.WithValue(ctxWithIdentity(id), protocol.CtxTunnel, t)
		func() {
			defer func() {
				if rec := recover(); rec != nil {
					outs[i].pan = fmt.Sprint(rec)
				}
			}()
			outs[i].nowUnix = time.Now().Unix()
			outs[i].ok, _ = security.CheckPAACookie(ctx, c.tok)
		}()
		if outs[i].ok {
			outs[i].sess = fmt.Sprintf("host=%s ip=%s user=%s", hx([]byte(t.TargetServer)), hx([]byte(t.RemoteAddr)), hx([]byte(id.UserName())))
		}
		f := dissectCookie(c.tok, key)
		idpState := "refused"
		sub := ""
		if st, ok := states[f.at]; ok && strings.HasPrefix(st, "ok:") {
			idpState = "ok"
			sub = strings.TrimPrefix(st, "ok:")
		}
		lines = append(lines, fmt.Sprintf("cookie empty=%s c3=%s dec=%s alg=%s mac=%s iss=%s exp=%s nbf=%s iat=%s host=%s ip=%s idp=%s sub=%s now=%d",
			b01(f.empty), b01(f.c3), b01(f.dec), b01(f.alg), b01(f.mac), hx([]byte(f.iss)), optN(f.exp), optN(f.nbf), optN(f.iat),
			hx([]byte(f.host)), hx([]byte(f.ip)), idpState, hx([]byte(sub)), outs[i].nowUnix))
		r.Dist("class:" + strings.SplitN(c.class, ":", 2)[0])
	}
	ans := r.Oracle(lines)
	drift := 0
	first := ""
	accepted := 0
	stricter := 0
	for i, c := range cases {
		key := ""
		if strings.Count(c.tok, ".") == 2 {
			key = c.tok + "|" + c.atState
		}
		r.Count(key)
		want := strings.HasPrefix(ans[i], "accept")
		rep := fmt.Sprintf("class: %s\ncookie: %q\nIdP state of the embedded access token: %s\nimplementation: accepted=%v %s panic=%q\ndissected facts → model: %s\n  (%s)\n", c.class, c.tok, c.atState, outs[i].ok, outs[i].sess, outs[i].pan, ans[i], lines[i])
		if i < 2 {
			r.Sample(map[string]interface{}{"class": c.class, "cookie": c.tok, "impl_accepts": outs[i].ok, "model": ans[i]})
		}
		if outs[i].pan != "" {
			r.Violation("c02-panic", "CheckPAACookie panicked", rep)
			continue
		}
		if outs[i].ok {
			accepted++
		}
		switch {
		case outs[i].ok && !want:
			r.Violation("c02-accepts", "a cookie that is not a valid, unexpired, gateway-signed token with an honoured access token was accepted", rep)
		case outs[i].ok && want:
			if "accept "+outs[i].sess != ans[i] {
				r.Violation("c02-session", "an accepted cookie binds other host / address / subject than the token carries", rep)
			}
		case !outs[i].ok && want:
			if c.fresh {
				r.Violation("c02-fresh", "a freshly minted token is refused although the IdP honours its access token", rep)
			} else if c.exotic {
				stricter++ // the library is stricter on a malformed spelling: safe side, not the model's business
			} else {
				drift++
				if first == "" {
					first = rep
				}
			}
		}
	}
	r.extra["accepted"] = accepted
	r.extra["library_stricter_on_exotic_spellings"] = stricter

	// minted tokens expire no later than five minutes after issuance
	for i := 0; i < r.N(50, 1000); i++ {
		before := time.Now().Unix()
		tok := mint("at-valid", fmt.Sprintf("h%d:3389", i), "192.0.2.1")
		after := time.Now().Unix()
		f := dissectCookie(tok, key)
		r.Count("mint:" + tok)
		if f.exp == nil || *f.exp > after+300 || *f.exp < before+299 {
			r.Violation("c02-lifetime", "a minted token does not expire five minutes after issuance", fmt.Sprintf("token: %s\nexp=%s issued between %d and %d\n", tok, optN(f.exp), before, after))
		}
		if !f.mac || !f.alg || f.iss != "rdpgw" {
			r.Violation("c02-mint-form", "a minted token is not an HS256 JWS under the configured key naming the gateway as issuer", tok)
		}
	}

	// history: the decision is taken afresh every time. A cookie accepted a moment ago is refused
	// as soon as the identity provider no longer honours its access token (revoked, erroring,
	// hanging up), and accepted again when it does
	checkNow := func(tok string) bool {
		id := identity.NewUser()
		t := &protocol.Tunnel{User: id}
		ok, _ := security.CheckPAACookie(context.WithValue(ctxWithIdentity(id), protocol.CtxTunnel, t), tok)
		return ok
	}
	for i, st := range []string{"revoked", "error", "hangup", "revoked", "revoked", "error"} {
		at := fmt.Sprintf("at-history-%d", i)
		if i >= 4 {
			// an access token that is itself a JWT signed by the identity provider (as Keycloak or Entra
			// issue them): whether the provider still honours it is the provider's word, not the token's
			at = idp.idToken(idp.stdClaims(map[string]interface{}{"sub": "alice", "jti": fmt.Sprintf("at-%d", i)}), nil)
		}
		idp.setToken(at, "ok:alice")
		tok := mint(at, "host:3389", "192.0.2.1")
		first := checkNow(tok)
		second := checkNow(tok)
		idp.setToken(at, st)
		after := checkNow(tok)
		afterAgain := checkNow(tok)
		idp.setToken(at, "ok:alice")
		restored := checkNow(tok)
		r.Count("history:" + st + at)
		r.Dist("class:history")
		if !first || !second || after || afterAgain || !restored {
			r.Violation("c02-accepts", "a cookie that is not a valid, unexpired, gateway-signed token with an honoured access token was accepted",
				fmt.Sprintf("history with one cookie (access token %s): honoured → accepted=%v, again → %v; identity provider state becomes %q → accepted=%v, again → %v (must be refused); honoured again → accepted=%v\ncookie: %s\n", at, first, second, st, after, afterAgain, restored, tok))
		}
	}

	// composed with the packet loop: a refused cookie → status 0x800759F8 and the end of the tunnel,
	// whatever authentication methods the gateway offers and the handshake agreed on
	bad := cases[len(ats)+5].tok
	type loopCase struct {
		sc  bool
		ext int
		ck  string
	}
	var lcs []loopCase
	for _, ck := range []string{bad, "", signCompact(hdr(), claims("at-valid", nil), "HS256", otherKey), base} {
		lcs = append(lcs, loopCase{false, 2, ck})
		for _, ext := range []int{1, 2, 3, 5, 6, 7} {
			lcs = append(lcs, loopCase{true, ext, ck})
		}
	}
	for _, lc := range lcs {
		ck := lc.ck
		gw := &gwCfg{token: true, ccheck: true, sc: lc.sc}
		reads := [][]byte{mkPacket(tHandshake, bodyHandshake(1, 0, 0, lc.ext)), mkPacket(tTunnel, bodyTunnelCreate(0, 1, append(utf16le(ck), 0, 0))), mkPacket(tAuth, bodyTunnelAuth(utf16le("PC")))}
		ir := runProcessWith(gw, reads, nil, func(t *protocol.Tunnel, g *protocol.Gateway) context.Context {
			g.CheckPAACookie = security.CheckPAACookie
			return context.WithValue(ctxWithIdentity(t.User), protocol.CtxTunnel, t)
		})
		r.Count(fmt.Sprintf("loop:%v:%d:%s", lc.sc, lc.ext, ck))
		good := ck == base
		if len(ir.elems) < 2 || len(ir.elems[1].writes) != 1 {
			r.Violation("c02-loop", "tunnel create not answered", implModelCanon(ir, true))
			continue
		}
		st := hx(ir.elems[1].writes[0][10:14])
		if good && (st != "00000000" || len(ir.elems) != 3) {
			r.Violation("c02-loop-fresh", "a valid cookie is not accepted by the packet loop", implModelCanon(ir, true))
		}
		if !good && (st != "f8590780" || len(ir.elems) != 2) {
			r.Violation("c02-loop-status", "a refused cookie is not answered with cookie-access-denied (0x800759F8) and the end of the tunnel", fmt.Sprintf("smartcardauth=%v, handshake extended-auth field %d, cookie %q\ntrace %s\n", lc.sc, lc.ext, ck, implModelCanon(ir, true)))
		}
	}
	// ---- the real handler over both real transports: the decision is taken when TUNNEL_CREATE arrives, not
	// when the connection was made (a tunnel can be parked between the two)
	r.TierRan("api(handler)")
	gws := startGateway(&protocol.Gateway{TokenAuth: true, CheckPAACookie: security.CheckPAACookie})
	idp.setToken("at-parked", "ok:subject-1")
	type parked struct {
		kind, what, cookie string
		wantOK             bool
		cl                 gwClient
		pr                 *packetReader
	}
	t0 := time.Now().Unix()
	expiring := signCompact(hdr(), claims("at-valid", func(m map[string]interface{}) { m["exp"] = t0 - 55 }), "HS256", key)
	var pk []*parked
	for _, kind := range []string{"ws", "legacy"} {
		pk = append(pk,
			&parked{kind: kind, what: "fresh cookie, TUNNEL_CREATE at once", cookie: mint("at-valid", "host:3389", "192.0.2.1"), wantOK: true},
			&parked{kind: kind, what: "cookie within its leeway at connection time, TUNNEL_CREATE at once", cookie: expiring, wantOK: true},
			&parked{kind: kind, what: "cookie within its leeway at connection time, TUNNEL_CREATE after expiry plus leeway have passed", cookie: expiring, wantOK: false},
			&parked{kind: kind, what: "access token honoured at connection time and revoked before TUNNEL_CREATE", cookie: mint("at-parked", "host:3389", "192.0.2.1"), wantOK: false},
			&parked{kind: kind, what: "fresh cookie, TUNNEL_CREATE after the tunnel was parked for a while", cookie: mint("at-valid", "host:3389", "192.0.2.1"), wantOK: true})
	}
	for _, q := range pk {
		connID := "{" + randHex(8) + "}"
		if q.kind == "ws" {
			if w, err := dialWS(gws.addr, connID, ""); err == nil {
				q.cl, q.pr = w, readWS(w, 20*time.Second)
			}
		} else if l, err := dialLegacy(gws.addr, connID, ""); err == nil {
			q.cl, q.pr = l, readLegacy(l, 20*time.Second)
		}
		if q.cl == nil {
			r.Inconclusive()
			continue
		}
		q.cl.send(mkPacket(tHandshake, bodyHandshake(1, 0, 0, 2)))
	}
	finish := func(q *parked) {
		if q.cl == nil {
			return
		}
		defer q.cl.close()
		q.cl.send(mkPacket(tTunnel, bodyTunnelCreate(0, 1, append(utf16le(q.cookie), 0, 0))))
		deadline := time.Now().Add(5 * time.Second)
		var pkts [][]byte
		ended := false
		for time.Now().Before(deadline) {
			pkts, ended = q.pr.snapshot()
			if len(pkts) >= 2 && (q.wantOK || ended) {
				break
			}
			time.Sleep(2 * time.Millisecond)
		}
		r.Count("handler:" + q.kind + ":" + q.what)
		r.Dist("handler:" + q.kind)
		rep := fmt.Sprintf("transport %s through the real handler with security.CheckPAACookie: %s\ncookie %s\nresponses %s, tunnel ended=%v\n", q.kind, q.what, q.cookie, pktsCanon(pkts), ended)
		if len(pkts) < 2 || len(pkts[1]) < 14 {
			if q.kind == "legacy" && len(pkts) == 0 && !ended {
				r.Inconclusive() // the IN handler's Drain took the handshake
				return
			}
			r.Violation("c02-loop", "tunnel create not answered", rep)
			return
		}
		st := hx(pkts[1][10:14])
		if q.wantOK && st != "00000000" {
			r.Violation("c02-loop-fresh", "a valid cookie is not accepted by the packet loop", rep)
		}
		if !q.wantOK && (st != "f8590780" || !ended) {
			r.Violation("c02-accepts-parked", "a cookie that has expired, or whose access token the IdP no longer honours, by the time TUNNEL_CREATE arrives is not refused with cookie-access-denied and the end of the tunnel", rep)
		}
	}
	for _, q := range pk {
		if strings.Contains(q.what, "at once") {
			finish(q)
		}
	}
	idp.setToken("at-parked", "revoked")
	for time.Now().Unix() < t0+7 { // exp + 60 s leeway is t0 + 5
		time.Sleep(50 * time.Millisecond)
	}
	for _, q := range pk {
		if !strings.Contains(q.what, "at once") {
			finish(q)
		}
	}
	gws.close()
	r.extra["model_disagreements"] = drift
	if drift > 0 && !r.HasViolation() {
		r.Unproven(fmt.Sprintf("correspondence Cookie.check = CheckPAACookie broke on %d well-formed cases (the implementation refuses what the model accepts)", drift), first)
	}
}
