package main

import (
	"bytes"
	"fmt"
	"os"
	"os/exec"
	"path/filepath"
	"regexp"
	"strings"
	"sync"
	"sync/atomic"
	"time"

	"github.com/bolkedebruin/rdpgw/cmd/rdpgw/protocol"
)

func init() {
	register("C09", runC09)
	register("C09-stress", runC09Stress)
}

// runC09: the proof part (lockset soundness + table_ok on the regenerated access table) comes in
// through the audit; the dynamic part runs a race-detector build of the stress below and turns
// race reports, concurrent-map / concurrent-write faults and client-side framing errors into replays.
func runC09(r *Run) {
	r.rule = "stress rounds of N concurrent tunnels (both transports) doing setup, bidirectional data, keep-alives, channel close while the host is still sending, protocol errors while the host is still sending and abrupt disconnects, under the Go race detector; non-trivial = every tunnel; distinct by (round, tunnel, scenario)"
	r.TierRan("translator(access table)")
	bin := filepath.Join(verifRoot, "work", "bin", "verifrun-race")
	if _, err := os.Stat(bin); err != nil {
		r.Note("race-detector build of the harness unavailable: only the access-table proof decides this run")
		r.Count("table-only-a")
		r.Count("table-only-b")
		r.Sample("access table proof only (no race build)")
		return
	}
	r.TierRan("api(-race stress)")
	cmd := exec.Command(bin, "-prop", "C09-stress", "-tier", r.Tier)
	cmd.Env = append(os.Environ(), fmt.Sprintf("VERIF_SEED=%d", r.Seed), "GORACE=halt_on_error=0 history_size=3")
	var out, errb bytes.Buffer
	cmd.Stdout = &out
	cmd.Stderr = &errb
	done := make(chan error, 1)
	go func() { done <- cmd.Run() }()
	var runErr error
	select {
	case runErr = <-done:
	case <-time.After(time.Duration(r.N(150, 1800)) * time.Second):
		cmd.Process.Kill()
		r.Violation("c09-stress-hang", "the concurrent stress run did not finish", "timeout")
		return
	}
	stderr := errb.String()
	stdout := out.String()
	tunnels := 0
	for _, ln := range strings.Split(stdout, "\n") {
		if strings.HasPrefix(ln, "TUNNEL ") {
			tunnels++
			r.Count(ln)
			if tunnels <= 3 {
				r.Sample(ln)
			}
		}
		if strings.HasPrefix(ln, "FRAMING ") {
			r.Violation("c09-framing", "a client received a corrupted or interleaved packet stream under concurrent use", ln+"\n")
		}
		if strings.HasPrefix(ln, "DIST ") {
			r.Dist(strings.TrimPrefix(ln, "DIST "))
		}
	}
	r.extra["tunnels_run"] = tunnels
	// race reports that involve the gateway's own packages
	blocks := regexp.MustCompile(`(?s)WARNING: DATA RACE.*?==================`).FindAllString(stderr, -1)
	nrace := 0
	for _, b := range blocks {
		if strings.Contains(b, "bolkedebruin/rdpgw/cmd/rdpgw/") {
			nrace++
			if nrace <= 3 {
				r.Violation("c09-data-race", "the race detector reports unsynchronised access to shared state in the gateway", b)
			}
		}
	}
	r.extra["race_reports"] = nrace
	for _, pat := range []string{"fatal error: concurrent map", "concurrent write to websocket connection", "panic: "} {
		if i := strings.Index(stderr, pat); i >= 0 {
			end := i + 3000
			if end > len(stderr) {
				end = len(stderr)
			}
			r.Violation("c09-fault", "the process aborted under concurrent use: "+pat, stderr[i:end])
		}
	}
	if runErr != nil && !r.HasViolation() {
		if ee, ok := runErr.(*exec.ExitError); !ok || ee.ExitCode() != 66 {
			r.Violation("c09-stress-exit", fmt.Sprintf("the stress run ended abnormally: %v", runErr), stderr[max0(len(stderr)-3000):])
		}
	}
}

func max0(n int) int {
	if n < 0 {
		return 0
	}
	return n
}

// runC09Stress is executed by the race-detector build.
func runC09Stress(r *Run) {
	rounds := r.N(4, 60)
	n := r.N(12, 48)
	var wg sync.WaitGroup
	var seq int64
	var outMu sync.Mutex
	say := func(s string) { outMu.Lock(); fmt.Println(s); outMu.Unlock() }
	for round := 0; round < rounds; round++ {
		hosts := make([]*hostListener, n)
		for i := range hosts {
			hosts[i] = newHostListener()
		}
		gw := &protocol.Gateway{IdleTimeout: -1, RedirectFlags: protocol.RedirectFlags{Clipboard: true}}
		gws := startGateway(gw)
		for i := 0; i < n; i++ {
			wg.Add(1)
			go func(i int) {
				defer wg.Done()
				id := atomic.AddInt64(&seq, 1)
				kind := []string{"ws", "legacy"}[i%2]
				scenario := []string{"close-while-sending", "error-while-sending", "abrupt", "clean", "keepalives"}[(i/2+round)%5]
				res := stressTunnel(kind, scenario, gws, hosts[i], int(id))
				say(fmt.Sprintf("TUNNEL %d round=%d %s %s -> %s", id, round, kind, scenario, res))
				say("DIST " + kind + ":" + scenario)
			}(i)
		}
		wg.Wait()
		gws.close()
		for _, h := range hosts {
			h.close()
		}
	}
	if r.Thorough() {
		// a client that stops reading for a while and then goes on (the gateway's writes back up): what it
		// reads afterwards is still a sequence of whole packets
		for _, kind := range []string{"legacy", "ws"} {
			h := newHostListener()
			gws := startGateway(&protocol.Gateway{IdleTimeout: -1})
			id := atomic.AddInt64(&seq, 1)
			res := stressTunnel(kind, "stalled", gws, h, int(id))
			say(fmt.Sprintf("TUNNEL %d round=stall %s stalled -> %s", id, kind, res))
			say("DIST " + kind + ":stalled")
			gws.close()
			h.close()
		}
	}
	r.Count("stress-a")
	r.Count("stress-b")
	r.Sample("stress child")
	r.EvPath = ""
}

// stressTunnel runs one tunnel; returns a short outcome and reports framing errors on stdout.
func stressTunnel(kind, scenario string, g *gwServer, host *hostListener, id int) string {
	connID := fmt.Sprintf("{stress-%d}", id)
	var cl gwClient
	var pr *packetReader
	switch kind {
	case "ws":
		w, err := dialWS(g.addr, connID, "")
		if err != nil {
			return "dial-failed"
		}
		cl, pr = w, readWS(w, 10*time.Second)
	default:
		l, err := dialLegacy(g.addr, connID, "")
		if err != nil {
			return "dial-failed"
		}
		cl, pr = l, readLegacy(l, 10*time.Second)
	}
	defer cl.close()
	_, port := splitHostPort(host.addr)
	for _, s := range [][]byte{
		mkPacket(tHandshake, bodyHandshake(1, 0, 0, 0)),
		mkPacket(tTunnel, bodyTunnelCreate(0, 0, nil)),
		mkPacket(tAuth, bodyTunnelAuth(append(utf16le("PC"), 0, 0))),
		mkPacket(tChannel, bodyChannel(port, append(utf16le("127.0.0.1"), 0, 0))),
	} {
		cl.send(s)
	}
	deadline := time.Now().Add(5 * time.Second)
	for {
		pk, ended := pr.snapshot()
		if len(pk) >= 4 {
			break
		}
		if ended || time.Now().After(deadline) {
			return "setup-incomplete"
		}
		time.Sleep(time.Millisecond)
	}
	var hc *hostConn
	for i := 0; i < 3000 && hc == nil; i++ {
		host.poll()
		if len(host.conns) > 0 {
			hc = host.conns[0]
		} else {
			time.Sleep(time.Millisecond)
		}
	}
	if hc == nil {
		return "no-backend"
	}
	// the host keeps sending while the client does its thing
	stop := make(chan struct{})
	var hw sync.WaitGroup
	hw.Add(1)
	go func() {
		defer hw.Done()
		chunk := bytes.Repeat([]byte{byte(id)}, 1500)
		for {
			select {
			case <-stop:
				return
			default:
			}
			if _, err := hc.c.Write(chunk); err != nil {
				return
			}
		}
	}()
	for k := 0; k < 20; k++ {
		cl.send(mkPacket(tData, bodyData(bytes.Repeat([]byte{byte(k)}, 100))))
		if scenario == "keepalives" {
			cl.send(mkPacket(tKeepalive, nil))
			if w, ok := cl.(*wsClient); ok && k%3 == 0 {
				w.sendFrame(0x89, []byte("ping")) // a websocket-level ping (clients and proxies send them)
			}
		}
	}
	time.Sleep(time.Duration(2+id%5) * time.Millisecond)
	if scenario == "stalled" {
		atomic.StoreInt32(&pauseReaders, 1)
		time.Sleep(6500 * time.Millisecond)
		atomic.StoreInt32(&pauseReaders, 0)
		time.Sleep(1500 * time.Millisecond)
	}
	switch scenario {
	case "close-while-sending":
		cl.send(mkPacket(tClose, nil))
	case "error-while-sending":
		cl.send(mkPacket(tTunnel, bodyTunnelCreate(0, 0, nil))) // out of phase → error response while the relay writes
	case "abrupt":
		cl.close()
	default:
		cl.send(mkPacket(tClose, nil))
	}
	select {
	case <-pr.done:
	case <-time.After(5 * time.Second):
	}
	close(stop)
	hc.c.Close()
	hw.Wait()
	// framing check on what the client received: every packet well-formed, DATA payloads are this tunnel's bytes
	pk, _ := pr.snapshot()
	for _, p := range pk {
		if len(p) < 8 || int(uint32(p[4])|uint32(p[5])<<8|uint32(p[6])<<16|uint32(p[7])<<24) != len(p) {
			fmt.Printf("FRAMING tunnel %d (%s, %s): packet with inconsistent header: %s\n", id, kind, scenario, hx(p[:min(len(p), 32)]))
			return "framing-error"
		}
		if int(p[0])|int(p[1])<<8 == tData {
			for _, b := range p[10:] {
				if b != byte(id) {
					fmt.Printf("FRAMING tunnel %d (%s, %s): DATA payload contains a byte of another stream: %s\n", id, kind, scenario, hx(p[:min(len(p), 32)]))
					return "framing-error"
				}
			}
		}
	}
	if pr.err != nil && strings.Contains(pr.err.Error(), "bad length") {
		fmt.Printf("FRAMING tunnel %d (%s, %s): %v\n", id, kind, scenario, pr.err)
		return "framing-error"
	}
	return fmt.Sprintf("ok packets=%d", len(pk))
}
