// extract regenerates the data-like parts of the Lean model from /repo's Go
// source: evaluated constants, named limits, the RDP settings table, the
// defaults of config.Load and the shared-state access table used by C09.
//
// It uses only the standard library: files are parsed with go/parser and
// type-checked with go/types under an importer that returns empty packages, so
// constant expressions are evaluated by the Go type checker itself while
// missing imports are tolerated.
package main

import (
	"bytes"
	"flag"
	"fmt"
	"go/ast"
	"go/constant"
	"go/importer"
	"go/parser"
	"go/token"
	"go/types"
	"os"
	"path/filepath"
	"reflect"
	"regexp"
	"sort"
	"strconv"
	"strings"
)

type pkg struct {
	fset  *token.FileSet
	files []*ast.File
	names []string
	tp    *types.Package
	info  *types.Info
}

type fakeImporter struct{ def types.Importer }

func (f fakeImporter) Import(path string) (*types.Package, error) {
	if p, err := f.def.Import(path); err == nil {
		return p, nil
	}
	name := path[strings.LastIndex(path, "/")+1:]
	p := types.NewPackage(path, name)
	p.MarkComplete()
	return p, nil
}

func defImporter() types.Importer { return importer.Default() }

func load(dir string, withTests bool) (*pkg, error) {
	return loadWith(dir, fakeImporter{importer.Default()})
}

func loadWith(dir string, imp types.Importer) (*pkg, error) {
	fset := token.NewFileSet()
	ents, err := os.ReadDir(dir)
	if err != nil {
		return nil, err
	}
	p := &pkg{fset: fset}
	for _, e := range ents {
		n := e.Name()
		if !strings.HasSuffix(n, ".go") || strings.HasSuffix(n, "_test.go") || strings.HasSuffix(n, "_verif.go") {
			continue
		}
		f, err := parser.ParseFile(fset, filepath.Join(dir, n), nil, parser.ParseComments)
		if err != nil {
			return nil, err
		}
		p.files = append(p.files, f)
		p.names = append(p.names, n)
	}
	conf := types.Config{Importer: imp, Error: func(error) {}}
	p.info = &types.Info{
		Types:      map[ast.Expr]types.TypeAndValue{},
		Defs:       map[*ast.Ident]types.Object{},
		Uses:       map[*ast.Ident]types.Object{},
		Selections: map[*ast.SelectorExpr]*types.Selection{},
	}
	p.tp, _ = conf.Check(dir, fset, p.files, p.info)
	return p, nil
}

func leanName(s string) string { return s }

func leanStr(s string) string {
	var b strings.Builder
	b.WriteByte('"')
	for _, r := range s {
		switch {
		case r == '"':
			b.WriteString("\\\"")
		case r == '\\':
			b.WriteString("\\\\")
		case r == '\n':
			b.WriteString("\\n")
		case r == '\r':
			b.WriteString("\\r")
		case r == '\t':
			b.WriteString("\\t")
		case r < 0x20 || r == 0x7f:
			fmt.Fprintf(&b, "\\x%02x", r)
		default:
			b.WriteRune(r)
		}
	}
	b.WriteByte('"')
	return b.String()
}

var baselineDir string

var defLine = regexp.MustCompile(`(?m)^def ([A-Za-z_][A-Za-z0-9_]*) : (Nat|Int|String) := .*$`)
var nsLine = regexp.MustCompile(`(?m)^namespace (\S+)$`)

// keepBaselineDefs appends, per namespace, the definitions that the committed
// baseline has and the fresh extraction lacks (a constant was renamed or
// removed), so that the model still builds; each one is reported.
func keepBaselineDefs(name string, data []byte) []byte {
	if baselineDir == "" {
		return data
	}
	base, err := os.ReadFile(filepath.Join(baselineDir, name))
	if err != nil {
		return data
	}
	have := map[string]bool{}
	curNs := ""
	for _, line := range strings.Split(string(data), "\n") {
		if m := nsLine.FindStringSubmatch(line); m != nil {
			curNs = m[1]
		}
		if m := defLine.FindStringSubmatch(line); m != nil {
			have[curNs+"."+m[1]] = true
		}
	}
	var add bytes.Buffer
	curNs = ""
	for _, line := range strings.Split(string(base), "\n") {
		if m := nsLine.FindStringSubmatch(line); m != nil {
			curNs = m[1]
		}
		if m := defLine.FindStringSubmatch(line); m != nil && !have[curNs+"."+m[1]] {
			fmt.Fprintf(&add, "namespace %s\n%s  -- not found in the current source, baseline value kept\nend %s\n", curNs, line, curNs)
			fmt.Printf("extract: static tie unavailable for %s.%s (not found in the current source; baseline value kept)\n", curNs, m[1])
		}
	}
	if add.Len() == 0 {
		return data
	}
	return append(append(data, '\n'), add.Bytes()...)
}

func leanBytes(s string) string {
	var b strings.Builder
	b.WriteByte('[')
	for i := 0; i < len(s); i++ {
		if i > 0 {
			b.WriteString(", ")
		}
		fmt.Fprintf(&b, "%d", s[i])
	}
	b.WriteByte(']')
	return b.String()
}

func writeIfChanged(path string, data []byte) {
	data = keepBaselineDefs(filepath.Base(path), data)
	old, err := os.ReadFile(path)
	if err == nil && bytes.Equal(old, data) {
		return
	}
	os.MkdirAll(filepath.Dir(path), 0o755)
	tmp := path + ".tmp"
	if err := os.WriteFile(tmp, data, 0o644); err != nil {
		fatal(err)
	}
	if err := os.Rename(tmp, path); err != nil {
		fatal(err)
	}
}

func fatal(err error) {
	fmt.Fprintln(os.Stderr, "extract:", err)
	os.Exit(2)
}

// intConsts returns every package-level constant with an integer value.
func intConsts(p *pkg) map[string]string {
	out := map[string]string{}
	if p.tp == nil {
		return out
	}
	sc := p.tp.Scope()
	for _, n := range sc.Names() {
		c, ok := sc.Lookup(n).(*types.Const)
		if !ok {
			continue
		}
		v := c.Val()
		if v.Kind() == constant.Int {
			out[n] = v.ExactString()
		}
	}
	return out
}

func strConsts(p *pkg) map[string]string {
	out := map[string]string{}
	if p.tp == nil {
		return out
	}
	sc := p.tp.Scope()
	for _, n := range sc.Names() {
		c, ok := sc.Lookup(n).(*types.Const)
		if !ok {
			continue
		}
		v := c.Val()
		if v.Kind() == constant.String {
			out[n] = constant.StringVal(v)
		}
	}
	return out
}

func sortedKeys(m map[string]string) []string {
	ks := make([]string, 0, len(m))
	for k := range m {
		ks = append(ks, k)
	}
	sort.Strings(ks)
	return ks
}

func emitConsts(b *bytes.Buffer, ns string, ints map[string]string, strs map[string]string) {
	fmt.Fprintf(b, "namespace %s\n", ns)
	for _, k := range sortedKeys(ints) {
		v := ints[k]
		if strings.HasPrefix(v, "-") {
			fmt.Fprintf(b, "def %s : Int := %s\n", leanName(k), v)
		} else {
			fmt.Fprintf(b, "def %s : Nat := %s\n", leanName(k), v)
		}
	}
	for _, k := range sortedKeys(strs) {
		fmt.Fprintf(b, "def %s : String := %s\n", leanName(k), leanStr(strs[k]))
	}
	fmt.Fprintf(b, "end %s\n\n", ns)
}

// funcDecl finds a function (or method) declaration by name.
func funcDecl(p *pkg, name string) *ast.FuncDecl {
	for _, f := range p.files {
		for _, d := range f.Decls {
			if fd, ok := d.(*ast.FuncDecl); ok && fd.Name.Name == name {
				return fd
			}
		}
	}
	return nil
}

// makeSizes lists the constant sizes of make([]byte, N) calls inside a function.
func makeSizes(p *pkg, fn string) []string {
	fd := funcDecl(p, fn)
	var out []string
	if fd == nil || fd.Body == nil {
		return out
	}
	ast.Inspect(fd.Body, func(n ast.Node) bool {
		ce, ok := n.(*ast.CallExpr)
		if !ok {
			return true
		}
		id, ok := ce.Fun.(*ast.Ident)
		if !ok || id.Name != "make" || len(ce.Args) < 2 {
			return true
		}
		if tv, ok := p.info.Types[ce.Args[1]]; ok && tv.Value != nil && tv.Value.Kind() == constant.Int {
			out = append(out, tv.Value.ExactString())
		}
		return true
	})
	return out
}

type setting struct {
	Go, Kind, Tag, Def string
	HasDef             bool
}

func rdpSettings(p *pkg) []setting {
	var out []setting
	for _, f := range p.files {
		ast.Inspect(f, func(n ast.Node) bool {
			ts, ok := n.(*ast.TypeSpec)
			if !ok || ts.Name.Name != "RdpSettings" {
				return true
			}
			st, ok := ts.Type.(*ast.StructType)
			if !ok {
				return false
			}
			for _, fl := range st.Fields.List {
				kind := ""
				if id, ok := fl.Type.(*ast.Ident); ok {
					kind = id.Name
				}
				tag := ""
				if fl.Tag != nil {
					tag, _ = strconv.Unquote(fl.Tag.Value)
				}
				stag := reflect.StructTag(tag)
				def, has := stag.Lookup("default")
				for _, nm := range fl.Names {
					out = append(out, setting{Go: nm.Name, Kind: kind, Tag: stag.Get("rdp"), Def: def, HasDef: has})
				}
			}
			return false
		})
	}
	return out
}

// configDefaults extracts the map literal given to confmap.Provider in config.Load.
// configDefaults: the defaults map handed to koanf — the first map literal of the package whose keys are
// dotted setting names ("Server.Tls", …), wherever it stands (in Load or in a helper); values are read
// as constants (a literal, or a named constant such as TlsAuto).
func configDefaults(p *pkg) [][2]string {
	var out [][2]string
	done := false
	for _, f := range p.files {
		ast.Inspect(f, func(n ast.Node) bool {
			cl, ok := n.(*ast.CompositeLit)
			if !ok || done {
				return !done
			}
			if _, ok := cl.Type.(*ast.MapType); !ok {
				return true
			}
			var rows [][2]string
			dotted := 0
			for _, e := range cl.Elts {
				kv, ok := e.(*ast.KeyValueExpr)
				if !ok {
					continue
				}
				ks := ""
				if tv, ok := p.info.Types[kv.Key]; ok && tv.Value != nil && tv.Value.Kind() == constant.String {
					ks = constant.StringVal(tv.Value)
				} else if k, ok := kv.Key.(*ast.BasicLit); ok {
					ks, _ = strconv.Unquote(k.Value)
				} else {
					continue
				}
				if strings.Contains(ks, ".") {
					dotted++
				}
				vs := ""
				if tv, ok := p.info.Types[kv.Value]; ok && tv.Value != nil {
					switch tv.Value.Kind() {
					case constant.String:
						vs = constant.StringVal(tv.Value)
					default:
						vs = tv.Value.ExactString()
					}
				} else {
					switch v := kv.Value.(type) {
					case *ast.BasicLit:
						if v.Kind == token.STRING {
							vs, _ = strconv.Unquote(v.Value)
						} else {
							vs = v.Value
						}
					case *ast.Ident:
						vs = v.Name
					}
				}
				rows = append(rows, [2]string{ks, vs})
			}
			if dotted >= 3 {
				out = rows
				done = true
				return false
			}
			return true
		})
		if done {
			break
		}
	}
	return out
}

func main() {
	repo := flag.String("repo", "/repo", "repository root")
	out := flag.String("out", "", "output directory (lean/Rdpgw/Generated)")
	baseline := flag.String("baseline", "", "directory with the committed tables of the verified tree (fallback for names that disappeared)")
	flag.Parse()
	baselineDir = *baseline
	if *out == "" {
		fatal(fmt.Errorf("-out required"))
	}
	var missing []string

	// ---- Consts.lean -------------------------------------------------------
	proto, err := load(filepath.Join(*repo, "cmd/rdpgw/protocol"), false)
	if err != nil {
		fatal(err)
	}
	var b bytes.Buffer
	b.WriteString("/- GENERATED by harness/extract from /repo/cmd/rdpgw/protocol — do not edit -/\n\n")
	ints := intConsts(proto)
	strs := strConsts(proto)
	emitConsts(&b, "Rdpgw.Generated.Protocol", ints, strs)
	// literal buffer sizes used by the relay
	fwd := makeSizes(proto, "forward")
	fmt.Fprintf(&b, "namespace Rdpgw.Generated.Protocol\n")
	if len(fwd) > 0 {
		fmt.Fprintf(&b, "def forwardReadSize : Nat := %s\n", fwd[0])
	} else {
		missing = append(missing, "forwardReadSize")
		fmt.Fprintf(&b, "def forwardReadSize : Nat := 4086\n")
	}
	fmt.Fprintf(&b, "end Rdpgw.Generated.Protocol\n")
	writeIfChanged(filepath.Join(*out, "Consts.lean"), b.Bytes())

	// ---- Limits.lean -------------------------------------------------------
	b.Reset()
	b.WriteString("/- GENERATED by harness/extract — named limits of several packages — do not edit -/\n\n")
	for _, d := range []struct{ dir, ns string }{
		{"cmd/rdpgw/kdcproxy", "Rdpgw.Generated.Kdcproxy"},
		{"cmd/rdpgw/web", "Rdpgw.Generated.Web"},
		{"cmd/rdpgw/config", "Rdpgw.Generated.Config"},
		{"cmd/rdpgw/rdp", "Rdpgw.Generated.Rdp"},
		{"cmd/rdpgw/transport", "Rdpgw.Generated.Transport"},
	} {
		p, err := load(filepath.Join(*repo, d.dir), false)
		if err != nil {
			missing = append(missing, d.dir)
			continue
		}
		emitConsts(&b, d.ns, intConsts(p), strConsts(p))
	}
	writeIfChanged(filepath.Join(*out, "Limits.lean"), b.Bytes())

	// ---- RdpSettings.lean --------------------------------------------------
	rdp, err := load(filepath.Join(*repo, "cmd/rdpgw/rdp"), false)
	if err != nil {
		fatal(err)
	}
	b.Reset()
	b.WriteString("/- GENERATED by harness/extract from the RdpSettings struct — do not edit -/\n\n")
	b.WriteString("namespace Rdpgw.Generated.RdpSettings\n\n")
	b.WriteString("inductive Kind where\n  | bool | int | string\nderiving Repr, DecidableEq\n\n")
	b.WriteString("structure Setting where\n  goName : String\n  kind : Kind\n  tag : String\n  hasDefault : Bool\n  default : String\n  tagBytes : List UInt8\n  defaultBytes : List UInt8\nderiving Repr, DecidableEq\n\n")
	b.WriteString("def table : List Setting := [\n")
	ss := rdpSettings(rdp)
	for i, s := range ss {
		k := map[string]string{"bool": ".bool", "int": ".int", "string": ".string"}[s.Kind]
		if k == "" {
			k = ".string"
			missing = append(missing, "RdpSettings."+s.Go+" kind "+s.Kind)
		}
		sep := ","
		if i == len(ss)-1 {
			sep = ""
		}
		fmt.Fprintf(&b, "  ⟨%s, %s, %s, %v, %s, %s, %s⟩%s\n", leanStr(s.Go), k, leanStr(s.Tag), s.HasDef, leanStr(s.Def), leanBytes(s.Tag), leanBytes(s.Def), sep)
	}
	b.WriteString("]\n\nend Rdpgw.Generated.RdpSettings\n")
	writeIfChanged(filepath.Join(*out, "RdpSettings.lean"), b.Bytes())

	// ---- ConfigDefaults.lean -----------------------------------------------
	cfg, err := load(filepath.Join(*repo, "cmd/rdpgw/config"), false)
	if err != nil {
		fatal(err)
	}
	b.Reset()
	b.WriteString("/- GENERATED by harness/extract from config.Load's defaults map — do not edit -/\n\n")
	b.WriteString("namespace Rdpgw.Generated.ConfigDefaults\n\ndef table : List (String × String) := [\n")
	cd := configDefaults(cfg)
	if len(cd) == 0 {
		// not found (moved somewhere the extractor does not look): the table of the verified tree is kept
		// and the evidence says so — an absent table is not a table without defaults
		missing = append(missing, "the defaults map of config.Load (baseline table kept; the binary tier still covers the defaults)")
		if old, err := os.ReadFile(filepath.Join(baselineDir, "ConfigDefaults.lean")); err == nil {
			for _, m := range regexp.MustCompile(`(?m)^  \("((?:[^"\\]|\\.)*)", "((?:[^"\\]|\\.)*)"\),?$`).FindAllStringSubmatch(string(old), -1) {
				k, _ := strconv.Unquote(`"` + m[1] + `"`)
				v, _ := strconv.Unquote(`"` + m[2] + `"`)
				cd = append(cd, [2]string{k, v})
			}
		}
	}
	for i, kv := range cd {
		sep := ","
		if i == len(cd)-1 {
			sep = ""
		}
		fmt.Fprintf(&b, "  (%s, %s)%s\n", leanStr(kv[0]), leanStr(kv[1]), sep)
	}
	b.WriteString("]\n\nend Rdpgw.Generated.ConfigDefaults\n")
	writeIfChanged(filepath.Join(*out, "ConfigDefaults.lean"), b.Bytes())

	// ---- Access.lean (C09) -------------------------------------------------
	var acc []byte
	var notes []string
	func() {
		// a construct the table builder does not understand must not take the other tables down:
		// the committed table of the verified tree is kept and the tie for C09 is reported as unavailable
		defer func() {
			if rec := recover(); rec != nil {
				notes = append(notes, fmt.Sprintf("static tie unavailable for the access table (extractor: %v); baseline table kept", rec))
				acc, _ = os.ReadFile(filepath.Join(baselineDir, "Access.lean"))
			}
		}()
		acc, notes = accessTable(*repo)
	}()
	if len(acc) > 0 {
		writeIfChanged(filepath.Join(*out, "Access.lean"), acc)
	}

	// ---- Lifecycle.lean (C11) ----------------------------------------------
	var lc []byte
	var lnotes []string
	func() {
		defer func() {
			if rec := recover(); rec != nil {
				lnotes = append(lnotes, fmt.Sprintf("static tie unavailable for the handlers' deferred calls (extractor: %v); baseline kept", rec))
				lc, _ = os.ReadFile(filepath.Join(baselineDir, "Lifecycle.lean"))
			}
		}()
		lc, lnotes = lifecycleTable(proto)
	}()
	if len(lc) > 0 {
		writeIfChanged(filepath.Join(*out, "Lifecycle.lean"), lc)
	}
	notes = append(notes, lnotes...)

	// ---- ConfigFacts.lean (C18) --------------------------------------------
	var cf []byte
	var cnotes []string
	func() {
		defer func() {
			if rec := recover(); rec != nil {
				cnotes = append(cnotes, fmt.Sprintf("static tie unavailable for the facts of config.Load (extractor: %v); baseline kept", rec))
				cf, _ = os.ReadFile(filepath.Join(baselineDir, "ConfigFacts.lean"))
			}
		}()
		cf, cnotes = configFacts(cfg)
	}()
	if len(cf) > 0 {
		writeIfChanged(filepath.Join(*out, "ConfigFacts.lean"), cf)
	}

	// ---- Tokens.lean (C02, C15) --------------------------------------------
	var tf []byte
	var tnotes []string
	func() {
		defer func() {
			if rec := recover(); rec != nil {
				tnotes = append(tnotes, fmt.Sprintf("static tie unavailable for the token facts (extractor: %v); baseline kept", rec))
				tf, _ = os.ReadFile(filepath.Join(baselineDir, "Tokens.lean"))
			}
		}()
		sec, err := load(filepath.Join(*repo, "cmd/rdpgw/security"), false)
		if err != nil {
			panic(err)
		}
		tf, tnotes = tokenFacts(sec)
	}()
	if len(tf) > 0 {
		writeIfChanged(filepath.Join(*out, "Tokens.lean"), tf)
	}

	// ---- Process.lean (C01, C16) -------------------------------------------
	var pf []byte
	var pnotes []string
	func() {
		defer func() {
			if rec := recover(); rec != nil {
				pnotes = append(pnotes, fmt.Sprintf("static tie unavailable for the packet loop's facts (extractor: %v); baseline kept", rec))
				pf, _ = os.ReadFile(filepath.Join(baselineDir, "Process.lean"))
			}
		}()
		pf, pnotes = processFacts(proto)
	}()
	if len(pf) > 0 {
		writeIfChanged(filepath.Join(*out, "Process.lean"), pf)
	}
	notes = append(notes, pnotes...)
	notes = append(notes, cnotes...)
	notes = append(notes, tnotes...)

	for _, m := range missing {
		fmt.Println("extract: missing", m)
	}
	for _, n := range notes {
		fmt.Println("extract:", n)
	}
}
