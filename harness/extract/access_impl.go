package main

// The shared-state access table for C09.
//
// For the packages protocol, transport and security this extracts one row per
// access to shared state: which role performs it (the handler goroutine of a
// tunnel, or the relay goroutine started with `go`), which resource it touches
// (package-level variable, field of Tunnel / Gateway / Processor, or the pseudo
// resources "client writer" / "client reader" behind the Transport interface),
// whether it writes, which mutexes are held (lexically, intersected over all
// call paths) and whether it happens before the relay goroutine is started.

import (
	"bytes"
	"fmt"
	"go/ast"
	"go/token"
	"go/types"
	"path/filepath"
	"sort"
	"strings"
)

const modPath = "github.com/bolkedebruin/rdpgw/"

type srcImporter struct {
	repo  string
	cache map[string]*pkg
	fake  fakeImporter
}

func (s *srcImporter) Import(path string) (*types.Package, error) {
	if strings.HasPrefix(path, modPath) {
		p, err := s.load(path)
		if err == nil && p.tp != nil {
			return p.tp, nil
		}
	}
	return s.fake.Import(path)
}

func (s *srcImporter) load(path string) (*pkg, error) {
	if p, ok := s.cache[path]; ok {
		return p, nil
	}
	dir := filepath.Join(s.repo, strings.TrimPrefix(path, modPath))
	p, err := loadWith(dir, s)
	if err != nil {
		return nil, err
	}
	s.cache[path] = p
	return p, nil
}

type accessRow struct {
	role   int // 0 handler, 1 relay
	res    string
	global bool
	write  bool
	locks  []string
	pre    bool
	where  string
}

type funcInfo struct {
	obj   *types.Func
	decl  *ast.FuncDecl
	lit   *ast.FuncLit
	p     *pkg
	name  string
	calls []callSite
	accs  []rawAccess
	spawn []spawnSite
}

type callSite struct {
	callee   string
	pos      token.Pos
	locks    map[string]bool
	deferred bool
	isGo     bool
}

type spawnSite struct {
	callee string
	pos    token.Pos
}

type rawAccess struct {
	res      string
	global   bool
	write    bool
	locks    map[string]bool
	pos      token.Pos
	deferred bool
}

func copySet(m map[string]bool) map[string]bool {
	o := map[string]bool{}
	for k := range m {
		o[k] = true
	}
	return o
}

func buildAccessTable(repo string) ([]byte, []string) {
	var notes []string
	imp := &srcImporter{repo: repo, cache: map[string]*pkg{}, fake: fakeImporter{defImporter()}}
	var pkgs []*pkg
	for _, sub := range []string{"cmd/rdpgw/transport", "cmd/rdpgw/protocol", "cmd/rdpgw/security"} {
		p, err := imp.load(modPath + sub)
		if err != nil {
			notes = append(notes, "access table: cannot load "+sub+": "+err.Error())
			continue
		}
		pkgs = append(pkgs, p)
	}
	funcs := map[string]*funcInfo{}
	sharedTypes := map[string]bool{"Tunnel": true, "Gateway": true, "Processor": true}
	whitelistInit := map[string]bool{"cache": true, "prometheus": true, "websocket": true, "sync": true}
	whitelistedVar := map[string]bool{}
	lockVars := map[string]bool{}

	// package-level variables: whitelist internally synchronised ones, find mutexes
	for _, p := range pkgs {
		for _, f := range p.files {
			for _, d := range f.Decls {
				gd, ok := d.(*ast.GenDecl)
				if !ok || gd.Tok != token.VAR {
					continue
				}
				for _, sp := range gd.Specs {
					vs := sp.(*ast.ValueSpec)
					for i, nm := range vs.Names {
						q := p.tp.Name() + "." + nm.Name
						if vs.Type != nil {
							ts := exprString(vs.Type)
							if strings.HasPrefix(ts, "sync.") {
								lockVars[q] = true
								continue
							}
						}
						if i < len(vs.Values) {
							pk := rootPkgOf(vs.Values[i])
							if whitelistInit[pk] {
								whitelistedVar[q] = true
							}
						}
					}
				}
			}
		}
	}

	// index functions
	for _, p := range pkgs {
		for _, f := range p.files {
			for _, d := range f.Decls {
				fd, ok := d.(*ast.FuncDecl)
				if !ok || fd.Body == nil {
					continue
				}
				obj, _ := p.info.Defs[fd.Name].(*types.Func)
				if obj == nil {
					continue
				}
				fi := &funcInfo{obj: obj, decl: fd, p: p, name: funcKey(obj)}
				funcs[fi.name] = fi
			}
		}
	}

	// analyse bodies
	for _, fi := range funcs {
		analyseBody(fi, fi.decl.Body, funcs, sharedTypes, whitelistedVar, lockVars)
	}

	// roles
	handlerRoots := []string{}
	for k := range funcs {
		if strings.HasSuffix(k, "Gateway.HandleGatewayProtocol") {
			handlerRoots = append(handlerRoots, k)
		}
		if strings.HasPrefix(k, "security.Check") {
			handlerRoots = append(handlerRoots, k)
		}
	}
	sort.Strings(handlerRoots)
	reach := func(roots []string, followGo bool) (map[string]bool, []string) {
		seen := map[string]bool{}
		var spawned []string
		var walk func(string)
		walk = func(k string) {
			if seen[k] {
				return
			}
			fi := funcs[k]
			if fi == nil {
				return
			}
			seen[k] = true
			for _, c := range fi.calls {
				if c.isGo {
					spawned = append(spawned, c.callee)
					continue
				}
				walk(c.callee)
			}
		}
		for _, r := range roots {
			walk(r)
		}
		return seen, spawned
	}
	handlerFns, spawned := reach(handlerRoots, false)
	relayFns, _ := reach(spawned, false)
	if len(spawned) == 0 {
		notes = append(notes, "access table: no `go` statement reachable from the handler (relay role empty)")
	}

	// entry lock sets: intersection over call sites, roots start empty
	allLocks := map[string]bool{}
	for _, fi := range funcs {
		for _, c := range fi.calls {
			for l := range c.locks {
				allLocks[l] = true
			}
		}
		for _, a := range fi.accs {
			for l := range a.locks {
				allLocks[l] = true
			}
		}
	}
	entry := map[string]map[string]bool{}
	isRoot := map[string]bool{}
	for _, r := range handlerRoots {
		isRoot[r] = true
	}
	for _, s := range spawned {
		isRoot[s] = true
	}
	for k := range funcs {
		if isRoot[k] {
			entry[k] = map[string]bool{}
		} else {
			entry[k] = copySet(allLocks)
		}
	}
	for changed := true; changed; {
		changed = false
		for k, fi := range funcs {
			if !handlerFns[k] && !relayFns[k] {
				continue
			}
			for _, c := range fi.calls {
				if c.isGo || isRoot[c.callee] || funcs[c.callee] == nil {
					continue
				}
				held := copySet(entry[k])
				for l := range c.locks {
					held[l] = true
				}
				cur := entry[c.callee]
				for l := range cur {
					if !held[l] {
						delete(cur, l)
						changed = true
					}
				}
			}
		}
	}

	// "pre": handler accesses that happen before the relay goroutine exists
	spawnFns := map[string]bool{}
	for k, fi := range funcs {
		for _, c := range fi.calls {
			if c.isGo && handlerFns[k] {
				spawnFns[k] = true
			}
		}
	}
	leadsToSpawn := map[string]bool{}
	var leads func(k string, seen map[string]bool) bool
	leads = func(k string, seen map[string]bool) bool {
		if spawnFns[k] {
			return true
		}
		if seen[k] {
			return false
		}
		seen[k] = true
		fi := funcs[k]
		if fi == nil {
			return false
		}
		for _, c := range fi.calls {
			if !c.isGo && leads(c.callee, seen) {
				return true
			}
		}
		return false
	}
	for k := range funcs {
		leadsToSpawn[k] = leads(k, map[string]bool{})
	}
	// position of the first call that leads to the spawn, per function
	spawnCallPos := map[string]token.Pos{}
	for k, fi := range funcs {
		if spawnFns[k] || !leadsToSpawn[k] {
			continue
		}
		best := token.NoPos
		for _, c := range fi.calls {
			if !c.isGo && !c.deferred && leadsToSpawn[c.callee] {
				if best == token.NoPos || c.pos < best {
					best = c.pos
				}
			}
		}
		spawnCallPos[k] = best
	}
	// preOnly(f): f does not lead to the spawn and every call site of f is in a pre position
	preOnly := map[string]bool{}
	for k := range funcs {
		preOnly[k] = handlerFns[k] && !leadsToSpawn[k] && !isRoot[k]
	}
	for changed := true; changed; {
		changed = false
		for k, fi := range funcs {
			if !handlerFns[k] {
				continue
			}
			for _, c := range fi.calls {
				if c.isGo || !preOnly[c.callee] {
					continue
				}
				sitePre := false
				if preOnly[k] {
					sitePre = true
				} else if p, ok := spawnCallPos[k]; ok && p != token.NoPos && c.pos < p && !c.deferred {
					sitePre = true
				}
				if !sitePre {
					preOnly[c.callee] = false
					changed = true
				}
			}
		}
	}

	var rows []accessRow
	emit := func(role int, k string) {
		fi := funcs[k]
		for _, a := range fi.accs {
			held := copySet(entry[k])
			for l := range a.locks {
				held[l] = true
			}
			var ls []string
			for l := range held {
				ls = append(ls, l)
			}
			sort.Strings(ls)
			pre := false
			if role == 0 {
				if preOnly[k] {
					pre = true
				} else if p, ok := spawnCallPos[k]; ok && p != token.NoPos && a.pos < p && !a.deferred {
					pre = true
				}
			}
			pos := fi.p.fset.Position(a.pos)
			rows = append(rows, accessRow{role: role, res: a.res, global: a.global, write: a.write, locks: ls, pre: pre,
				where: fmt.Sprintf("%s (%s:%d)", k, filepath.Base(pos.Filename), pos.Line)})
		}
	}
	var hk, rk []string
	for k := range handlerFns {
		hk = append(hk, k)
	}
	for k := range relayFns {
		rk = append(rk, k)
	}
	sort.Strings(hk)
	sort.Strings(rk)
	for _, k := range hk {
		emit(0, k)
	}
	for _, k := range rk {
		emit(1, k)
	}
	// deduplicate
	seenRow := map[string]bool{}
	var uniq []accessRow
	for _, r := range rows {
		key := fmt.Sprintf("%d|%s|%v|%v|%v|%v", r.role, r.res, r.global, r.write, r.locks, r.pre)
		if seenRow[key] {
			continue
		}
		seenRow[key] = true
		uniq = append(uniq, r)
	}
	rows = uniq

	// informative: the pairs that violate the discipline (the authoritative check is the Lean theorem)
	lockScopeGlobal := func(l string) bool { return !strings.Contains(l, ".") || strings.HasPrefix(l, "Gateway.") }
	for i, a := range rows {
		for j, bb := range rows {
			if j < i || a.res != bb.res || !(a.write || bb.write) {
				continue
			}
			may := a.global || (a.role != bb.role && !a.pre && !bb.pre)
			if !may {
				continue
			}
			prot := false
			for _, la := range a.locks {
				for _, lb := range bb.locks {
					if la == lb && (lockScopeGlobal(la) || !a.global) {
						prot = true
					}
				}
			}
			if !prot {
				notes = append(notes, fmt.Sprintf("access table: UNPROTECTED %s: [%s write=%v locks=%v] vs [%s write=%v locks=%v]", a.res, a.where, a.write, a.locks, bb.where, bb.write, bb.locks))
			}
		}
	}

	// number resources and locks
	resID := map[string]int{}
	lockID := map[string]int{}
	var resNames, lockNames []string
	for _, r := range rows {
		if _, ok := resID[r.res]; !ok {
			resID[r.res] = len(resNames)
			resNames = append(resNames, r.res)
		}
		for _, l := range r.locks {
			if _, ok := lockID[l]; !ok {
				lockID[l] = len(lockNames)
				lockNames = append(lockNames, l)
			}
		}
	}
	var b bytes.Buffer
	b.WriteString("/- GENERATED by harness/extract (access_impl.go) from protocol, transport and security — do not edit -/\n\n")
	b.WriteString("import Rdpgw.Model.Access\n\nnamespace Rdpgw.Generated.Access\n\nopen Rdpgw.Access\n\n")
	b.WriteString("/-- resources: ")
	for i, n := range resNames {
		fmt.Fprintf(&b, "%d=%s ", i, n)
	}
	b.WriteString("\n    locks: ")
	for i, n := range lockNames {
		fmt.Fprintf(&b, "%d=%s ", i, n)
	}
	b.WriteString("-/\ndef table : List Access := [\n")
	for i, r := range rows {
		sc := ".perTunnel"
		if r.global {
			sc = ".global"
		}
		var ls []string
		for _, l := range r.locks {
			lsc := ".perTunnel"
			if !strings.Contains(l, ".") || strings.HasPrefix(l, "Gateway.") || strings.HasPrefix(l, "pkg:") {
				lsc = ".global"
			}
			ls = append(ls, fmt.Sprintf("⟨%d, %s⟩", lockID[l], lsc))
		}
		sep := ","
		if i == len(rows)-1 {
			sep = ""
		}
		fmt.Fprintf(&b, "  ⟨%d, %d, %s, %v, [%s], %v⟩%s  -- %s %s\n", r.role, resID[r.res], sc, r.write, strings.Join(ls, ", "), r.pre, sep, r.res, r.where)
	}
	b.WriteString("]\n\n")
	fmt.Fprintf(&b, "def resourceNames : List String := [%s]\n", quoteList(resNames))
	fmt.Fprintf(&b, "def lockNames : List String := [%s]\n", quoteList(lockNames))
	var wl []string
	for k := range whitelistedVar {
		wl = append(wl, k)
	}
	sort.Strings(wl)
	fmt.Fprintf(&b, "def whitelisted : List String := [%s]\n", quoteList(wl))
	b.WriteString("\nend Rdpgw.Generated.Access\n")
	notes = append(notes, fmt.Sprintf("access table: %d rows, %d resources, %d locks; handler functions %d, relay functions %d; internally synchronised (not tabled): %s", len(rows), len(resNames), len(lockNames), len(handlerFns), len(relayFns), strings.Join(wl, " ")))
	return b.Bytes(), notes
}

func quoteList(ss []string) string {
	var q []string
	for _, s := range ss {
		q = append(q, leanStr(s))
	}
	return strings.Join(q, ", ")
}

func funcKey(f *types.Func) string {
	if f.Pkg() == nil { // universe scope, e.g. the Error method of the error interface
		return "builtin." + f.Name()
	}
	sig, _ := f.Type().(*types.Signature)
	if sig != nil && sig.Recv() != nil {
		t := sig.Recv().Type()
		if p, ok := t.(*types.Pointer); ok {
			t = p.Elem()
		}
		if n, ok := t.(*types.Named); ok {
			return f.Pkg().Name() + "." + n.Obj().Name() + "." + f.Name()
		}
	}
	return f.Pkg().Name() + "." + f.Name()
}

func exprString(e ast.Expr) string {
	switch x := e.(type) {
	case *ast.Ident:
		return x.Name
	case *ast.SelectorExpr:
		return exprString(x.X) + "." + x.Sel.Name
	case *ast.StarExpr:
		return "*" + exprString(x.X)
	}
	return "?"
}

func rootPkgOf(e ast.Expr) string {
	switch x := e.(type) {
	case *ast.CallExpr:
		return rootPkgOf(x.Fun)
	case *ast.SelectorExpr:
		if id, ok := x.X.(*ast.Ident); ok {
			return id.Name
		}
		return rootPkgOf(x.X)
	case *ast.CompositeLit:
		return rootPkgOf(x.Type)
	case *ast.UnaryExpr:
		return rootPkgOf(x.X)
	}
	return ""
}

// analyseBody walks a function body in statement order, tracking lexically held locks.
func analyseBody(fi *funcInfo, body *ast.BlockStmt, funcs map[string]*funcInfo, shared map[string]bool, whitelisted, lockVars map[string]bool) {
	info := fi.p.info
	pkgName := fi.p.tp.Name()

	// lockName returns the identity of a mutex expression, "" if it is not one we know
	lockName := func(e ast.Expr) string {
		switch x := e.(type) {
		case *ast.Ident:
			if v, ok := info.Uses[x].(*types.Var); ok && v.Parent() == v.Pkg().Scope() {
				return v.Name()
			}
		case *ast.SelectorExpr:
			if sel, ok := info.Selections[x]; ok && sel.Kind() == types.FieldVal {
				t := sel.Recv()
				if p, ok := t.(*types.Pointer); ok {
					t = p.Elem()
				}
				if n, ok := t.(*types.Named); ok {
					return n.Obj().Name() + "." + x.Sel.Name
				}
			}
		}
		return ""
	}

	var walkExpr func(e ast.Expr, held map[string]bool, write bool, deferred bool)
	var walkStmts func(list []ast.Stmt, held map[string]bool, deferred bool)

	record := func(res string, global, write bool, held map[string]bool, pos token.Pos, deferred bool) {
		fi.accs = append(fi.accs, rawAccess{res: res, global: global, write: write, locks: copySet(held), pos: pos, deferred: deferred})
	}

	resolveCall := func(ce *ast.CallExpr) (string, bool) {
		switch f := ce.Fun.(type) {
		case *ast.Ident:
			if fn, ok := info.Uses[f].(*types.Func); ok {
				return funcKey(fn), true
			}
		case *ast.SelectorExpr:
			if sel, ok := info.Selections[f]; ok {
				if fn, ok := sel.Obj().(*types.Func); ok {
					return funcKey(fn), true
				}
			}
			if fn, ok := info.Uses[f.Sel].(*types.Func); ok {
				return funcKey(fn), true
			}
		}
		return "", false
	}

	handleCall := func(ce *ast.CallExpr, held map[string]bool, deferred, isGo bool) {
		// builtin delete(m, k) writes m
		if id, ok := ce.Fun.(*ast.Ident); ok && id.Name == "delete" && len(ce.Args) > 0 {
			walkExpr(ce.Args[0], held, true, deferred)
			for _, a := range ce.Args[1:] {
				walkExpr(a, held, false, deferred)
			}
			return
		}
		if se, ok := ce.Fun.(*ast.SelectorExpr); ok {
			switch se.Sel.Name {
			case "WritePacket":
				record("client writer", false, true, held, ce.Pos(), deferred)
			case "ReadPacket":
				record("client reader", false, true, held, ce.Pos(), deferred)
			}
			// the receiver expression is read
			walkExpr(se.X, held, false, deferred)
		}
		if k, ok := resolveCall(ce); ok {
			if _, local := funcs[k]; local {
				fi.calls = append(fi.calls, callSite{callee: k, pos: ce.Pos(), locks: copySet(held), deferred: deferred, isGo: isGo})
			}
		}
		for _, a := range ce.Args {
			walkExpr(a, held, false, deferred)
		}
	}

	walkExpr = func(e ast.Expr, held map[string]bool, write bool, deferred bool) {
		switch x := e.(type) {
		case nil:
		case *ast.Ident:
			if v, ok := info.Uses[x].(*types.Var); ok && v.Pkg() != nil && v.Parent() == v.Pkg().Scope() {
				q := v.Pkg().Name() + "." + v.Name()
				if whitelisted[q] || lockVars[q] {
					return
				}
				record(q, true, write, held, x.Pos(), deferred)
			}
		case *ast.SelectorExpr:
			if sel, ok := info.Selections[x]; ok && sel.Kind() == types.FieldVal {
				t := sel.Recv()
				if p, ok := t.(*types.Pointer); ok {
					t = p.Elem()
				}
				if n, ok := t.(*types.Named); ok && shared[n.Obj().Name()] && n.Obj().Pkg() != nil && n.Obj().Pkg().Name() == "protocol" {
					ft := sel.Obj().Type().String()
					if !strings.HasPrefix(ft, "sync.") {
						record(n.Obj().Name()+"."+x.Sel.Name, n.Obj().Name() == "Gateway", write, held, x.Pos(), deferred)
					}
				}
				walkExpr(x.X, held, false, deferred)
				return
			}
			// qualified identifier pkg.Var
			if v, ok := info.Uses[x.Sel].(*types.Var); ok && v.Pkg() != nil && v.Parent() == v.Pkg().Scope() && strings.HasPrefix(v.Pkg().Path(), modPath) {
				q := v.Pkg().Name() + "." + v.Name()
				if !whitelisted[q] && !lockVars[q] {
					record(q, true, write, held, x.Pos(), deferred)
				}
				return
			}
			walkExpr(x.X, held, false, deferred)
		case *ast.IndexExpr:
			walkExpr(x.X, held, write, deferred) // writing m[k] writes m
			walkExpr(x.Index, held, false, deferred)
		case *ast.StarExpr:
			walkExpr(x.X, held, write, deferred)
		case *ast.UnaryExpr:
			walkExpr(x.X, held, write || x.Op == token.AND, deferred)
		case *ast.BinaryExpr:
			walkExpr(x.X, held, false, deferred)
			walkExpr(x.Y, held, false, deferred)
		case *ast.ParenExpr:
			walkExpr(x.X, held, write, deferred)
		case *ast.CallExpr:
			handleCall(x, held, deferred, false)
		case *ast.CompositeLit:
			for _, el := range x.Elts {
				if kv, ok := el.(*ast.KeyValueExpr); ok {
					walkExpr(kv.Value, held, false, deferred)
				} else {
					walkExpr(el, held, false, deferred)
				}
			}
		case *ast.TypeAssertExpr:
			walkExpr(x.X, held, false, deferred)
		case *ast.SliceExpr:
			walkExpr(x.X, held, write, deferred)
			walkExpr(x.Low, held, false, deferred)
			walkExpr(x.High, held, false, deferred)
		case *ast.FuncLit:
			// a closure: analysed in place (callbacks run on the goroutine that calls them)
			walkStmts(x.Body.List, copySet(held), deferred)
		case *ast.KeyValueExpr:
			walkExpr(x.Value, held, false, deferred)
		}
	}

	var walkStmt func(s ast.Stmt, held map[string]bool, deferred bool)
	walkStmt = func(s ast.Stmt, held map[string]bool, deferred bool) {
		switch x := s.(type) {
		case nil:
		case *ast.ExprStmt:
			if ce, ok := x.X.(*ast.CallExpr); ok {
				if se, ok := ce.Fun.(*ast.SelectorExpr); ok && (se.Sel.Name == "Lock" || se.Sel.Name == "RLock") {
					if ln := lockName(se.X); ln != "" {
						held[ln] = true
						return
					}
				}
				if se, ok := ce.Fun.(*ast.SelectorExpr); ok && (se.Sel.Name == "Unlock" || se.Sel.Name == "RUnlock") {
					if ln := lockName(se.X); ln != "" {
						delete(held, ln)
						return
					}
				}
			}
			walkExpr(x.X, held, false, deferred)
		case *ast.DeferStmt:
			if se, ok := x.Call.Fun.(*ast.SelectorExpr); ok && (se.Sel.Name == "Unlock" || se.Sel.Name == "RUnlock") {
				if lockName(se.X) != "" {
					return // held until the function returns
				}
			}
			handleCall(x.Call, held, true, false)
		case *ast.GoStmt:
			handleCall(x.Call, map[string]bool{}, deferred, true)
		case *ast.AssignStmt:
			for _, r := range x.Rhs {
				walkExpr(r, held, false, deferred)
			}
			for _, l := range x.Lhs {
				if id, ok := l.(*ast.Ident); ok && x.Tok == token.DEFINE {
					_ = id
					continue
				}
				walkExpr(l, held, true, deferred)
			}
		case *ast.IncDecStmt:
			walkExpr(x.X, held, true, deferred)
		case *ast.ReturnStmt:
			for _, r := range x.Results {
				walkExpr(r, held, false, deferred)
			}
		case *ast.IfStmt:
			walkStmt(x.Init, held, deferred)
			walkExpr(x.Cond, held, false, deferred)
			walkStmts(x.Body.List, copySet(held), deferred)
			if x.Else != nil {
				walkStmt(x.Else, copySet(held), deferred)
			}
		case *ast.BlockStmt:
			walkStmts(x.List, held, deferred)
		case *ast.ForStmt:
			walkStmt(x.Init, held, deferred)
			walkExpr(x.Cond, held, false, deferred)
			walkStmt(x.Post, held, deferred)
			walkStmts(x.Body.List, copySet(held), deferred)
		case *ast.RangeStmt:
			walkExpr(x.X, held, false, deferred)
			walkStmts(x.Body.List, copySet(held), deferred)
		case *ast.SwitchStmt:
			walkStmt(x.Init, held, deferred)
			walkExpr(x.Tag, held, false, deferred)
			for _, c := range x.Body.List {
				cc := c.(*ast.CaseClause)
				for _, e := range cc.List {
					walkExpr(e, held, false, deferred)
				}
				walkStmts(cc.Body, copySet(held), deferred)
			}
		case *ast.TypeSwitchStmt:
			for _, c := range x.Body.List {
				walkStmts(c.(*ast.CaseClause).Body, copySet(held), deferred)
			}
		case *ast.SelectStmt:
			for _, c := range x.Body.List {
				walkStmts(c.(*ast.CommClause).Body, copySet(held), deferred)
			}
		case *ast.DeclStmt:
			if gd, ok := x.Decl.(*ast.GenDecl); ok {
				for _, sp := range gd.Specs {
					if vs, ok := sp.(*ast.ValueSpec); ok {
						for _, v := range vs.Values {
							walkExpr(v, held, false, deferred)
						}
					}
				}
			}
		case *ast.SendStmt:
			walkExpr(x.Chan, held, false, deferred)
			walkExpr(x.Value, held, false, deferred)
		case *ast.LabeledStmt:
			walkStmt(x.Stmt, held, deferred)
		}
	}
	walkStmts = func(list []ast.Stmt, held map[string]bool, deferred bool) {
		for _, s := range list {
			walkStmt(s, held, deferred)
		}
	}
	_ = pkgName
	walkStmts(body.List, map[string]bool{}, false)
}
