package main

func buildAccessTable(repo string) ([]byte, []string) {
	return []byte("/- GENERATED placeholder -/\n"), nil
}
