package main

// accessTable is filled in by access_impl.go (C09); see there.
func accessTable(repo string) ([]byte, []string) {
	return buildAccessTable(repo)
}
