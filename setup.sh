#!/bin/bash
# MANIFEST.setup_cmd: build the framework offline from files on disk only.
set -e
cd "$(dirname "$0")"
exec ./check setup
