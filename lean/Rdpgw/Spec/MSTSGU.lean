import Rdpgw.Bytes

/-!
# An independent decoder for the server-to-client packets of MS-TSGU

Written from the protocol layout with **literal** numbers (it does not import `Generated` or any
model), so that confronting the model's and the implementation's bytes with it is a real check:
type codes, status codes, field-present masks and redirection bits are those of [MS-TSGU] 2.2.5 /
2.2.10.  The decoder reads exactly the optional fields the mask announces, in mask order, and
fails (`none`) if anything is left over, if the header length differs from the number of bytes, or
if the mask announces a field it does not know.

(The close-channel response is laid out by this gateway like a channel response — status, mask,
reserved, channel id — and is decoded as such.)
-/

namespace Rdpgw.Spec.MSTSGU

open Rdpgw

/-- little-endian readers on the remaining bytes; `none` when too short -/
def getU8 : Bytes → Option (Nat × Bytes)
  | b :: t => some (b.toNat, t)
  | _ => none

def getU16 : Bytes → Option (Nat × Bytes)
  | b0 :: b1 :: t => some (b0.toNat + 256 * b1.toNat, t)
  | _ => none

def getU32 : Bytes → Option (Nat × Bytes)
  | b0 :: b1 :: b2 :: b3 :: t =>
      some (b0.toNat + 256 * b1.toNat + 65536 * b2.toNat + 16777216 * b3.toNat, t)
  | _ => none

/-- status codes, literally from [MS-TSGU] 2.2.6 -/
def S_OK : Nat := 0
def ST_INTERNALERROR : Nat := 0x800759D8
def ST_RAP_ACCESSDENIED : Nat := 0x800759DA
def ST_CAPABILITYMISMATCH : Nat := 0x800759E9
def ST_COOKIE_ACCESS_DENIED : Nat := 0x800759F8
def ST_ACCESS_DENIED : Nat := 5

/-- packet types -/
def T_HANDSHAKE_RESPONSE : Nat := 0x2
def T_TUNNEL_RESPONSE : Nat := 0x5
def T_TUNNEL_AUTH_RESPONSE : Nat := 0x7
def T_CHANNEL_RESPONSE : Nat := 0x9
def T_DATA : Nat := 0xA
def T_CLOSE_CHANNEL_RESPONSE : Nat := 0x11

/-- redirection bits of HTTP_TUNNEL_REDIR_* -/
def REDIR_ENABLE_ALL : Nat := 0x80000000
def REDIR_DISABLE_ALL : Nat := 0x40000000
def REDIR_DISABLE_DRIVE : Nat := 0x1
def REDIR_DISABLE_PRINTER : Nat := 0x2
def REDIR_DISABLE_PORT : Nat := 0x4
def REDIR_DISABLE_CLIPBOARD : Nat := 0x8
def REDIR_DISABLE_PNP : Nat := 0x10

/-- extended-auth capability bits -/
def AUTH_SC : Nat := 0x1
def AUTH_PAA : Nat := 0x2

inductive Msg where
  | handshake (status major minor serverVersion extAuth : Nat)
  | tunnel (serverVersion status mask : Nat) (tunnelId caps : Option Nat)
  | tunnelAuth (status mask : Nat) (redir idle : Option Nat)
  | channel (status mask : Nat) (channelId : Option Nat) (udpPort : Option Nat)
  | closeChannel (status mask : Nat) (channelId : Option Nat)
  | data (payload : Bytes)
deriving Repr, DecidableEq

def Msg.status : Msg → Option Nat
  | .handshake s .. => some s | .tunnel _ s .. => some s | .tunnelAuth s .. => some s
  | .channel s .. => some s | .closeChannel s .. => some s | .data _ => none

def Msg.pktType : Msg → Nat
  | .handshake .. => T_HANDSHAKE_RESPONSE | .tunnel .. => T_TUNNEL_RESPONSE
  | .tunnelAuth .. => T_TUNNEL_AUTH_RESPONSE | .channel .. => T_CHANNEL_RESPONSE
  | .closeChannel .. => T_CLOSE_CHANNEL_RESPONSE | .data _ => T_DATA

/-- an optional u32 field announced by `bit` of `mask` -/
def optU32 (mask bit : Nat) (r : Bytes) : Option (Option Nat × Bytes) :=
  if mask &&& bit ≠ 0 then
    match getU32 r with
    | some (v, r') => some (some v, r')
    | none => none
  else some (none, r)

def optU16 (mask bit : Nat) (r : Bytes) : Option (Option Nat × Bytes) :=
  if mask &&& bit ≠ 0 then
    match getU16 r with
    | some (v, r') => some (some v, r')
    | none => none
  else some (none, r)

def decodeBody (ty : Nat) (b : Bytes) : Option Msg :=
  if ty = T_HANDSHAKE_RESPONSE then
    match getU32 b with
    | none => none
    | some (st, r) =>
    match getU8 r with
    | none => none
    | some (ma, r) =>
    match getU8 r with
    | none => none
    | some (mi, r) =>
    match getU16 r with
    | none => none
    | some (sv, r) =>
    match getU16 r with
    | some (ea, []) => some (.handshake st ma mi sv ea)
    | _ => none
  else if ty = T_TUNNEL_RESPONSE then
    match getU16 b with
    | none => none
    | some (sv, r) =>
    match getU32 r with
    | none => none
    | some (st, r) =>
    match getU16 r with
    | none => none
    | some (mask, r) =>
    match getU16 r with
    | none => none
    | some (_, r) =>
    if mask &&& (0xFFFF - 0x3) ≠ 0 then none else
    match optU32 mask 0x1 r with
    | none => none
    | some (tid, r) =>
    match optU32 mask 0x2 r with
    | some (caps, []) => some (.tunnel sv st mask tid caps)
    | _ => none
  else if ty = T_TUNNEL_AUTH_RESPONSE then
    match getU32 b with
    | none => none
    | some (st, r) =>
    match getU16 r with
    | none => none
    | some (mask, r) =>
    match getU16 r with
    | none => none
    | some (_, r) =>
    if mask &&& (0xFFFF - 0x3) ≠ 0 then none else
    match optU32 mask 0x1 r with
    | none => none
    | some (redir, r) =>
    match optU32 mask 0x2 r with
    | some (idle, []) => some (.tunnelAuth st mask redir idle)
    | _ => none
  else if ty = T_CHANNEL_RESPONSE ∨ ty = T_CLOSE_CHANNEL_RESPONSE then
    match getU32 b with
    | none => none
    | some (st, r) =>
    match getU16 r with
    | none => none
    | some (mask, r) =>
    match getU16 r with
    | none => none
    | some (_, r) =>
    if mask &&& (0xFFFF - 0x5) ≠ 0 then none else
    match optU32 mask 0x1 r with
    | none => none
    | some (cid, r) =>
    match optU16 mask 0x4 r with
    | some (udp, []) =>
        if ty = T_CHANNEL_RESPONSE then some (.channel st mask cid udp)
        else if udp.isNone then some (.closeChannel st mask cid) else none
    | _ => none
  else if ty = T_DATA then
    match getU16 b with
    | none => none
    | some (n, r) => if r.length = n then some (.data r) else none
  else none

/-- decode one whole packet: header type, reserved, length = number of bytes, then the body -/
def decode (pkt : Bytes) : Option Msg :=
  match getU16 pkt with
  | none => none
  | some (ty, r) =>
  match getU16 r with
  | none => none
  | some (_, r) =>
  match getU32 r with
  | none => none
  | some (len, body) => if len = pkt.length then decodeBody ty body else none

/-- is device class `bit` redirectable according to a redirection-flags word? -/
def redirectable (flags bit : Nat) : Bool :=
  if flags &&& REDIR_DISABLE_ALL ≠ 0 then false
  else if flags &&& REDIR_ENABLE_ALL ≠ 0 then true
  else flags &&& bit = 0

end Rdpgw.Spec.MSTSGU
