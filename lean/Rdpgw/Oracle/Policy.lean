import Rdpgw.Oracle.Codec
import Rdpgw.Props.C02
import Rdpgw.Props.C04
import Rdpgw.Props.C15
import Rdpgw.Props.C13
import Rdpgw.Props.C05
import Rdpgw.Props.C18

/-! Oracle commands for policy and tokens: `checkhost`, `installed`, `clientaddr`, `cookie`. -/

namespace Rdpgw.Oracle

open Rdpgw Rdpgw.Policy Rdpgw.Cookie

/-- `checkhost mode=<hex> hosts=<hex,…> user=<hex> host=<hex>` -/
def cmdCheckHost (m : List (String × String)) : String :=
  b01 (checkHost (getHex m "mode") (getHexList m "hosts") (getHex m "user") (getHex m "host"))

/-- `installed token=0|1 mode= hosts= user= verify=0|1 thost= tip= rip= host=` — the policy main.go installs -/
def cmdInstalled (m : List (String × String)) : String :=
  b01 (C03.installed (getBool m "token") (getHex m "mode") (getHexList m "hosts") (getHex m "user")
    (getBool m "verify") (getHex m "thost") (getHex m "tip") (getHex m "rip") (getHex m "host"))

/-- `clientaddr xff=<hex> peer=<hex>` -/
def cmdClientAddr (m : List (String × String)) : String :=
  -- `xffs=<hex>,<hex>,…` (`_` = no such line): every `X-Forwarded-For` line of the request, in order
  if (m.find? (fun p => p.1 = "xffs")).isSome then
    hexOf (clientAddrOf (getHexList m "xffs") (getHex m "peer"))
  else hexOf (clientAddr (getHex m "xff") (getHex m "peer"))

def optNat (m : List (String × String)) (k : String) : Option Nat :=
  let v := get m k
  if v = "" ∨ v = "none" then none else v.toNat?

/-- `cookie empty= c3= dec= alg= mac= iss=<hex> exp=<n|none> nbf= iat= host=<hex> ip=<hex> idp=ok|refused sub=<hex> now=<n>` -/
def cmdCookie (m : List (String × String)) : String :=
  let f : Facts :=
    { empty := getBool m "empty", compact3 := getBool m "c3", segsDecode := getBool m "dec",
      algHS256 := getBool m "alg", macOk := getBool m "mac", iss := getHex m "iss",
      exp := optNat m "exp", nbf := optNat m "nbf", iat := optNat m "iat",
      host := getHex m "host", ip := getHex m "ip",
      idp := if get m "idp" = "ok" then .ok (getHex m "sub") else .refused }
  match check f (getNat m "now") with
  | none => "refuse"
  | some s => s!"accept host={hexOf s.host} ip={hexOf s.ip} user={hexOf s.user}"

end Rdpgw.Oracle

namespace Rdpgw.Oracle

open Rdpgw Rdpgw.UserToken in
/-- `usertoken sign=0|1 jwe= dec= cty= inner=claims|jws|other hs= sig= iss=<hex> exp= nbf= iat= sub=<hex> now=` -/
def cmdUserToken (m : List (String × String)) : String :=
  let inner : Inner :=
    match get m "inner" with
    | "claims" => .claims
    | "jws" => .jws (getBool m "hs") (getBool m "sig")
    | _ => .other
  let f : Facts :=
    { jwe5 := getBool m "jwe", decOk := getBool m "dec", ctyJWT := getBool m "cty", inner := inner,
      iss := getHex m "iss", exp := optNat m "exp", nbf := optNat m "nbf", iat := optNat m "iat",
      sub := getHex m "sub" }
  match verify (getBool m "sign") f (getNat m "now") with
  | none => "refuse"
  | some s => s!"ok {hexOf s}"

open Rdpgw Rdpgw.UserToken in
/-- `tokeninfo get=0|1 param=none|<hex> verdict=refuse|<hex sub>` → status -/
def cmdTokenInfo (m : List (String × String)) : String :=
  let param : Option Bytes := if get m "param" = "none" then none else some (getHex m "param")
  let res : Bytes → Option Bytes := fun _ => if get m "verdict" = "refuse" then none else some (getHex m "verdict")
  let r := tokenInfo (getBool m "get") param res
  s!"{r.1} {b01 r.2.isSome}"

end Rdpgw.Oracle

namespace Rdpgw.Oracle

open Rdpgw Rdpgw.Oidc in
/-- `oidc-callback state=<age|none> code= idtok= verifies= claims= user=<hex|none> at=<hex> sess=0|1 suser=<hex>` -/
def cmdOidcCallback (m : List (String × String)) : String :=
  let f : Facts :=
    { stateIssuedAgo := optNat m "state", codeOk := getBool m "code", hasIdToken := getBool m "idtok",
      verifies := getBool m "verifies", claimsParse := getBool m "claims",
      userClaim := if get m "user" = "none" then none else some (getHex m "user"),
      accessToken := getHex m "at" }
  let s : Session := ⟨getBool m "sess", getHex m "suser", []⟩
  let r := callback f s
  s!"{r.1} auth={b01 r.2.authenticated} user={hexOf r.2.user} connect={connect r.2}"

end Rdpgw.Oracle

namespace Rdpgw.Oracle

open Rdpgw Rdpgw.Http in
/-- `route openid= kerberos= basic= ntlm= cred=none|other|basic:<u>:<p>|ntlm:<hex>|negotiate:<hex>
    hasntlm= hasneg= hasbasic= basicok= ntlmres=err|reject|challenge|ok:<hex> spnego=none|<hex>`,
    or with `auths=<hex>,… users=<hex>:<hex>,…` in place of `cred= has…= basicok=` -/
def cmdRoute (m : List (String × String)) : String :=
  let mech : Mechs := ⟨getBool m "openid", getBool m "kerberos", getBool m "basic", getBool m "ntlm"⟩
  let cred : Cred :=
    match (get m "cred").splitOn ":" with
    | ["none"] => .none
    | ["basic", u, p] => .basic ((unhex u).getD []) ((unhex p).getD [])
    | ["ntlm", x] => .ntlm ((unhex x).getD [])
    | ["negotiate", x] => .negotiate ((unhex x).getD [])
    | _ => .other
  let ntlmres := get m "ntlmres"
  let b : Backend :=
    { basicOk := fun _ _ => getBool m "basicok",
      ntlm := fun _ =>
        if ntlmres = "err" then none
        else if ntlmres.startsWith "ok:" then some (some ((unhex (ntlmres.drop 3).toString).getD []))
        else some none,
      ntlmChallenge := fun _ => ntlmres = "challenge",
      spnego := fun _ => if get m "spnego" = "none" ∨ get m "spnego" = "" then none else some (getHex m "spnego") }
  -- `auths=<hex>,<hex>,…` (the header's values in order; `_` = header absent): the model parses them itself;
  -- `users=<hex user>:<hex password>,…` is then the backend's table (an empty password never matches)
  let users : List (Bytes × Bytes) := (splitList (get m "users") ',').filterMap (fun e =>
    match e.splitOn ":" with
    | [u, p] => some ((unhex u).getD [], (unhex p).getD [])
    | _ => none)
  let byOctets := (m.find? (fun p => p.1 = "auths")).isSome
  let b : Backend := if byOctets then
      { b with basicOk := fun u p => match users.find? (fun e => e.1 == u) with
                                     | some e => !e.2.isEmpty && e.2 == p
                                     | none => false }
    else b
  let r : Req := if byOctets then classify (getHexList m "auths")
    else ⟨cred, getBool m "hasntlm", getBool m "hasneg", getBool m "hasbasic"⟩
  let chs (c : Challenge) : String := match c with | .ntlm => "NTLM" | .negotiate => "Negotiate" | .basic => "Basic"
  match route mech b r with
  | .handler none => "handler:none"
  | .handler (some u) => s!"handler:{hexOf u}"
  | .unauthorized cs => "401:" ++ ",".intercalate (cs.map chs)
  | .notFound => "404"
  | .serverError => "500"

end Rdpgw.Oracle

namespace Rdpgw.Oracle

open Rdpgw Rdpgw.Config in
/-- `startup openid= kerberos= basic= ntlm= tlsoff= signed= tokenauth= usertoken= keytab=<hex> qkey=<hex> hosts=<n>
    paaenc=<len> paasign=<len> userenc=<len> sesskey=<len> sessenc=<len>` → `refused:<why>` or `running` with which keys are fresh -/
def cmdStartup (m : List (String × String)) : String :=
  let k (name : String) : Bytes := List.replicate (getNat m name) 120
  let r : Raw :=
    { openid := getBool m "openid", kerberos := getBool m "kerberos", basic := getBool m "basic", ntlm := getBool m "ntlm",
      tlsDisabled := getBool m "tlsoff", hostSelectionSigned := getBool m "signed", tokenAuth := getBool m "tokenauth",
      enableUserToken := getBool m "usertoken", keytab := getHex m "keytab", queryTokenSigningKey := getHex m "qkey",
      hosts := getNat m "hosts", paaEncKey := k "paaenc", paaSignKey := k "paasign", userEncKey := k "userenc",
      sessionKey := k "sesskey", sessionEncKey := k "sessenc" }
  let rnd : Nat → Bytes := fun i => List.replicate 32 (UInt8.ofNat (65 + i))
  match startup r rnd with
  | .refused _ => "refused"
  | .running e =>
    s!"running freshsign={b01 (e.paaSignKey == rnd 1)} freshenc={b01 (e.paaEncKey == rnd 0)} freshsess={b01 (e.sessionKey == rnd 3)} freshsessenc={b01 (e.sessionEncKey == rnd 4)}"

end Rdpgw.Oracle
