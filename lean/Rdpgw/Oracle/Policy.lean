import Rdpgw.Oracle.Codec
import Rdpgw.Props.C02
import Rdpgw.Props.C04

/-! Oracle commands for policy and tokens: `checkhost`, `installed`, `clientaddr`, `cookie`. -/

namespace Rdpgw.Oracle

open Rdpgw Rdpgw.Policy Rdpgw.Cookie

/-- `checkhost mode=<hex> hosts=<hex,…> user=<hex> host=<hex>` -/
def cmdCheckHost (m : List (String × String)) : String :=
  b01 (checkHost (getHex m "mode") (getHexList m "hosts") (getHex m "user") (getHex m "host"))

/-- `installed token=0|1 mode= hosts= user= verify=0|1 thost= tip= rip= host=` — the policy main.go installs -/
def cmdInstalled (m : List (String × String)) : String :=
  b01 (C03.installed (getBool m "token") (getHex m "mode") (getHexList m "hosts") (getHex m "user")
    (getBool m "verify") (getHex m "thost") (getHex m "tip") (getHex m "rip") (getHex m "host"))

/-- `clientaddr xff=<hex> peer=<hex>` -/
def cmdClientAddr (m : List (String × String)) : String :=
  hexOf (clientAddr (getHex m "xff") (getHex m "peer"))

def optNat (m : List (String × String)) (k : String) : Option Nat :=
  let v := get m k
  if v = "" ∨ v = "none" then none else v.toNat?

/-- `cookie empty= c3= dec= alg= mac= iss=<hex> exp=<n|none> nbf= iat= host=<hex> ip=<hex> idp=ok|refused sub=<hex> now=<n>` -/
def cmdCookie (m : List (String × String)) : String :=
  let f : Facts :=
    { empty := getBool m "empty", compact3 := getBool m "c3", segsDecode := getBool m "dec",
      algHS256 := getBool m "alg", macOk := getBool m "mac", iss := getHex m "iss",
      exp := optNat m "exp", nbf := optNat m "nbf", iat := optNat m "iat",
      host := getHex m "host", ip := getHex m "ip",
      idp := if get m "idp" = "ok" then .ok (getHex m "sub") else .refused }
  match check f (getNat m "now") with
  | none => "refuse"
  | some s => s!"accept host={hexOf s.host} ip={hexOf s.ip} user={hexOf s.user}"

end Rdpgw.Oracle
