import Rdpgw.Oracle.Codec
import Rdpgw.Props.C01
import Rdpgw.Props.C16
import Rdpgw.Props.C03

/-! Oracle commands for the wire layer: `frame`, `tunnel`, `mon`, `decode`. -/

namespace Rdpgw.Oracle

open Rdpgw Rdpgw.Frame Rdpgw.Tunnel Rdpgw.Resp

def endStr : End → String
  | .eof n => s!"eof:{n}"
  | .bad => "bad"

def pktStr (p : Pkt) : String := s!"{p.ty}:{hexOf p.body}"

/-- `frame segs=<hex>,<hex>,…` → packets as seen by the incremental reader, and by the stream spec -/
def cmdFrame (m : List (String × String)) : String :=
  let segs := getHexList m "segs"
  let (ps, e) := readStream segs
  let (ps', e') := parseStream segs.flatten
  let agree := decide (ps = ps' ∧ e = e')
  s!"pkts={";".intercalate (ps.map pktStr)} end={endStr e} spec={b01 agree}"

def parseCfg (m : List (String × String)) : Cfg :=
  let r := (get m "redir").toList.map (· == '1')
  let g (i : Nat) : Bool := r.getD i false
  { tokenAuth := getBool m "token", smartCard := getBool m "sc",
    hasCookieCheck := getBool m "ccheck", hasClientCheck := getBool m "ncheck",
    hasHostCheck := getBool m "hcheck",
    redirect := ⟨g 0, g 1, g 2, g 3, g 4, g 5, g 6⟩,   -- clipboard port drive printer pnp disableAll enableAll
    idleTimeout := getInt m "idle" }

def parseEnv (m : List (String × String)) : Env :=
  let cookies := getHexList m "cookies"
  let clients := getHexList m "clients"
  let hosts := getHexList m "hosts"
  let dial := getHexList m "dial"
  -- with `pmode=` the host policy is the one main.go installs (C03.installed), else a plain allow list
  let hostOk : Bytes → Bool :=
    if get m "pmode" = "" then fun h => hosts.contains h
    else C03.installed (getBool m "ptoken") (getHex m "pmode") (getHexList m "phosts") (getHex m "puser")
      (getBool m "pverify") (getHex m "pthost") (getHex m "ptip") (getHex m "prip")
  { cookieOk := fun c => cookies.contains c, clientOk := fun c => clients.contains c,
    hostOk := hostOk, dialOk := fun h => dial.contains h }

def evStr : Ev → String
  | .resp r => s!"S{hexOf r.wire}"
  | .dial h ok => s!"D{hexOf h}:{b01 ok}"
  | .up p => s!"U{hexOf p}"
  | .relayStart => "R"

def elemStr (e : Req × List Ev × Bool) : String :=
  s!"[{",".intercalate (e.2.1.map evStr)}|{b01 e.2.2}]"

/-- `tunnel <cfg> <env> segs=…` → the model's run: per processed packet its events and stop flag -/
def cmdTunnel (m : List (String × String)) : String :=
  let cfg := parseCfg m
  let env := parseEnv m
  let segs := getHexList m "segs"
  let (tr, e) := runStream cfg env segs
  let okc01 := C01.ok cfg env tr
  s!"trace={"".intercalate (tr.map elemStr)} end={endStr e} n={tr.length} c01={b01 okc01}"

/-- map an independently decoded server packet to the abstract response the monitor looks at -/
def msgToResp : Spec.MSTSGU.Msg → Option Resp
  | .handshake st ma mi _ ea => some (.handshake st ma mi ea)
  | .tunnel _ st _ _ _ => some (.tunnel st)
  | .tunnelAuth st _ redir idle => some (.tunnelAuth st (redir.getD 0) (idle.getD 0))
  | .channel st _ _ _ => some (.channel st)
  | .closeChannel st _ _ => some (.closeChannel st)
  | .data _ => none

def parseEv (s : String) : Option Ev :=
  match s.toList with
  | 'S' :: t =>
    match unhex (String.ofList t) with
    | some b => (Spec.MSTSGU.decode b).bind msgToResp |>.map Ev.resp
    | none => none
  | 'D' :: t =>
    match (String.ofList t).splitOn ":" with
    | [h, ok] => (unhex h).map (fun hb => Ev.dial hb (ok = "1"))
    | _ => none
  | 'U' :: t => (unhex (String.ofList t)).map Ev.up
  | ['R'] => some .relayStart
  | _ => none

/-- `mon <cfg> <env> trace=<ty>:<body>|<ev>,<ev>|<stop>;…` → C01 monitor on an observed trace.
    Requests are the packets the gateway read (parsed with the model's request parser); events are
    what the harness observed; responses are decoded with the independent decoder. -/
def cmdMon (m : List (String × String)) : String :=
  let cfg := parseCfg m
  let env := parseEnv m
  let elems := splitList (get m "trace") ';'
  let parsed : Option (List (Req × List Ev × Bool)) := elems.mapM (fun e =>
    match e.splitOn "|" with
    | [rq, evs, stop] =>
      match rq.splitOn ":" with
      | [ty, body] =>
        match ty.toNat?, unhex body, (splitList evs ',').mapM parseEv with
        | some t, some b, some es => some (parseReq ⟨t, b⟩, es, stop = "1")
        | _, _, _ => none
      | _ => none
    | _ => none)
  match parsed with
  | none => "c01=0 why=undecodable"
  | some tr => s!"c01={b01 (C01.ok cfg env tr)}"

def msgStr : Spec.MSTSGU.Msg → String
  | .handshake st ma mi sv ea => s!"handshake st={st} major={ma} minor={mi} sv={sv} ext={ea}"
  | .tunnel sv st mask tid caps => s!"tunnel sv={sv} st={st} mask={mask} tid={tid} caps={caps}"
  | .tunnelAuth st mask redir idle => s!"tunnelauth st={st} mask={mask} redir={redir} idle={idle}"
  | .channel st mask cid udp => s!"channel st={st} mask={mask} cid={cid} udp={udp}"
  | .closeChannel st mask cid => s!"closechannel st={st} mask={mask} cid={cid}"
  | .data p => s!"data {hexOf p}"

/-- `decode pkt=<hex>` → the independent decoder's reading of a server packet -/
def cmdDecode (m : List (String × String)) : String :=
  match Spec.MSTSGU.decode (getHex m "pkt") with
  | some msg => "ok " ++ msgStr msg
  | none => "undecodable"

/-- `resp kind=… st=… …` → the model's bytes for a response (C16 exact tie) -/
def cmdResp (m : List (String × String)) : String :=
  let cfg := parseCfg m
  let st := getNat m "st"
  let r : Option Resp :=
    match get m "kind" with
    | "handshake" => some (.handshake st (getNat m "major") (getNat m "minor") (getNat m "caps"))
    | "tunnel" => some (.tunnel st)
    | "tunnelauth" => some (authResp cfg st)
    | "channel" => some (.channel st)
    | "close" => some (.closeChannel st)
    | _ => none
  match r with
  | some r =>
    let w := r.wire
    let d := Spec.MSTSGU.decode w
    let exp := C16.expected r
    s!"wire={hexOf w} decodes={b01 (d == some exp)}"
  | none => "bad-op"

/-- `redir redir=<7 bits> idle=<int>` → flags word and per-class redirectability per the spec reading -/
def cmdRedir (m : List (String × String)) : String :=
  let cfg := parseCfg m
  let w := makeRedirectFlags cfg.redirect
  let f := Spec.MSTSGU.redirectable w
  s!"flags={w} drive={b01 (f 1)} printer={b01 (f 2)} port={b01 (f 4)} clipboard={b01 (f 8)} pnp={b01 (f 16)} idle={idleField cfg.idleTimeout}"

/-- `utf16 b=<hex>` → DecodeUTF16 -/
def cmdUtf16 (m : List (String × String)) : String :=
  match Utf16.decode (getHex m "b") with
  | some s => s!"ok {hexOf s}"
  | none => "err"

/-- `receive body=<hex>` → what `receive` writes to the host for a DATA packet body -/
def cmdReceive (m : List (String × String)) : String := hexOf (Body.receive (getHex m "body"))

/-- `datapkt chunk=<hex>` → the DATA packet `forward` builds for one backend read -/
def cmdDataPkt (m : List (String × String)) : String := hexOf (dataPacket (getHex m "chunk"))

/-- `matchauth token= sc= client=` -/
def cmdMatchAuth (m : List (String × String)) : String :=
  let cfg := parseCfg m
  match matchAuth cfg (getNat m "client") with
  | some c => s!"ok {c}"
  | none => "mismatch"

end Rdpgw.Oracle
