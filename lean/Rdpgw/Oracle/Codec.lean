import Rdpgw.Bytes

/-! Line-protocol helpers for the oracle: hex, lists, key=value tokens.  Not part of any proof. -/

namespace Rdpgw.Oracle

open Rdpgw

def hexDigit (n : Nat) : Char := if n < 10 then Char.ofNat (48 + n) else Char.ofNat (87 + n)

def hexOf (b : Bytes) : String :=
  if b.isEmpty then "-" else
  String.ofList (b.foldr (fun x acc => hexDigit (x.toNat / 16) :: hexDigit (x.toNat % 16) :: acc) [])

def hexVal (c : Char) : Option Nat :=
  if '0' ≤ c ∧ c ≤ '9' then some (c.toNat - 48)
  else if 'a' ≤ c ∧ c ≤ 'f' then some (c.toNat - 87)
  else if 'A' ≤ c ∧ c ≤ 'F' then some (c.toNat - 55)
  else none

def unhexChars : List Char → Option Bytes
  | [] => some []
  | a :: b :: t =>
    match hexVal a, hexVal b, unhexChars t with
    | some x, some y, some r => some (UInt8.ofNat (16 * x + y) :: r)
    | _, _, _ => none
  | _ => none

def unhex (s : String) : Option Bytes := if s = "-" ∨ s = "" then some [] else unhexChars s.toList

/-- split on a separator; "" or "-" ↦ [] -/
def splitList (s : String) (sep : Char) : List String :=
  if s = "" ∨ s = "_" then [] else s.splitOn (String.singleton sep)

def unhexList (s : String) (sep : Char) : Option (List Bytes) :=
  (splitList s sep).mapM unhex

/-- tokens `k=v` of a line into an association list -/
def kvs (toks : List String) : List (String × String) :=
  toks.filterMap (fun t =>
    match t.splitOn "=" with
    | k :: rest => if rest.isEmpty then none else some (k, "=".intercalate rest)
    | _ => none)

def get (m : List (String × String)) (k : String) : String :=
  match m.find? (fun p => p.1 = k) with
  | some p => p.2
  | none => ""

def getNat (m : List (String × String)) (k : String) : Nat := (get m k).toNat?.getD 0
def getInt (m : List (String × String)) (k : String) : Int := (get m k).toInt?.getD 0
def getBool (m : List (String × String)) (k : String) : Bool := get m k = "1"
def getHex (m : List (String × String)) (k : String) : Bytes := (unhex (get m k)).getD []
def getHexList (m : List (String × String)) (k : String) (sep : Char := ',') : List Bytes :=
  (unhexList (get m k) sep).getD []

def b01 (b : Bool) : String := if b then "1" else "0"

end Rdpgw.Oracle
