import Rdpgw.Oracle.Codec
import Rdpgw.Props.C19

/-! Oracle commands for RDP files: `rdp-parse`, `rdp-marshal`, `rdp-build`, `rdp-template`. -/

namespace Rdpgw.Oracle

open Rdpgw Rdpgw.RdpFile

def valStr : Val → String
  | .int i => s!"i:{i}"
  | .str s => s!"s:{hexOf s}"

def entryStr (e : Bytes × Val) : String := s!"{hexOf e.1}={valStr e.2}"

def parseVal (s : String) : Option Val :=
  match s.toList with
  | 'i' :: ':' :: t => (String.ofList t).toInt?.map Val.int
  | 's' :: ':' :: t => (unhex (String.ofList t)).map Val.str
  | _ => none

def parseEntries (s : String) : List (Bytes × Val) :=
  (splitList s ',').filterMap (fun e =>
    match e.splitOn "=" with
    | [k, v] => match unhex k, parseVal v with
      | some kb, some vv => some (kb, vv)
      | _, _ => none
    | _ => none)

/-- `rdp-parse data=<hex>` → `ok <entries in insertion order>` or `err` -/
def cmdRdpParse (m : List (String × String)) : String :=
  match unmarshal (getHex m "data") with
  | none => "err"
  | some es => "ok " ++ (if es.isEmpty then "_" else ",".intercalate (es.map entryStr))

/-- `rdp-marshal entries=<k=v,…>` (already key-sorted) → hex of the file -/
def cmdRdpMarshal (m : List (String × String)) : String :=
  hexOf (marshal (parseEntries (get m "entries")))

/-- `rdp-build vals=<GoFieldName hex=v,…>` → hex of `Builder.String()`; unnamed fields keep defaults -/
def cmdRdpBuild (m : List (String × String)) : String :=
  let given := parseEntries (get m "vals")
  let vals (s : Generated.RdpSettings.Setting) : Val :=
    match lookup given s.goName.toUTF8.toList with
    | some v => v
    | none => defaultVal s
  hexOf (build Generated.RdpSettings.table vals)

/-- `rdp-template data=<hex of the template file>` → hex of the builder's output, `err` on failure -/
def cmdRdpTemplate (m : List (String × String)) : String :=
  match unmarshal (getHex m "data") with
  | none => "err"
  | some tpl =>
    match fromTemplate Generated.RdpSettings.table tpl with
    | none => "err"
    | some vals => "ok " ++ hexOf (buildVals vals)

end Rdpgw.Oracle
