import Rdpgw.Oracle.Codec
import Rdpgw.Props.C12

/-! Oracle command `download …` → outcome of the download endpoint and whether the gateway's own
    tunnel checks accept the issued host and token. -/

namespace Rdpgw.Oracle

open Rdpgw Rdpgw.Download

def optHex (m : List (String × String)) (k : String) : Option Bytes :=
  if get m k = "none" ∨ get m k = "" then none else some (getHex m k)

def optStr : Option Bytes → String
  | some b => hexOf b
  | none => "none"

/-- `download mode= hosts= split= tmpl= nouser= gw= auth= user= at= ip= param=none|<hex> qsub=none|<hex>
    pick=<n> idpsub=<hex> verify=0|1 useip=<hex>` -/
def cmdDownload (m : List (String × String)) : String :=
  let c : Cfg := ⟨getHex m "mode", getHexList m "hosts", getBool m "split", getHex m "tmpl", getBool m "nouser", getHex m "gw"⟩
  let s : Sess := ⟨getBool m "auth", getHex m "user", getHex m "at", getHex m "ip"⟩
  let r : Req := ⟨optHex m "param", optHex m "qsub", getNat m "pick"⟩
  match download c s r with
  | .redirect => "redirect"
  | .badRequest => "400"
  | .serverError => "500"
  | .file host u d sub ch ip at' =>
    let acc := C12.tunnelAccepts c host (Cookie.mint 1000 ch ip (.ok (getHex m "idpsub"))) 1010 (getBool m "verify") (getHex m "useip")
    s!"file host={hexOf host} username={optStr u} domain={optStr d} sub={hexOf sub} chost={hexOf ch} ip={hexOf ip} at={hexOf at'} accept={b01 acc}"

end Rdpgw.Oracle
