import Rdpgw.Oracle.Tunnel
import Rdpgw.Props.C07

/-! Oracle command `multi`: the many-tunnel model run on a global event trace. -/

namespace Rdpgw.Oracle

open Rdpgw Rdpgw.Tunnel Rdpgw.Multi

/-- `R<conn>.<o|i>.<w|l>.<id>.<user>.<addr>` | `P<conn>.<packet>` | `H<key>.<bytes>` | `X<conn>` -/
def parseEvent (s : String) : Option Event :=
  let body := (s.drop 1).toString
  let parts := body.splitOn "."
  match s.front, parts with
  | 'R', [c, m, w, id, u, a] =>
    match c.toNat?, unhex id, unhex u, unhex a with
    | some c, some id, some u, some a =>
      some (.req c (if m = "o" then .out else .inn) (w = "w") id u a)
    | _, _, _, _ => none
  | 'P', [c, p] =>
    match c.toNat?, unhex p with
    | some c, some p => some (.pkt c (parseReq ⟨rd16 p, p.drop 8⟩))
    | _, _ => none
  | 'H', [k, b] =>
    match k.toNat?, unhex b with
    | some k, some b => some (.host k b)
    | _, _ => none
  | 'X', [c] => c.toNat?.map .drop
  | _, _ => none

def obsStr : Obs → String
  | .accept c k => s!"A{c}.{k}"
  | .refuse c => s!"F{c}"
  | .toClient c k r => s!"S{c}.{k}.{hexOf r.wire}"
  | .down c k b => s!"V{c}.{k}.{hexOf b}"
  | .up k c b => s!"U{k}.{c}.{hexOf b}"
  | .dial k h ok => s!"D{k}.{hexOf h}.{b01 ok}"

/-- tokens: `<cookie>:<host>:<ip>:<sub>` -/
def parseTokens (s : String) : List (Bytes × Claims) :=
  (splitList s ',').filterMap fun t =>
    match (t.splitOn ":").map unhex with
    | [some c, some h, some i, some u] => some (c, ⟨h, i, u⟩)
    | _ => none

def cmdMulti (m : List (String × String)) : String :=
  let cfg := parseCfg m
  let toks := parseTokens (get m "tokens")
  let mode := getHex m "pmode"
  let hosts := getHexList m "phosts"
  let verify := getBool m "pverify"
  let dial := getHexList m "dial"
  let pol : Pol :=
    { cookie := fun c => (toks.find? (fun p => p.1 = c)).map (·.2)
      clientOk := fun _ _ => true
      hostOk := fun user addr cl h =>
        match cl with
        | some cl => C03.installed cfg.tokenAuth mode hosts cl.sub verify cl.host cl.ip addr h
        | none => C03.installed cfg.tokenAuth mode hosts user verify [] [] addr h
      dialOk := fun h => dial.contains h }
  match ((splitList (get m "ev") ';').mapM parseEvent) with
  | none => "bad-op"
  | some es =>
    let s := Multi.run cfg pol Multi.init es
    s!"log={";".intercalate (s.log.map obsStr)}"

end Rdpgw.Oracle
