import Rdpgw.Oracle.Codec
import Rdpgw.Props.C20

/-! Oracle commands for the KDC proxy: `kdc-decode`, `kdc-encode`, `kdc-reply`, `kdc-status`. -/

namespace Rdpgw.Oracle

open Rdpgw Rdpgw.Kdc

def cmdKdcDecode (m : List (String × String)) : String :=
  match decode (getHex m "body") with
  | none => "err"
  | some x => s!"ok msg={hexOf x.message} realm={hexOf x.realm} flags={match x.flags with | some f => hexOf f | none => "none"}"

def cmdKdcEncode (m : List (String × String)) : String :=
  hexOf (encode ⟨getHex m "msg", getHex m "realm", optHexK m "flags"⟩)
where optHexK (m : List (String × String)) (k : String) : Option Bytes :=
  let v := get m k
  if v = "" ∨ v = "none" then none else unhex v

/-- `kdc-reply body=<hex of what the KDC answered>` → the HTTP body of the 200 answer -/
def cmdKdcReply (m : List (String × String)) : String :=
  let b := getHex m "body"
  hexOf (replyBody (be32 b.length ++ b))

/-- `kdc-status post=0|1 body=none|short:<n>|<hex>` → status for requests that never reach a KDC,
    `forward` when the request is valid and would be forwarded -/
def cmdKdcStatus (m : List (String × String)) : String :=
  let bodyS := get m "body"
  let body : Body :=
    if bodyS = "none" then .noLength
    else if bodyS.startsWith "short:" then .short ((bodyS.drop 6).toNat?.getD 0)
    else .full ((unhex bodyS).getD [])
  let r := handler (getBool m "post") body (fun _ => .unknown) id
  let lax := match body with
    | .full b => if (decode b).isNone ∧ (decodeLax b).isSome ∧ b.length ≤ maxLength then " lax=forward" else ""
    | _ => ""
  (fun s => s ++ lax) <|
  if r.1.status = 503 then
    match body with
    | .full b => match decode b with
      | some x => s!"forward msg={hexOf x.message} realm={hexOf x.realm}"
      | none => "503"
    | _ => "503"
  else toString r.1.status

end Rdpgw.Oracle
