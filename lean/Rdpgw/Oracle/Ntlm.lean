import Rdpgw.Oracle.Codec
import Rdpgw.Props.C14

/-! Oracle command `ntlm db=<user:pw,…> hist=<sid>/<msg>;…` → outputs of the verifier model. -/

namespace Rdpgw.Oracle

open Rdpgw Rdpgw.Ntlm

def parseMsg (s : String) : Option Msg :=
  match s.toList with
  | ['N'] => some .negotiate
  | ['M'] => some .malformedNegotiate
  | ['G'] => some .garbage
  | ['B'] => some .badBase64
  | ['E'] => some .empty
  | 'A' :: t =>
    match (String.ofList t).splitOn ":" with
    | [named, user, pw, chal] =>
      match unhex named, unhex user, unhex pw, chal.toNat? with
      | some n, some u, some p, some c => some (.authenticate n ⟨u, p, c⟩)
      | _, _, _, _ => none
    | _ => none
  | _ => none

def outStr : Out → String
  | .challenge c => s!"C{c}"
  | .authenticated u => s!"OK{hexOf u}"
  | .rejected => "REJ"
  | .error => "ERR"

def cmdNtlm (m : List (String × String)) : String :=
  let dbl : List (Bytes × Bytes) := (splitList (get m "db") ',').filterMap (fun e =>
    match e.splitOn ":" with
    | [u, p] => match unhex u, unhex p with
      | some a, some b => some (a, b)
      | _, _ => none
    | _ => none)
  let db : Bytes → Bytes := fun u => match dbl.find? (fun e => e.1 == u) with
    | some e => e.2
    | none => []
  let hist : Option (List (Option Nat × Msg)) := (splitList (get m "hist") ';').mapM (fun e =>
    match e.splitOn "/" with
    | [sid, msg] => (parseMsg msg).map (fun mm => ((if sid = "-" then none else sid.toNat?), mm))
    | _ => none)
  match hist with
  | none => "bad-op"
  | some h => ",".intercalate ((run db State.init h).map outStr)

end Rdpgw.Oracle
