import Rdpgw.Oracle.Codec
import Rdpgw.Props.C11

/-! Oracle command `lifecycle`: what is left of a tunnel after its client side ended. -/

namespace Rdpgw.Oracle

open Rdpgw.Lifecycle

def cmdLifecycle (m : List (String × String)) : String :=
  let t : Transport := if get m "t" = "ws" then .ws else .legacy
  let cause : Option Cause :=
    match get m "cause" with
    | "close" => some .closeChannel
    | "order" => some .outOfOrder
    | "frame" => some .unframeable
    | "dropws" => some .dropWs
    | "dropin" => some .dropIn
    | "dropout" => some .dropOut
    | _ => none
  match cause with
  | none => "bad-op"
  | some c =>
    let o : LoopOutcome := ⟨getBool m "dialled", getBool m "hostclosed"⟩
    let w :=
      if getBool m "noout" then legacyIn (Rdpgw.Generated.Lifecycle.legacy.getD currentLegacy) o idle
      else if getBool m "parked" then legacyOut idle
      else life (Rdpgw.Generated.Lifecycle.ws.getD currentWs) (Rdpgw.Generated.Lifecycle.legacy.getD currentLegacy) t c o
    s!"released={b01 (decide (Released w))} in={b01 w.inOpen} out={b01 w.outOpen} backend={b01 w.backendOpen} relay={b01 w.relay} handlers={w.handlers} reg={b01 w.registered} cached={b01 w.cached} ws={w.wsGauge} legacy={w.legacyGauge}"

end Rdpgw.Oracle
