/-!
# Byte strings

Go `[]byte` and `string` are modelled as `List UInt8` (Go strings are byte strings and the
gateway compares them bytewise).  Fixed-width little-endian fields are `le16/le32/rd16/rd32`.
Core Lean only (no Mathlib) so that the oracle links as an executable.
-/

namespace Rdpgw

abbrev Bytes := List UInt8

/-- ASCII string literal to bytes (used for protocol literals) -/
def str (s : String) : Bytes := s.toUTF8.toList

def le16 (n : Nat) : Bytes := [UInt8.ofNat (n % 256), UInt8.ofNat (n / 256 % 256)]

def le32 (n : Nat) : Bytes :=
  [UInt8.ofNat (n % 256), UInt8.ofNat (n / 256 % 256), UInt8.ofNat (n / 65536 % 256),
   UInt8.ofNat (n / 16777216 % 256)]

def be32 (n : Nat) : Bytes :=
  [UInt8.ofNat (n / 16777216 % 256), UInt8.ofNat (n / 65536 % 256), UInt8.ofNat (n / 256 % 256),
   UInt8.ofNat (n % 256)]

def rd16 (b : Bytes) : Nat :=
  match b with
  | b0 :: b1 :: _ => b0.toNat + 256 * b1.toNat
  | _ => 0

def rd32 (b : Bytes) : Nat :=
  match b with
  | b0 :: b1 :: b2 :: b3 :: _ =>
      b0.toNat + 256 * b1.toNat + 65536 * b2.toNat + 16777216 * b3.toNat
  | _ => 0

def rdbe32 (b : Bytes) : Nat :=
  match b with
  | b0 :: b1 :: b2 :: b3 :: _ =>
      16777216 * b0.toNat + 65536 * b1.toNat + 256 * b2.toNat + b3.toNat
  | _ => 0

@[simp] theorem le16_length (n : Nat) : (le16 n).length = 2 := rfl
@[simp] theorem le32_length (n : Nat) : (le32 n).length = 4 := rfl
@[simp] theorem be32_length (n : Nat) : (be32 n).length = 4 := rfl

theorem u8_ofNat_toNat (n : Nat) (h : n < 256) : (UInt8.ofNat n).toNat = n := by
  simp [UInt8.toNat_ofNat, Nat.mod_eq_of_lt h]

theorem rd16_le16 (n : Nat) (h : n < 65536) (t : Bytes) : rd16 (le16 n ++ t) = n := by
  simp only [le16, rd16, List.cons_append, List.nil_append]
  rw [u8_ofNat_toNat _ (Nat.mod_lt _ (by decide)), u8_ofNat_toNat _ (Nat.mod_lt _ (by decide))]
  omega

theorem rd32_le32 (n : Nat) (h : n < 4294967296) (t : Bytes) : rd32 (le32 n ++ t) = n := by
  simp only [le32, rd32, List.cons_append, List.nil_append]
  rw [u8_ofNat_toNat _ (Nat.mod_lt _ (by decide)), u8_ofNat_toNat _ (Nat.mod_lt _ (by decide)),
      u8_ofNat_toNat _ (Nat.mod_lt _ (by decide)), u8_ofNat_toNat _ (Nat.mod_lt _ (by decide))]
  omega

theorem rdbe32_be32 (n : Nat) (h : n < 4294967296) (t : Bytes) : rdbe32 (be32 n ++ t) = n := by
  simp only [be32, rdbe32, List.cons_append, List.nil_append]
  rw [u8_ofNat_toNat _ (Nat.mod_lt _ (by decide)), u8_ofNat_toNat _ (Nat.mod_lt _ (by decide)),
      u8_ofNat_toNat _ (Nat.mod_lt _ (by decide)), u8_ofNat_toNat _ (Nat.mod_lt _ (by decide))]
  omega

theorem rd16_lt (b : Bytes) : rd16 b < 65536 := by
  unfold rd16
  split
  · rename_i b0 b1 _
    have h0 := b0.toNat_lt
    have h1 := b1.toNat_lt
    omega
  · omega

theorem rd32_lt (b : Bytes) : rd32 b < 4294967296 := by
  unfold rd32
  split
  · rename_i b0 b1 b2 b3 _
    have h0 := b0.toNat_lt
    have h1 := b1.toNat_lt
    have h2 := b2.toNat_lt
    have h3 := b3.toNat_lt
    omega
  · omega

theorem rd16_append (b x : Bytes) (h : 2 ≤ b.length) : rd16 (b ++ x) = rd16 b := by
  match b, h with
  | [], h => simp at h
  | [_], h => simp at h
  | b0 :: b1 :: t, _ => simp [rd16]

theorem rd32_append (b x : Bytes) (h : 4 ≤ b.length) : rd32 (b ++ x) = rd32 b := by
  match b, h with
  | [], h => simp at h
  | [_], h => simp at h
  | [_, _], h => simp at h
  | [_, _, _], h => simp at h
  | b0 :: b1 :: b2 :: b3 :: t, _ => simp [rd32]

/-- `n` zero bytes (what `make([]byte, n)` holds) -/
def zeros (n : Nat) : Bytes := List.replicate n 0

@[simp] theorem zeros_length (n : Nat) : (zeros n).length = n := by simp [zeros]

end Rdpgw
