import Rdpgw.Model.RdpFile

/-! Helper lemmas for C19 (round trip of the RDP file parser / marshaller). -/

namespace Rdpgw.RdpFile

open Rdpgw

/-- a "plain" byte: ASCII and not white space -/
def plain (x : UInt8) : Prop := x < 128 ∧ isSp1 x = false

instance (x : UInt8) : Decidable (plain x) := by unfold plain; infer_instance

theorem spFwd_plain (x : UInt8) (b c : Option UInt8) (h : plain x) : spFwd x b c = 0 := by
  obtain ⟨h1, h2⟩ := h
  have e1 : (x == 0xC2) = false := by
    have : x ≠ 0xC2 := by intro e; rw [e] at h1; exact absurd h1 (by decide)
    simpa using this
  have e2 : (x == 0xE1) = false := by
    have : x ≠ 0xE1 := by intro e; rw [e] at h1; exact absurd h1 (by decide)
    simpa using this
  have e3 : (x == 0xE2) = false := by
    have : x ≠ 0xE2 := by intro e; rw [e] at h1; exact absurd h1 (by decide)
    simpa using this
  have e4 : (x == 0xE3) = false := by
    have : x ≠ 0xE3 := by intro e; rw [e] at h1; exact absurd h1 (by decide)
    simpa using this
  simp [spFwd, h2, e1, e2, e3, e4]

theorem spBwd_plain (x : UInt8) (b c : Option UInt8) (h : plain x) : spBwd x b c = 0 := by
  obtain ⟨h1, h2⟩ := h
  have ne : ∀ v : UInt8, 128 ≤ v → (x == v) = false := by
    intro v hv
    have : x ≠ v := by
      intro e; rw [e] at h1
      exact absurd h1 (by simpa [UInt8.lt_iff_toNat_lt, UInt8.le_iff_toNat_le] using hv)
    simpa using this
  have e5 : isSpE280 x = false := by
    unfold isSpE280
    have a1 : (0x80 ≤ x) = False := by
      simp only [eq_iff_iff, iff_false, UInt8.not_le]
      exact h1
    simp [a1, ne 0xA8 (by decide), ne 0xA9 (by decide), ne 0xAF (by decide)]
  simp [spBwd, h2, e5, ne 0x85 (by decide), ne 0xA0 (by decide), ne 0x80 (by decide), ne 0x9F (by decide)]

theorem trimL_id (s : Bytes) (h : spLen s = 0) : trimL s = s := by
  rw [trimL]; simp [h]

theorem trimRrev_id (s : Bytes) (h : spLenR s = 0) : trimRrev s = s := by
  rw [trimRrev]; simp [h]

/-- a string that neither starts nor ends with a white-space rune is a fixpoint of `TrimSpace` -/
theorem trim_id (s : Bytes) (h1 : spLen s = 0) (h2 : spLenR s.reverse = 0) : trim s = s := by
  unfold trim
  rw [trimL_id s h1, trimRrev_id _ h2, List.reverse_reverse]

theorem splitFirst_append (c : UInt8) (a r : Bytes) (h : c ∉ a) :
    splitFirst c (a ++ c :: r) = some (a, r) := by
  induction a with
  | nil => simp [splitFirst]
  | cons b t ih =>
    have hb : (b == c) = false := by
      have : b ≠ c := by intro e; apply h; simp [e]
      simpa using this
    have ht : c ∉ t := by intro e; apply h; simp [e]
    simp [splitFirst, hb, ih ht]

theorem splitLinesAux_line (acc x rest : Bytes) (h : LF ∉ x) :
    splitLinesAux acc (x ++ LF :: rest) = dropCR (acc.reverse ++ x) :: splitLinesAux [] rest := by
  induction x generalizing acc with
  | nil => simp [splitLinesAux]
  | cons b t ih =>
    have hb : (b == LF) = false := by
      have : b ≠ LF := by intro e; apply h; simp [e]
      simpa using this
    have ht : LF ∉ t := by intro e; apply h; simp [e]
    simp only [List.cons_append, splitLinesAux, hb]
    rw [ih (b :: acc) ht]
    simp

theorem dropCR_snoc (b : Bytes) : dropCR (b ++ [CR]) = b := by
  simp [dropCR]

/-! ### integers -/

theorem natDigits_ne_nil (n : Nat) : natDigits n ≠ [] := by
  rw [natDigits]; split <;> simp

theorem u8_48 (d : Nat) (h : d < 10) : (UInt8.ofNat (48 + d)).toNat = 48 + d :=
  u8_ofNat_toNat _ (by omega)

theorem isDigit_48 (d : Nat) (h : d < 10) : isDigit (UInt8.ofNat (48 + d)) = true := by
  unfold isDigit
  simp only [Bool.and_eq_true, decide_eq_true_eq, UInt8.le_iff_toNat_le]
  rw [u8_48 d h]
  constructor
  · show (48 : UInt8).toNat ≤ _; simp
  · show _ ≤ (57 : UInt8).toNat; simp; omega

theorem natDigits_all_digit (n : Nat) : (natDigits n).all isDigit = true := by
  induction n using Nat.strongRecOn with
  | _ n ih =>
    rw [natDigits]
    split
    · rename_i h
      simp only [List.all_cons, List.all_nil, Bool.and_true]
      exact isDigit_48 n h
    · rename_i h
      simp only [List.all_append, List.all_cons, List.all_nil, Bool.and_true, Bool.and_eq_true]
      exact ⟨ih (n / 10) (by omega), isDigit_48 _ (Nat.mod_lt _ (by decide))⟩

theorem digitsVal_append (a b : Bytes) (acc : Nat) :
    digitsVal (a ++ b) acc = digitsVal b (digitsVal a acc) := by
  induction a generalizing acc with
  | nil => rfl
  | cons d t ih => simp [digitsVal, ih]

theorem digitsVal_natDigits (n : Nat) : digitsVal (natDigits n) 0 = n := by
  induction n using Nat.strongRecOn with
  | _ n ih =>
    rw [natDigits]
    split
    · rename_i h
      simp only [digitsVal]
      rw [u8_48 n h]
      omega
    · rename_i h
      rw [digitsVal_append, ih (n / 10) (by omega)]
      simp only [digitsVal]
      rw [u8_48 _ (Nat.mod_lt _ (by decide))]
      omega

theorem natDigits_head_digit (n : Nat) : ∃ d t, natDigits n = d :: t ∧ isDigit d = true := by
  have hne := natDigits_ne_nil n
  have hall := natDigits_all_digit n
  match hnd : natDigits n with
  | [] => exact absurd hnd hne
  | d :: t =>
    rw [hnd] at hall
    simp only [List.all_cons, Bool.and_eq_true] at hall
    exact ⟨d, t, rfl, hall.1⟩

theorem isDigit_ne (d : UInt8) (h : isDigit d = true) : d ≠ 45 ∧ d ≠ 43 := by
  unfold isDigit at h
  simp only [Bool.and_eq_true, decide_eq_true_eq] at h
  constructor <;> (intro e; rw [e] at h; exact absurd h.1 (by decide))

/-- `Atoi` inverts `%d` on the int64 range -/
theorem atoi_itoa (i : Int) (h : -9223372036854775808 ≤ i ∧ i ≤ 9223372036854775807) :
    atoi (itoa i) = some i := by
  cases i with
  | ofNat n =>
    obtain ⟨d, t, hd, hdig⟩ := natDigits_head_digit n
    obtain ⟨n1, n2⟩ := isDigit_ne d hdig
    have hall := natDigits_all_digit n
    have hval := digitsVal_natDigits n
    simp only [itoa]
    unfold atoi
    rw [hd] at hall hval ⊢
    have hm : signSplit (d :: t) = (false, d :: t) := by
      unfold signSplit
      split
      · rename_i heq; injection heq with h1 _; exact absurd h1 n1
      · rename_i heq; injection heq with h1 _; exact absurd h1 n2
      · rfl
    rw [hm]
    unfold atoiMag
    simp only [List.isEmpty_cons, Bool.false_eq_true, false_or, hall, Bool.not_true, if_false, hval]
    have : n ≤ 9223372036854775807 := by
      have := h.2
      simp only [Int.ofNat_eq_natCast] at this
      omega
    simp [this]
  | negSucc n =>
    have hall := natDigits_all_digit (n + 1)
    have hval := digitsVal_natDigits (n + 1)
    have hne := natDigits_ne_nil (n + 1)
    simp only [itoa]
    unfold atoi
    have hm : signSplit (45 :: natDigits (n + 1)) = (true, natDigits (n + 1)) := rfl
    rw [hm]
    unfold atoiMag
    have he : (natDigits (n + 1)).isEmpty = false := by
      cases hx : natDigits (n + 1) with
      | nil => exact absurd hx hne
      | cons _ _ => rfl
    simp only [he, Bool.false_eq_true, false_or, hall, Bool.not_true, if_false, hval, if_true]
    have : n + 1 ≤ 9223372036854775808 := by
      have := h.1
      simp only [Int.negSucc_eq] at this
      omega
    simp only [this, if_true]
    rfl

theorem natDigits_plain_ends (n : Nat) :
    (∀ d t, natDigits n = d :: t → plain d) ∧ (∀ i d, natDigits n = i ++ [d] → plain d) := by
  have hall := natDigits_all_digit n
  have hp : ∀ d, isDigit d = true → plain d := by
    intro d hd
    unfold isDigit at hd
    simp only [Bool.and_eq_true, decide_eq_true_eq, UInt8.le_iff_toNat_le] at hd
    obtain ⟨h1, h2⟩ := hd
    have l1 : (48 : UInt8).toNat = 48 := rfl
    have l2 : (57 : UInt8).toNat = 57 := rfl
    rw [l1] at h1; rw [l2] at h2
    constructor
    · rw [UInt8.lt_iff_toNat_lt]; show d.toNat < (128 : UInt8).toNat
      have : (128 : UInt8).toNat = 128 := rfl
      omega
    · have hne : ∀ v : UInt8, v.toNat < 48 → (d == v) = false := by
        intro v hv
        have : d ≠ v := by intro e; rw [e] at h1; omega
        simpa using this
      simp [isSp1, hne 9 (by decide), hne 10 (by decide), hne 11 (by decide), hne 12 (by decide),
        hne 13 (by decide), hne 32 (by decide)]
  constructor
  · intro d t hdt
    rw [hdt] at hall
    simp only [List.all_cons, Bool.and_eq_true] at hall
    exact hp d hall.1
  · intro i d hid
    rw [hid] at hall
    simp only [List.all_append, List.all_cons, List.all_nil, Bool.and_true, Bool.and_eq_true] at hall
    exact hp d hall.2

end Rdpgw.RdpFile
