import Rdpgw.Model.Tunnel
import Rdpgw.Spec.MSTSGU

/-! Helper lemmas: the spec decoder's readers invert the model's little-endian writers. -/

namespace Rdpgw.Wire

open Rdpgw Rdpgw.Spec.MSTSGU

theorem getU8_ofNat (n : Nat) (h : n < 256) (t : Bytes) :
    getU8 (UInt8.ofNat n :: t) = some (n, t) := by
  simp [getU8, u8_ofNat_toNat n h]

theorem getU16_le16 (n : Nat) (h : n < 65536) (t : Bytes) :
    getU16 (le16 n ++ t) = some (n, t) := by
  simp only [le16, getU16, List.cons_append, List.nil_append]
  rw [u8_ofNat_toNat _ (Nat.mod_lt _ (by decide)), u8_ofNat_toNat _ (Nat.mod_lt _ (by decide))]
  congr 2
  omega

theorem getU32_le32 (n : Nat) (h : n < 4294967296) (t : Bytes) :
    getU32 (le32 n ++ t) = some (n, t) := by
  simp only [le32, getU32, List.cons_append, List.nil_append]
  rw [u8_ofNat_toNat _ (Nat.mod_lt _ (by decide)), u8_ofNat_toNat _ (Nat.mod_lt _ (by decide)),
      u8_ofNat_toNat _ (Nat.mod_lt _ (by decide)), u8_ofNat_toNat _ (Nat.mod_lt _ (by decide))]
  congr 2
  omega

/-- header of any packet built by `enc` decodes to its type and total length -/
theorem decode_enc (ty : Nat) (body : Bytes) (hty : ty < 65536) (hlen : 8 + body.length < 4294967296) :
    decode (Frame.enc ⟨ty, body⟩) = decodeBody ty body := by
  have hl : (Frame.enc ⟨ty, body⟩).length = 8 + body.length := by simp [Frame.enc]; omega
  unfold decode
  have e : Frame.enc ⟨ty, body⟩ = le16 ty ++ (le16 0 ++ (le32 (8 + body.length) ++ body)) := by
    simp [Frame.enc, le16]
  rw [hl, e, getU16_le16 _ hty]
  simp only
  rw [getU16_le16 _ (by decide)]
  simp only
  rw [getU32_le32 _ hlen]
  simp

end Rdpgw.Wire
