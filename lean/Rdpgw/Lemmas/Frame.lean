import Rdpgw.Model.Frame

/-! Helper lemmas for C08: the incremental reader refines the stream parser. -/

namespace Rdpgw.Frame

open Rdpgw

theorem cut_pkt_append {buf : Bytes} {p : Pkt} {rest : Bytes} (h : cut buf = .pkt p rest)
    (x : Bytes) : cut (buf ++ x) = .pkt p (rest ++ x) := by
  unfold cut at h ⊢
  by_cases h8 : buf.length < 8
  · simp [h8] at h
  · simp only [h8, if_false] at h
    have h8' : ¬ (buf ++ x).length < 8 := by simp only [List.length_append]; omega
    simp only [h8', if_false]
    have hd : (buf ++ x).drop 4 = buf.drop 4 ++ x := by
      rw [List.drop_append_of_le_length (by omega)]
    have hrd : rd32 ((buf ++ x).drop 4) = rd32 (buf.drop 4) := by
      rw [hd]
      exact rd32_append _ _ (by simp only [List.length_drop]; omega)
    simp only [hrd]
    generalize hs : rd32 (buf.drop 4) = size at h ⊢
    by_cases hbad : size < 8 ∨ size > maxPkt
    · simp [hbad] at h
    · simp only [hbad, if_false] at h ⊢
      by_cases hl : buf.length < size
      · simp [hl] at h
      · simp only [hl, if_false] at h
        have hl' : ¬ (buf ++ x).length < size := by simp only [List.length_append]; omega
        simp only [hl', if_false]
        cases h
        have e1 : (buf ++ x).take size = buf.take size := by
          rw [List.take_append_of_le_length (by omega)]
        have e2 : (buf ++ x).drop size = buf.drop size ++ x := by
          rw [List.drop_append_of_le_length (by omega)]
        have e3 : rd16 (buf ++ x) = rd16 buf := rd16_append buf x (by omega)
        rw [e1, e2, e3]

theorem cut_bad_append {buf : Bytes} (h : cut buf = .bad) (x : Bytes) : cut (buf ++ x) = .bad := by
  unfold cut at h ⊢
  by_cases h8 : buf.length < 8
  · simp [h8] at h
  · simp only [h8, if_false] at h
    have h8' : ¬ (buf ++ x).length < 8 := by simp only [List.length_append]; omega
    simp only [h8', if_false]
    have hd : (buf ++ x).drop 4 = buf.drop 4 ++ x := by
      rw [List.drop_append_of_le_length (by omega)]
    have hrd : rd32 ((buf ++ x).drop 4) = rd32 (buf.drop 4) := by
      rw [hd]
      exact rd32_append _ _ (by simp only [List.length_drop]; omega)
    simp only [hrd]
    generalize hs : rd32 (buf.drop 4) = size at h ⊢
    by_cases hbad : size < 8 ∨ size > maxPkt
    · simp [hbad]
    · simp only [hbad, if_false] at h
      by_cases hl : buf.length < size
      · simp [hl] at h
      · simp [hl] at h

/-- what one `readMessage` call returns, in terms of the un-segmented stream -/
theorem readMessage_spec (segs : List Bytes) : ∀ buf : Bytes,
    match cut (buf ++ segs.flatten) with
    | .pkt p rest => ∃ pending segs', readMessage buf segs = .ok p pending segs' ∧
                        pending ++ segs'.flatten = rest
    | .bad => readMessage buf segs = .bad
    | .need => readMessage buf segs = .eof (buf ++ segs.flatten) := by
  induction segs with
  | nil =>
    intro buf
    simp only [List.flatten_nil, List.append_nil]
    unfold readMessage
    cases h : cut buf with
    | pkt p rest => exact ⟨rest, [], by simp⟩
    | need => simp
    | bad => simp
  | cons s segs' ih =>
    intro buf
    have hS : buf ++ (s :: segs').flatten = (buf ++ s) ++ segs'.flatten := by simp
    unfold readMessage
    cases h : cut buf with
    | pkt p rest =>
      have := cut_pkt_append h ((s :: segs').flatten)
      rw [this]
      exact ⟨rest, s :: segs', by simp⟩
    | bad =>
      have := cut_bad_append h ((s :: segs').flatten)
      rw [this]
    | need =>
      simp only
      rw [hS]
      exact ih (buf ++ s)

theorem parseStream_pkt {s : Bytes} {p : Pkt} {rest : Bytes} (h : cut s = .pkt p rest) :
    parseStream s = (p :: (parseStream rest).1, (parseStream rest).2) := by
  rw [parseStream]
  split
  · rename_i p' rest' h'
    rw [h] at h'
    cases h'
    rfl
  · rename_i h'; rw [h] at h'; cases h'
  · rename_i h'; rw [h] at h'; cases h'

theorem parseStream_need {s : Bytes} (h : cut s = .need) : parseStream s = ([], .eof s.length) := by
  rw [parseStream]
  split
  · rename_i h'; rw [h] at h'; cases h'
  · rfl
  · rename_i h'; rw [h] at h'; cases h'

theorem parseStream_bad {s : Bytes} (h : cut s = .bad) : parseStream s = ([], .bad) := by
  rw [parseStream]
  split
  · rename_i h'; rw [h] at h'; cases h'
  · rename_i h'; rw [h] at h'; cases h'
  · rfl

/-- MAIN: the incremental reader sees exactly what the segmentation-free parser sees -/
theorem readAll_eq_parseStream : ∀ (fuel : Nat) (buf : Bytes) (segs : List Bytes),
    (buf ++ segs.flatten).length < fuel →
    readAll fuel buf segs = parseStream (buf ++ segs.flatten) := by
  intro fuel
  induction fuel with
  | zero => intro buf segs h; omega
  | succ fuel ih =>
    intro buf segs hf
    have hspec := readMessage_spec segs buf
    unfold readAll
    cases hc : cut (buf ++ segs.flatten) with
    | pkt p rest =>
      rw [hc] at hspec
      obtain ⟨pending, segs', hr, hrest⟩ := hspec
      rw [hr]
      simp only
      have hlt := cut_rest_lt hc
      have := ih pending segs' (by rw [hrest]; omega)
      rw [this, hrest, parseStream_pkt hc]
    | need =>
      rw [hc] at hspec
      rw [hspec, parseStream_need hc]
    | bad =>
      rw [hc] at hspec
      rw [hspec, parseStream_bad hc]

/-- a well-formed packet at the head of a buffer is cut off exactly -/
theorem cut_enc (p : Pkt) (h : p.wf) (t : Bytes) : cut (enc p ++ t) = .pkt p t := by
  obtain ⟨hty, hsz⟩ := h
  have hmax : maxPkt < 4294967296 := by decide
  have hlen : (enc p ++ t).length = 8 + p.body.length + t.length := by
    simp [enc]; omega
  have hdrop4 : (enc p ++ t).drop 4 = le32 (8 + p.body.length) ++ (p.body ++ t) := by
    simp [enc, le16]
  have hsize : rd32 ((enc p ++ t).drop 4) = 8 + p.body.length := by
    rw [hdrop4]; exact rd32_le32 _ (by omega) _
  have hty' : rd16 (enc p ++ t) = p.ty := by
    have : enc p ++ t = le16 p.ty ++ ([0, 0] ++ le32 (8 + p.body.length) ++ p.body ++ t) := by
      simp [enc]
    rw [this]; exact rd16_le16 _ hty _
  unfold cut
  have h8 : ¬ (enc p ++ t).length < 8 := by omega
  simp only [h8, if_false, hsize]
  have hbad : ¬ (8 + p.body.length < 8 ∨ 8 + p.body.length > maxPkt) := by omega
  simp only [hbad, if_false]
  have hl : ¬ (enc p ++ t).length < 8 + p.body.length := by omega
  simp only [hl, if_false, hty']
  have henc_len : (enc p).length = 8 + p.body.length := by simp [enc]; omega
  have e1 : (enc p ++ t).take (8 + p.body.length) = enc p := by
    rw [List.take_append_of_le_length (by omega), ← henc_len, List.take_length]
  have e2 : (enc p ++ t).drop (8 + p.body.length) = t := by
    rw [← henc_len, List.drop_left]
  rw [e1, e2]
  have e3 : (enc p).drop 8 = p.body := by simp [enc, le16, le32]
  rw [e3]

end Rdpgw.Frame
