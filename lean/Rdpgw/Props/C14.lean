import Rdpgw.Model.Ntlm

/-!
# C14 — the NTLM verifier authenticates only proof of the configured password
-/

namespace Rdpgw.C14

open Rdpgw Rdpgw.Ntlm

/-- every challenge held by a context was issued before: it is below the nonce counter -/
def Inv (st : State) : Prop := ∀ s c, st.ctx s = some c → c < st.nonce

theorem inv_init : Inv State.init := by intro s c h; simp [State.init] at h

theorem inv_step (db : Bytes → Bytes) (st : State) (sid : Option Nat) (m : Msg) (h : Inv st) :
    Inv (step db st sid m).1 := by
  cases sid with
  | none => exact h
  | some s =>
    have drop : Inv ⟨upd st.ctx s none, st.nonce⟩ := by
      intro x c hx
      simp only [upd] at hx
      split at hx
      · cases hx
      · exact h x c hx
    cases m with
    | empty => exact h
    | badBase64 => exact drop
    | malformedNegotiate => exact drop
    | garbage => exact drop
    | negotiate =>
      intro x c hx
      simp only [step, upd] at hx ⊢
      split at hx
      · cases hx; omega
      · have := h x c hx; omega
    | authenticate named p =>
      simp only [step]
      cases hc : st.ctx s with
      | none => exact drop
      | some c =>
        simp only
        split
        · exact drop
        · split
          · exact drop
          · exact drop

theorem inv_after (db : Bytes → Bytes) (hist : List (Option Nat × Msg)) :
    ∀ st, Inv st → Inv (stateAfter db st hist) := by
  induction hist with
  | nil => intro st h; exact h
  | cons e t ih =>
    intro st h
    obtain ⟨sid, m⟩ := e
    exact ih _ (inv_step db st sid m h)

/-- **Soundness (one step).** `Authenticated u` is reported only when the message is an
    authenticate message naming `u`, a context exists for this very session holding the challenge
    `c` of its last negotiate, the configured password of `u` is non-empty, and the proof was made
    from exactly (`u`, configured password, `c`). -/
theorem sound_step (db : Bytes → Bytes) (st : State) (sid : Option Nat) (m : Msg) (u : Bytes)
    (h : (step db st sid m).2 = .authenticated u) :
    ∃ s c p, sid = some s ∧ st.ctx s = some c ∧ db u ≠ [] ∧ m = .authenticate u p ∧
      upper p.user = upper u ∧ p.password = db u ∧ p.challenge = c := by
  unfold step at h
  cases sid with
  | none => simp at h
  | some s =>
    cases m with
    | empty => simp at h
    | badBase64 => simp at h
    | malformedNegotiate => simp at h
    | garbage => simp at h
    | negotiate => simp at h
    | authenticate named p =>
      simp only at h
      cases hc : st.ctx s with
      | none => simp [hc] at h
      | some c =>
        simp only [hc] at h
        by_cases hdb : db named = []
        · simp [hdb] at h
        · simp only [hdb, if_false] at h
          by_cases hp : proves p named (db named) c = true
          · simp only [hp, if_true] at h
            injection h with h
            subst h
            unfold proves at hp
            simp only [Bool.and_eq_true, beq_iff_eq] at hp
            exact ⟨s, c, p, rfl, hc, hdb, rfl, hp.1.1, hp.1.2, hp.2⟩
          · simp [hp] at h

/-- **Soundness over histories.** In any history of calls — any interleaving of negotiate,
    authenticate and garbage messages over any session identifiers, including replays — an
    `Authenticated u` answer at position `i` means: the state reached by the first `i` calls holds,
    for that session, a challenge `c` issued by an earlier negotiate of the same session, and call
    `i` proves knowledge of the configured non-empty password of `u` against that very challenge. -/
theorem sound (db : Bytes → Bytes) (pre : List (Option Nat × Msg)) (sid : Option Nat) (m : Msg) (u : Bytes)
    (h : (step db (stateAfter db State.init pre) sid m).2 = .authenticated u) :
    ∃ s c p, sid = some s ∧ (stateAfter db State.init pre).ctx s = some c ∧
      c < (stateAfter db State.init pre).nonce ∧ db u ≠ [] ∧ m = .authenticate u p ∧
      upper p.user = upper u ∧ p.password = db u ∧ p.challenge = c := by
  obtain ⟨s, c, p, h1, h2, h3, h4, h5⟩ := sound_step db _ sid m u h
  exact ⟨s, c, p, h1, h2, inv_after db pre _ inv_init s c h2, h3, h4, h5⟩

/-- a context's challenge always comes from a negotiate of the same session: the last message of
    that session that changed its context -/
theorem challenge_origin (db : Bytes → Bytes) (st : State) (sid : Option Nat) (m : Msg) (s c : Nat)
    (h : (step db st sid m).1.ctx s = some c) :
    st.ctx s = some c ∨ (sid = some s ∧ m = .negotiate ∧ c = st.nonce) := by
  unfold step at h
  cases sid with
  | none => exact Or.inl h
  | some s' =>
    have drop : ∀ {x : Option Nat}, (upd st.ctx s' none) s = x → x = some c → st.ctx s = some c := by
      intro x hx hxc
      simp only [upd] at hx
      split at hx
      · rw [← hx] at hxc; cases hxc
      · rw [hx]; exact hxc
    cases m with
    | empty => exact Or.inl h
    | badBase64 => exact Or.inl (drop rfl h)
    | malformedNegotiate => exact Or.inl (drop rfl h)
    | garbage => exact Or.inl (drop rfl h)
    | negotiate =>
      simp only [upd] at h
      split at h
      · rename_i heq
        cases h
        exact Or.inr ⟨by rw [heq], rfl, rfl⟩
      · exact Or.inl h
    | authenticate named p =>
      simp only at h
      cases hc : st.ctx s' with
      | none => simp only [hc] at h; exact Or.inl (drop rfl h)
      | some c' =>
        simp only [hc] at h
        split at h
        · exact Or.inl (drop rfl h)
        · split at h
          · exact Or.inl (drop rfl h)
          · exact Or.inl (drop rfl h)

/-- **Completeness.** A client that knows the password and follows the exchange — negotiate, then an
    authenticate message proving the configured password against the challenge it was given — is
    always authenticated, with exactly the configured user name, whatever happened before in this or
    other sessions. -/
theorem complete (db : Bytes → Bytes) (st : State) (s : Nat) (u : Bytes) (hdb : db u ≠ []) :
    let r1 := step db st (some s) .negotiate
    r1.2 = .challenge st.nonce ∧
    (step db r1.1 (some s) (.authenticate u ⟨u, db u, st.nonce⟩)).2 = .authenticated u := by
  simp [step, upd, hdb, proves]

/-! ### corollaries for the cases the property names -/

theorem unknown_or_empty_password (db : Bytes → Bytes) (st : State) (sid : Option Nat) (named : Bytes) (p : Proof)
    (h : db named = []) : ∀ u, (step db st sid (.authenticate named p)).2 ≠ .authenticated u := by
  intro u hu
  obtain ⟨_, _, _, _, _, hne, hm, _⟩ := sound_step db st sid _ u hu
  injection hm with h1 _
  subst h1
  exact hne h

theorem wrong_password (db : Bytes → Bytes) (st : State) (sid : Option Nat) (named : Bytes) (p : Proof)
    (h : p.password ≠ db named) : ∀ u, (step db st sid (.authenticate named p)).2 ≠ .authenticated u := by
  intro u hu
  obtain ⟨_, _, q, _, _, _, hm, _, hpw, _⟩ := sound_step db st sid _ u hu
  injection hm with h1 h2
  subst h1 h2
  exact h hpw

theorem no_negotiate (db : Bytes → Bytes) (st : State) (s : Nat) (named : Bytes) (p : Proof)
    (h : st.ctx s = none) : (step db st (some s) (.authenticate named p)).2 = .error := by
  simp [step, h]

theorem other_challenge (db : Bytes → Bytes) (st : State) (s c : Nat) (named : Bytes) (p : Proof)
    (hc : st.ctx s = some c) (h : p.challenge ≠ c) :
    ∀ u, (step db st (some s) (.authenticate named p)).2 ≠ .authenticated u := by
  intro u hu
  obtain ⟨s', c', q, hs, hc', _, hm, _, _, hch⟩ := sound_step db st _ _ u hu
  injection hs with hs
  subst hs
  rw [hc] at hc'
  injection hc' with hc'
  injection hm with _ h2
  subst h2 hc'
  exact h hch

/-- replay in another session: a proof made for the challenge of session `s₁` is refused in any
    session whose current challenge differs — and challenges are never reused (`Inv` + fresh nonce) -/
theorem cross_session_replay (db : Bytes → Bytes) (st : State) (h : Inv st) (s₁ s₂ : Nat) (hne : s₁ ≠ s₂)
    (c₁ : Nat) (h1 : st.ctx s₁ = some c₁) :
    let st' := (step db st (some s₂) .negotiate).1
    ∀ named u, (step db st' (some s₂) (.authenticate named ⟨named, db named, c₁⟩)).2 ≠ .authenticated u := by
  intro st' named u
  have hc2 : st'.ctx s₂ = some st.nonce := by simp [st', step, upd]
  have hlt := h s₁ c₁ h1
  apply other_challenge db st' s₂ st.nonce named _ hc2
  simp; omega

theorem undecodable (db : Bytes → Bytes) (st : State) (sid : Option Nat) (m : Msg)
    (h : m = .garbage ∨ m = .badBase64 ∨ m = .malformedNegotiate ∨ m = .empty) :
    (step db st sid m).2 = .error := by
  cases sid <;> rcases h with rfl | rfl | rfl | rfl <;> simp [step]

/-- **One answer per challenge**: whatever an authenticate message achieves, the session's
    challenge is gone afterwards — a further authenticate message needs a new negotiate. -/
theorem challenge_single_use (db : Bytes → Bytes) (st : State) (s : Nat) (named : Bytes) (p : Proof) :
    (step db st (some s) (.authenticate named p)).1.ctx s = none := by
  simp only [step]
  cases hc : st.ctx s with
  | none => simp [upd]
  | some c => simp only; split <;> (try split) <;> simp [upd]

/-- **The pinned verifier did not have the property (D24)**: with the server session kept after a
    failed proof and its cached keys, a client that knows only alice's password is reported
    authenticated *as carol* — closed witness, replayed on the real code before the repair. -/
theorem legacy_impersonation :
    let db : Bytes → Bytes := fun u => if u = [97] then [1] else if u = [99] then [2] else []
    lrun db ⟨fun _ => none, 0⟩
      [(1, .negotiate),
       (1, .authenticate [97] ⟨[97], [9], 0⟩),          -- alice, deliberately wrong proof
       (1, .authenticate [99] ⟨[97], [1], 0⟩)]          -- named carol, proof from alice's password
      = [.challenge 0, .rejected, .authenticated [99]] := by decide

/-- …which the repaired verifier refuses (the second message finds no challenge) -/
example :
    let db : Bytes → Bytes := fun u => if u = [97] then [1] else if u = [99] then [2] else []
    run db State.init
      [(some 1, .negotiate), (some 1, .authenticate [97] ⟨[97], [9], 0⟩),
       (some 1, .authenticate [99] ⟨[97], [1], 0⟩)]
      = [.challenge 0, .rejected, .error] := by decide

/-- non-vacuity -/
def db0 : Bytes → Bytes := fun u => if u = [97] then [112, 119] else []
example : run db0 State.init [(some 1, .negotiate), (some 1, .authenticate [97] ⟨[97], [112, 119], 0⟩)] =
    [.challenge 0, .authenticated [97]] := by decide
example : run db0 State.init [(some 1, .negotiate), (some 2, .negotiate),
    (some 2, .authenticate [97] ⟨[97], [112, 119], 0⟩), (some 1, .authenticate [97] ⟨[97], [112, 119], 0⟩),
    (some 1, .authenticate [97] ⟨[97], [112, 119], 0⟩), (some 2, .authenticate [97] ⟨[97], [112, 119], 1⟩)] =
    [.challenge 0, .challenge 1, .rejected, .authenticated [97], .error, .error] := by decide

end Rdpgw.C14
