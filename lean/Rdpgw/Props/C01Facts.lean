import Rdpgw.Model.Tunnel
import Rdpgw.Generated.Process

/-!
# C01 / C16 — the regenerated facts of `Processor.Process` are the ones the model implements

`Generated/Process.lean` is rewritten from the Go text on every run (state guard, state assigned,
status constants and the order of effects of each `case`).  This file states, for the model, what
those facts mean (`guard_sound`, `next_sound`, `status_sound`) and proves that every fact the
extractor found is one of the model's (`facts_*`).  A changed guard, state, status or order in the
Go text makes a `facts_*` theorem false; a case body moved out of the switch only makes the
extractor find fewer facts.
-/

namespace Rdpgw.C01

open Rdpgw Rdpgw.Tunnel Rdpgw.Resp
open Rdpgw.Generated.Protocol

/-- the packet type constant a request was parsed from -/
def reqType : Req → Nat
  | .handshake _ _ _ => PKT_TYPE_HANDSHAKE_REQUEST
  | .tunnelCreate _ => PKT_TYPE_TUNNEL_CREATE
  | .tunnelAuth _ => PKT_TYPE_TUNNEL_AUTH
  | .channelCreate _ => PKT_TYPE_CHANNEL_CREATE
  | .data _ => PKT_TYPE_DATA
  | .keepalive => PKT_TYPE_KEEPALIVE
  | .closeChannel => PKT_TYPE_CLOSE_CHANNEL
  | .unknown t => t

/-- the model's state guards, in the extractor's encoding: (type, 0 `!=` / 1 `<`, state, stops) -/
def modelGuards : List (Nat × Nat × Nat × Bool) :=
  [ (PKT_TYPE_HANDSHAKE_REQUEST, 0, SERVER_STATE_INITIALIZED, true),
    (PKT_TYPE_TUNNEL_CREATE, 0, SERVER_STATE_HANDSHAKE, true),
    (PKT_TYPE_TUNNEL_AUTH, 0, SERVER_STATE_TUNNEL_CREATE, true),
    (PKT_TYPE_CHANNEL_CREATE, 0, SERVER_STATE_TUNNEL_AUTHORIZE, true),
    (PKT_TYPE_DATA, 1, SERVER_STATE_CHANNEL_CREATE, true),
    (PKT_TYPE_KEEPALIVE, 1, SERVER_STATE_CHANNEL_CREATE, true),
    (PKT_TYPE_CLOSE_CHANNEL, 0, SERVER_STATE_OPENED, true) ]

def guardFires (op st : Nat) (ph : Phase) : Bool :=
  if op = 0 then ph.toNat != st else if op = 1 then decide (ph.toNat < st) else false

/-- the model's successful transitions: (type, state afterwards) -/
def modelTransitions : List (Nat × Nat) :=
  [ (PKT_TYPE_HANDSHAKE_REQUEST, SERVER_STATE_HANDSHAKE), (PKT_TYPE_TUNNEL_CREATE, SERVER_STATE_TUNNEL_CREATE),
    (PKT_TYPE_TUNNEL_AUTH, SERVER_STATE_TUNNEL_AUTHORIZE), (PKT_TYPE_CHANNEL_CREATE, SERVER_STATE_CHANNEL_CREATE),
    (PKT_TYPE_DATA, SERVER_STATE_OPENED), (PKT_TYPE_CLOSE_CHANNEL, SERVER_STATE_CLOSED) ]

/-- the statuses the model answers with: (type, 0 guard / 1 refusal, status) -/
def modelErrorStatuses : List (Nat × Nat × Nat) :=
  [ (PKT_TYPE_HANDSHAKE_REQUEST, 0, E_PROXY_INTERNALERROR), (PKT_TYPE_HANDSHAKE_REQUEST, 1, E_PROXY_CAPABILITYMISMATCH),
    (PKT_TYPE_TUNNEL_CREATE, 0, E_PROXY_INTERNALERROR), (PKT_TYPE_TUNNEL_CREATE, 1, E_PROXY_COOKIE_AUTHENTICATION_ACCESS_DENIED),
    (PKT_TYPE_TUNNEL_AUTH, 0, E_PROXY_INTERNALERROR), (PKT_TYPE_TUNNEL_AUTH, 1, ERROR_ACCESS_DENIED),
    (PKT_TYPE_CHANNEL_CREATE, 0, E_PROXY_INTERNALERROR), (PKT_TYPE_CHANNEL_CREATE, 1, E_PROXY_RAP_ACCESSDENIED),
    (PKT_TYPE_CHANNEL_CREATE, 1, E_PROXY_INTERNALERROR) ]

def modelSuccessStatuses : List (Nat × Nat) :=
  [ (PKT_TYPE_HANDSHAKE_REQUEST, ERROR_SUCCESS), (PKT_TYPE_TUNNEL_CREATE, ERROR_SUCCESS),
    (PKT_TYPE_TUNNEL_AUTH, ERROR_SUCCESS), (PKT_TYPE_CHANNEL_CREATE, ERROR_SUCCESS),
    (PKT_TYPE_CLOSE_CHANNEL, ERROR_SUCCESS) ]

/-! ## What the tables mean for `Tunnel.step` -/

/-- **Guards.** A request whose guard fires stops the loop in the same phase, dials nothing, relays
    nothing and reports no success. -/
theorem guard_sound (cfg : Cfg) (env : Env) (ph : Phase) (r : Req) (op st : Nat) (b : Bool)
    (hg : (reqType r, op, st, b) ∈ modelGuards) (hu : ∀ t, r ≠ .unknown t)
    (hf : guardFires op st ph = true) :
    (step cfg env ph r).stop = true ∧ (step cfg env ph r).phase = ph ∧
    ∀ ev ∈ (step cfg env ph r).evs, ∃ x, ev = .resp x ∧ x.status ≠ ERROR_SUCCESS := by
  cases r with
  | unknown t => exact (hu t rfl).elim
  | handshake a b' c =>
    simp [modelGuards, reqType, PKT_TYPE_HANDSHAKE_REQUEST, PKT_TYPE_TUNNEL_CREATE, PKT_TYPE_TUNNEL_AUTH,
      PKT_TYPE_CHANNEL_CREATE, PKT_TYPE_DATA, PKT_TYPE_KEEPALIVE, PKT_TYPE_CLOSE_CHANNEL] at hg
    obtain ⟨rfl, rfl, _⟩ := hg
    cases ph <;> simp [guardFires, Phase.toNat, SERVER_STATE_INITIALIZED, SERVER_STATE_HANDSHAKE,
      SERVER_STATE_TUNNEL_CREATE, SERVER_STATE_TUNNEL_AUTHORIZE, SERVER_STATE_CHANNEL_CREATE, SERVER_STATE_OPENED,
      SERVER_STATE_CLOSED] at hf <;> simp [step, Resp.status, E_PROXY_INTERNALERROR, ERROR_SUCCESS]
  | tunnelCreate c =>
    simp [modelGuards, reqType, PKT_TYPE_HANDSHAKE_REQUEST, PKT_TYPE_TUNNEL_CREATE, PKT_TYPE_TUNNEL_AUTH,
      PKT_TYPE_CHANNEL_CREATE, PKT_TYPE_DATA, PKT_TYPE_KEEPALIVE, PKT_TYPE_CLOSE_CHANNEL] at hg
    obtain ⟨rfl, rfl, _⟩ := hg
    cases ph <;> simp [guardFires, Phase.toNat, SERVER_STATE_INITIALIZED, SERVER_STATE_HANDSHAKE,
      SERVER_STATE_TUNNEL_CREATE, SERVER_STATE_TUNNEL_AUTHORIZE, SERVER_STATE_CHANNEL_CREATE, SERVER_STATE_OPENED,
      SERVER_STATE_CLOSED] at hf <;> simp [step, Resp.status, E_PROXY_INTERNALERROR, ERROR_SUCCESS]
  | tunnelAuth c =>
    simp [modelGuards, reqType, PKT_TYPE_HANDSHAKE_REQUEST, PKT_TYPE_TUNNEL_CREATE, PKT_TYPE_TUNNEL_AUTH,
      PKT_TYPE_CHANNEL_CREATE, PKT_TYPE_DATA, PKT_TYPE_KEEPALIVE, PKT_TYPE_CLOSE_CHANNEL] at hg
    obtain ⟨rfl, rfl, _⟩ := hg
    cases ph <;> simp [guardFires, Phase.toNat, SERVER_STATE_INITIALIZED, SERVER_STATE_HANDSHAKE,
      SERVER_STATE_TUNNEL_CREATE, SERVER_STATE_TUNNEL_AUTHORIZE, SERVER_STATE_CHANNEL_CREATE, SERVER_STATE_OPENED,
      SERVER_STATE_CLOSED] at hf <;> simp [step, authResp, Resp.status, E_PROXY_INTERNALERROR, ERROR_SUCCESS]
  | channelCreate c =>
    simp [modelGuards, reqType, PKT_TYPE_HANDSHAKE_REQUEST, PKT_TYPE_TUNNEL_CREATE, PKT_TYPE_TUNNEL_AUTH,
      PKT_TYPE_CHANNEL_CREATE, PKT_TYPE_DATA, PKT_TYPE_KEEPALIVE, PKT_TYPE_CLOSE_CHANNEL] at hg
    obtain ⟨rfl, rfl, _⟩ := hg
    cases ph <;> simp [guardFires, Phase.toNat, SERVER_STATE_INITIALIZED, SERVER_STATE_HANDSHAKE,
      SERVER_STATE_TUNNEL_CREATE, SERVER_STATE_TUNNEL_AUTHORIZE, SERVER_STATE_CHANNEL_CREATE, SERVER_STATE_OPENED,
      SERVER_STATE_CLOSED] at hf <;> simp [step, Resp.status, E_PROXY_INTERNALERROR, ERROR_SUCCESS]
  | data p =>
    simp [modelGuards, reqType, PKT_TYPE_HANDSHAKE_REQUEST, PKT_TYPE_TUNNEL_CREATE, PKT_TYPE_TUNNEL_AUTH,
      PKT_TYPE_CHANNEL_CREATE, PKT_TYPE_DATA, PKT_TYPE_KEEPALIVE, PKT_TYPE_CLOSE_CHANNEL] at hg
    obtain ⟨rfl, rfl, _⟩ := hg
    cases ph <;> simp [guardFires, Phase.toNat, SERVER_STATE_INITIALIZED, SERVER_STATE_HANDSHAKE,
      SERVER_STATE_TUNNEL_CREATE, SERVER_STATE_TUNNEL_AUTHORIZE, SERVER_STATE_CHANNEL_CREATE, SERVER_STATE_OPENED,
      SERVER_STATE_CLOSED] at hf <;> simp [step, Phase.toNat, SERVER_STATE_INITIALIZED, SERVER_STATE_HANDSHAKE,
      SERVER_STATE_TUNNEL_CREATE, SERVER_STATE_TUNNEL_AUTHORIZE, SERVER_STATE_CHANNEL_CREATE]
  | keepalive =>
    simp [modelGuards, reqType, PKT_TYPE_HANDSHAKE_REQUEST, PKT_TYPE_TUNNEL_CREATE, PKT_TYPE_TUNNEL_AUTH,
      PKT_TYPE_CHANNEL_CREATE, PKT_TYPE_DATA, PKT_TYPE_KEEPALIVE, PKT_TYPE_CLOSE_CHANNEL] at hg
    obtain ⟨rfl, rfl, _⟩ := hg
    cases ph <;> simp [guardFires, Phase.toNat, SERVER_STATE_INITIALIZED, SERVER_STATE_HANDSHAKE,
      SERVER_STATE_TUNNEL_CREATE, SERVER_STATE_TUNNEL_AUTHORIZE, SERVER_STATE_CHANNEL_CREATE, SERVER_STATE_OPENED,
      SERVER_STATE_CLOSED] at hf <;> simp [step, Phase.toNat, SERVER_STATE_INITIALIZED, SERVER_STATE_HANDSHAKE,
      SERVER_STATE_TUNNEL_CREATE, SERVER_STATE_TUNNEL_AUTHORIZE, SERVER_STATE_CHANNEL_CREATE]
  | closeChannel =>
    simp [modelGuards, reqType, PKT_TYPE_HANDSHAKE_REQUEST, PKT_TYPE_TUNNEL_CREATE, PKT_TYPE_TUNNEL_AUTH,
      PKT_TYPE_CHANNEL_CREATE, PKT_TYPE_DATA, PKT_TYPE_KEEPALIVE, PKT_TYPE_CLOSE_CHANNEL] at hg
    obtain ⟨rfl, rfl, _⟩ := hg
    cases ph <;> simp [guardFires, Phase.toNat, SERVER_STATE_INITIALIZED, SERVER_STATE_HANDSHAKE,
      SERVER_STATE_TUNNEL_CREATE, SERVER_STATE_TUNNEL_AUTHORIZE, SERVER_STATE_CHANNEL_CREATE, SERVER_STATE_OPENED,
      SERVER_STATE_CLOSED] at hf <;> simp [step]

/-- **Transitions.** A request that does not stop the loop, and CLOSE_CHANNEL when it succeeds,
    leaves the state the table names (KEEPALIVE and unknown types leave it unchanged). -/
theorem next_sound (cfg : Cfg) (env : Env) (ph : Phase) (r : Req)
    (hs : (step cfg env ph r).stop = false ∨ (r = .closeChannel ∧ (step cfg env ph r).phase ≠ ph)) :
    (reqType r, (step cfg env ph r).phase.toNat) ∈ modelTransitions ∨ (step cfg env ph r).phase = ph := by
  cases r with
  | unknown t => right; simp [step]
  | keepalive => right; simp only [step]; split <;> rfl
  | handshake a b c =>
    rcases hs with hs | ⟨h, _⟩
    · by_cases h1 : ph ≠ .initialized
      · simp [step, h1] at hs
      · cases hm : matchAuth cfg c with
        | none => simp [step, h1, hm] at hs
        | some caps => left; simp only [step, h1, hm, if_false, reqType, Phase.toNat]; decide
    · cases h
  | tunnelCreate c =>
    rcases hs with hs | ⟨h, _⟩
    · by_cases h1 : ph ≠ .handshake
      · simp [step, h1] at hs
      · by_cases h2 : (cfg.hasCookieCheck && !env.cookieOk c) = true
        · simp [step, h1, h2] at hs
        · left; simp only [step, h1, h2, if_false, Bool.false_eq_true, reqType, Phase.toNat]; decide
    · cases h
  | tunnelAuth c =>
    rcases hs with hs | ⟨h, _⟩
    · by_cases h1 : ph ≠ .tunnelCreate
      · simp [step, h1] at hs
      · by_cases h2 : (cfg.hasClientCheck && !env.clientOk c) = true
        · simp [step, h1, h2] at hs
        · left; simp only [step, h1, h2, if_false, Bool.false_eq_true, reqType, Phase.toNat]; decide
    · cases h
  | channelCreate c =>
    rcases hs with hs | ⟨h, _⟩
    · by_cases h1 : ph ≠ .tunnelAuthorize
      · simp [step, h1] at hs
      · by_cases h2 : (cfg.hasHostCheck && !env.hostOk c) = true
        · simp [step, h1, h2] at hs
        · by_cases h3 : (!env.dialOk c) = true
          · simp [step, h1, h2, h3] at hs
          · left; simp only [step, h1, h2, h3, if_false, Bool.false_eq_true, reqType, Phase.toNat]; decide
    · cases h
  | data p =>
    rcases hs with hs | ⟨h, _⟩
    · by_cases h1 : ph.toNat < Phase.channelCreate.toNat
      · simp [step, h1] at hs
      · left; simp only [step, h1, if_false, reqType]; simp only [Phase.toNat]; decide
    · cases h
  | closeChannel =>
    rcases hs with hs | ⟨_, hne⟩
    · simp only [step] at hs; split at hs <;> simp at hs
    · by_cases h1 : ph ≠ .opened
      · simp [step, h1] at hne
      · left; simp only [step, h1, if_false, reqType, Phase.toNat]; decide

/-- **Statuses.** Every response the model sends carries a status the tables list for the
    request's packet type. -/
theorem status_sound (cfg : Cfg) (env : Env) (ph : Phase) (r : Req) (x : Resp)
    (hx : Ev.resp x ∈ (step cfg env ph r).evs) :
    (reqType r, x.status) ∈ modelSuccessStatuses ∨ (reqType r, 0, x.status) ∈ modelErrorStatuses ∨
    (reqType r, 1, x.status) ∈ modelErrorStatuses := by
  cases r with
  | unknown t => simp [step] at hx
  | keepalive => simp only [step] at hx; split at hx <;> simp at hx
  | data p => simp only [step] at hx; split at hx <;> simp at hx
  | handshake a b c =>
    simp only [step] at hx
    (repeat' split at hx) <;> simp at hx <;> subst hx <;>
      simp [modelSuccessStatuses, modelErrorStatuses, reqType, Resp.status]
  | tunnelCreate c =>
    simp only [step] at hx
    (repeat' split at hx) <;> simp at hx <;> subst hx <;>
      simp [modelSuccessStatuses, modelErrorStatuses, reqType, Resp.status]
  | tunnelAuth c =>
    simp only [step, authResp] at hx
    (repeat' split at hx) <;> simp at hx <;> subst hx <;>
      simp [modelSuccessStatuses, modelErrorStatuses, reqType, Resp.status]
  | channelCreate c =>
    simp only [step] at hx
    (repeat' split at hx) <;> simp at hx <;> subst hx <;>
      simp [modelSuccessStatuses, modelErrorStatuses, reqType, Resp.status]
  | closeChannel =>
    simp only [step] at hx
    (repeat' split at hx) <;> simp at hx <;> subst hx <;>
      simp [modelSuccessStatuses, modelErrorStatuses, reqType, Resp.status]

/-! ## The facts found in the Go text now are the model's -/

/-- every state guard found in `Processor.Process` is the model's guard for that packet type, and
    its body returns -/
theorem facts_guards : ∀ g ∈ Generated.Process.guards, g ∈ modelGuards := by decide

theorem facts_transitions : ∀ t ∈ Generated.Process.transitions, t ∈ modelTransitions := by decide

theorem facts_error_statuses : ∀ e ∈ Generated.Process.errorStatuses, e ∈ modelErrorStatuses := by decide

theorem facts_success_statuses : ∀ e ∈ Generated.Process.successStatuses, e ∈ modelSuccessStatuses := by decide

/-- in CHANNEL_CREATE the guard, the host policy check, the dial, the success response, the start
    of the relay and the state assignment stand in this order (the model's `step` dials only after
    the policy accepted and starts the relay only after a successful dial) -/
theorem facts_channel_order : Generated.Process.channelOrder.Pairwise (· < ·) := by decide

theorem facts_close_returns : Generated.Process.closeReturns = true := by decide

end Rdpgw.C01
