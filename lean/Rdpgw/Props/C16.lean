import Rdpgw.Props.C01Facts
import Rdpgw.Lemmas.Wire

/-!
# C16 — responses are well-formed MS-TSGU packets reporting true outcome and policy

Property theorems only.  `Spec.MSTSGU.decode` is the independent decoder (literal constants).
-/

namespace Rdpgw.C16

open Rdpgw Rdpgw.Resp Rdpgw.Tunnel Rdpgw.Spec.MSTSGU Rdpgw.Wire
open Rdpgw.Generated.Protocol

/-- the status codes the gateway uses are the MS-TSGU ones (regenerated constants vs literals) -/
theorem codes :
    Generated.Protocol.E_PROXY_CAPABILITYMISMATCH = 0x800759E9 ∧
    Generated.Protocol.E_PROXY_COOKIE_AUTHENTICATION_ACCESS_DENIED = 0x800759F8 ∧
    Generated.Protocol.E_PROXY_RAP_ACCESSDENIED = 0x800759DA ∧
    Generated.Protocol.E_PROXY_INTERNALERROR = 0x800759D8 ∧
    Generated.Protocol.ERROR_ACCESS_DENIED = 5 ∧
    Generated.Protocol.ERROR_SUCCESS = 0 := by decide

/-- what the independent decoder must read back from each response -/
def expected : Resp → Msg
  | .handshake st ma mi caps => .handshake st ma mi 0 caps
  | .tunnel st => .tunnel 0 st 3 (some 10) (some 2)
  | .tunnelAuth st redir idle => .tunnelAuth st 3 (some redir) (some idle)
  | .channel st => .channel st 1 (some 1) none
  | .closeChannel st => .closeChannel st 1 (some 1)

/-- field ranges of a response (what fits the wire format) -/
def InRange : Resp → Prop
  | .handshake st ma mi caps => st < 4294967296 ∧ ma < 256 ∧ mi < 256 ∧ caps < 65536
  | .tunnel st => st < 4294967296
  | .tunnelAuth st redir idle => st < 4294967296 ∧ redir < 4294967296 ∧ idle < 4294967296
  | .channel st => st < 4294967296
  | .closeChannel st => st < 4294967296

/-- **Well-formedness.** Every response packet has a header whose length equals the bytes sent
    and whose type is the response type, and the independent decoder consumes exactly the optional
    fields the fields-present mask announces — nothing missing, nothing left over. -/
theorem wire_decodes (r : Resp) (h : InRange r) : decode r.wire = some (expected r) := by
  cases r with
  | handshake st ma mi caps =>
    obtain ⟨h1, h2, h3, h4⟩ := h
    unfold Resp.wire
    rw [decode_enc _ _ (by simp only [Resp.pktType]; decide) (by simp [Resp.body])]
    simp only [Resp.pktType, Resp.body, decodeBody, List.append_assoc]
    have : PKT_TYPE_HANDSHAKE_RESPONSE = T_HANDSHAKE_RESPONSE := by decide
    rw [if_pos this, getU32_le32 _ h1]
    simp only [List.cons_append, List.nil_append]
    rw [getU8_ofNat _ h2]
    simp only
    rw [getU8_ofNat _ h3]
    simp only
    rw [getU16_le16 _ (by decide)]
    simp only
    have := getU16_le16 caps h4 []
    simp only [List.append_nil] at this
    rw [this]
    rfl
  | tunnel st =>
    unfold Resp.wire
    rw [decode_enc _ _ (by simp only [Resp.pktType]; decide) (by simp [Resp.body])]
    simp only [Resp.pktType, Resp.body, decodeBody, List.append_assoc]
    have e1 : ¬ PKT_TYPE_TUNNEL_RESPONSE = T_HANDSHAKE_RESPONSE := by decide
    have e2 : PKT_TYPE_TUNNEL_RESPONSE = T_TUNNEL_RESPONSE := by decide
    rw [if_neg e1, if_pos e2, getU16_le16 _ (by decide)]
    simp only
    rw [getU32_le32 _ h]
    simp only
    rw [getU16_le16 _ (by decide)]
    simp only
    rw [getU16_le16 _ (by decide)]
    have hm : HTTP_TUNNEL_RESPONSE_FIELD_TUNNEL_ID ||| HTTP_TUNNEL_RESPONSE_FIELD_CAPS = 3 := by decide
    simp only [hm, optU32]
    have c0 : ¬ (3 &&& (0xFFFF - 0x3) ≠ 0) := by decide
    have c1 : (3 &&& 0x1 ≠ 0) := by decide
    have c2 : (3 &&& 0x2 ≠ 0) := by decide
    rw [if_neg c0, if_pos c1, getU32_le32 _ (by decide)]
    simp only
    rw [if_pos c2]
    have := getU32_le32 HTTP_CAPABILITY_IDLE_TIMEOUT (by decide) []
    simp only [List.append_nil] at this
    rw [this]
    rfl
  | tunnelAuth st redir idle =>
    obtain ⟨h1, h2, h3⟩ := h
    unfold Resp.wire
    rw [decode_enc _ _ (by simp only [Resp.pktType]; decide) (by simp [Resp.body])]
    simp only [Resp.pktType, Resp.body, decodeBody, List.append_assoc]
    have e1 : ¬ PKT_TYPE_TUNNEL_AUTH_RESPONSE = T_HANDSHAKE_RESPONSE := by decide
    have e2 : ¬ PKT_TYPE_TUNNEL_AUTH_RESPONSE = T_TUNNEL_RESPONSE := by decide
    have e3 : PKT_TYPE_TUNNEL_AUTH_RESPONSE = T_TUNNEL_AUTH_RESPONSE := by decide
    rw [if_neg e1, if_neg e2, if_pos e3, getU32_le32 _ h1]
    simp only
    rw [getU16_le16 _ (by decide)]
    simp only
    rw [getU16_le16 _ (by decide)]
    have hm : HTTP_TUNNEL_AUTH_RESPONSE_FIELD_REDIR_FLAGS ||| HTTP_TUNNEL_AUTH_RESPONSE_FIELD_IDLE_TIMEOUT = 3 := by
      decide
    simp only [hm, optU32]
    have c0 : ¬ (3 &&& (0xFFFF - 0x3) ≠ 0) := by decide
    have c1 : (3 &&& 0x1 ≠ 0) := by decide
    have c2 : (3 &&& 0x2 ≠ 0) := by decide
    rw [if_neg c0, if_pos c1, getU32_le32 _ h2]
    simp only
    rw [if_pos c2]
    have := getU32_le32 idle h3 []
    simp only [List.append_nil] at this
    rw [this]
    rfl
  | channel st =>
    unfold Resp.wire
    rw [decode_enc _ _ (by simp only [Resp.pktType]; decide) (by simp [Resp.body])]
    simp only [Resp.pktType, Resp.body, decodeBody, List.append_assoc]
    have e1 : ¬ PKT_TYPE_CHANNEL_RESPONSE = T_HANDSHAKE_RESPONSE := by decide
    have e2 : ¬ PKT_TYPE_CHANNEL_RESPONSE = T_TUNNEL_RESPONSE := by decide
    have e3 : ¬ PKT_TYPE_CHANNEL_RESPONSE = T_TUNNEL_AUTH_RESPONSE := by decide
    have e4 : PKT_TYPE_CHANNEL_RESPONSE = T_CHANNEL_RESPONSE ∨ PKT_TYPE_CHANNEL_RESPONSE = T_CLOSE_CHANNEL_RESPONSE := by
      decide
    rw [if_neg e1, if_neg e2, if_neg e3, if_pos e4, getU32_le32 _ h]
    simp only
    rw [getU16_le16 _ (by decide)]
    simp only
    rw [getU16_le16 _ (by decide)]
    have hm : HTTP_CHANNEL_RESPONSE_FIELD_CHANNELID = 1 := by decide
    simp only [hm, optU32, optU16]
    have c0 : ¬ (1 &&& (0xFFFF - 0x5) ≠ 0) := by decide
    have c1 : (1 &&& 0x1 ≠ 0) := by decide
    have c2 : ¬ (1 &&& 0x4 ≠ 0) := by decide
    rw [if_neg c0, if_pos c1]
    have := getU32_le32 1 (by decide) []
    simp only [List.append_nil] at this
    rw [this]
    simp only
    rw [if_neg c2]
    have e5 : PKT_TYPE_CHANNEL_RESPONSE = T_CHANNEL_RESPONSE := by decide
    simp only [e5, if_true]
    rfl
  | closeChannel st =>
    unfold Resp.wire
    rw [decode_enc _ _ (by simp only [Resp.pktType]; decide) (by simp [Resp.body])]
    simp only [Resp.pktType, Resp.body, decodeBody, List.append_assoc]
    have e1 : ¬ PKT_TYPE_CLOSE_CHANNEL_RESPONSE = T_HANDSHAKE_RESPONSE := by decide
    have e2 : ¬ PKT_TYPE_CLOSE_CHANNEL_RESPONSE = T_TUNNEL_RESPONSE := by decide
    have e3 : ¬ PKT_TYPE_CLOSE_CHANNEL_RESPONSE = T_TUNNEL_AUTH_RESPONSE := by decide
    have e4 : PKT_TYPE_CLOSE_CHANNEL_RESPONSE = T_CHANNEL_RESPONSE ∨
        PKT_TYPE_CLOSE_CHANNEL_RESPONSE = T_CLOSE_CHANNEL_RESPONSE := by decide
    rw [if_neg e1, if_neg e2, if_neg e3, if_pos e4, getU32_le32 _ h]
    simp only
    rw [getU16_le16 _ (by decide)]
    simp only
    rw [getU16_le16 _ (by decide)]
    have hm : HTTP_CHANNEL_RESPONSE_FIELD_CHANNELID = 1 := by decide
    simp only [hm, optU32, optU16]
    have c0 : ¬ (1 &&& (0xFFFF - 0x5) ≠ 0) := by decide
    have c1 : (1 &&& 0x1 ≠ 0) := by decide
    have c2 : ¬ (1 &&& 0x4 ≠ 0) := by decide
    rw [if_neg c0, if_pos c1]
    have := getU32_le32 1 (by decide) []
    simp only [List.append_nil] at this
    rw [this]
    simp only
    rw [if_neg c2]
    have e5 : ¬ PKT_TYPE_CLOSE_CHANNEL_RESPONSE = T_CHANNEL_RESPONSE := by decide
    simp only [e5, if_false]
    rfl

/-- the response type that answers a request -/
def answers : Req → Option RT
  | .handshake .. => some .handshake
  | .tunnelCreate _ => some .tunnel
  | .tunnelAuth _ => some .tunnelAuth
  | .channelCreate _ => some .channel
  | .closeChannel => some .closeChannel
  | _ => none

/-- "the step was accepted": in phase, and every installed check passes -/
def accepted (cfg : Cfg) (env : Env) (ph : Phase) : Req → Prop
  | .handshake _ _ ext => ph = .initialized ∧ (matchAuth cfg ext).isSome
  | .tunnelCreate c => ph = .handshake ∧ (cfg.hasCookieCheck = true → env.cookieOk c = true)
  | .tunnelAuth cl => ph = .tunnelCreate ∧ (cfg.hasClientCheck = true → env.clientOk cl = true)
  | .channelCreate h => ph = .tunnelAuthorize ∧ (cfg.hasHostCheck = true → env.hostOk h = true) ∧
      env.dialOk h = true
  | .closeChannel => ph = .opened
  | _ => False

/-- **Type matches and status is truthful.** Every response produced by a step has the type that
    answers the request, and carries status 0 if and only if the step was accepted. -/
theorem status_zero_iff_accepted (cfg : Cfg) (env : Env) (ph : Phase) (r : Req) (x : Resp)
    (hx : Ev.resp x ∈ (step cfg env ph r).evs) :
    answers r = some x.rt ∧ (x.status = 0 ↔ accepted cfg env ph r) := by
  have k1 : E_PROXY_INTERNALERROR ≠ 0 := by decide
  have k2 : E_PROXY_CAPABILITYMISMATCH ≠ 0 := by decide
  have k3 : E_PROXY_COOKIE_AUTHENTICATION_ACCESS_DENIED ≠ 0 := by decide
  have k4 : E_PROXY_RAP_ACCESSDENIED ≠ 0 := by decide
  have k5 : ERROR_ACCESS_DENIED ≠ 0 := by decide
  have k6 : ERROR_SUCCESS = 0 := by decide
  cases r with
  | handshake ma mi ext =>
    simp only [step] at hx
    by_cases hp : ph = .initialized
    · subst hp
      cases hm : matchAuth cfg ext with
      | none =>
        simp [hm] at hx; subst hx
        simp [answers, Resp.rt, Resp.status, accepted, hm, k2]
      | some c =>
        simp [hm] at hx; subst hx
        simp [answers, Resp.rt, Resp.status, accepted, hm, k6]
    · simp [hp] at hx; subst hx
      simp [answers, Resp.rt, Resp.status, accepted, hp, k1]
  | tunnelCreate cookie =>
    simp only [step] at hx
    by_cases hp : ph = .handshake
    · subst hp
      by_cases hc : (cfg.hasCookieCheck && !env.cookieOk cookie) = true
      · simp [hc] at hx; subst hx
        simp at hc
        simp [answers, Resp.rt, Resp.status, accepted, hc, k3]
      · simp [hc] at hx; subst hx
        simp at hc
        simp [answers, Resp.rt, Resp.status, accepted, k6]
        exact hc
    · simp [hp] at hx; subst hx
      simp [answers, Resp.rt, Resp.status, accepted, hp, k1]
  | tunnelAuth client =>
    simp only [step] at hx
    by_cases hp : ph = .tunnelCreate
    · subst hp
      by_cases hc : (cfg.hasClientCheck && !env.clientOk client) = true
      · simp [hc] at hx; subst hx
        simp at hc
        simp [answers, Resp.rt, Resp.status, accepted, hc, k5, authResp]
      · simp [hc] at hx; subst hx
        simp at hc
        simp [answers, Resp.rt, Resp.status, accepted, k6, authResp]
        exact hc
    · simp [hp] at hx; subst hx
      simp [answers, Resp.rt, Resp.status, accepted, hp, k1, authResp]
  | channelCreate host =>
    simp only [step] at hx
    by_cases hp : ph = .tunnelAuthorize
    · subst hp
      simp only [ne_eq, not_true_eq_false, if_false] at hx
      by_cases hc : (cfg.hasHostCheck && !env.hostOk host) = true
      · rw [if_pos hc] at hx
        simp at hx; subst hx
        simp at hc
        simp [answers, Resp.rt, Resp.status, accepted, hc, k4]
      · rw [if_neg hc] at hx
        simp at hc
        by_cases hd : env.dialOk host = true
        · simp [hd] at hx
          subst hx
          simp [answers, Resp.rt, Resp.status, accepted, k6, hd]
          exact hc
        · simp [hd] at hx
          subst hx
          simp [answers, Resp.rt, Resp.status, accepted, k1, hd]
    · simp [hp] at hx; subst hx
      simp [answers, Resp.rt, Resp.status, accepted, hp, k1]
  | data payload =>
    simp only [step] at hx
    split at hx <;> simp at hx
  | keepalive =>
    simp only [step] at hx
    split at hx <;> simp at hx
  | closeChannel =>
    simp only [step] at hx
    by_cases hp : ph = .opened
    · subst hp
      simp at hx; subst hx
      simp [answers, Resp.rt, Resp.status, accepted, k6]
    · simp [hp] at hx
  | unknown ty => simp [step] at hx

/-- every response a step produces fits the wire format, hence `wire_decodes` applies to it -/
theorem step_resp_inRange (cfg : Cfg) (env : Env) (ph : Phase) (r : Req) (x : Resp)
    (hr : ∀ ma mi ext, r = .handshake ma mi ext → ma < 256 ∧ mi < 256)
    (hx : Ev.resp x ∈ (step cfg env ph r).evs) : InRange x := by
  have k1 : E_PROXY_INTERNALERROR < 4294967296 := by decide
  have k2 : E_PROXY_CAPABILITYMISMATCH < 4294967296 := by decide
  have k3 : E_PROXY_COOKIE_AUTHENTICATION_ACCESS_DENIED < 4294967296 := by decide
  have k4 : E_PROXY_RAP_ACCESSDENIED < 4294967296 := by decide
  have k5 : ERROR_ACCESS_DENIED < 4294967296 := by decide
  have k6 : ERROR_SUCCESS < 4294967296 := by decide
  have hredir : ∀ f, makeRedirectFlags f < 4294967296 := by
    intro f
    obtain ⟨a, b, c, d, e, g, i⟩ := f
    cases a <;> cases b <;> cases c <;> cases d <;> cases e <;> cases g <;> cases i <;> decide
  have hidle : ∀ i, idleField i < 4294967296 := by
    intro i; unfold idleField; split
    · decide
    · exact Nat.mod_lt _ (by decide)
  have hcaps : ∀ c, serverCaps c < 65536 := by
    intro c; unfold serverCaps
    cases c.smartCard <;> cases c.tokenAuth <;> decide
  cases r with
  | handshake ma mi ext =>
    obtain ⟨hma, hmi⟩ := hr ma mi ext rfl
    simp only [step] at hx
    by_cases hp : ph = .initialized
    · subst hp
      cases hm : matchAuth cfg ext with
      | none => simp [hm] at hx; subst hx; exact ⟨k2, by decide, by decide, by decide⟩
      | some c =>
        simp [hm] at hx; subst hx
        have : c = serverCaps cfg := by
          unfold matchAuth at hm
          split at hm
          · cases hm
          · split at hm
            · cases hm
            · cases hm; rfl
        exact ⟨k6, hma, hmi, this ▸ hcaps cfg⟩
    · simp [hp] at hx; subst hx; exact ⟨k1, by decide, by decide, by decide⟩
  | tunnelCreate cookie =>
    simp only [step] at hx
    split at hx
    · simp at hx; subst hx; exact k1
    · split at hx
      · simp at hx; subst hx; exact k3
      · simp at hx; subst hx; exact k6
  | tunnelAuth client =>
    simp only [step] at hx
    split at hx
    · simp at hx; subst hx; exact ⟨k1, hredir _, hidle _⟩
    · split at hx
      · simp at hx; subst hx; exact ⟨k5, hredir _, hidle _⟩
      · simp at hx; subst hx; exact ⟨k6, hredir _, hidle _⟩
  | channelCreate host =>
    simp only [step] at hx
    split at hx
    · simp at hx; subst hx; exact k1
    · split at hx
      · simp at hx; subst hx; exact k4
      · split at hx
        · simp at hx; subst hx; exact k1
        · simp at hx; subst hx; exact k6
  | data payload => simp only [step] at hx; split at hx <;> simp at hx
  | keepalive => simp only [step] at hx; split at hx <;> simp at hx
  | closeChannel =>
    simp only [step] at hx
    split at hx
    · simp at hx
    · simp at hx; subst hx; exact k6
  | unknown ty => simp [step] at hx

/-- **Redirection policy is reported truthfully**, for all 2⁷ switch settings: a device class is
    redirectable for the client iff disable-all is off and (enable-all is on or its switch is on);
    in particular disable-all beats enable-all. -/
theorem redirect_iff_enabled (f : Redirect) :
    let w := makeRedirectFlags f
    redirectable w REDIR_DISABLE_DRIVE = (!f.disableAll && (f.enableAll || f.drive)) ∧
    redirectable w REDIR_DISABLE_PRINTER = (!f.disableAll && (f.enableAll || f.printer)) ∧
    redirectable w REDIR_DISABLE_PORT = (!f.disableAll && (f.enableAll || f.port)) ∧
    redirectable w REDIR_DISABLE_CLIPBOARD = (!f.disableAll && (f.enableAll || f.clipboard)) ∧
    redirectable w REDIR_DISABLE_PNP = (!f.disableAll && (f.enableAll || f.pnp)) := by
  obtain ⟨a, b, c, d, e, g, i⟩ := f
  cases a <;> cases b <;> cases c <;> cases d <;> cases e <;> cases g <;> cases i <;> decide

/-- disable-all and enable-all are reported as such, disable-all taking precedence -/
theorem redirect_all_flags (f : Redirect) :
    (f.disableAll = true → makeRedirectFlags f = REDIR_DISABLE_ALL) ∧
    (f.disableAll = false → f.enableAll = true → makeRedirectFlags f = REDIR_ENABLE_ALL) := by
  constructor
  · intro h; simp [makeRedirectFlags, h]; decide
  · intro h1 h2; simp [makeRedirectFlags, h1, h2]; decide

/-- **Idle timeout**: negative values are reported as 0, values in the uint32 range unchanged. -/
theorem idle_timeout (i : Int) :
    (i < 0 → idleField i = 0) ∧ (0 ≤ i → i < 4294967296 → (idleField i : Int) = i) := by
  constructor
  · intro h; simp [idleField, h]
  · intro h0 h1
    have : ¬ i < 0 := by omega
    simp only [idleField, this, if_false]
    have h2 : i.toNat < 4294967296 := by omega
    rw [Nat.mod_eq_of_lt h2]
    omega

/-- the tunnel-authorization response carries exactly the configured policy -/
theorem auth_response_reports_policy (cfg : Cfg) (st : Nat) :
    authResp cfg st = .tunnelAuth st (makeRedirectFlags cfg.redirect) (idleField cfg.idleTimeout) := rfl

/-- every DATA packet sent to the client is well-formed: header length = bytes sent and the
    payload-length field equals the payload carried (for every backend read of < 64 KiB − 10) -/
theorem data_packet_wellformed (chunk : Bytes) (h : chunk.length < 65536) :
    decode (dataPacket chunk) = some (.data chunk) := by
  unfold dataPacket
  rw [decode_enc _ _ (by decide) (by simp; omega)]
  simp only [decodeBody]
  have e1 : ¬ PKT_TYPE_DATA = T_HANDSHAKE_RESPONSE := by decide
  have e2 : ¬ PKT_TYPE_DATA = T_TUNNEL_RESPONSE := by decide
  have e3 : ¬ PKT_TYPE_DATA = T_TUNNEL_AUTH_RESPONSE := by decide
  have e4 : ¬ (PKT_TYPE_DATA = T_CHANNEL_RESPONSE ∨ PKT_TYPE_DATA = T_CLOSE_CHANNEL_RESPONSE) := by decide
  have e5 : PKT_TYPE_DATA = T_DATA := by decide
  rw [if_neg e1, if_neg e2, if_neg e3, if_neg e4, if_pos e5, getU16_le16 _ h]
  simp

/-- non-vacuity: a concrete accepted and a concrete refused step -/
example : InRange (.tunnelAuth 0 0x1F 30) := by simp [InRange]
example : decode (Resp.wire (.channel E_PROXY_RAP_ACCESSDENIED)) =
    some (.channel 0x800759DA 1 (some 1) none) := by decide

end Rdpgw.C16
