import Rdpgw.Model.Config
import Rdpgw.Generated.ConfigFacts

/-!
# C18 — the regenerated facts of `config.Load` are the ones the startup model implements

`Generated/ConfigFacts.lean` is rewritten from the Go text on every run: the key-length rules (which
secret is replaced by a fresh random string, under which length test, inside which enclosing
condition) and the conditions under which `Load` ends the process.  Every fact the extractor found
must be one of the model's: a length test other than `!= 32`, a fresh key of another length, a rule
moved under a condition, or a changed refusal condition makes a `facts_*` theorem false; rules or
checks moved into helpers only make the extractor find fewer facts (a note in the evidence).
-/

namespace Rdpgw.C18

open Rdpgw Rdpgw.Config

/-- the model's key rules in the extractor's encoding: (field, 0 = `!=`, 32, 32, enclosing condition) -/
def modelKeyRules : List (List Nat × Nat × Nat × Nat × List Nat) := [
  ([67, 111, 110, 102, 46, 83, 101, 99, 117, 114, 105, 116, 121, 46, 80, 65, 65, 84, 111, 107, 101, 110, 69, 110, 99, 114, 121, 112, 116, 105, 111, 110, 75, 101, 121], 0, 32, 32, []),
  ([67, 111, 110, 102, 46, 83, 101, 99, 117, 114, 105, 116, 121, 46, 80, 65, 65, 84, 111, 107, 101, 110, 83, 105, 103, 110, 105, 110, 103, 75, 101, 121], 0, 32, 32, []),
  ([67, 111, 110, 102, 46, 83, 101, 99, 117, 114, 105, 116, 121, 46, 85, 115, 101, 114, 84, 111, 107, 101, 110, 69, 110, 99, 114, 121, 112, 116, 105, 111, 110, 75, 101, 121], 0, 32, 32, [67, 111, 110, 102, 46, 83, 101, 99, 117, 114, 105, 116, 121, 46, 69, 110, 97, 98, 108, 101, 85, 115, 101, 114, 84, 111, 107, 101, 110]),
  ([67, 111, 110, 102, 46, 83, 101, 114, 118, 101, 114, 46, 83, 101, 115, 115, 105, 111, 110, 75, 101, 121], 0, 32, 32, []),
  ([67, 111, 110, 102, 46, 83, 101, 114, 118, 101, 114, 46, 83, 101, 115, 115, 105, 111, 110, 69, 110, 99, 114, 121, 112, 116, 105, 111, 110, 75, 101, 121], 0, 32, 32, [])]

/-- the model's refusal conditions as the Go text spells them -/
def modelFatals : List (List Nat) := [
  [67, 111, 110, 102, 46, 83, 101, 114, 118, 101, 114, 46, 72, 111, 115, 116, 83, 101, 108, 101, 99, 116, 105, 111, 110, 32, 61, 61, 32, 34, 115, 105, 103, 110, 101, 100, 34, 32, 38, 38, 32, 108, 101, 110, 40, 67, 111, 110, 102, 46, 83, 101, 99, 117, 114, 105, 116, 121, 46, 81, 117, 101, 114, 121, 84, 111, 107, 101, 110, 83, 105, 103, 110, 105, 110, 103, 75, 101, 121, 41, 32, 61, 61, 32, 48],
  [67, 111, 110, 102, 46, 83, 101, 114, 118, 101, 114, 46, 66, 97, 115, 105, 99, 65, 117, 116, 104, 69, 110, 97, 98, 108, 101, 100, 40, 41, 32, 38, 38, 32, 67, 111, 110, 102, 46, 83, 101, 114, 118, 101, 114, 46, 84, 108, 115, 32, 61, 61, 32, 34, 100, 105, 115, 97, 98, 108, 101, 34],
  [67, 111, 110, 102, 46, 83, 101, 114, 118, 101, 114, 46, 78, 116, 108, 109, 69, 110, 97, 98, 108, 101, 100, 40, 41, 32, 38, 38, 32, 67, 111, 110, 102, 46, 83, 101, 114, 118, 101, 114, 46, 75, 101, 114, 98, 101, 114, 111, 115, 69, 110, 97, 98, 108, 101, 100, 40, 41],
  [33, 67, 111, 110, 102, 46, 67, 97, 112, 115, 46, 84, 111, 107, 101, 110, 65, 117, 116, 104, 32, 38, 38, 32, 67, 111, 110, 102, 46, 83, 101, 114, 118, 101, 114, 46, 79, 112, 101, 110, 73, 68, 69, 110, 97, 98, 108, 101, 100, 40, 41],
  [67, 111, 110, 102, 46, 83, 101, 114, 118, 101, 114, 46, 75, 101, 114, 98, 101, 114, 111, 115, 69, 110, 97, 98, 108, 101, 100, 40, 41, 32, 38, 38, 32, 67, 111, 110, 102, 46, 75, 101, 114, 98, 101, 114, 111, 115, 46, 75, 101, 121, 116, 97, 98, 32, 61, 61, 32, 34, 34]]

/-- what a key rule `len(k) != 32 → fresh 32-character key` means in the model -/
theorem key_rule_sound (configured fresh : Bytes) (hf : fresh.length = 32) :
    (pick configured fresh).length = 32 ∧ (configured.length = 32 → pick configured fresh = configured) ∧
    (configured.length ≠ 32 → pick configured fresh = fresh) := by
  unfold pick
  by_cases h : configured.length ≠ 32
  · simp [h, hf]
  · have h' : configured.length = 32 := by omega
    simp [h']

/-- the user-token encryption key is subject to its rule only when user tokens are enabled (the
    enclosing condition of that rule) -/
theorem user_key_rule_guarded (r : Raw) (rnd : Nat → Bytes) :
    (r.enableUserToken = false → (effective r rnd).userEncKey = r.userEncKey) ∧
    (r.enableUserToken = true → (effective r rnd).userEncKey = pick r.userEncKey (rnd 2)) := by
  constructor <;> intro h <;> simp [effective, h]

/-- every key rule found in `config.Load` now is one of the model's five -/
theorem facts_key_rules : ∀ k ∈ Generated.ConfigFacts.keyRules, k ∈ modelKeyRules := by decide

/-- every refusal condition found in `config.Load` now is one of the model's five -/
theorem facts_fatals : ∀ f ∈ Generated.ConfigFacts.fatals, f ∈ modelFatals := by decide

end Rdpgw.C18
