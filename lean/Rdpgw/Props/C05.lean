import Rdpgw.Model.Http

/-!
# C05 — the gateway endpoint needs confirmed credentials of an enabled scheme
-/

namespace Rdpgw.C05

open Rdpgw Rdpgw.Http

/-- "the request carries credentials of an enabled scheme that the backend confirmed for user `u`" -/
def Confirmed (m : Mechs) (b : Backend) (r : Req) (u : Bytes) : Prop :=
  (m.ntlm = true ∧ (r.hasNTLM = true ∨ r.hasNegotiate = true) ∧
      ((∃ msg, r.cred = .ntlm msg ∧ b.ntlm msg = some (some u)) ∨
       (∃ msg, r.cred = .negotiate msg ∧ b.ntlm msg = some (some u)))) ∨
  (m.basic = true ∧ r.hasBasic = true ∧ ¬ (m.ntlm = true ∧ (r.hasNTLM = true ∨ r.hasNegotiate = true)) ∧
      ∃ p, r.cred = .basic u p ∧ b.basicOk u p = true) ∨
  (m.kerberos = true ∧ r.hasNegotiate = true ∧ ¬ (m.ntlm = true) ∧ ¬ (m.basic = true ∧ r.hasBasic = true) ∧
      ∃ msg, r.cred = .negotiate msg ∧ b.spnego msg = some u)

def openidOnly (m : Mechs) : Bool := m.openid && !m.kerberos && !m.basic && !m.ntlm

/-- **Handler iff confirmed.** For every mechanism combination other than OpenID alone and every
    request: the tunnel handler is reached if and only if the request carries credentials of an
    enabled scheme that the backend confirmed, and the user name handed to the tunnel is the
    confirmed one. -/
theorem handler_iff (m : Mechs) (b : Backend) (r : Req) (h : openidOnly m = false) (u : Option Bytes) :
    route m b r = .handler u ↔ ∃ v, u = some v ∧ Confirmed m b r v := by
  unfold openidOnly at h
  unfold route
  simp only [h, Bool.false_eq_true, if_false]
  by_cases hc : r.cred = .none
  · simp only [hc, if_true]
    constructor
    · intro hh; cases hh
    · rintro ⟨v, _, hv⟩
      rcases hv with ⟨_, _, h3⟩ | ⟨_, _, _, ⟨p, hp, _⟩⟩ | ⟨_, _, _, _, ⟨msg, hm, _⟩⟩
      · rcases h3 with ⟨msg, hm, _⟩ | ⟨msg, hm, _⟩ <;> (rw [hc] at hm; cases hm)
      · rw [hc] at hp; cases hp
      · rw [hc] at hm; cases hm
  · simp only [hc, if_false]
    by_cases hn : m.ntlm = true ∧ (r.hasNTLM = true ∨ r.hasNegotiate = true)
    · -- one of the two NTLM routes takes the request
      obtain ⟨hn1, hn2⟩ := hn
      have hroute : (if (m.ntlm && r.hasNTLM) = true then ntlmHandler b r.cred
          else if (m.ntlm && r.hasNegotiate) = true then ntlmHandler b r.cred
          else if (m.basic && r.hasBasic) = true then basicHandler b r.cred
          else if (m.kerberos && r.hasNegotiate) = true then spnegoHandler b r.cred
          else Outcome.notFound) = ntlmHandler b r.cred := by
        rcases hn2 with h2 | h2 <;> simp [hn1, h2]
      rw [hroute]
      unfold ntlmHandler
      constructor
      · intro hh
        cases hcred : r.cred with
        | none => exact absurd hcred hc
        | basic x y => simp [hcred] at hh
        | other => simp [hcred] at hh
        | ntlm msg =>
          simp only [hcred] at hh
          cases hb : b.ntlm msg with
          | none => simp [hb] at hh
          | some o =>
            cases o with
            | none => simp only [hb] at hh; split at hh <;> cases hh
            | some w =>
              simp only [hb] at hh
              injection hh with hh
              exact ⟨w, hh.symm, Or.inl ⟨hn1, hn2, Or.inl ⟨msg, hcred, hb⟩⟩⟩
        | negotiate msg =>
          simp only [hcred] at hh
          cases hb : b.ntlm msg with
          | none => simp [hb] at hh
          | some o =>
            cases o with
            | none => simp only [hb] at hh; split at hh <;> cases hh
            | some w =>
              simp only [hb] at hh
              injection hh with hh
              exact ⟨w, hh.symm, Or.inl ⟨hn1, hn2, Or.inr ⟨msg, hcred, hb⟩⟩⟩
      · rintro ⟨v, rfl, hv⟩
        rcases hv with ⟨_, _, h3⟩ | ⟨_, _, hnot, _⟩ | ⟨_, _, hnot, _⟩
        · rcases h3 with ⟨msg, hm, hb⟩ | ⟨msg, hm, hb⟩ <;> simp [hm, hb]
        · exact absurd ⟨hn1, hn2⟩ hnot
        · exact absurd hn1 hnot
    · have hn' : ¬ ((m.ntlm && r.hasNTLM) = true) ∧ ¬ ((m.ntlm && r.hasNegotiate) = true) := by
        constructor <;> (intro hx; simp at hx; exact hn ⟨hx.1, by simp [hx.2]⟩)
      simp only [hn'.1, hn'.2, if_false]
      by_cases hbm : m.basic = true ∧ r.hasBasic = true
      · have : (m.basic && r.hasBasic) = true := by simp [hbm.1, hbm.2]
        simp only [this, if_true]
        unfold basicHandler
        constructor
        · intro hh
          cases hcred : r.cred with
          | none => exact absurd hcred hc
          | ntlm x => simp [hcred] at hh
          | negotiate x => simp [hcred] at hh
          | other => simp [hcred] at hh
          | basic x y =>
            simp only [hcred] at hh
            by_cases hok : b.basicOk x y = true
            · simp only [hok, if_true] at hh
              injection hh with hh
              exact ⟨x, hh.symm, Or.inr (Or.inl ⟨hbm.1, hbm.2, hn, ⟨y, hcred, hok⟩⟩)⟩
            · simp [hok] at hh
        · rintro ⟨v, rfl, hv⟩
          rcases hv with ⟨a1, a2, _⟩ | ⟨_, _, _, ⟨p, hp, hok⟩⟩ | ⟨_, _, _, hnb, _⟩
          · exact absurd ⟨a1, a2⟩ hn
          · simp [hp, hok]
          · exact absurd hbm hnb
      · have hb' : ¬ ((m.basic && r.hasBasic) = true) := by
          intro hx; simp at hx; exact hbm hx
        simp only [hb', if_false]
        by_cases hk : m.kerberos = true ∧ r.hasNegotiate = true
        · have : (m.kerberos && r.hasNegotiate) = true := by simp [hk.1, hk.2]
          simp only [this, if_true]
          have hnn : ¬ m.ntlm = true := by
            intro e; exact hn ⟨e, Or.inr hk.2⟩
          unfold spnegoHandler
          constructor
          · intro hh
            cases hcred : r.cred with
            | none => exact absurd hcred hc
            | ntlm x => simp [hcred] at hh
            | basic x y => simp [hcred] at hh
            | other => simp [hcred] at hh
            | negotiate msg =>
              simp only [hcred] at hh
              cases hs : b.spnego msg with
              | none => simp [hs] at hh
              | some w =>
                simp only [hs] at hh
                injection hh with hh
                exact ⟨w, hh.symm, Or.inr (Or.inr ⟨hk.1, hk.2, hnn, hbm, ⟨msg, hcred, hs⟩⟩)⟩
          · rintro ⟨v, rfl, hv⟩
            rcases hv with ⟨a1, _, _⟩ | ⟨a1, a2, _⟩ | ⟨_, _, _, _, ⟨msg, hm, hs⟩⟩
            · exact absurd a1 hnn
            · exact absurd ⟨a1, a2⟩ hbm
            · simp [hm, hs]
        · have hk' : ¬ ((m.kerberos && r.hasNegotiate) = true) := by
            intro hx; simp at hx; exact hk hx
          simp only [hk', if_false]
          constructor
          · intro hh; cases hh
          · rintro ⟨v, _, hv⟩
            rcases hv with ⟨a1, a2, _⟩ | ⟨a1, a2, _⟩ | ⟨a1, a2, _⟩
            · exact absurd ⟨a1, a2⟩ hn
            · exact absurd ⟨a1, a2⟩ hbm
            · exact absurd ⟨a1, a2⟩ hk

/-- **No Authorization header → 401 with one challenge per enabled HTTP scheme** (`ntlm` enables NTLM
    and Negotiate, `local` Basic, `kerberos` Negotiate). -/
theorem no_header_401 (m : Mechs) (b : Backend) (r : Req) (h : openidOnly m = false) (hc : r.cred = .none) :
    route m b r = .unauthorized (challenges m) := by
  unfold openidOnly at h
  simp [route, h, hc]

/-- for a startable combination the challenges are pairwise distinct: exactly one per scheme -/
theorem challenges_distinct (m : Mechs) (h : m.startable = true) : (challenges m).Nodup := by
  obtain ⟨o, k, bsc, n⟩ := m
  cases o <;> cases k <;> cases bsc <;> cases n <;> simp [Mechs.startable] at h <;> decide

/-- **With OpenID alone the endpoint is open at HTTP level** (the access cookie is the gate). -/
theorem openid_only_open (m : Mechs) (b : Backend) (r : Req) (h : openidOnly m = true) :
    route m b r = .handler none := by
  unfold openidOnly at h
  simp [route, h]

/-- wrong, malformed or disabled-scheme credentials never reach the handler -/
theorem never_handler_otherwise (m : Mechs) (b : Backend) (r : Req) (h : openidOnly m = false)
    (hno : ∀ v, ¬ Confirmed m b r v) : ∀ u, route m b r ≠ .handler u := by
  intro u hu
  obtain ⟨v, _, hv⟩ := (handler_iff m b r h u).mp hu
  exact hno v hv

/-! ### The same, from the header's octets

`Http.classify` is what the route table and the handlers make of the `Authorization` values
(`Header.Get`, `r.BasicAuth()`, `HeadersRegexp`); the correspondence hands the raw values to the model. -/

theorem cutColon_spec (c u p : Bytes) (h : cutColon c = some (u, p)) : c = u ++ [58] ++ p ∧ (58 : UInt8) ∉ u := by
  induction c generalizing u with
  | nil => simp [cutColon] at h
  | cons x xs ih =>
    unfold cutColon at h
    by_cases hx : x = 58
    · simp only [hx, if_true, Option.some.injEq, Prod.mk.injEq] at h
      obtain ⟨rfl, rfl⟩ := h
      simp [hx]
    · simp only [hx, if_false, Option.map_eq_some_iff] at h
      obtain ⟨⟨u', p'⟩, hc, he⟩ := h
      simp only [Prod.mk.injEq] at he
      obtain ⟨rfl, rfl⟩ := he
      obtain ⟨h1, h2⟩ := ih u' hc
      refine ⟨by rw [h1]; simp, ?_⟩
      intro hm
      rcases List.mem_cons.mp hm with e | e
      · exact hx e.symm
      · exact h2 e

/-- **No value, or an empty first value: 401** with the enabled schemes' challenges. -/
theorem no_value_401 (m : Mechs) (b : Backend) (rest : List Bytes) (h : openidOnly m = false) :
    route m b (classify []) = .unauthorized (challenges m) ∧
    route m b (classify ([] :: rest)) = .unauthorized (challenges m) := by
  constructor <;> exact no_header_401 m b _ h (by simp [classify, credOf])

/-- what a first value must look like for `credOf` to yield each kind of credential -/
theorem credOf_ntlm (first msg : Bytes) (h : credOf first = .ntlm msg) : first = kwNTLM ++ [32] ++ msg := by
  unfold credOf at h
  split at h
  · cases h
  · split at h
    · split at h
      · split at h <;> cases h
      · cases h
    · split at h
      · rename_i hp
        injection h with h
        have := List.prefix_iff_eq_append.mp (List.isPrefixOf_iff_prefix.mp hp)
        rw [← this]
        simp [kwNTLM] at h ⊢
        exact h
      · split at h <;> cases h

theorem credOf_negotiate (first msg : Bytes) (h : credOf first = .negotiate msg) :
    first = kwNegotiate ++ [32] ++ msg := by
  unfold credOf at h
  split at h
  · cases h
  · split at h
    · split at h
      · split at h <;> cases h
      · cases h
    · split at h
      · cases h
      · split at h
        · rename_i hp
          injection h with h
          have := List.prefix_iff_eq_append.mp (List.isPrefixOf_iff_prefix.mp hp)
          rw [← this]
          simp [kwNegotiate] at h ⊢
          exact h
        · cases h

theorem credOf_basic (first u p : Bytes) (h : credOf first = .basic u p) :
    eqFold (first.take 6) (kwBasic ++ [32]) = true ∧
    ∃ c, b64decode (first.drop 6) = some c ∧ c = u ++ [58] ++ p ∧ (58 : UInt8) ∉ u := by
  unfold credOf at h
  split at h
  · cases h
  · split at h
    · rename_i hb
      split at h
      · rename_i c hc
        split at h
        · rename_i u' p' hcut
          injection h with h1 h2
          subst h1; subst h2
          exact ⟨hb.2, c, hc, cutColon_spec c _ _ hcut⟩
        · cases h
      · cases h
    · split at h
      · cases h
      · split at h <;> cases h

/-- **Handler, from the octets.** Whatever `Authorization` values a request carries, it reaches the
    tunnel handler as user `u` only if its *first* value is `NTLM <msg>` or `Negotiate <msg>` with a
    message the backend authenticated as `u`, or `Basic <base64 of u:p>` (scheme in any case, `u`
    without a colon) with the pair confirmed by the backend — and the mechanism is enabled. -/
theorem handler_from_octets (m : Mechs) (b : Backend) (values : List Bytes) (h : openidOnly m = false)
    (u : Option Bytes) (hr : route m b (classify values) = .handler u) :
    ∃ v first rest, u = some v ∧ values = first :: rest ∧
      ((m.ntlm = true ∧ ∃ msg, (first = kwNTLM ++ [32] ++ msg ∨ first = kwNegotiate ++ [32] ++ msg) ∧
          b.ntlm msg = some (some v)) ∨
       (m.basic = true ∧ eqFold (first.take 6) (kwBasic ++ [32]) = true ∧
          ∃ p, b64decode (first.drop 6) = some (v ++ [58] ++ p) ∧ (58 : UInt8) ∉ v ∧ b.basicOk v p = true) ∨
       (m.kerberos = true ∧ ∃ msg, first = kwNegotiate ++ [32] ++ msg ∧ b.spnego msg = some v)) := by
  obtain ⟨v, hv, hc⟩ := (handler_iff m b _ h u).mp hr
  cases values with
  | nil =>
    exfalso
    have hcred : (classify []).cred = .none := by simp [classify, credOf]
    rcases hc with ⟨_, _, h3⟩ | ⟨_, _, _, ⟨p, hp, _⟩⟩ | ⟨_, _, _, _, ⟨msg, hm, _⟩⟩
    · rcases h3 with ⟨msg, hm, _⟩ | ⟨msg, hm, _⟩ <;> (rw [hcred] at hm; cases hm)
    · rw [hcred] at hp; cases hp
    · rw [hcred] at hm; cases hm
  | cons first rest =>
    refine ⟨v, first, rest, hv, rfl, ?_⟩
    have hcred : (classify (first :: rest)).cred = credOf first := by simp [classify]
    rcases hc with ⟨hn, _, h3⟩ | ⟨hb, _, _, ⟨p, hp, hok⟩⟩ | ⟨hk, _, _, _, ⟨msg, hm, hs⟩⟩
    · refine Or.inl ⟨hn, ?_⟩
      rcases h3 with ⟨msg, hm, hb⟩ | ⟨msg, hm, hb⟩
      · rw [hcred] at hm; exact ⟨msg, Or.inl (credOf_ntlm _ _ hm), hb⟩
      · rw [hcred] at hm; exact ⟨msg, Or.inr (credOf_negotiate _ _ hm), hb⟩
    · rw [hcred] at hp
      obtain ⟨hf, c, hdec, hc, hnc⟩ := credOf_basic _ _ _ hp
      exact Or.inr (Or.inl ⟨hb, hf, p, by rw [hdec, hc], hnc, hok⟩)
    · rw [hcred] at hm
      exact Or.inr (Or.inr ⟨hk, msg, credOf_negotiate _ _ hm, hs⟩)

/-- later values never supply credentials: two requests with the same first value and the same
    keyword occurrences are routed alike -/
theorem only_first_value_counts (m : Mechs) (b : Backend) (first : Bytes) (rest rest' : List Bytes)
    (hn : (first :: rest).any (containsSub kwNTLM) = (first :: rest').any (containsSub kwNTLM))
    (hg : (first :: rest).any (containsSub kwNegotiate) = (first :: rest').any (containsSub kwNegotiate))
    (hb : (first :: rest).any (containsSub kwBasic) = (first :: rest').any (containsSub kwBasic)) :
    route m b (classify (first :: rest)) = route m b (classify (first :: rest')) := by
  have : classify (first :: rest) = classify (first :: rest') := by
    simp only [classify, List.headD_cons, hn, hg, hb]
  rw [this]

/-- non-vacuity: `basic YTpw` ("a:p", scheme in lower case) reaches the handler as `a` -/
example :
    route ⟨true, false, true, false⟩ ⟨fun u p => u == [97] && p == [112], fun _ => none, fun _ => false, fun _ => none⟩
      (classify [[98, 97, 115, 105, 99, 32, 89, 84, 112, 119], [66, 97, 115, 105, 99]]) = .handler (some [97]) := by decide

/-! ### The base64 decoder is the standard one -/


theorem b64val_char : ∀ s : Fin 64, b64val (b64char s.val) = some s.val ∧ b64char s.val ≠ 61 := by decide

theorem b64val_char' (s : Nat) (h : s < 64) : b64val (b64char s) = some s ∧ b64char s ≠ 61 :=
  b64val_char ⟨s, h⟩

theorem ofNat_toNat (a : UInt8) : UInt8.ofNat a.toNat = a := by simp

theorem b64_roundtrip (x : Bytes) : b64decode (b64encode x) = some x := by
  induction x using b64encode.induct with
  | case1 => simp [b64encode, b64decode]
  | case2 a =>
    have ha := a.toNat_lt
    have h1 := b64val_char' (a.toNat / 4) (by omega)
    have h2 := b64val_char' (a.toNat % 4 * 16) (by omega)
    simp only [b64encode, b64decode, and_self, if_true, h1.1, h2.1, Option.bind_eq_bind, Option.bind_some]
    have : (a.toNat / 4 * 64 + a.toNat % 4 * 16) / 16 = a.toNat := by omega
    rw [this, ofNat_toNat]
  | case3 a b =>
    have ha := a.toNat_lt
    have hb := b.toNat_lt
    have h1 := b64val_char' (a.toNat / 4) (by omega)
    have h2 := b64val_char' (a.toNat % 4 * 16 + b.toNat / 16) (by omega)
    have h3 := b64val_char' (b.toNat % 16 * 4) (by omega)
    simp only [b64encode, b64decode, and_self, if_true, h1.1, h2.1, h3.1, h3.2, if_false, Option.bind_eq_bind, Option.bind_some]
    have e1 : ((a.toNat / 4 * 64 + (a.toNat % 4 * 16 + b.toNat / 16)) * 64 + b.toNat % 16 * 4) / 1024 = a.toNat := by omega
    have e2 : ((a.toNat / 4 * 64 + (a.toNat % 4 * 16 + b.toNat / 16)) * 64 + b.toNat % 16 * 4) / 4 % 256 = b.toNat := by omega
    rw [e1, e2, ofNat_toNat, ofNat_toNat]
  | case4 a b c rest ih =>
    have ha := a.toNat_lt
    have hb := b.toNat_lt
    have hc := c.toNat_lt
    have h1 := b64val_char' (a.toNat / 4) (by omega)
    have h2 := b64val_char' (a.toNat % 4 * 16 + b.toNat / 16) (by omega)
    have h3 := b64val_char' (b.toNat % 16 * 4 + c.toNat / 64) (by omega)
    have h4 := b64val_char' (c.toNat % 64) (by omega)
    simp only [b64encode, b64decode, h4.2, and_false, if_false, h1.1, h2.1, h3.1, h4.1, ih, Option.bind_eq_bind, Option.bind_some]
    have e1 : (((a.toNat / 4 * 64 + (a.toNat % 4 * 16 + b.toNat / 16)) * 64 + (b.toNat % 16 * 4 + c.toNat / 64)) * 64 + c.toNat % 64) / 65536 = a.toNat := by omega
    have e2 : (((a.toNat / 4 * 64 + (a.toNat % 4 * 16 + b.toNat / 16)) * 64 + (b.toNat % 16 * 4 + c.toNat / 64)) * 64 + c.toNat % 64) / 256 % 256 = b.toNat := by omega
    have e3 : (((a.toNat / 4 * 64 + (a.toNat % 4 * 16 + b.toNat / 16)) * 64 + (b.toNat % 16 * 4 + c.toNat / 64)) * 64 + c.toNat % 64) % 256 = c.toNat := by omega
    rw [e1, e2, e3, ofNat_toNat, ofNat_toNat, ofNat_toNat]

theorem cutColon_of (u p : Bytes) (hu : (58 : UInt8) ∉ u) : cutColon (u ++ 58 :: p) = some (u, p) := by
  induction u with
  | nil => simp [cutColon]
  | cons x xs ih =>
    have hx : x ≠ 58 := fun e => hu (by simp [e])
    have hxs : (58 : UInt8) ∉ xs := fun e => hu (List.mem_cons_of_mem _ e)
    simp [cutColon, hx, ih hxs]

/-- **Credentials sent the standard way are read back exactly**: `Basic ` followed by the standard
    base64 of `u:p` (`u` without a colon) is parsed as the pair `(u, p)` — for every `u` and `p`. -/
theorem standard_basic_parsed (u p : Bytes) (hu : (58 : UInt8) ∉ u) :
    credOf (kwBasic ++ [32] ++ b64encode (u ++ [58] ++ p)) = .basic u p := by
  have hd : (kwBasic ++ [32] ++ b64encode (u ++ [58] ++ p)).drop 6 = b64encode (u ++ [58] ++ p) := by
    simp [kwBasic]
  have ht : (kwBasic ++ [32] ++ b64encode (u ++ [58] ++ p)).take 6 = kwBasic ++ [32] := by
    simp [kwBasic]
  have hl : (kwBasic ++ [32] ++ b64encode (u ++ [58] ++ p)).length ≥ 6 := by simp [kwBasic]
  have hne : (kwBasic ++ [32] ++ b64encode (u ++ [58] ++ p)) ≠ [] := by simp [kwBasic]
  have hcut : cutColon (u ++ [58] ++ p) = some (u, p) := by simpa using cutColon_of u p hu
  have hf : eqFold (kwBasic ++ [32]) (kwBasic ++ [32]) = true := by decide
  unfold credOf
  rw [if_neg hne, hd, ht, b64_roundtrip]
  simp only [hcut, hl, hf, and_self, if_true]

/-- **Right credentials are let in**: with `local` enabled and NTLM not, a single standard Basic
    value whose pair the backend confirms reaches the tunnel handler as that user. -/
theorem right_basic_accepted (m : Mechs) (b : Backend) (u p : Bytes) (hu : (58 : UInt8) ∉ u)
    (hb : m.basic = true) (hn : m.ntlm = false) (hok : b.basicOk u p = true) :
    route m b (classify [kwBasic ++ [32] ++ b64encode (u ++ [58] ++ p)]) = .handler (some u) := by
  have hc := standard_basic_parsed u p hu
  have hhas : containsSub kwBasic (kwBasic ++ [32] ++ b64encode (u ++ [58] ++ p)) = true := by
    simp [kwBasic, containsSub, List.isPrefixOf]
  generalize kwBasic ++ [32] ++ b64encode (u ++ [58] ++ p) = v at hc hhas
  simp [route, classify, hc, hhas, hb, hn, basicHandler, hok]

/-- non-vacuity: local+openid, correct Basic credentials reach the handler as that user -/
example :
    route ⟨true, false, true, false⟩ ⟨fun u p => u == [97] && p == [112], fun _ => none, fun _ => false, fun _ => none⟩
      ⟨.basic [97] [112], false, false, true⟩ = .handler (some [97]) := by decide
example :
    route ⟨true, false, true, false⟩ ⟨fun u p => u == [97] && p == [112], fun _ => none, fun _ => false, fun _ => none⟩
      ⟨.basic [97] [113], false, false, true⟩ = .unauthorized [.basic] := by decide

end Rdpgw.C05
