import Rdpgw.Model.Http

/-!
# C05 — the gateway endpoint needs confirmed credentials of an enabled scheme
-/

namespace Rdpgw.C05

open Rdpgw Rdpgw.Http

/-- "the request carries credentials of an enabled scheme that the backend confirmed for user `u`" -/
def Confirmed (m : Mechs) (b : Backend) (r : Req) (u : Bytes) : Prop :=
  (m.ntlm = true ∧ (r.hasNTLM = true ∨ r.hasNegotiate = true) ∧
      ((∃ msg, r.cred = .ntlm msg ∧ b.ntlm msg = some (some u)) ∨
       (∃ msg, r.cred = .negotiate msg ∧ b.ntlm msg = some (some u)))) ∨
  (m.basic = true ∧ r.hasBasic = true ∧ ¬ (m.ntlm = true ∧ (r.hasNTLM = true ∨ r.hasNegotiate = true)) ∧
      ∃ p, r.cred = .basic u p ∧ b.basicOk u p = true) ∨
  (m.kerberos = true ∧ r.hasNegotiate = true ∧ ¬ (m.ntlm = true) ∧ ¬ (m.basic = true ∧ r.hasBasic = true) ∧
      ∃ msg, r.cred = .negotiate msg ∧ b.spnego msg = some u)

def openidOnly (m : Mechs) : Bool := m.openid && !m.kerberos && !m.basic && !m.ntlm

/-- **Handler iff confirmed.** For every mechanism combination other than OpenID alone and every
    request: the tunnel handler is reached if and only if the request carries credentials of an
    enabled scheme that the backend confirmed, and the user name handed to the tunnel is the
    confirmed one. -/
theorem handler_iff (m : Mechs) (b : Backend) (r : Req) (h : openidOnly m = false) (u : Option Bytes) :
    route m b r = .handler u ↔ ∃ v, u = some v ∧ Confirmed m b r v := by
  unfold openidOnly at h
  unfold route
  simp only [h, Bool.false_eq_true, if_false]
  by_cases hc : r.cred = .none
  · simp only [hc, if_true]
    constructor
    · intro hh; cases hh
    · rintro ⟨v, _, hv⟩
      rcases hv with ⟨_, _, h3⟩ | ⟨_, _, _, ⟨p, hp, _⟩⟩ | ⟨_, _, _, _, ⟨msg, hm, _⟩⟩
      · rcases h3 with ⟨msg, hm, _⟩ | ⟨msg, hm, _⟩ <;> (rw [hc] at hm; cases hm)
      · rw [hc] at hp; cases hp
      · rw [hc] at hm; cases hm
  · simp only [hc, if_false]
    by_cases hn : m.ntlm = true ∧ (r.hasNTLM = true ∨ r.hasNegotiate = true)
    · -- one of the two NTLM routes takes the request
      obtain ⟨hn1, hn2⟩ := hn
      have hroute : (if (m.ntlm && r.hasNTLM) = true then ntlmHandler b r.cred
          else if (m.ntlm && r.hasNegotiate) = true then ntlmHandler b r.cred
          else if (m.basic && r.hasBasic) = true then basicHandler b r.cred
          else if (m.kerberos && r.hasNegotiate) = true then spnegoHandler b r.cred
          else Outcome.notFound) = ntlmHandler b r.cred := by
        rcases hn2 with h2 | h2 <;> simp [hn1, h2]
      rw [hroute]
      unfold ntlmHandler
      constructor
      · intro hh
        cases hcred : r.cred with
        | none => exact absurd hcred hc
        | basic x y => simp [hcred] at hh
        | other => simp [hcred] at hh
        | ntlm msg =>
          simp only [hcred] at hh
          cases hb : b.ntlm msg with
          | none => simp [hb] at hh
          | some o =>
            cases o with
            | none => simp only [hb] at hh; split at hh <;> cases hh
            | some w =>
              simp only [hb] at hh
              injection hh with hh
              exact ⟨w, hh.symm, Or.inl ⟨hn1, hn2, Or.inl ⟨msg, hcred, hb⟩⟩⟩
        | negotiate msg =>
          simp only [hcred] at hh
          cases hb : b.ntlm msg with
          | none => simp [hb] at hh
          | some o =>
            cases o with
            | none => simp only [hb] at hh; split at hh <;> cases hh
            | some w =>
              simp only [hb] at hh
              injection hh with hh
              exact ⟨w, hh.symm, Or.inl ⟨hn1, hn2, Or.inr ⟨msg, hcred, hb⟩⟩⟩
      · rintro ⟨v, rfl, hv⟩
        rcases hv with ⟨_, _, h3⟩ | ⟨_, _, hnot, _⟩ | ⟨_, _, hnot, _⟩
        · rcases h3 with ⟨msg, hm, hb⟩ | ⟨msg, hm, hb⟩ <;> simp [hm, hb]
        · exact absurd ⟨hn1, hn2⟩ hnot
        · exact absurd hn1 hnot
    · have hn' : ¬ ((m.ntlm && r.hasNTLM) = true) ∧ ¬ ((m.ntlm && r.hasNegotiate) = true) := by
        constructor <;> (intro hx; simp at hx; exact hn ⟨hx.1, by simp [hx.2]⟩)
      simp only [hn'.1, hn'.2, if_false]
      by_cases hbm : m.basic = true ∧ r.hasBasic = true
      · have : (m.basic && r.hasBasic) = true := by simp [hbm.1, hbm.2]
        simp only [this, if_true]
        unfold basicHandler
        constructor
        · intro hh
          cases hcred : r.cred with
          | none => exact absurd hcred hc
          | ntlm x => simp [hcred] at hh
          | negotiate x => simp [hcred] at hh
          | other => simp [hcred] at hh
          | basic x y =>
            simp only [hcred] at hh
            by_cases hok : b.basicOk x y = true
            · simp only [hok, if_true] at hh
              injection hh with hh
              exact ⟨x, hh.symm, Or.inr (Or.inl ⟨hbm.1, hbm.2, hn, ⟨y, hcred, hok⟩⟩)⟩
            · simp [hok] at hh
        · rintro ⟨v, rfl, hv⟩
          rcases hv with ⟨a1, a2, _⟩ | ⟨_, _, _, ⟨p, hp, hok⟩⟩ | ⟨_, _, _, hnb, _⟩
          · exact absurd ⟨a1, a2⟩ hn
          · simp [hp, hok]
          · exact absurd hbm hnb
      · have hb' : ¬ ((m.basic && r.hasBasic) = true) := by
          intro hx; simp at hx; exact hbm hx
        simp only [hb', if_false]
        by_cases hk : m.kerberos = true ∧ r.hasNegotiate = true
        · have : (m.kerberos && r.hasNegotiate) = true := by simp [hk.1, hk.2]
          simp only [this, if_true]
          have hnn : ¬ m.ntlm = true := by
            intro e; exact hn ⟨e, Or.inr hk.2⟩
          unfold spnegoHandler
          constructor
          · intro hh
            cases hcred : r.cred with
            | none => exact absurd hcred hc
            | ntlm x => simp [hcred] at hh
            | basic x y => simp [hcred] at hh
            | other => simp [hcred] at hh
            | negotiate msg =>
              simp only [hcred] at hh
              cases hs : b.spnego msg with
              | none => simp [hs] at hh
              | some w =>
                simp only [hs] at hh
                injection hh with hh
                exact ⟨w, hh.symm, Or.inr (Or.inr ⟨hk.1, hk.2, hnn, hbm, ⟨msg, hcred, hs⟩⟩)⟩
          · rintro ⟨v, rfl, hv⟩
            rcases hv with ⟨a1, _, _⟩ | ⟨a1, a2, _⟩ | ⟨_, _, _, _, ⟨msg, hm, hs⟩⟩
            · exact absurd a1 hnn
            · exact absurd ⟨a1, a2⟩ hbm
            · simp [hm, hs]
        · have hk' : ¬ ((m.kerberos && r.hasNegotiate) = true) := by
            intro hx; simp at hx; exact hk hx
          simp only [hk', if_false]
          constructor
          · intro hh; cases hh
          · rintro ⟨v, _, hv⟩
            rcases hv with ⟨a1, a2, _⟩ | ⟨a1, a2, _⟩ | ⟨a1, a2, _⟩
            · exact absurd ⟨a1, a2⟩ hn
            · exact absurd ⟨a1, a2⟩ hbm
            · exact absurd ⟨a1, a2⟩ hk

/-- **No Authorization header → 401 with one challenge per enabled HTTP scheme** (`ntlm` enables NTLM
    and Negotiate, `local` Basic, `kerberos` Negotiate). -/
theorem no_header_401 (m : Mechs) (b : Backend) (r : Req) (h : openidOnly m = false) (hc : r.cred = .none) :
    route m b r = .unauthorized (challenges m) := by
  unfold openidOnly at h
  simp [route, h, hc]

/-- for a startable combination the challenges are pairwise distinct: exactly one per scheme -/
theorem challenges_distinct (m : Mechs) (h : m.startable = true) : (challenges m).Nodup := by
  obtain ⟨o, k, bsc, n⟩ := m
  cases o <;> cases k <;> cases bsc <;> cases n <;> simp [Mechs.startable] at h <;> decide

/-- **With OpenID alone the endpoint is open at HTTP level** (the access cookie is the gate). -/
theorem openid_only_open (m : Mechs) (b : Backend) (r : Req) (h : openidOnly m = true) :
    route m b r = .handler none := by
  unfold openidOnly at h
  simp [route, h]

/-- wrong, malformed or disabled-scheme credentials never reach the handler -/
theorem never_handler_otherwise (m : Mechs) (b : Backend) (r : Req) (h : openidOnly m = false)
    (hno : ∀ v, ¬ Confirmed m b r v) : ∀ u, route m b r ≠ .handler u := by
  intro u hu
  obtain ⟨v, _, hv⟩ := (handler_iff m b r h u).mp hu
  exact hno v hv

/-- non-vacuity: local+openid, correct Basic credentials reach the handler as that user -/
example :
    route ⟨true, false, true, false⟩ ⟨fun u p => u == [97] && p == [112], fun _ => none, fun _ => false, fun _ => none⟩
      ⟨.basic [97] [112], false, false, true⟩ = .handler (some [97]) := by decide
example :
    route ⟨true, false, true, false⟩ ⟨fun u p => u == [97] && p == [112], fun _ => none, fun _ => false, fun _ => none⟩
      ⟨.basic [97] [113], false, false, true⟩ = .unauthorized [.basic] := by decide

end Rdpgw.C05
