import Rdpgw.Model.Cookie
import Rdpgw.Model.Tunnel
import Rdpgw.Generated.Tokens

/-!
# C02 — access cookies are accepted only if gateway-minted, unexpired and IdP-valid
-/

namespace Rdpgw.C02

open Rdpgw Rdpgw.Cookie Rdpgw.Tunnel

/-- **Soundness of acceptance.** An accepted cookie is a three-segment compact JWS whose header
    names HS256, whose tag verifies under the configured key, whose issuer is the gateway, which has
    not expired (one minute leeway; also not-before / issued-at are respected) and whose embedded
    access token the IdP honours; the tunnel record gets exactly the token's host and address and
    the IdP's subject. -/
theorem accept_sound (f : Facts) (now : Nat) (s : Session) (h : check f now = some s) :
    f.empty = false ∧ f.compact3 = true ∧ f.segsDecode = true ∧ f.algHS256 = true ∧ f.macOk = true ∧
    f.iss = issuer ∧
    (∀ e, f.exp = some e → now ≤ e + 60) ∧ (∀ n, f.nbf = some n → n ≤ now + 60) ∧
    (∃ sub, f.idp = .ok sub ∧ s = ⟨f.host, f.ip, sub⟩) := by
  unfold check at h
  by_cases h1 : f.empty = true
  · simp [h1] at h
  · simp only [h1, Bool.false_eq_true, if_false] at h
    by_cases h2 : (!(f.compact3 && f.segsDecode && f.algHS256)) = true
    · simp [h2] at h
    · simp only [h2, Bool.false_eq_true, if_false] at h
      by_cases h3 : (!f.macOk) = true
      · simp [h3] at h
      · simp only [h3, Bool.false_eq_true, if_false] at h
        by_cases h4 : f.iss ≠ issuer
        · simp [h4] at h
        · simp only [h4, if_false] at h
          by_cases h5 : (!timeOk f now) = true
          · simp [h5] at h
          · simp only [h5, Bool.false_eq_true, if_false] at h
            simp at h1 h2 h3 h4 h5
            obtain ⟨⟨c3, sd⟩, al⟩ := h2
            refine ⟨h1, c3, sd, al, h3, h4, ?_, ?_, ?_⟩
            · intro e he
              unfold timeOk at h5
              simp [he] at h5
              have := h5.1.2
              simpa [leeway] using this
            · intro n hn
              unfold timeOk at h5
              simp [hn] at h5
              have := h5.1.1
              simpa [leeway] using this
            · cases hi : f.idp with
              | refused => simp [hi] at h
              | ok sub => simp [hi] at h; exact ⟨sub, rfl, h.symm⟩

/-- **Every other string is refused**: contrapositive forms, one per mechanism. -/
theorem refused_if (f : Facts) (now : Nat)
    (h : f.empty = true ∨ f.compact3 = false ∨ f.segsDecode = false ∨ f.algHS256 = false ∨
         f.macOk = false ∨ f.iss ≠ issuer ∨ (∃ e, f.exp = some e ∧ e + 60 < now) ∨ f.idp = .refused) :
    check f now = none := by
  cases hc : check f now with
  | none => rfl
  | some s =>
    obtain ⟨a, b, c, d, e, g, hexp, _, ⟨sub, hsub, _⟩⟩ := accept_sound f now s hc
    rcases h with h | h | h | h | h | h | ⟨x, hx, hlt⟩ | h
    · rw [a] at h; cases h
    · rw [b] at h; cases h
    · rw [c] at h; cases h
    · rw [d] at h; cases h
    · rw [e] at h; cases h
    · exact absurd g h
    · have := hexp x hx; omega
    · rw [hsub] at h; cases h

/-- **Minted tokens expire no later than five minutes after issuance.** -/
theorem mint_expiry (now : Nat) (host ip : Bytes) (idp : Idp) :
    (mint now host ip idp).exp = some (now + 300) := rfl

/-- **A freshly minted token is accepted** — at every instant up to its expiry plus the leeway —
    when the IdP still honours the access token, and it binds exactly the minted host and address. -/
theorem mint_accept (now now' : Nat) (host ip sub : Bytes) (h : now' ≤ now + 360) :
    check (mint now host ip (.ok sub)) now' = some ⟨host, ip, sub⟩ := by
  have ht : timeOk (mint now host ip (.ok sub)) now' = true := by
    have : now' ≤ now + 300 + 60 := by omega
    simp [timeOk, mint, lifetime, leeway, this]
  unfold check
  rw [ht]
  simp [mint]

/-- …and no longer once the lifetime and the leeway have passed -/
theorem mint_expired_refused (now now' : Nat) (host ip : Bytes) (idp : Idp) (h : now + 360 < now') :
    check (mint now host ip idp) now' = none := by
  apply refused_if
  right; right; right; right; right; right; left
  exact ⟨now + 300, rfl, by omega⟩

/-- a revoked access token makes an otherwise valid cookie useless -/
theorem revoked_refused (now now' : Nat) (host ip : Bytes) :
    check (mint now host ip .refused) now' = none := by
  apply refused_if; simp [mint]

/-- composed with the packet loop (token authentication installs the cookie check): a refused
    cookie is answered with the cookie-access-denied status, the tunnel ends in the same phase -/
theorem reject_status (cfg : Cfg) (env : Env) (hc : cfg.hasCookieCheck = true) (c : Bytes)
    (hrej : env.cookieOk c = false) :
    step cfg env .handshake (.tunnelCreate c) =
      ⟨.handshake, [.resp (.tunnel Generated.Protocol.E_PROXY_COOKIE_AUTHENTICATION_ACCESS_DENIED)], true⟩ ∧
    Generated.Protocol.E_PROXY_COOKIE_AUTHENTICATION_ACCESS_DENIED = 0x800759F8 := by
  constructor
  · simp [step, hc, hrej]
  · decide

/-- non-vacuity: a token without `exp` *is* accepted by the library's validation — but the gateway
    never mints one (`mint_expiry`), so only a key holder could produce it -/
example : (check { mint 1000 [104] [49] (.ok [117]) with exp := none } 999999).isSome = true := by decide
example : check (mint 1000 [104] [49] (.ok [117])) 1360 = some ⟨[104], [49], [117]⟩ := by decide
example : check (mint 1000 [104] [49] (.ok [117])) 1361 = none := by decide

/-! ### Facts read off `cmd/rdpgw/security` (regenerated from the source on every run)

Every fact the translator finds about `GeneratePAAToken` and `CheckPAACookie` is the one the model
implements: the lifetime, the issuer written and demanded, the parser and its algorithm allow-list,
the signing algorithm. -/

open Rdpgw.Generated in
theorem facts_paa_lifetime :
    ∀ e ∈ Tokens.expiries, e.1 = "GeneratePAAToken" → e.2 = Cookie.lifetime * 1000000000 := by decide

open Rdpgw.Generated in
theorem facts_paa_issuer :
    ∀ e ∈ Tokens.issuers, (e.1 = "GeneratePAAToken" ∨ e.1 = "CheckPAACookie") → e.2 = Cookie.issuer := by decide

open Rdpgw.Generated in
theorem facts_paa_parser :
    ∀ e ∈ Tokens.parsers, e.1 = "CheckPAACookie" → e.2.1 = "ParseSigned" ∧ e.2.2 = ["HS256"] := by decide

open Rdpgw.Generated in
theorem facts_paa_alg :
    ∀ e ∈ Tokens.mintAlgs, e.1 = "GeneratePAAToken" → e.2 = "HS256" := by decide

end Rdpgw.C02
