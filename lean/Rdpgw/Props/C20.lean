import Rdpgw.Model.Kdc

/-!
# C20 — the KDC proxy relays Kerberos messages faithfully and always answers
-/

namespace Rdpgw.C20

open Rdpgw Rdpgw.Kdc

theorem u8_toNat (n : Nat) (h : n < 256) : (u8 n).toNat = n := u8_ofNat_toNat n h

theorem u8_lt128 (n : Nat) (h : n < 128) : u8 n < 128 := by
  rw [UInt8.lt_iff_toNat_lt, u8_toNat n (by omega)]
  exact h

theorem u8_ne (n : Nat) (h : n < 128) (v : UInt8) (hv : 128 ≤ v.toNat) : u8 n ≠ v := by
  intro e
  have := u8_toNat n (by omega)
  rw [e] at this
  omega

/-- the length parser inverts the length writer -/
theorem parseLen_derLen (n : Nat) (h : n < 16777216) (t : Bytes) : parseLen (derLen n ++ t) = some (n, t) := by
  unfold derLen
  by_cases h1 : n < 128
  · simp only [h1, if_true, List.cons_append, List.nil_append, parseLen, u8_lt128 n h1, u8_toNat n (by omega)]
  · simp only [h1, if_false]
    by_cases h2 : n < 256
    · simp only [h2, if_true, List.cons_append, List.nil_append, parseLen]
      have : ¬ ((0x81 : UInt8) < 128) := by decide
      simp only [this, if_false, if_true, u8_toNat n h2]
      have : n ≥ 128 := by omega
      simp [this]
    · simp only [h2, if_false]
      by_cases h3 : n < 65536
      · simp only [h3, if_true, List.cons_append, List.nil_append, parseLen]
        have a1 : ¬ ((0x82 : UInt8) < 128) := by decide
        have a2 : ¬ ((0x82 : UInt8) = 0x81) := by decide
        simp only [a1, a2, if_false, if_true]
        rw [u8_toNat (n / 256) (by omega), u8_toNat (n % 256) (by omega)]
        have : n / 256 ≠ 0 := by omega
        simp only [ne_eq, this, not_false_eq_true, if_true]
        congr 2
        omega
      · simp only [h3, if_false, List.cons_append, List.nil_append, parseLen]
        have a1 : ¬ ((0x83 : UInt8) < 128) := by decide
        have a2 : ¬ ((0x83 : UInt8) = 0x81) := by decide
        have a3 : ¬ ((0x83 : UInt8) = 0x82) := by decide
        simp only [a1, a2, a3, if_false, if_true]
        rw [u8_toNat (n / 65536) (by omega), u8_toNat (n / 256 % 256) (by omega), u8_toNat (n % 256) (by omega)]
        have : n / 65536 ≠ 0 := by omega
        simp only [ne_eq, this, not_false_eq_true, if_true]
        congr 2
        omega

theorem parseTLV_tlv (tag : UInt8) (c : Bytes) (h : c.length < 16777216) (t : Bytes) :
    parseTLV tag (tlv tag c ++ t) = some (c, t) := by
  unfold tlv parseTLV
  simp only [List.cons_append, ne_eq, not_true_eq_false, if_false, List.append_assoc]
  rw [parseLen_derLen _ h]
  simp

theorem parseTLV_other (tag tag' : UInt8) (c t : Bytes) (h : tag' ≠ tag) :
    parseTLV tag (tlv tag' c ++ t) = none := by
  unfold tlv parseTLV
  simp [h]

theorem whole_tlv (tag : UInt8) (c : Bytes) (h : c.length < 16777216) : whole tag (tlv tag c) = some c := by
  unfold whole
  have := parseTLV_tlv tag c h []
  simp only [List.append_nil] at this
  rw [this]

theorem derLen_length (n : Nat) : (derLen n).length ≤ 4 := by
  unfold derLen; split <;> (try split) <;> (try split) <;> simp

theorem tlv_length (tag : UInt8) (c : Bytes) : (tlv tag c).length ≤ c.length + 5 := by
  have := derLen_length c.length
  simp [tlv]; omega

/-- messages within the proxy's size limit -/
def Small (m : Msg) : Prop :=
  m.message.length ≤ 200000 ∧ m.realm.length ≤ 1000 ∧
  (match m.flags with | some f => intOk f = true ∧ f.length ≤ 8 | none => True)

theorem flagsPart_length (fl : Option Bytes) (h : match fl with | some f => f.length ≤ 8 | none => True) :
    (flagsPart fl).length ≤ 18 := by
  cases fl with
  | none => simp [flagsPart]
  | some f =>
    have a := tlv_length 0x02 f
    have b := tlv_length 0xA2 (tlv 0x02 f)
    simp only at h
    simp only [flagsPart]; omega

theorem realmPart_length (realm : Bytes) (h : realm.length ≤ 1000) : (realmPart realm).length ≤ 1010 := by
  unfold realmPart
  split
  · simp
  · have a := tlv_length 0x1B realm
    have b := tlv_length 0xA1 (tlv 0x1B realm)
    omega

theorem decode_flags (fl : Option Bytes) (msg realm : Bytes)
    (hf : match fl with | some f => intOk f = true ∧ f.length ≤ 8 | none => True) :
    (if flagsPart fl = [] then some (⟨msg, realm, none⟩ : Msg)
      else match parseTLV 0xA2 (flagsPart fl) with
        | some (c, []) =>
          match whole 0x02 c with
          | some f => if intOk f then some ⟨msg, realm, some f⟩ else none
          | none => none
        | _ => none) = some ⟨msg, realm, fl⟩ := by
  cases fl with
  | none => simp [flagsPart]
  | some f =>
    obtain ⟨hok, hlen⟩ : intOk f = true ∧ f.length ≤ 8 := hf
    have e : tlv 0xA2 (tlv 0x02 f) ≠ [] := by simp [tlv]
    simp only [flagsPart, e, if_false]
    have := parseTLV_tlv 0xA2 (tlv 0x02 f) (by have := tlv_length 0x02 f; omega) []
    simp only [List.append_nil] at this
    rw [this]
    simp only
    rw [whole_tlv 0x02 f (by omega)]
    simp [hok]

/-- **DER round trip**: decoding what a conforming client encodes gives back the message, realm
    and locator hint. -/
theorem decode_encode (m : Msg) (h : Small m) : decode (encode m) = some m := by
  obtain ⟨msg, realm, flags⟩ := m
  obtain ⟨h1, h2, h3⟩ := h
  simp only at h1 h2 h3
  have l1 := tlv_length 0x04 msg
  have l2 := tlv_length 0xA0 (tlv 0x04 msg)
  have l3 := realmPart_length realm h2
  have l4 := flagsPart_length flags (by cases flags with | none => trivial | some f => exact h3.2)
  unfold decode encode
  simp only
  rw [whole_tlv 0x30 _ (by simp only [List.length_append]; omega)]
  simp only
  unfold decodeInner
  rw [parseTLV_tlv 0xA0 _ (by omega)]
  simp only
  rw [whole_tlv 0x04 msg (by omega)]
  simp only
  by_cases hr : realm = []
  · subst hr
    simp only [realmPart, if_true, List.nil_append]
    have hno : parseTLV 0xA1 (flagsPart flags) = none := by
      cases flags with
      | none => simp [flagsPart, parseTLV]
      | some f =>
        have := parseTLV_other 0xA1 0xA2 (tlv 0x02 f) [] (by decide)
        simpa [flagsPart] using this
    rw [hno]
    simp only
    exact decode_flags flags msg [] h3
  · have l5 := tlv_length 0x1B realm
    simp only [realmPart, hr, if_false]
    rw [parseTLV_tlv 0xA1 _ (by omega)]
    simp only
    rw [whole_tlv 0x1B realm (by omega)]
    simp only
    exact decode_flags flags msg realm h3

/-- **Trailing bytes are rejected**: anything after the outer SEQUENCE makes the request invalid. -/
theorem trailing_rejected (c : Bytes) (h : c.length < 16777216) (x : UInt8) (t : Bytes) :
    decode (tlv 0x30 c ++ x :: t) = none := by
  unfold decode whole
  rw [parseTLV_tlv 0x30 c h]

/-- a body whose first byte is not the SEQUENCE tag is rejected -/
theorem wrong_outer_tag (b : UInt8) (t : Bytes) (h : b ≠ 0x30) : decode (b :: t) = none := by
  unfold decode whole parseTLV
  simp [h]

/-- the empty body is rejected -/
theorem empty_rejected : decode [] = none := rfl

/-! ### validation: malformed requests get their status and nothing is sent to any KDC -/

theorem validation (body : Body) (realmOf : Bytes → Realm) (arrival : List Lookup → List Lookup) :
    (handler false body realmOf arrival = (⟨405, []⟩, [])) ∧
    (handler true .noLength realmOf arrival = (⟨411, []⟩, [])) ∧
    (∀ b, b.length > maxLength → handler true (.full b) realmOf arrival = (⟨413, []⟩, [])) ∧
    (∀ n, n > maxLength → handler true (.short n) realmOf arrival = (⟨413, []⟩, [])) ∧
    (∀ b, b.length ≤ maxLength → decode b = none → handler true (.full b) realmOf arrival = (⟨400, []⟩, [])) := by
  refine ⟨rfl, rfl, ?_, ?_, ?_⟩
  · intro b hb; simp [handler, hb]
  · intro n hn; simp [handler, hn]
  · intro b hb hd
    have : ¬ b.length > maxLength := by omega
    simp [handler, this, hd]

/-! ### the reply collection loop -/

/-- every started lookup puts exactly one value on the channel, so the loop never waits in vain -/
theorem collect_no_hang (arrivals : List (Option Bytes)) : collect arrivals.length arrivals ≠ .hang := by
  induction arrivals with
  | nil => simp [collect]
  | cons a t ih =>
    cases a with
    | some r => simp [collect]
    | none => simpa [collect] using ih

/-- the loop returns a reply iff some lookup produced one, and then it is one of them -/
theorem collect_reply (arrivals : List (Option Bytes)) (r : Bytes)
    (h : collect arrivals.length arrivals = .reply r) : some r ∈ arrivals := by
  induction arrivals with
  | nil => simp [collect] at h
  | cons a t ih =>
    cases a with
    | some x => simp [collect] at h; subst h; simp
    | none =>
      simp only [List.length_cons, collect] at h
      exact List.mem_cons_of_mem _ (ih h)

theorem collect_noReply (arrivals : List (Option Bytes))
    (h : collect arrivals.length arrivals = .noReply) : ∀ a ∈ arrivals, a = none := by
  induction arrivals with
  | nil => simp
  | cons a t ih =>
    cases a with
    | some x => simp [collect] at h
    | none =>
      simp only [List.length_cons, collect] at h
      intro b hb
      rcases List.mem_cons.mp hb with rfl | hb
      · rfl
      · exact ih h b hb

/-- **Always answers.** Whatever the method, body, realm, number of KDCs, their behaviour over UDP
    and TCP, and the order in which their results arrive, the handler produces an HTTP status. -/
theorem always_answers (isPost : Bool) (body : Body) (realmOf : Bytes → Realm)
    (arrival : List Lookup → List Lookup) (hperm : ∀ l, (arrival l).length = l.length) :
    (handler isPost body realmOf arrival).1.status ∈ [405, 411, 413, 500, 400, 503, 200] := by
  unfold handler
  cases isPost with
  | false => simp
  | true =>
    simp only [Bool.not_true, Bool.false_eq_true, if_false]
    cases body with
    | noLength => simp
    | short n => simp only; split <;> simp
    | full b =>
      simp only
      split
      · simp
      · cases hd : decode b with
        | none => simp
        | some m =>
          simp only
          cases hr : realmOf m.realm with
          | unknown => simp
          | known eps =>
            simp only
            split
            · simp
            · have hlen : (started m.message eps).length =
                  ((arrival (started m.message eps)).map (·.result)).length := by
                simp [hperm]
              have := collect_no_hang ((arrival (started m.message eps)).map (·.result))
              rw [← hlen] at this
              cases hc : collect (started m.message eps).length ((arrival (started m.message eps)).map (·.result)) with
              | reply r => simp
              | noReply => simp
              | hang => exact absurd hc this

/-- **Faithful.** A 200 answer carries exactly the reply of one of the realm's KDCs that answered
    completely, wrapped as a KDC-PROXY-MESSAGE (with the 4-byte length prefix restored for UDP),
    and that KDC was sent exactly the embedded Kerberos message (minus the prefix over UDP). -/
theorem faithful (b : Bytes) (realmOf : Bytes → Realm) (arrival : List Lookup → List Lookup)
    (hsub : ∀ l x, x ∈ arrival l → x ∈ l) (body : Bytes)
    (h : (handler true (.full b) realmOf arrival).1 = ⟨200, body⟩) :
    ∃ m eps l r, decode b = some m ∧ realmOf m.realm = .known eps ∧ l ∈ started m.message eps ∧
      l.result = some r ∧ body = replyBody r ∧
      l.sent = (if l.isUdp then m.message.drop 4 else m.message) := by
  unfold handler at h
  simp only [Bool.not_true, Bool.false_eq_true, if_false] at h
  split at h
  · simp at h
  · cases hd : decode b with
    | none => simp [hd] at h
    | some m =>
      simp only [hd] at h
      cases hr : realmOf m.realm with
      | unknown => simp [hr] at h
      | known eps =>
        simp only [hr] at h
        split at h
        · simp at h
        · cases hc : collect (started m.message eps).length ((arrival (started m.message eps)).map (·.result)) with
          | noReply => simp [hc] at h
          | hang => simp [hc] at h
          | reply r =>
            simp only [hc] at h
            injection h with _ hb
            -- r is the result of one of the started lookups
            have hmem : some r ∈ (arrival (started m.message eps)).map (·.result) := by
              -- collect with a pending count at least the number of arrivals finds its reply among them
              have key : ∀ (n : Nat) (as : List (Option Bytes)), collect n as = .reply r → some r ∈ as := by
                intro n
                induction n with
                | zero => intro as h; simp [collect] at h
                | succ n ih =>
                  intro as h
                  cases as with
                  | nil => simp [collect] at h
                  | cons a t =>
                    cases a with
                    | some x => simp [collect] at h; subst h; simp
                    | none => simp only [collect] at h; exact List.mem_cons_of_mem _ (ih t h)
              exact key _ _ hc
            obtain ⟨l, hl, hlr⟩ := List.mem_map.mp hmem
            have hl' := hsub _ l hl
            refine ⟨m, eps, l, r, rfl, hr, hl', hlr, hb.symm, ?_⟩
            -- what was sent to a started lookup
            unfold started at hl'
            rcases List.mem_append.mp hl' with hu | ht
            · obtain ⟨p, _, hp⟩ := List.mem_filterMap.mp hu
              unfold lookupOf at hp
              split at hp
              · cases hp
              · cases hb' : p.2.udp <;> simp [hb'] at hp <;> (subst hp; simp)
            · obtain ⟨p, _, hp⟩ := List.mem_filterMap.mp ht
              unfold lookupOf at hp
              split at hp
              · cases hp
              · cases hb' : p.2.tcp <;> simp [hb'] at hp <;> (subst hp; simp)

/-- a lookup's reply is the KDC's answer with its 4-byte big-endian length prefix -/
theorem lookup_reply_framed (data : Bytes) (i : Nat) (isUdp : Bool) (b : Behaviour) (l : Lookup) (r : Bytes)
    (h : lookupOf data i isUdp b = some l) (hr : l.result = some r) :
    ∃ body, b = .reply body ∧ r = be32 body.length ++ body := by
  unfold lookupOf at h
  split at h
  · cases h
  · cases b <;> simp at h <;> (subst h; simp at hr)
    exact ⟨_, rfl, hr.symm⟩

/-- no reachable KDC answers completely ⇒ 503, still an answer -/
theorem all_fail_503 (b : Bytes) (m : Msg) (eps : List Endpoint) (realmOf : Bytes → Realm)
    (arrival : List Lookup → List Lookup) (hperm : ∀ l, (arrival l).length = l.length)
    (hsub : ∀ l x, x ∈ arrival l → x ∈ l)
    (hlen : ¬ b.length > maxLength) (hd : decode b = some m) (hr : realmOf m.realm = .known eps) (hne : eps ≠ [])
    (hall : ∀ l ∈ started m.message eps, l.result = none) :
    (handler true (.full b) realmOf arrival).1 = ⟨503, []⟩ := by
  unfold handler
  simp only [Bool.not_true, Bool.false_eq_true, if_false, hlen, hd, hr, hne]
  have hlen' : (started m.message eps).length = ((arrival (started m.message eps)).map (·.result)).length := by
    simp [hperm]
  cases hc : collect (started m.message eps).length ((arrival (started m.message eps)).map (·.result)) with
  | noReply => rfl
  | hang =>
    have := collect_no_hang ((arrival (started m.message eps)).map (·.result))
    rw [← hlen'] at this
    exact absurd hc this
  | reply r =>
    rw [hlen'] at hc
    have := collect_reply _ r hc
    obtain ⟨l, hl, hlr⟩ := List.mem_map.mp this
    have := hall l (hsub _ l hl)
    rw [this] at hlr
    cases hlr

/-! ### the pinned loop did not have the property (D12, D13, D17): closed witnesses -/

/-- one KDC, refused over UDP (nil arrives first) and answering over TCP: "no replies" — and with
    two configured KDCs the pinned loop then waits for values that never come -/
theorem legacy_first_nil_wins : collectLegacy 0 [none, some [1]] = .noReply := by decide
theorem legacy_hangs : collectLegacy 2 [some [1], none] = .hang := by decide
theorem legacy_all_dials_fail_hangs : collectLegacy 1 [] = .hang := by decide

/-- …the repaired loop handles all three -/
example : collect 2 [none, some [1]] = .reply [1] := by decide
example : collect 2 [some [1], none] = .reply [1] := by decide
example : collect 0 [] = .noReply := by decide

/-- non-vacuity: a concrete message round-trips -/
example : decode (encode ⟨[1, 2, 3], [69, 88], some [7]⟩) = some ⟨[1, 2, 3], [69, 88], some [7]⟩ := by decide
/-- a locator hint with bit 31 set (five content octets) is a valid request -/
example : decode (encode ⟨[1, 2, 3], [69, 88], some [0x00, 0x80, 0, 0, 0]⟩) = some ⟨[1, 2, 3], [69, 88], some [0x00, 0x80, 0, 0, 0]⟩ := by decide
/-- a non-minimal INTEGER is not -/
example : decode (encode ⟨[1, 2, 3], [], some [0x00, 0x7F]⟩) = none := by decide
example : encode ⟨[1, 2, 3], [], none⟩ = [0x30, 7, 0xA0, 5, 0x04, 3, 1, 2, 3] := by decide

end Rdpgw.C20
