import Rdpgw.Props.C01Facts
import Rdpgw.Model.Tunnel

/-!
# C01 — no backend connection or relay before the full authorization sequence

The property is stated once, as a **monitor over what an outside observer sees**: for each
processed request, the events it caused (responses with type and status, dial attempts, bytes sent
up to the host) and whether the packet loop ended.  The same Boolean function is run by the oracle
on traces captured from the implementation.  `holds` says every run of the model — every
configuration, every behaviour of the callbacks and of the dialer, every request list of any
length — is accepted.
-/

namespace Rdpgw.C01

open Rdpgw Rdpgw.Tunnel Rdpgw.Resp

/-- monitor state: number of authorization steps completed *with a success response* (0…4) -/
abbrev Mon := Nat

def isErr (x : Resp) (t : RT) : Bool := x.rt == t && x.status != 0
def isOk (x : Resp) (t : RT) : Bool := x.rt == t && x.status == 0

/-- Is this request's observable outcome acceptable in monitor state `m`?  Returns the next state.
    * a success response answers only the in-order step (with an accepted cookie / allowed host
      where a check is installed) and does not end the loop;
    * `dial` appears only with `m = 3`, for the host of the channel-create being processed;
    * bytes go up only with `m = 4`;
    * anything else is an error status of the matching type — or nothing — and ends the loop;
    * an unknown type yields nothing and does not end the loop. -/
def monStep (cfg : Cfg) (env : Env) (m : Mon) (r : Req) (evs : List Ev) (stopped : Bool) : Option Mon :=
  match r, evs with
  | .handshake _ _ _, [.resp x] =>
      if isOk x .handshake then (if m = 0 ∧ stopped = false then some 1 else none)
      else if isErr x .handshake ∧ stopped = true then some m else none
  | .tunnelCreate c, [.resp x] =>
      if isOk x .tunnel then
        (if m = 1 ∧ stopped = false ∧ (cfg.hasCookieCheck = true → env.cookieOk c = true) then some 2 else none)
      else if isErr x .tunnel ∧ stopped = true then some m else none
  | .tunnelAuth _, [.resp x] =>
      if isOk x .tunnelAuth then (if m = 2 ∧ stopped = false then some 3 else none)
      else if isErr x .tunnelAuth ∧ stopped = true then some m else none
  | .channelCreate h, [.dial h' true, .resp x, .relayStart] =>
      if isOk x .channel ∧ m = 3 ∧ stopped = false ∧ h' = h ∧
         (cfg.hasHostCheck = true → env.hostOk h = true) then some 4 else none
  | .channelCreate h, [.dial h' true, .resp x] =>   -- the relay start is internal, an observer may omit it
      if isOk x .channel ∧ m = 3 ∧ stopped = false ∧ h' = h ∧
         (cfg.hasHostCheck = true → env.hostOk h = true) then some 4 else none
  | .channelCreate h, [.dial h' false, .resp x] =>
      if isErr x .channel ∧ m = 3 ∧ stopped = true ∧ h' = h ∧
         (cfg.hasHostCheck = true → env.hostOk h = true) then some m else none
  | .channelCreate _, [.resp x] =>
      if isErr x .channel ∧ stopped = true then some m else none
  | .data _, [.up _] => if m = 4 ∧ stopped = false then some 4 else none
  | .data _, [] => if stopped = true ∨ m = 4 then some m else none
  | .closeChannel, [.resp x] =>
      if isOk x .closeChannel ∧ m = 4 ∧ stopped = true then some 4 else none
  | .unknown _, [] => if stopped = false then some m else none
  | .keepalive, [] => if stopped = true ∨ m = 4 then some m else none
  | _, [] => if stopped = true then some m else none
  | _, _ => none

/-- the monitor over a whole trace; a request that ended the loop must be the last one -/
def monRun (cfg : Cfg) (env : Env) : Mon → List (Req × List Ev × Bool) → Bool
  | _, [] => true
  | m, (r, evs, stopped) :: t =>
    match monStep cfg env m r evs stopped with
    | none => false
    | some m' => if stopped then t.isEmpty else monRun cfg env m' t

/-- **C01 as a decidable predicate on observable traces** -/
def ok (cfg : Cfg) (env : Env) (trace : List (Req × List Ev × Bool)) : Bool := monRun cfg env 0 trace

/-- abstraction of the loop variable to the monitor state -/
def absPhase : Phase → Nat
  | .initialized => 0 | .handshake => 1 | .tunnelCreate => 2 | .tunnelAuthorize => 3
  | .channelCreate => 4 | .opened => 4 | .closed => 4

theorem consts_ne :
    Generated.Protocol.E_PROXY_INTERNALERROR ≠ 0 ∧ Generated.Protocol.E_PROXY_CAPABILITYMISMATCH ≠ 0 ∧
    Generated.Protocol.E_PROXY_COOKIE_AUTHENTICATION_ACCESS_DENIED ≠ 0 ∧
    Generated.Protocol.E_PROXY_RAP_ACCESSDENIED ≠ 0 ∧ Generated.Protocol.ERROR_ACCESS_DENIED ≠ 0 ∧
    Generated.Protocol.ERROR_SUCCESS = 0 := by decide

theorem state_order :
    Phase.initialized.toNat < Phase.channelCreate.toNat ∧ Phase.handshake.toNat < Phase.channelCreate.toNat ∧
    Phase.tunnelCreate.toNat < Phase.channelCreate.toNat ∧
    Phase.tunnelAuthorize.toNat < Phase.channelCreate.toNat ∧
    ¬ Phase.channelCreate.toNat < Phase.channelCreate.toNat ∧
    ¬ Phase.opened.toNat < Phase.channelCreate.toNat ∧ ¬ Phase.closed.toNat < Phase.channelCreate.toNat := by
  decide

/-- one step of the model is accepted by the monitor, and the abstraction commutes -/
theorem step_mon (cfg : Cfg) (env : Env) (ph : Phase) (r : Req) :
    ∃ m', monStep cfg env (absPhase ph) r (step cfg env ph r).evs (step cfg env ph r).stop = some m' ∧
      ((step cfg env ph r).stop = false → m' = absPhase (step cfg env ph r).phase) := by
  obtain ⟨k1, k2, k3, k4, k5, k6⟩ := consts_ne
  obtain ⟨o0, o1, o2, o3, o4, o5, o6⟩ := state_order
  cases r with
  | handshake ma mi ext =>
    simp only [step]
    by_cases hp : ph = .initialized
    · subst hp
      cases hm : matchAuth cfg ext with
      | none => simp [monStep, absPhase, isOk, isErr, Resp.rt, Resp.status, k2]
      | some c => simp [monStep, absPhase, isOk, isErr, Resp.rt, Resp.status, k6]
    · simp [hp, monStep, isOk, isErr, Resp.rt, Resp.status, k1]
  | tunnelCreate cookie =>
    simp only [step]
    by_cases hp : ph = .handshake
    · subst hp
      by_cases hc : (cfg.hasCookieCheck && !env.cookieOk cookie) = true
      · simp [hc, monStep, isOk, isErr, Resp.rt, Resp.status, k3]
      · simp only [ne_eq, not_true_eq_false, if_false, hc]
        simp at hc
        simp [monStep, absPhase, isOk, isErr, Resp.rt, Resp.status, k6]
        exact hc
    · simp [hp, monStep, isOk, isErr, Resp.rt, Resp.status, k1]
  | tunnelAuth client =>
    simp only [step]
    by_cases hp : ph = .tunnelCreate
    · subst hp
      by_cases hc : (cfg.hasClientCheck && !env.clientOk client) = true
      · simp [hc, monStep, isOk, isErr, Resp.rt, Resp.status, k5, authResp]
      · simp [hc, monStep, absPhase, isOk, isErr, Resp.rt, Resp.status, k6, authResp]
    · simp [hp, monStep, isOk, isErr, Resp.rt, Resp.status, k1, authResp]
  | channelCreate host =>
    simp only [step]
    by_cases hp : ph = .tunnelAuthorize
    · subst hp
      by_cases hc : (cfg.hasHostCheck && !env.hostOk host) = true
      · simp [hc, monStep, isOk, isErr, Resp.rt, Resp.status, k4]
      · simp only [ne_eq, not_true_eq_false, if_false, hc]
        simp at hc
        by_cases hd : env.dialOk host = true
        · simp [hd, monStep, absPhase, isOk, isErr, Resp.rt, Resp.status, k6]; exact hc
        · simp [hd, monStep, absPhase, isOk, isErr, Resp.rt, Resp.status, k1]; exact hc
    · simp [hp, monStep, isOk, isErr, Resp.rt, Resp.status, k1]
  | data payload =>
    simp only [step]
    cases ph <;> simp [monStep, absPhase, o0, o1, o2, o3, o4, o5, o6]
  | keepalive =>
    simp only [step]
    cases ph <;> simp [monStep, absPhase, o0, o1, o2, o3, o4, o5, o6]
  | closeChannel =>
    simp only [step]
    cases ph <;> simp [monStep, absPhase, isOk, isErr, Resp.rt, Resp.status, k6]
  | unknown ty =>
    simp [step, monStep]

/-- **C01 holds**: the observable trace of every run of the model is accepted by the monitor —
    for every configuration, every behaviour of the callbacks and the dialer, every list of
    requests of any length, from the initial phase. -/
theorem holds (cfg : Cfg) (env : Env) (reqs : List Req) :
    ok cfg env (run cfg env .initialized reqs) = true := by
  unfold ok
  suffices h : ∀ ph, monRun cfg env (absPhase ph) (run cfg env ph reqs) = true from h .initialized
  induction reqs with
  | nil => intro ph; simp [run, monRun]
  | cons r rs ih =>
    intro ph
    obtain ⟨m', hm, hc⟩ := step_mon cfg env ph r
    simp only [run, monRun, hm]
    by_cases hs : (step cfg env ph r).stop = true
    · simp [hs]
    · have hs' : (step cfg env ph r).stop = false := by simpa using hs
      simp only [hs']
      rw [hc hs']
      exact ih _

/-- the same for a client byte stream, however it is segmented -/
theorem holds_stream (cfg : Cfg) (env : Env) (segs : List Bytes) :
    ok cfg env (runStream cfg env segs).1 = true := by
  unfold runStream runPkts
  exact holds cfg env _

/-! ### Corollaries in the property's own words -/

/-- a connection attempt happens only in the step that processes a channel-create request, in the
    tunnel-authorized phase, for exactly the requested host, after the installed host check passed -/
theorem dial_only_when_authorized (cfg : Cfg) (env : Env) (ph : Phase) (r : Req) (h : Bytes) (b : Bool)
    (hd : Ev.dial h b ∈ (step cfg env ph r).evs) :
    ph = .tunnelAuthorize ∧ r = .channelCreate h ∧ (cfg.hasHostCheck = true → env.hostOk h = true) ∧
      b = env.dialOk h := by
  cases r with
  | channelCreate host =>
    simp only [step] at hd
    by_cases hp : ph = .tunnelAuthorize
    · subst hp
      by_cases hc : (cfg.hasHostCheck && !env.hostOk host) = true
      · simp [hc] at hd
      · simp only [ne_eq, not_true_eq_false, if_false, hc] at hd
        simp at hc
        by_cases hdl : env.dialOk host = true
        · simp [hdl] at hd
          obtain ⟨rfl, rfl⟩ := hd
          exact ⟨rfl, rfl, hc, hdl.symm⟩
        · simp [hdl] at hd
          obtain ⟨rfl, rfl⟩ := hd
          simp at hdl
          exact ⟨rfl, rfl, hc, hdl.symm⟩
    · simp [hp] at hd
  | handshake ma mi ext =>
    simp only [step] at hd
    split at hd
    · simp at hd
    · split at hd <;> simp at hd
  | tunnelCreate c =>
    simp only [step] at hd
    split at hd
    · simp at hd
    · split at hd <;> simp at hd
  | tunnelAuth c =>
    simp only [step] at hd
    split at hd
    · simp at hd
    · split at hd <;> simp at hd
  | data p => simp only [step] at hd; split at hd <;> simp at hd
  | keepalive => simp only [step] at hd; split at hd <;> simp at hd
  | closeChannel => simp only [step] at hd; split at hd <;> simp at hd
  | unknown ty => simp [step] at hd

/-- client payload reaches the host only once the channel is open -/
theorem relay_only_when_open (cfg : Cfg) (env : Env) (ph : Phase) (r : Req) (p : Bytes)
    (hu : Ev.up p ∈ (step cfg env ph r).evs) :
    (ph = .channelCreate ∨ ph = .opened ∨ ph = .closed) ∧ r = .data p := by
  obtain ⟨o0, o1, o2, o3, o4, o5, o6⟩ := state_order
  cases r with
  | data q =>
    simp only [step] at hu
    cases ph <;> simp [o0, o1, o2, o3, o4, o5, o6] at hu <;> simp [hu]
  | handshake ma mi ext =>
    simp only [step] at hu
    split at hu
    · simp at hu
    · split at hu <;> simp at hu
  | tunnelCreate c =>
    simp only [step] at hu
    split at hu
    · simp at hu
    · split at hu <;> simp at hu
  | tunnelAuth c =>
    simp only [step] at hu
    split at hu
    · simp at hu
    · split at hu <;> simp at hu
  | channelCreate h =>
    simp only [step] at hu
    split at hu
    · simp at hu
    · split at hu
      · simp at hu
      · split at hu <;> simp at hu
  | keepalive => simp only [step] at hu; split at hu <;> simp at hu
  | closeChannel => simp only [step] at hu; split at hu <;> simp at hu
  | unknown ty => simp [step] at hu

def evDials (evs : List Ev) : Nat :=
  (evs.filter (fun ev => match ev with | .dial _ _ => true | _ => false)).length

/-- number of connection attempts in a trace -/
def dials : List (Req × List Ev × Bool) → Nat
  | [] => 0
  | e :: t => evDials e.2.1 + dials t

theorem step_dials (cfg : Cfg) (env : Env) (ph : Phase) (r : Req) :
    (evDials (step cfg env ph r).evs = 0 ∧
      ((step cfg env ph r).stop = false → absPhase ph ≤ absPhase (step cfg env ph r).phase)) ∨
    (evDials (step cfg env ph r).evs = 1 ∧ absPhase ph = 3 ∧
      ((step cfg env ph r).stop = false → absPhase (step cfg env ph r).phase = 4)) := by
  obtain ⟨o0, o1, o2, o3, o4, o5, o6⟩ := state_order
  cases r with
  | handshake ma mi ext =>
    simp only [step]
    split
    · simp [evDials]
    · split <;> simp_all [absPhase, evDials]
  | tunnelCreate c =>
    simp only [step]
    split
    · simp [evDials]
    · split <;> simp_all [absPhase, evDials]
  | tunnelAuth c =>
    simp only [step]
    split
    · simp [evDials]
    · split <;> simp_all [absPhase, evDials]
  | channelCreate h =>
    simp only [step]
    split
    · simp [evDials]
    · split
      · simp [evDials]
      · rename_i hp _
        have : ph = .tunnelAuthorize := by simpa using hp
        subst this
        split <;> simp [absPhase, evDials]
  | data p =>
    simp only [step]
    cases ph <;> simp [absPhase, evDials, o0, o1, o2, o3, o4, o5, o6]
  | keepalive =>
    simp only [step]
    split <;> simp [evDials]
  | closeChannel =>
    simp only [step]
    split <;> simp [evDials]
  | unknown ty => simp [step, evDials]

/-- **At most one connection per tunnel**: in any run, from any phase, at most one dial event
    occurs, and none at all once the channel phase has been reached. -/
theorem at_most_one_dial (cfg : Cfg) (env : Env) (reqs : List Req) :
    ∀ ph, dials (run cfg env ph reqs) ≤ (if absPhase ph ≤ 3 then 1 else 0) := by
  induction reqs with
  | nil => intro ph; simp [run, dials]
  | cons r rs ih =>
    intro ph
    have hs := step_dials cfg env ph r
    simp only [run, dials]
    by_cases hstop : (step cfg env ph r).stop = true
    · simp only [hstop, if_true, dials, Nat.add_zero]
      rcases hs with ⟨h0, _⟩ | ⟨h1, h3, _⟩
      · omega
      · rw [h1, h3]; simp
    · have hstop' : (step cfg env ph r).stop = false := by simpa using hstop
      simp only [hstop', Bool.false_eq_true, if_false]
      have hi := ih (step cfg env ph r).phase
      generalize dials (run cfg env (step cfg env ph r).phase rs) = S at hi ⊢
      rcases hs with ⟨h0, hle⟩ | ⟨h1, h3, h4⟩
      · have hle := hle hstop'
        rw [h0]
        by_cases c1 : absPhase (step cfg env ph r).phase ≤ 3
        · rw [if_pos c1] at hi
          have c2 : absPhase ph ≤ 3 := by omega
          rw [if_pos c2]; omega
        · rw [if_neg c1] at hi
          by_cases c2 : absPhase ph ≤ 3
          · rw [if_pos c2]; omega
          · rw [if_neg c2]; omega
      · have h4 := h4 hstop'
        rw [h1, h3]
        rw [h4] at hi
        simp at hi ⊢
        omega

/-- **After an error response or a channel close nothing further is processed**: whatever
    follows a request that ended the loop does not change the run. -/
theorem after_stop_inert (cfg : Cfg) (env : Env) (pre : List Req) (p : Req) (rest : List Req) :
    ∀ ph, (step cfg env (finalPhase cfg env ph pre) p).stop = true →
      (∀ q ∈ (run cfg env ph pre), q.2.2 = false) →
      run cfg env ph (pre ++ p :: rest) = run cfg env ph (pre ++ [p]) := by
  induction pre with
  | nil =>
    intro ph hs _
    simp only [finalPhase] at hs
    simp [run, hs]
  | cons a t ih =>
    intro ph hs hall
    simp only [List.cons_append, run]
    have ha : (step cfg env ph a).stop = false := by
      have := hall (a, (step cfg env ph a).evs, (step cfg env ph a).stop) (by simp [run])
      simpa using this
    simp only [ha, Bool.false_eq_true, if_false]
    congr 1
    apply ih
    · simpa [finalPhase, ha] using hs
    · intro q hq
      apply hall
      simp [run, ha, hq]

/-- an unknown packet type yields nothing, changes nothing and does not end the loop -/
theorem unknown_inert (cfg : Cfg) (env : Env) (ph : Phase) (ty : Nat) :
    step cfg env ph (.unknown ty) = ⟨ph, [], false⟩ := rfl

/-- a request that is out of order never gets a success response and ends the loop -/
theorem out_of_phase_never_success (cfg : Cfg) (env : Env) (ph : Phase) (r : Req) (x : Resp)
    (hx : Ev.resp x ∈ (step cfg env ph r).evs) (h0 : x.status = 0) :
    (r matches .handshake .. → ph = .initialized) ∧ (r matches .tunnelCreate _ → ph = .handshake) ∧
    (r matches .tunnelAuth _ → ph = .tunnelCreate) ∧ (r matches .channelCreate _ → ph = .tunnelAuthorize) ∧
    (r matches .closeChannel → ph = .opened) := by
  obtain ⟨k1, k2, k3, k4, k5, k6⟩ := consts_ne
  cases r with
  | handshake ma mi ext =>
    simp only [step] at hx
    by_cases hp : ph = .initialized
    · simp [hp]
    · simp [hp] at hx; subst hx; simp [Resp.status, k1] at h0
  | tunnelCreate c =>
    simp only [step] at hx
    by_cases hp : ph = .handshake
    · simp [hp]
    · simp [hp] at hx; subst hx; simp [Resp.status, k1] at h0
  | tunnelAuth c =>
    simp only [step] at hx
    by_cases hp : ph = .tunnelCreate
    · simp [hp]
    · simp [hp] at hx; subst hx; simp [Resp.status, k1, authResp] at h0
  | channelCreate h =>
    simp only [step] at hx
    by_cases hp : ph = .tunnelAuthorize
    · simp [hp]
    · simp [hp] at hx; subst hx; simp [Resp.status, k1] at h0
  | closeChannel =>
    simp only [step] at hx
    by_cases hp : ph = .opened
    · simp [hp]
    · simp [hp] at hx
  | data p => simp
  | keepalive => simp
  | unknown ty => simp

/-! ### Non-vacuity: a full valid exchange drives the monitor to state 4 with exactly one dial -/

def cfg0 : Cfg := ⟨true, false, true, false, true, ⟨true, false, false, false, false, false, false⟩, 30⟩
def good : Bytes := [103, 111, 111, 100]
def host0 : Bytes := [104, 58, 51, 51, 56, 57]
def env0 : Env := ⟨fun c => c == good, fun _ => true, fun h => h == host0, fun _ => true⟩
def exchange : List Req :=
  [.handshake 1 0 2, .tunnelCreate good, .tunnelAuth [112, 99], .channelCreate host0,
   .data [1, 2, 3], .closeChannel, .data [9]]

example : dials (run cfg0 env0 .initialized exchange) = 1 := by decide
example : (run cfg0 env0 .initialized exchange).length = 6 := by decide
example : finalPhase cfg0 env0 .initialized exchange = .closed := by decide
/-- the monitor is not trivially true: a dial before tunnel authorization is rejected -/
example : ok cfg0 env0 [(.handshake 1 0 2, [.resp (.handshake 0 1 0 2)], false),
    (.channelCreate host0, [.dial host0 true, .resp (.channel 0), .relayStart], false)] = false := by
  decide
/-- …and so is a success answer to a rejected cookie -/
example : ok cfg0 env0 [(.handshake 1 0 2, [.resp (.handshake 0 1 0 2)], false),
    (.tunnelCreate [98, 97, 100], [.resp (.tunnel 0)], false)] = false := by decide

end Rdpgw.C01
