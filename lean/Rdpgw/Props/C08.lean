import Rdpgw.Lemmas.Frame
import Rdpgw.Model.Tunnel

/-!
# C08 — packet boundaries come from length fields, not from transport segmentation

Property theorems only.  `segs : List Bytes` is the sequence of transport reads (websocket
messages, HTTP chunk reads); every theorem is for *all* such lists, of any length.
-/

namespace Rdpgw.C08

open Rdpgw Rdpgw.Frame

/-- The packet loop, reading through the pending buffer, sees exactly the packets (and the same
    kind of end) as a parser of the whole, unsegmented byte stream. -/
theorem reader_refines_stream (segs : List Bytes) :
    readStream segs = parseStream segs.flatten := by
  unfold readStream
  have := readAll_eq_parseStream (segs.flatten.length + 1) [] segs (by simp)
  simpa using this

/-- Any two segmentations of the same byte stream yield the same packets in the same order and the
    same end condition. -/
theorem segmentation_independent (segs₁ segs₂ : List Bytes) (h : segs₁.flatten = segs₂.flatten) :
    readStream segs₁ = readStream segs₂ := by
  rw [reader_refines_stream, reader_refines_stream, h]

/-- **Empty transport messages are inert** (a zero-length websocket message is legal and carries no
    octet of the packet stream): inserting one anywhere changes nothing. -/
theorem empty_message_inert (a b : List Bytes) : readStream (a ++ [[]] ++ b) = readStream (a ++ b) :=
  segmentation_independent _ _ (by simp)

/-- **Fragmenting a message is inert**: a message delivered as two reads (or, by repetition, as any number
    of continuation frames that the transport hands over one by one) is the same stream. -/
theorem split_message_inert (a b : List Bytes) (x y : Bytes) :
    readStream (a ++ [x, y] ++ b) = readStream (a ++ [x ++ y] ++ b) :=
  segmentation_independent _ _ (by simp)

/-- The stream of well-formed packets parses back to exactly those packets and a clean end
    (nothing pending). -/
theorem stream_of_packets (ps : List Pkt) (h : ∀ p ∈ ps, p.wf) :
    parseStream (ps.map enc).flatten = (ps, .eof 0) := by
  induction ps with
  | nil =>
    simp only [List.map_nil, List.flatten_nil]
    rw [parseStream_need (by decide)]
    rfl
  | cons p t ih =>
    have hp : p.wf := h p (by simp)
    have ht : ∀ q ∈ t, q.wf := fun q hq => h q (by simp [hq])
    simp only [List.map_cons, List.flatten_cons]
    rw [parseStream_pkt (cut_enc p hp _), ih ht]

/-- However the bytes of a sequence of well-formed packets are delivered, the packet loop
    processes exactly those packets, in order. -/
theorem packets_of_any_segmentation (ps : List Pkt) (h : ∀ p ∈ ps, p.wf) (segs : List Bytes)
    (hs : segs.flatten = (ps.map enc).flatten) : readStream segs = (ps, .eof 0) := by
  rw [reader_refines_stream, hs, stream_of_packets ps h]

theorem parseStream_prefix (ps : List Pkt) (h : ∀ p ∈ ps, p.wf) (tail : Bytes) :
    parseStream ((ps.map enc).flatten ++ tail) =
      (ps ++ (parseStream tail).1, (parseStream tail).2) := by
  induction ps with
  | nil => simp
  | cons p t ih =>
    have hp : p.wf := h p (by simp)
    have ht : ∀ q ∈ t, q.wf := fun q hq => h q (by simp [hq])
    simp only [List.map_cons, List.flatten_cons, List.append_assoc]
    rw [parseStream_pkt (cut_enc p hp _), ih ht]
    simp

/-- A length field smaller than the header, or above the cap, ends the run with an error after
    exactly the preceding packets — whatever follows it and however it is segmented. -/
theorem bad_length_ends (ps : List Pkt) (h : ∀ p ∈ ps, p.wf) (hdr rest : Bytes)
    (hlen : hdr.length = 8) (hbad : rd32 (hdr.drop 4) < 8 ∨ rd32 (hdr.drop 4) > maxPkt)
    (segs : List Bytes) (hs : segs.flatten = (ps.map enc).flatten ++ hdr ++ rest) :
    readStream segs = (ps, .bad) := by
  rw [reader_refines_stream, hs, List.append_assoc, parseStream_prefix ps h]
  have hc : cut (hdr ++ rest) = .bad := by
    unfold cut
    have h8 : ¬ (hdr ++ rest).length < 8 := by simp only [List.length_append]; omega
    have hd : (hdr ++ rest).drop 4 = hdr.drop 4 ++ rest := by
      rw [List.drop_append_of_le_length (by omega)]
    have hr : rd32 ((hdr ++ rest).drop 4) = rd32 (hdr.drop 4) := by
      rw [hd]; exact rd32_append _ _ (by simp only [List.length_drop]; omega)
    simp only [h8, if_false, hr, hbad, if_true]
  rw [parseStream_bad hc]
  simp

/-- A packet that is never completed ends the run (transport end with bytes pending) after
    exactly the preceding packets; it is not misparsed into something else. -/
theorem incomplete_ends (ps : List Pkt) (h : ∀ p ∈ ps, p.wf) (p : Pkt) (hp : p.wf) (k : Nat)
    (hk : k < (enc p).length) (segs : List Bytes)
    (hs : segs.flatten = (ps.map enc).flatten ++ (enc p).take k) :
    readStream segs = (ps, .eof k) := by
  rw [reader_refines_stream, hs, parseStream_prefix ps h]
  have hlen : (enc p).length = 8 + p.body.length := by simp [enc]; omega
  have hlk : ((enc p).take k).length = k := by
    rw [List.length_take]; omega
  have hc : cut ((enc p).take k) = .need := by
    unfold cut
    rw [hlk]
    by_cases h8 : k < 8
    · simp [h8]
    · simp only [h8, if_false]
      have hd : ((enc p).take k).drop 4 = le32 (8 + p.body.length) ++ (p.body.take (k - 8)) := by
        obtain ⟨j, rfl⟩ : ∃ j, k = j + 8 := ⟨k - 8, by omega⟩
        simp [enc, le16, le32, List.take_succ_cons]
      have hmax : maxPkt < 4294967296 := by decide
      have hr : rd32 (((enc p).take k).drop 4) = 8 + p.body.length := by
        rw [hd]; exact rd32_le32 _ (by have := hp.2; omega) _
      simp only [hr]
      have hb : ¬ (8 + p.body.length < 8 ∨ 8 + p.body.length > maxPkt) := by
        have := hp.2; omega
      simp only [hb, if_false]
      have : k < 8 + p.body.length := by omega
      simp [this]
  rw [parseStream_need hc, hlk]
  simp

/-- **Same effects.** Whatever the segmentation, the gateway processes the same requests and
    produces the same responses, dial attempts and bytes towards the host, and ends the same way —
    for every configuration and every behaviour of the callbacks. -/
theorem same_effects (cfg : Tunnel.Cfg) (env : Tunnel.Env) (segs₁ segs₂ : List Bytes)
    (h : segs₁.flatten = segs₂.flatten) :
    Tunnel.runStream cfg env segs₁ = Tunnel.runStream cfg env segs₂ := by
  unfold Tunnel.runStream
  rw [segmentation_independent segs₁ segs₂ h]

/-! ### The pinned algorithm did not have the property (D1, D2): closed witnesses -/

def hs : Pkt := ⟨1, [0, 0, 0, 0, 0, 0]⟩
def tc : Pkt := ⟨4, [1, 2, 3, 4]⟩

/-- two packets coalesced into one read: the second is silently dropped -/
theorem legacy_drops_coalesced :
    readAllLegacy 10 [enc hs ++ enc tc] = ([hs], false) ∧
    readAllLegacy 10 [enc hs, enc tc] = ([hs, tc], false) := by decide

/-- a packet split over three reads ends the tunnel with an error -/
theorem legacy_three_way_split_fails :
    readAllLegacy 10 [(enc hs).take 3, ((enc hs).drop 3).take 3, (enc hs).drop 6] = ([], false) := by
  decide

/-- a length field of 3 panics (`data[8:3]`) -/
theorem legacy_short_length_panics :
    readAllLegacy 10 [[1, 0, 0, 0, 3, 0, 0, 0]] = ([], true) := by decide

/-- …whereas the repaired reader handles all three -/
example : readStream [enc hs ++ enc tc] = ([hs, tc], .eof 0) := by decide
example : readStream [(enc hs).take 3, ((enc hs).drop 3).take 3, (enc hs).drop 6] = ([hs], .eof 0) := by
  decide
example : readStream [[1, 0, 0, 0, 3, 0, 0, 0]] = ([], .bad) := by decide

/-- non-vacuity: the hypotheses of the theorems above are met by concrete packets -/
example : hs.wf ∧ tc.wf := by decide

end Rdpgw.C08
