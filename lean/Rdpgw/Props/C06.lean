import Rdpgw.Props.C08
import Rdpgw.Props.C16
import Rdpgw.Props.C01

/-!
# C06 — relayed byte streams are exact, ordered and complete in both directions
-/

namespace Rdpgw.C06

open Rdpgw Rdpgw.Frame Rdpgw.Tunnel Rdpgw.Resp Rdpgw.Spec.MSTSGU
open Rdpgw.Generated.Protocol

/-- MODEL of `forward`: every backend read (1 … `forwardReadSize` bytes) becomes one DATA packet -/
def forward (reads : List Bytes) : List Bytes := reads.map dataPacket

/-- the payload an independent reader extracts from a server packet (`[]` for non-DATA) -/
def payloadOf (pkt : Bytes) : Bytes :=
  match decode pkt with
  | some (.data p) => p
  | _ => []

def dataPkt (chunk : Bytes) : Pkt := ⟨PKT_TYPE_DATA, le16 chunk.length ++ chunk⟩

theorem dataPacket_eq (chunk : Bytes) : dataPacket chunk = enc (dataPkt chunk) := rfl

/-- the read buffer of `forward` keeps every DATA packet within one 4096-byte packet -/
theorem read_size_fits : forwardReadSize + 10 ≤ 4096 ∧ forwardReadSize < 65536 := by decide

/-- **Down, well-formed.** Every DATA packet sent to the client has a header length equal to the
    bytes sent, a payload-length field equal to the payload it carries, and is at most 4096 bytes. -/
theorem down_wellformed (chunk : Bytes) (h : chunk.length ≤ forwardReadSize) :
    decode (dataPacket chunk) = some (.data chunk) ∧ (dataPacket chunk).length ≤ 4096 := by
  have hf := read_size_fits
  constructor
  · exact C16.data_packet_wellformed chunk (by omega)
  · simp [dataPacket, enc]; omega

/-- **Down, exact.** For any way the backend's byte stream is chunked by reads, the payloads of the
    packets the client parses out of what the gateway sent — with the independent framing and
    decoding — concatenate to exactly the backend's stream, in order. -/
theorem down_exact (reads : List Bytes) (h : ∀ r ∈ reads, r.length ≤ forwardReadSize) :
    parseStream (forward reads).flatten = (reads.map dataPkt, .eof 0) ∧
    ((forward reads).map payloadOf).flatten = reads.flatten := by
  have hf := read_size_fits
  constructor
  · have : (forward reads) = (reads.map dataPkt).map enc := by
      simp [forward, dataPacket_eq, List.map_map]
    rw [this]
    apply C08.stream_of_packets
    intro p hp
    obtain ⟨r, hr, rfl⟩ := List.mem_map.mp hp
    have := h r hr
    have hmax : 4096 ≤ maxPkt := by decide
    constructor
    · show PKT_TYPE_DATA < 65536
      decide
    · simp [dataPkt]; omega
  · induction reads with
    | nil => rfl
    | cons r rs ih =>
      have hr := h r (by simp)
      have ih' := ih (fun x hx => h x (by simp [hx]))
      simp only [forward, List.map_cons, List.flatten_cons] at ih' ⊢
      rw [ih']
      congr 1
      unfold payloadOf
      rw [(down_wellformed r hr).1]

/-! ### client → host -/

def upBytes (t : List (Req × List Ev × Bool)) : Bytes :=
  (t.map (fun e => (e.2.1.filterMap (fun ev => match ev with | .up p => some p | _ => none)).flatten)).flatten

/-- what `receive` forwards for a DATA body: `min(declared, carried)` bytes of the payload —
    never invented bytes -/
theorem receive_spec (body : Bytes) (h : 2 ≤ body.length) :
    Body.receive body = (body.drop 2).take (min (rd16 body) (body.length - 2)) := by
  unfold Body.receive Body.u16 Body.fixed
  simp only [h, if_true]
  have hlen : (body.drop 2).length = body.length - 2 := by simp
  have hrd : rd16 (body.take 2) = rd16 body := by
    match body, h with
    | a :: b :: t, _ => simp [rd16]
  simp only [hrd]
  unfold Body.blobAllOrNothing
  by_cases hc : rd16 body > (body.drop 2).length
  · simp only [hc, if_true]
    simp only [Nat.le_refl, if_true, List.take_length]
    rw [hlen] at hc
    have : min (rd16 body) (body.length - 2) = body.length - 2 := by omega
    rw [this, ← hlen, List.take_length]
  · simp only [hc, if_false]
    have hle : rd16 body ≤ (body.drop 2).length := by omega
    simp only [hle, if_true]
    rw [hlen] at hle
    have : min (rd16 body) (body.length - 2) = rd16 body := by omega
    rw [this]

/-- a well-formed DATA body is forwarded exactly: its declared payload -/
theorem receive_exact (payload : Bytes) (h : payload.length < 65536) :
    Body.receive (le16 payload.length ++ payload) = payload := by
  rw [receive_spec _ (by simp)]
  have h1 : rd16 (le16 payload.length ++ payload) = payload.length := rd16_le16 _ h _
  rw [h1]
  have : (le16 payload.length ++ payload).drop 2 = payload := by simp [le16]
  rw [this]
  simp

theorem run_data_up (cfg : Cfg) (env : Env) (ps : List Bytes) :
    ∀ ph, (ph = .channelCreate ∨ ph = .opened) →
      upBytes (run cfg env ph (ps.map Req.data)) = ps.flatten := by
  obtain ⟨_, _, _, _, o4, o5, _⟩ := C01.state_order
  induction ps with
  | nil => intro ph _; simp [run, upBytes]
  | cons p t ih =>
    intro ph hph
    have hs : step cfg env ph (.data p) = ⟨.opened, [.up p], false⟩ := by
      rcases hph with rfl | rfl <;> simp [step, o4, o5]
    simp only [List.map_cons, run, hs, Bool.false_eq_true, if_false]
    have := ih .opened (Or.inr rfl)
    simp only [upBytes, List.map_cons, List.flatten_cons] at this ⊢
    rw [this]
    simp

/-- **Up, exact.** Once a channel is open, for any list of client DATA packets and **any
    segmentation** of their byte stream into transport reads, the bytes delivered to the host are
    exactly the concatenation, in order, of what `receive` extracts from each packet (the declared
    payload; `min(declared, carried)` when the length field lies) — nothing dropped, duplicated,
    reordered or invented. -/
theorem up_exact (cfg : Cfg) (env : Env) (bodies : List Bytes) (hb : ∀ b ∈ bodies, 8 + b.length ≤ maxPkt)
    (segs : List Bytes) (hs : segs.flatten = (bodies.map (fun b => enc ⟨PKT_TYPE_DATA, b⟩)).flatten)
    (ph : Phase) (hph : ph = .channelCreate ∨ ph = .opened) :
    upBytes (run cfg env ph ((readStream segs).1.map parseReq)) = (bodies.map Body.receive).flatten := by
  have hps : readStream segs = (bodies.map (fun b => (⟨PKT_TYPE_DATA, b⟩ : Pkt)), .eof 0) := by
    apply C08.packets_of_any_segmentation
    · intro p hp
      obtain ⟨b, hbm, rfl⟩ := List.mem_map.mp hp
      exact ⟨(by decide : PKT_TYPE_DATA < 65536), hb b hbm⟩
    · rw [hs, List.map_map]; rfl
  rw [hps]
  have hreq : (bodies.map (fun b => (⟨PKT_TYPE_DATA, b⟩ : Pkt))).map parseReq =
      (bodies.map Body.receive).map Req.data := by
    rw [List.map_map, List.map_map]
    apply List.map_congr_left
    intro b _
    simp only [Function.comp, parseReq]
    have e1 : ¬ PKT_TYPE_DATA = PKT_TYPE_HANDSHAKE_REQUEST := by decide
    have e2 : ¬ PKT_TYPE_DATA = PKT_TYPE_TUNNEL_CREATE := by decide
    have e3 : ¬ PKT_TYPE_DATA = PKT_TYPE_TUNNEL_AUTH := by decide
    have e4 : ¬ PKT_TYPE_DATA = PKT_TYPE_CHANNEL_CREATE := by decide
    simp [e1, e2, e3, e4]
  simp only
  rw [hreq]
  exact run_data_up cfg env _ ph hph

/-- well-formed packets: the host gets exactly the concatenation of the declared payloads -/
theorem up_exact_wellformed (cfg : Cfg) (env : Env) (payloads : List Bytes)
    (hp : ∀ p ∈ payloads, p.length < 65536) (segs : List Bytes)
    (hs : segs.flatten = (payloads.map (fun p => enc ⟨PKT_TYPE_DATA, le16 p.length ++ p⟩)).flatten) :
    upBytes (run cfg env .channelCreate ((readStream segs).1.map parseReq)) = payloads.flatten := by
  have hmax : 65536 + 10 ≤ maxPkt := by decide
  have := up_exact cfg env (payloads.map (fun p => le16 p.length ++ p))
    (by
      intro b hbm
      obtain ⟨p, hpm, rfl⟩ := List.mem_map.mp hbm
      have := hp p hpm
      simp; omega)
    segs (by rw [hs, List.map_map]; rfl) .channelCreate (Or.inl rfl)
  rw [this, List.map_map]
  congr 1
  have : payloads.map (Body.receive ∘ fun p => le16 p.length ++ p) = payloads.map id := by
    apply List.map_congr_left
    intro p hpm
    exact receive_exact p (hp p hpm)
  rw [this, List.map_id]

/-- **Interleaving is harmless as long as whole packets are written**: whatever order the packet
    loop's responses and the relay's DATA packets are written in, the client's framing recovers
    exactly that sequence of packets (so each writer's packets arrive intact and in its order). -/
theorem interleave_intact (merged : List Pkt) (h : ∀ p ∈ merged, p.wf) :
    parseStream (merged.map enc).flatten = (merged, .eof 0) := C08.stream_of_packets merged h

/-- the pinned `receive` did not have the property (D3): a body declaring 10 bytes and carrying 3
    made it write 10 zero bytes; the repaired one forwards the 3 bytes that are there -/
example : Body.receive [10, 0, 1, 2, 3] = [1, 2, 3] := by decide
example : Body.receive [2, 0, 1, 2, 3] = [1, 2] := by decide
example : Body.receive [7] = [] := by decide

end Rdpgw.C06
