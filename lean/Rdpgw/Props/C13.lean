import Rdpgw.Model.Oidc

/-!
# C13 — a session becomes authenticated only through a verified OpenID login
-/

namespace Rdpgw.C13

open Rdpgw Rdpgw.Oidc

/-- the state lifetime is two minutes (regenerated constant) -/
theorem state_lifetime : stateLifetime = 120 := by decide

/-- **Authenticated only if verified.** If a callback turns an unauthenticated session into an
    authenticated one, then: the state value was issued by this gateway less than two minutes ago,
    the IdP exchanged the code, an ID token was present and verified, it carried a non-empty
    user-name claim, and the session's user name is exactly that claim. -/
theorem auth_only_if_verified (f : Facts) (s : Session) (hs : s.authenticated = false)
    (h : (callback f s).2.authenticated = true) :
    (∃ age, f.stateIssuedAgo = some age ∧ age < 120) ∧ f.codeOk = true ∧ f.hasIdToken = true ∧
    f.verifies = true ∧ f.claimsParse = true ∧
    ∃ u, f.userClaim = some u ∧ u ≠ [] ∧ (callback f s).2 = ⟨true, u, f.accessToken⟩ ∧ (callback f s).1 = 302 := by
  unfold callback at h ⊢
  by_cases h1 : (!stateOk f) = true
  · simp [h1, hs] at h
  · simp only [h1, Bool.false_eq_true, if_false] at h ⊢
    by_cases h2 : (!f.codeOk) = true
    · simp [h2, hs] at h
    · simp only [h2, Bool.false_eq_true, if_false] at h ⊢
      by_cases h3 : (!f.hasIdToken) = true
      · simp [h3, hs] at h
      · simp only [h3, Bool.false_eq_true, if_false] at h ⊢
        by_cases h4 : (!f.verifies) = true
        · simp [h4, hs] at h
        · simp only [h4, Bool.false_eq_true, if_false] at h ⊢
          by_cases h5 : (!f.claimsParse) = true
          · simp [h5, hs] at h
          · simp only [h5, Bool.false_eq_true, if_false] at h ⊢
            simp at h1 h2 h3 h4 h5
            have hst : ∃ age, f.stateIssuedAgo = some age ∧ age < 120 := by
              unfold stateOk at h1
              cases ha : f.stateIssuedAgo with
              | none => simp [ha] at h1
              | some age =>
                simp only [ha, decide_eq_true_eq] at h1
                rw [state_lifetime] at h1
                exact ⟨age, rfl, h1⟩
            refine ⟨hst, h2, h3, h4, h5, ?_⟩
            cases hu : f.userClaim with
            | none => simp [hu, hs] at h
            | some u =>
              simp only [hu] at h ⊢
              by_cases he : u = []
              · simp [he, hs] at h
              · simp only [he, if_false]
                exact ⟨u, rfl, he, by simp⟩

/-- **Any failing callback leaves the session as it was** — whichever store is configured (the
    repaired callback does not depend on the store), at every failure point. -/
theorem failure_keeps_session (f : Facts) (s : Session)
    (hfail : stateOk f = false ∨ f.codeOk = false ∨ f.hasIdToken = false ∨ f.verifies = false ∨
      f.claimsParse = false ∨ f.userClaim = none ∨ f.userClaim = some []) :
    (callback f s).2 = s ∧ (callback f s).1 ≠ 302 := by
  unfold callback
  by_cases h1 : stateOk f = false
  · simp [h1]
  · simp only [Bool.not_eq_false] at h1
    by_cases h2 : f.codeOk = false
    · simp [h1, h2]
    · simp only [Bool.not_eq_false] at h2
      by_cases h3 : f.hasIdToken = false
      · simp [h1, h2, h3]
      · simp only [Bool.not_eq_false] at h3
        by_cases h4 : f.verifies = false
        · simp [h1, h2, h3, h4]
        · simp only [Bool.not_eq_false] at h4
          by_cases h5 : f.claimsParse = false
          · simp [h1, h2, h3, h4, h5]
          · simp only [Bool.not_eq_false] at h5
            rcases hfail with h | h | h | h | h | h | h
            · rw [h1] at h; cases h
            · rw [h2] at h; cases h
            · rw [h3] at h; cases h
            · rw [h4] at h; cases h
            · rw [h5] at h; cases h
            · simp [h1, h2, h3, h4, h5, h]
            · simp [h1, h2, h3, h4, h5, h]

/-- an unauthenticated session is sent to the identity provider and never reaches the handler -/
theorem unauthenticated_redirected (s : Session) (h : s.authenticated = false) : connect s = 302 := by
  simp [connect, h]

theorem failure_then_connect_redirects (f : Facts) (s : Session) (hs : s.authenticated = false)
    (hfail : stateOk f = false ∨ f.codeOk = false ∨ f.hasIdToken = false ∨ f.verifies = false ∨
      f.claimsParse = false ∨ f.userClaim = none ∨ f.userClaim = some []) :
    connect (callback f s).2 = 302 := by
  rw [(failure_keeps_session f s hfail).1]
  exact unauthenticated_redirected s hs

/-- an expired or never-issued state value is refused with 400 -/
theorem stale_state_refused (f : Facts) (s : Session)
    (h : f.stateIssuedAgo = none ∨ ∃ age, f.stateIssuedAgo = some age ∧ 120 ≤ age) :
    callback f s = (400, s) := by
  have : stateOk f = false := by
    unfold stateOk
    rcases h with h | ⟨age, h, hage⟩
    · simp [h]
    · simp only [h, decide_eq_false_iff_not]
      rw [state_lifetime]; omega
  simp [callback, this]

/-- **The pinned callback violated the property with the file store (D21)**: an ID token without a
    user-name claim left the session authenticated with an empty name. -/
theorem legacy_file_store_authenticates :
    let f : Facts := ⟨some 5, true, true, true, true, none, [116]⟩
    (callbackLegacy .file f Session.fresh).2.authenticated = true ∧
    connect (callbackLegacy .file f Session.fresh).2 = 200 ∧
    (callbackLegacy .cookie f Session.fresh).2.authenticated = false := by decide

/-- non-vacuity: a fully verified login -/
example : callback ⟨some 5, true, true, true, true, some [97], [116]⟩ Session.fresh = (302, ⟨true, [97], [116]⟩) := by
  decide

/-! ## The state store over time -/

theorem find_filter_other (st : StateStore) (s s' : Bytes) (h : s' ≠ s) :
    (st.filter (fun e => e.state ≠ s')).find? (fun e => e.state == s) = st.find? (fun e => e.state == s) := by
  induction st with
  | nil => rfl
  | cons a t ih =>
    by_cases ha : a.state = s'
    · have h1 : (a.state == s) = false := by rw [ha]; simpa using h
      rw [List.filter_cons_of_neg (by simp [ha]), List.find?_cons_of_neg (by simp [h1])]
      exact ih
    · rw [List.filter_cons_of_pos (by simp [ha])]
      by_cases hs : (a.state == s) = true
      · rw [List.find?_cons_of_pos (by simpa using hs), List.find?_cons_of_pos (by simpa using hs)]
      · rw [List.find?_cons_of_neg (by simpa using hs), List.find?_cons_of_neg (by simpa using hs)]
        exact ih

theorem any_filter_self (st : StateStore) (s : Bytes) (q : Entry → Bool) :
    (st.filter (fun e => e.state ≠ s)).any (fun e => e.state == s && q e) = false := by
  induction st with
  | nil => rfl
  | cons a t ih =>
    by_cases ha : a.state = s
    · rw [List.filter_cons_of_neg (by simp [ha])]; exact ih
    · rw [List.filter_cons_of_pos (by simp [ha]), List.any_cons, ih]
      have : (a.state == s) = false := by simpa using ha
      simp [this]

/-- **Callbacks never renew a state.** Whatever callbacks arrive, with whatever outcome, the expiry
    of every state value stays what it was. -/
theorem callback_keeps_expiry (st : StateStore) (now : Nat) (s s' : Bytes) :
    expiryOf (storeStep st (.callback now s)) s' = expiryOf st s' := rfl

/-- over any history that does not issue `s` again, the expiry of `s` does not move -/
theorem expiry_stable (st : StateStore) (s : Bytes) (es : List StoreEv)
    (h : ∀ e ∈ es, ∀ now, e ≠ .issue now s) : expiryOf (storeRun st es) s = expiryOf st s := by
  induction es generalizing st with
  | nil => rfl
  | cons e es ih =>
    have hrest : ∀ e' ∈ es, ∀ now, e' ≠ .issue now s := fun e' he now => h e' (List.mem_cons_of_mem _ he) now
    simp only [storeRun]
    rw [ih _ hrest]
    cases e with
    | callback now s' => rfl
    | issue now s' =>
      have hne : s' ≠ s := by
        intro e'; subst e'
        exact h (.issue now s') (List.mem_cons_self) now rfl
      have hne' : (s' == s) = false := by simpa using hne
      simp only [storeStep, expiryOf]
      rw [List.find?_cons_of_neg (by simp [hne']), find_filter_other st s s' hne]

/-- **A state is honoured for exactly two minutes from its issuance**: it is known at time `t`
    right after being issued at `t0` iff `t < t0 + 120`. -/
theorem issued_known_two_minutes (st : StateStore) (t0 t : Nat) (s : Bytes) :
    known (storeStep st (.issue t0 s)) t s = decide (t < t0 + 120) := by
  have hl : stateLifetime = 120 := state_lifetime
  simp only [storeStep, known, List.any_cons, beq_self_eq_true, Bool.true_and, hl]
  rw [any_filter_self st s (fun e => decide (t < e.expires))]
  simp

/-- a state that was never issued is not known, at any time -/
theorem never_issued_unknown (now : Nat) (s : Bytes) (es : List StoreEv)
    (h : ∀ e ∈ es, ∀ t, e ≠ .issue t s) : known (storeRun [] es) now s = false := by
  have hexp := expiry_stable [] s es h
  simp only [expiryOf, List.find?_nil, Option.map_none] at hexp
  have hfind : (storeRun [] es).find? (fun e => e.state == s) = none := by
    cases hf : (storeRun [] es).find? (fun e => e.state == s) with
    | none => rfl
    | some x => rw [hf] at hexp; simp at hexp
  simp only [known, List.any_eq_false]
  intro e he
  have := List.find?_eq_none.mp hfind e he
  simp only [Bool.not_eq_true] at this
  simp [this]

/-- non-vacuity -/
example : known (storeRun [] [.issue 1000 [7], .callback 1050 [7], .callback 1100 [9]]) 1119 [7] = true ∧
    known (storeRun [] [.issue 1000 [7], .callback 1050 [7]]) 1120 [7] = false := by decide

end Rdpgw.C13
