import Rdpgw.Model.UserToken
import Rdpgw.Generated.Tokens

/-!
# C15 — user tokens verify only if minted under the configured keys and unexpired
-/

namespace Rdpgw.C15

open Rdpgw Rdpgw.UserToken

/-- **200 only if**: a token yields claims only when it decrypts under the configured encryption
    key, its inner signature verifies under the signing key when one is configured, it names the
    gateway as issuer and has not expired. -/
theorem ok_only_if (signMode : Bool) (f : Facts) (now : Nat) (sub : Bytes)
    (h : verify signMode f now = some sub) :
    f.jwe5 = true ∧ f.decOk = true ∧
    (signMode = true → ∃ hs sig, f.inner = .jws hs sig ∧ hs = true ∧ sig = true) ∧
    (signMode = false → f.inner = .claims) ∧
    f.iss = Cookie.issuer ∧ (∀ e, f.exp = some e → now ≤ e + 60) ∧ sub = f.sub := by
  unfold verify at h
  by_cases h1 : (!f.jwe5) = true
  · simp [h1] at h
  · simp only [h1, Bool.false_eq_true, if_false] at h
    by_cases h2 : (signMode && !f.ctyJWT) = true
    · simp [h2] at h
    · simp only [h2, Bool.false_eq_true, if_false] at h
      by_cases h3 : (!f.decOk) = true
      · simp [h3] at h
      · simp only [h3, Bool.false_eq_true, if_false] at h
        by_cases h4 : (!innerOk signMode f.inner) = true
        · simp [h4] at h
        · simp only [h4, Bool.false_eq_true, if_false] at h
          by_cases h5 : f.iss ≠ Cookie.issuer
          · simp [h5] at h
          · simp only [h5, if_false] at h
            by_cases h6 : (!timeOk f now) = true
            · simp [h6] at h
            · simp only [h6, Bool.false_eq_true, if_false] at h
              simp at h1 h3 h4 h5 h6
              refine ⟨h1, h3, ?_, ?_, h5, ?_, by cases h; rfl⟩
              · intro hs
                subst hs
                cases hi : f.inner with
                | claims => simp [hi, innerOk] at h4
                | other => simp [hi, innerOk] at h4
                | jws a b => simp [hi, innerOk] at h4; exact ⟨a, b, rfl, h4.1, h4.2⟩
              · intro hs
                subst hs
                cases hi : f.inner with
                | claims => rfl
                | other => simp [hi, innerOk] at h4
                | jws a b => simp [hi, innerOk] at h4
              · intro e he
                unfold timeOk at h6
                simp [he] at h6
                exact h6.1.2

/-- **Mode separation**: a token minted in encrypt-only mode is not accepted in sign-and-encrypt
    mode, nor the reverse. -/
theorem mode_separation (now now' : Nat) (u : Bytes) :
    verify true (mint false now u) now' = none ∧ verify false (mint true now u) now' = none := by
  constructor <;> simp [verify, mint, innerOk]

/-- **Subject**: a token minted for user `u` yields subject `u` (in its own mode, while fresh). -/
theorem subject (signMode : Bool) (now now' : Nat) (u : Bytes) (h : now' ≤ now + 360) :
    verify signMode (mint signMode now u) now' = some u := by
  have hle : now' ≤ now + 300 + 60 := by omega
  cases signMode <;> simp [verify, mint, timeOk, lifetime, hle, innerOk]

/-- expired tokens are refused -/
theorem expired_refused (signMode : Bool) (now now' : Nat) (u : Bytes) (h : now + 360 < now') :
    verify signMode (mint signMode now u) now' = none := by
  cases hv : verify signMode (mint signMode now u) now' with
  | none => rfl
  | some s =>
    have := (ok_only_if signMode _ now' s hv).2.2.2.2.2.1 (now + 300) rfl
    omega

/-- **Status map** of the token-info endpoint: 405 for non-GET, 400 for a missing or empty token
    parameter, 403 for a refused token, 200 otherwise; no claims unless 200. -/
theorem status_map (isGet : Bool) (param : Option Bytes) (result : Bytes → Option Bytes) :
    let r := tokenInfo isGet param result
    (isGet = false → r = (405, none)) ∧
    (isGet = true → param = none → r = (400, none)) ∧
    (isGet = true → param = some [] → r = (400, none)) ∧
    (∀ t, isGet = true → param = some t → t ≠ [] → result t = none → r = (403, none)) ∧
    (∀ t s, isGet = true → param = some t → t ≠ [] → result t = some s → r = (200, some s)) ∧
    (r.2.isSome → r.1 = 200) := by
  refine ⟨?_, ?_, ?_, ?_, ?_, ?_⟩
  · intro h; simp [tokenInfo, h]
  · intro h1 h2; simp [tokenInfo, h1, h2]
  · intro h1 h2; simp [tokenInfo, h1, h2]
  · intro t h1 h2 h3 h4
    have : t.isEmpty = false := by cases t <;> simp_all
    simp [tokenInfo, h1, h2, this, h4]
  · intro t s h1 h2 h3 h4
    have : t.isEmpty = false := by cases t <;> simp_all
    simp [tokenInfo, h1, h2, this, h4]
  · intro h
    unfold tokenInfo at h ⊢
    cases isGet <;> simp_all
    cases param with
    | none => simp_all
    | some t =>
      simp only at h ⊢
      split at h <;> simp_all
      split at h <;> simp_all

/-- non-vacuity -/
example : verify true (mint true 1000 [117]) 1200 = some [117] := by decide
example : verify false (mint false 1000 [117]) 1200 = some [117] := by decide

/-! ### Facts read off `cmd/rdpgw/security` (regenerated from the source on every run) -/

open Rdpgw.Generated in
theorem facts_user_lifetime :
    ∀ e ∈ Tokens.expiries, e.1 = "GenerateUserToken" → e.2 = UserToken.lifetime * 1000000000 := by decide

open Rdpgw.Generated in
theorem facts_user_issuer :
    ∀ e ∈ Tokens.issuers, (e.1 = "GenerateUserToken" ∨ e.1 = "UserInfo") → e.2 = Cookie.issuer := by decide

/-- the two parsers of `UserInfo` admit direct key agreement, A128CBC-HS256 content encryption and
    (in sign-and-encrypt mode) HS256 signatures — nothing else -/
theorem facts_user_parsers :
    ∀ e ∈ Generated.Tokens.parsers, e.1 = "UserInfo" →
      (e.2.1 = "ParseSignedAndEncrypted" ∧ e.2.2 = ["DIRECT", "A128CBC_HS256", "HS256"]) ∨
      (e.2.1 = "ParseEncrypted" ∧ e.2.2 = ["DIRECT", "A128CBC_HS256"]) := by decide

theorem facts_user_algs :
    ∀ e ∈ Generated.Tokens.mintAlgs, e.1 = "GenerateUserToken" → e.2 ∈ ["A128CBC_HS256", "DIRECT", "HS256"] := by decide

end Rdpgw.C15
