import Rdpgw.Model.Access
import Rdpgw.Generated.Access
import Rdpgw.Props.C06

/-!
# C09 — no data races or interleaved writes under concurrent use

`lockset_sound` is generic (proved once, by induction over executions); `table_ok` is decided on
the access table regenerated from the Go source on every run.
-/

namespace Rdpgw.C09

open Rdpgw.Access

theorem disjoint_symm {xs ys} (h : disjoint xs ys) : disjoint ys xs := fun x hx => h x ⟨hx.2, hx.1⟩

def LockInv (tbl : List Access) (c : Cfg) : Prop :=
  (∀ p ∈ c, p.2 ∈ tbl ∧ p.2.role = p.1.role) ∧
  (∀ p ∈ c, ∀ q ∈ c, p.1 ≠ q.1 → disjoint (lockInsts p.1 p.2) (lockInsts q.1 q.2)) ∧
  (∀ p ∈ c, ∀ q ∈ c, p.1.tunnel = q.1.tunnel → p.1.role ≠ q.1.role → p.2.pre = false ∧ q.2.pre = false)

theorem inv_reach (tbl : List Access) (c : Cfg) (h : Reach tbl c) : LockInv tbl c := by
  induction h with
  | init => exact ⟨by simp, by simp, by simp⟩
  | step c c' _ hs ih =>
    obtain ⟨ih1, ih2, ih3⟩ := ih
    cases hs with
    | enter t a hmem hrole hnew hfree hpre =>
      refine ⟨?_, ?_, ?_⟩
      · intro p hp
        rcases List.mem_cons.mp hp with rfl | hp
        · exact ⟨hmem, hrole⟩
        · exact ih1 p hp
      · intro p hp q hq hne
        rcases List.mem_cons.mp hp with rfl | hp <;> rcases List.mem_cons.mp hq with rfl | hq
        · exact absurd rfl hne
        · exact hfree q hq
        · exact disjoint_symm (hfree p hp)
        · exact ih2 p hp q hq hne
      · intro p hp q hq htun hrol
        rcases List.mem_cons.mp hp with rfl | hp <;> rcases List.mem_cons.mp hq with rfl | hq
        · exact absurd rfl hrol
        · exact hpre q hq htun.symm (fun e => hrol e.symm)
        · have := hpre p hp htun hrol
          exact ⟨this.2, this.1⟩
        · exact ih3 p hp q hq htun hrol
    | leave p hp =>
      refine ⟨?_, ?_, ?_⟩
      · intro q hq; exact ih1 q (List.mem_of_mem_erase hq)
      · intro q hq r hr hne
        exact ih2 q (List.mem_of_mem_erase hq) r (List.mem_of_mem_erase hr) hne
      · intro q hq r hr h1 h2
        exact ih3 q (List.mem_of_mem_erase hq) r (List.mem_of_mem_erase hr) h1 h2

theorem tableOK_spec {tbl : List Access} (h : tableOK tbl = true) {a b : Access} (ha : a ∈ tbl) (hb : b ∈ tbl)
    (hc : conflict a b = true) (hm : mayConcur a b = true) : protectedBy a b = true := by
  unfold tableOK at h
  have h1 := List.all_eq_true.mp h a ha
  have h2 := List.all_eq_true.mp h1 b hb
  simp [hc, hm] at h2
  exact h2

/-- **Lockset soundness.** If the extracted table passes the check, no reachable configuration —
    any number of tunnels, any interleaving of their handler and relay goroutines — has two
    goroutines inside conflicting accesses to the same instance of a resource. -/
theorem lockset_sound (tbl : List Access) (hok : tableOK tbl = true) (c : Cfg) (hr : Reach tbl c) : ¬ Race c := by
  obtain ⟨inv1, inv2, inv3⟩ := inv_reach tbl c hr
  rintro ⟨p, q, hp, hq, hne, hres, hw⟩
  obtain ⟨t1, a⟩ := p
  obtain ⟨t2, b⟩ := q
  simp only at hne hres hw
  obtain ⟨ha, hra⟩ := inv1 _ hp
  obtain ⟨hb, hrb⟩ := inv1 _ hq
  simp only at ha hra hb hrb
  have hdis := inv2 _ hp _ hq hne
  simp only at hdis
  simp only [resInst, Prod.mk.injEq] at hres
  obtain ⟨hresid, hinst⟩ := hres
  have hscope : a.rscope = b.rscope ∧ (a.rscope = .perTunnel → t1.tunnel = t2.tunnel) := by
    cases hsa : a.rscope <;> cases hsb : b.rscope <;> simp [inst, hsa, hsb] at hinst ⊢
    exact hinst
  have hconf : conflict a b = true := by
    simp [conflict, hresid, hscope.1]
    rcases hw with h | h <;> simp [h]
  have hmay : mayConcur a b = true := by
    unfold mayConcur
    cases hsa : a.rscope with
    | global => rfl
    | perTunnel =>
      have htun := hscope.2 hsa
      have hroles : a.role ≠ b.role := by
        intro e
        apply hne
        cases t1; cases t2
        simp_all
      have hpre := inv3 _ hp _ hq htun (by rw [← hra, ← hrb]; exact hroles)
      simp only at hpre
      simp [hroles, hpre.1, hpre.2]
  have hprot := tableOK_spec hok ha hb hconf hmay
  unfold protectedBy at hprot
  obtain ⟨l, hla, hlb⟩ := List.any_eq_true.mp hprot
  simp only [Bool.and_eq_true, Bool.or_eq_true, List.contains_iff_mem, beq_iff_eq] at hlb
  obtain ⟨hlb, hsc⟩ := hlb
  have hsame : inst l.scope t1 = inst l.scope t2 := by
    cases hls : l.scope with
    | global => rfl
    | perTunnel =>
      rcases hsc with h | h
      · rw [hls] at h; cases h
      · simp [inst, hscope.2 h]
  apply hdis (l.id, inst l.scope t1)
  constructor
  · exact List.mem_map.mpr ⟨l, hla, rfl⟩
  · rw [hsame]; exact List.mem_map.mpr ⟨l, hlb, rfl⟩

/-- **The access table of the current source passes the check** (re-decided on every run against
    the table the extractor regenerated from /repo). -/
theorem table_ok : tableOK Rdpgw.Generated.Access.table = true := by decide

/-- hence: no two goroutines of the gateway are ever inside conflicting accesses -/
theorem no_race (c : Cfg) (hr : Reach Rdpgw.Generated.Access.table c) : ¬ Race c :=
  lockset_sound _ table_ok c hr

/-- packets written to one client are never interleaved or corrupted: both writers write whole
    packets (C06.interleave_intact) and the table shows every use of the client writer holds the
    per-tunnel write lock (it is part of `table_ok`; stated separately for the replay message) -/
theorem whole_packets_parse (merged : List Frame.Pkt) (h : ∀ p ∈ merged, p.wf) :
    Frame.parseStream (merged.map Frame.enc).flatten = (merged, .eof 0) := C06.interleave_intact merged h

/-! ### the table of the pinned tree failed the check in three places (D4, D5, D6) -/

def mu : Lock := ⟨0, .global⟩
def wmu : Lock := ⟨1, .perTunnel⟩
def pinned : List Access := [
  ⟨0, 100, .global, true, [], true⟩,       -- handler: Connections[t.Id] = …      (RegisterTunnel)
  ⟨0, 100, .global, true, [], false⟩,      -- handler: delete(Connections, t.Id)  (RemoveTunnel)
  ⟨0, 200, .perTunnel, true, [], false⟩,   -- handler: client writer + BytesSent  (Tunnel.Write from Process)
  ⟨1, 200, .perTunnel, true, [], false⟩,   -- relay:   client writer + BytesSent  (Tunnel.Write from forward)
  ⟨0, 300, .global, true, [], false⟩ ]     -- handler: p.gw.IdleTimeout = 0
def repaired : List Access := [
  ⟨0, 100, .global, true, [mu], true⟩, ⟨0, 100, .global, true, [mu], false⟩,
  ⟨0, 200, .perTunnel, true, [wmu], false⟩, ⟨1, 200, .perTunnel, true, [wmu], false⟩ ]

theorem pinned_fails : tableOK pinned = false := by decide
example : tableOK repaired = true := by decide
example : (offenders pinned).length = 7 := by decide

end Rdpgw.C09
