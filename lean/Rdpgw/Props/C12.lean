import Rdpgw.Model.Download
import Rdpgw.Props.C02
import Rdpgw.Props.C03

/-!
# C12 — connection files go only to logged-in sessions and bind user, host and address
-/

namespace Rdpgw.C12

open Rdpgw Rdpgw.Policy Rdpgw.Download

/-- **No token without login.** -/
theorem unauth_no_token (c : Cfg) (s : Sess) (r : Req) (h : s.authenticated = false) :
    download c s r = .redirect := by simp [download, h]

/-- **Host policy.** The host a file names comes from the selection policy: a configured entry for
    round-robin and unsigned selection (the requested one for unsigned), the subject of a valid query
    token that is also a configured entry for signed selection, the requested value only in 'any'
    mode — in every case with the session's user name substituted for the placeholder. -/
theorem host_policy (c : Cfg) (s : Sess) (r : Req) (host : Bytes) (u d : Option Bytes) (a b ip at' : Bytes)
    (h : download c s r = .file host u d a b ip at') :
    ∃ h0, host = entryFor s.user h0 ∧
      ((c.mode = mSigned ∧ r.hostParam.isSome ∧ r.querySubject = some h0 ∧ h0 ∈ c.hosts) ∨
       (c.mode ≠ mSigned ∧ c.mode = mUnsigned ∧ r.hostParam = some h0 ∧ h0 ∈ c.hosts) ∨
       (c.mode ≠ mSigned ∧ c.mode ≠ mUnsigned ∧ c.mode = mAny ∧ r.hostParam = some h0) ∨
       (c.mode ≠ mSigned ∧ c.mode ≠ mUnsigned ∧ c.mode ≠ mAny ∧ h0 ∈ c.hosts)) := by
  unfold download at h
  by_cases ha : (!s.authenticated) = true
  · simp [ha] at h
  · simp only [ha, Bool.false_eq_true, if_false] at h
    cases hg : getHost c r with
    | none => simp [hg] at h
    | some h0 =>
      simp only [hg] at h
      by_cases hb : templateBad c (userDomain c s).1 = true
      · simp [hb] at h
      · simp only [hb, Bool.false_eq_true, if_false, fileFor] at h
        injection h with h1
        refine ⟨h0, h1.symm, ?_⟩
        unfold getHost at hg
        by_cases m1 : c.mode = mSigned
        · simp only [m1, if_true] at hg
          cases hp : r.hostParam with
          | none => simp [hp] at hg
          | some p =>
            simp only [hp] at hg
            cases hq : r.querySubject with
            | none => simp [hq] at hg
            | some q =>
              simp only [hq] at hg
              split at hg
              · rename_i hc
                injection hg with hg; subst hg
                exact Or.inl ⟨m1, by simp, rfl, by simpa using hc⟩
              · cases hg
        · simp only [m1, if_false] at hg
          by_cases m2 : c.mode = mUnsigned
          · simp only [m2, if_true] at hg
            cases hp : r.hostParam with
            | none => simp [hp] at hg
            | some p =>
              simp only [hp] at hg
              split at hg
              · rename_i hc
                injection hg with hg; subst hg
                exact Or.inr (Or.inl ⟨m1, m2, rfl, by simpa using hc⟩)
              · cases hg
          · simp only [m2, if_false] at hg
            by_cases m3 : c.mode = mAny
            · simp only [m3, if_true] at hg
              exact Or.inr (Or.inr (Or.inl ⟨m1, m2, m3, hg⟩))
            · simp only [m3, if_false] at hg
              exact Or.inr (Or.inr (Or.inr ⟨m1, m2, m3, List.mem_of_getElem? hg⟩))

/-- **Claims are exact.** The token's claims are exactly the file's host, the session's user name
    (domain part removed when splitting is on), the requesting client address and the session's IdP
    access token. -/
theorem claims_exact (c : Cfg) (s : Sess) (r : Req) (host : Bytes) (u d : Option Bytes) (sub ch ip at' : Bytes)
    (h : download c s r = .file host u d sub ch ip at') :
    ch = host ∧ ip = s.clientIp ∧ at' = s.accessToken ∧
    sub = (if c.splitUserDomain then (splitAt 64 s.user).1 else s.user) := by
  unfold download at h
  by_cases ha : (!s.authenticated) = true
  · simp [ha] at h
  · simp only [ha, Bool.false_eq_true, if_false] at h
    cases hg : getHost c r with
    | none => simp [hg] at h
    | some h0 =>
      simp only [hg] at h
      by_cases hb : templateBad c (userDomain c s).1 = true
      · simp [hb] at h
      · simp only [hb, Bool.false_eq_true, if_false, fileFor] at h
        injection h with h1 h2 h3 h4 h5 h6 h7
        refine ⟨by rw [← h5, ← h1], h6.symm, h7.symm, ?_⟩
        rw [← h4]
        by_cases hs : c.splitUserDomain = true <;> simp [hs, userDomain]

/-- the part before the first `@` contains no `@` (the domain is removed) -/
theorem splitAt_no_sep (c : UInt8) (s : Bytes) : c ∉ (splitAt c s).1 := by
  induction s with
  | nil => simp [splitAt]
  | cons b t ih =>
    unfold splitAt
    by_cases hb : (b == c) = true
    · simp [hb]
    · simp only [hb, Bool.false_eq_true, if_false]
      simp only [List.mem_cons, not_or]
      exact ⟨by intro e; simp [e] at hb, ih⟩

/-! ### issued host and token are accepted by the gateway's own tunnel checks -/

/-- the tunnel-side decision for a freshly issued (host, token): the cookie check at `now'`, then the
    session and host policy main.go installs under token authentication, from address `ipUse` -/
def tunnelAccepts (c : Cfg) (host : Bytes) (f : Cookie.Facts) (now' : Nat) (verifyIp : Bool) (ipUse : Bytes) : Bool :=
  match Cookie.check f now' with
  | none => false
  | some sess => checkSession verifyIp sess.host sess.ip ipUse (checkHost c.mode c.hosts sess.user) host

/-- **Issue then accept (partial).** Under round-robin, unsigned and 'any' selection the issued host
    and token, presented unmodified from the same address within the token's lifetime, pass the
    cookie check, the session check and the host policy — *provided* the chosen entry carries no
    placeholder or the IdP's subject equals the session's user name (see `issue_then_accept_counterexample`). -/
theorem issue_then_accept_partial (c : Cfg) (s : Sess) (r : Req) (host : Bytes) (u d : Option Bytes)
    (sub ch ip at' : Bytes) (now now' : Nat) (idpSub : Bytes) (verifyIp : Bool)
    (h : download c s r = .file host u d sub ch ip at')
    (hmode : c.mode = mRoundRobin ∨ c.mode = mUnsigned ∨ c.mode = mAny)
    (htime : now' ≤ now + 360) (hsub : idpSub ≠ [])
    (hprov : idpSub = s.user ∨ ∀ e ∈ c.hosts, entryFor s.user e = host → entryFor idpSub e = host) :
    tunnelAccepts c host (Cookie.mint now ch ip (.ok idpSub)) now' verifyIp ip = true := by
  obtain ⟨hch, _, _, _⟩ := claims_exact c s r host u d sub ch ip at' h
  obtain ⟨h0, hh0, hpol⟩ := host_policy c s r host u d sub ch ip at' h
  unfold tunnelAccepts
  rw [C02.mint_accept now now' ch ip idpSub htime]
  simp only [hch]
  unfold checkSession
  simp only [ne_eq, not_true_eq_false, if_false, and_false]
  -- the host policy with the IdP's subject as the user
  rw [C03.policy_char]
  have a1 : mRoundRobin ≠ mSigned := by decide
  have a2 : mUnsigned ≠ mSigned := by decide
  have a3 : mAny ≠ mSigned := by decide
  have a4 : mRoundRobin ≠ mUnsigned := by decide
  have a5 : mRoundRobin ≠ mAny := by decide
  have a6 : mUnsigned ≠ mAny := by decide
  rcases hmode with hm | hm | hm
  · -- roundrobin: the chosen entry is configured
    right
    refine ⟨Or.inl hm, hsub, ?_⟩
    rcases hpol with ⟨m, _⟩ | ⟨_, m, _⟩ | ⟨_, _, m, _⟩ | ⟨_, _, _, hmem⟩
    · rw [hm] at m; exact absurd m a1
    · rw [hm] at m; exact absurd m a4
    · rw [hm] at m; exact absurd m a5
    · rcases hprov with hp | hp
      · exact ⟨h0, hmem, by rw [hp, hh0]⟩
      · exact ⟨h0, hmem, hp h0 hmem hh0.symm⟩
  · right
    refine ⟨Or.inr hm, hsub, ?_⟩
    rcases hpol with ⟨m, _⟩ | ⟨_, _, _, hmem⟩ | ⟨_, m, _⟩ | ⟨_, m, _⟩
    · rw [hm] at m; exact absurd m a2
    · rcases hprov with hp | hp
      · exact ⟨h0, hmem, by rw [hp, hh0]⟩
      · exact ⟨h0, hmem, hp h0 hmem hh0.symm⟩
    · exact absurd hm m
    · exact absurd hm m
  · left; exact hm

/-- **Without the proviso the property fails (known finding D22)**: issuance substitutes the
    session's user name into a placeholder entry, the tunnel check substitutes the IdP's `sub`. -/
theorem issue_then_accept_counterexample :
    let c : Cfg := ⟨mRoundRobin, [[104, 45] ++ placeholder], false, [], false, [103]⟩
    let s : Sess := ⟨true, [97], [116], [49]⟩          -- user name "a"
    let r : Req := ⟨none, none, 0⟩
    download c s r = .file [104, 45, 97] (some [97]) none [97] [104, 45, 97] [49] [116] ∧
    tunnelAccepts c [104, 45, 97] (Cookie.mint 0 [104, 45, 97] [49] (.ok [115])) 10 true [49] = false := by
  decide

/-- forced settings: the file's target address is the token's host -/
theorem file_host_is_token_host (c : Cfg) (s : Sess) (r : Req) (host : Bytes) (u d : Option Bytes)
    (sub ch ip at' : Bytes) (h : download c s r = .file host u d sub ch ip at') : ch = host :=
  (claims_exact c s r host u d sub ch ip at' h).1

/-- non-vacuity -/
example : download ⟨mUnsigned, [[104, 49], [104, 50]], true, [], false, [103]⟩ ⟨true, [97, 64, 100], [116], [49]⟩
    ⟨some [104, 50], none, 0⟩ = .file [104, 50] (some [97]) (some [100]) [97] [104, 50] [49] [116] := by decide

end Rdpgw.C12
