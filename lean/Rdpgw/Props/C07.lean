import Rdpgw.Model.Multi

/-!
# C07 — concurrent tunnels are isolated from each other

All theorems are over every sequence of boundary events (`Multi.Event`), i.e. every interleaving
of any number of tunnels on both transports.
-/

namespace Rdpgw.C07

open Rdpgw Rdpgw.Tunnel Rdpgw.Multi

/-- a log entry is *addressed*: the connection it names was attached to the tunnel it names -/
def addressed (att : List (Nat × Nat)) : Obs → Prop
  | .down c k _ => (c, k) ∈ att
  | .up k c _ => (c, k) ∈ att
  | .toClient c k _ => (c, k) ∈ att
  | .accept c k => (c, k) ∈ att
  | _ => True

theorem addressed_mono {att att' : List (Nat × Nat)} (h : ∀ x ∈ att, x ∈ att') (o : Obs)
    (ho : addressed att o) : addressed att' o := by
  cases o <;> simp_all [addressed]

/-- what holds in every reachable state -/
structure Inv (s : St) : Prop where
  cacheOk : ∀ id k, s.cache id = some k → ∃ t, s.tuns k = some t ∧ t.rdgId = id
  inId : ∀ k t c i, s.tuns k = some t → t.tIn = some (c, i) → i = t.rdgId ∧ (c, k) ∈ s.att
  outId : ∀ k t c i, s.tuns k = some t → t.tOut = some (c, i) → i = t.rdgId ∧ (c, k) ∈ s.att
  keysSeen : ∀ k t, s.tuns k = some t → k ∈ s.seen
  attSeen : ∀ c k, (c, k) ∈ s.att → c ∈ s.seen
  attFun : ∀ c k1 k2, (c, k1) ∈ s.att → (c, k2) ∈ s.att → k1 = k2
  loopOk : ∀ c k, s.loop c = some k → (c, k) ∈ s.att ∧ ∃ t, s.tuns k = some t
  logOk : ∀ o ∈ s.log, addressed s.att o

theorem inv_init : Inv init := by
  constructor <;> simp [init]

/-- the packet step leaves identity and attachments alone -/
theorem tunPkt_frame (cfg : Cfg) (pol : Pol) (t : Tun) (r : Req) :
    (tunPkt cfg pol t r).1.rdgId = t.rdgId ∧ (tunPkt cfg pol t r).1.user = t.user ∧
    (tunPkt cfg pol t r).1.addr = t.addr ∧ (tunPkt cfg pol t r).1.tIn = t.tIn ∧
    (tunPkt cfg pol t r).1.tOut = t.tOut ∧ (tunPkt cfg pol t r).1.legacy = t.legacy := by
  unfold tunPkt
  simp only
  split
  · simp
  · split
    · split <;> simp
    · simp
    · simp

/-- appending addressed log entries -/
theorem log_inv {s : St} (h : Inv s) (l : List Obs) (hl : ∀ o ∈ l, addressed s.att o) :
    Inv { s with log := s.log ++ l } := by
  refine { h with logOk := ?_ }
  intro o ho
  simp only [List.mem_append] at ho
  rcases ho with ho | ho
  · exact h.logOk o ho
  · exact hl o ho

/-- replacing a tunnel by one with the same identity and attachments -/
theorem retun_inv {s : St} (h : Inv s) (key : Nat) (t t' : Tun) (ht : s.tuns key = some t)
    (h1 : t'.rdgId = t.rdgId) (h2 : t'.tIn = t.tIn) (h3 : t'.tOut = t.tOut) :
    Inv { s with tuns := put s.tuns key (some t') } := by
  constructor
  · intro id k hc
    obtain ⟨t0, ht0, hid⟩ := h.cacheOk id k hc
    by_cases hk : k = key
    · subst hk
      refine ⟨t', by simp, ?_⟩
      rw [ht] at ht0; cases ht0; rw [h1]; exact hid
    · exact ⟨t0, by simp [hk, ht0], hid⟩
  · intro k tt c i hk hin
    by_cases hkk : k = key
    · subst hkk
      simp at hk; subst hk
      rw [h2] at hin; rw [h1]
      exact h.inId k t c i ht hin
    · simp [hkk] at hk
      exact h.inId k tt c i hk hin
  · intro k tt c i hk hin
    by_cases hkk : k = key
    · subst hkk
      simp at hk; subst hk
      rw [h3] at hin; rw [h1]
      exact h.outId k t c i ht hin
    · simp [hkk] at hk
      exact h.outId k tt c i hk hin
  · intro k tt hk
    by_cases hkk : k = key
    · subst hkk; exact h.keysSeen k t ht
    · simp [hkk] at hk; exact h.keysSeen k tt hk
  · exact h.attSeen
  · exact h.attFun
  · intro c k hl
    obtain ⟨ha, t0, ht0⟩ := h.loopOk c k hl
    refine ⟨ha, ?_⟩
    by_cases hkk : k = key
    · subst hkk; exact ⟨t', by simp⟩
    · exact ⟨t0, by simp [hkk, ht0]⟩
  · exact h.logOk

theorem unloop_inv {s : St} (h : Inv s) (c : Nat) : Inv { s with loop := put s.loop c none } := by
  refine { h with loopOk := ?_ }
  intro c' k hl
  by_cases hc : c' = c
  · subst hc; simp at hl
  · simp [hc] at hl; exact h.loopOk c' k hl

theorem uncache_inv {s : St} (h : Inv s) (i : Bytes) : Inv { s with cache := put s.cache i none } := by
  refine { h with cacheOk := ?_ }
  intro id k hc
  by_cases hi : id = i
  · subst hi; simp at hc
  · simp [hi] at hc; exact h.cacheOk id k hc

theorem endLoop_inv {s : St} (h : Inv s) (conn key : Nat) (t : Tun) (ht : s.tuns key = some t) :
    Inv (endLoop s conn key t) := by
  have a := retun_inv h key t { t with relay := false } ht rfl rfl rfl
  have b := unloop_inv a conn
  unfold endLoop
  by_cases hl : t.legacy
  · simpa [hl] using uncache_inv b t.rdgId
  · simpa [hl] using b

/-- what a request's lookup returns -/
theorem lookup_spec {s : St} (h : Inv s) (conn : Nat) (id user addr : Bytes) (sn : List Nat) :
    let r := lookup { s with seen := sn } conn id user addr
    r.2.rdgId = id ∧
    ((s.cache id = some r.1 ∧ s.tuns r.1 = some r.2) ∨
     (s.cache id = none ∧ r.1 = conn ∧ r.2 = fresh id user addr)) := by
  simp only [lookup]
  cases hc : s.cache id with
  | none => simp [fresh]
  | some k =>
    obtain ⟨t, ht, hid⟩ := h.cacheOk id k hc
    simp [ht, hid]

/-- attaching a fresh connection to the tunnel its request found -/
theorem attach_inv {s : St} (h : Inv s) (conn : Nat) (hn : conn ∉ s.seen) (id : Bytes)
    (key : Nat) (t0 t1 : Tun) (hid0 : t0.rdgId = id)
    (hsp : (s.cache id = some key ∧ s.tuns key = some t0) ∨
           (s.cache id = none ∧ key = conn ∧ t0.tIn = none ∧ t0.tOut = none))
    (hid : t1.rdgId = id)
    (hin : ∀ c i, t1.tIn = some (c, i) → t0.tIn = some (c, i) ∨ (c, i) = (conn, id))
    (hout : ∀ c i, t1.tOut = some (c, i) → t0.tOut = some (c, i) ∨ (c, i) = (conn, id))
    (bl bc : Bool) :
    Inv { s with
      seen := conn :: s.seen,
      tuns := put s.tuns key (some t1),
      loop := if bl then put s.loop conn (some key) else s.loop,
      cache := if bc then put s.cache id (some key) else s.cache,
      att := (conn, key) :: s.att,
      log := s.log ++ [.accept conn key] } := by
  have hkey : key ∈ conn :: s.seen := by
    rcases hsp with ⟨_, ht⟩ | ⟨_, hk, _⟩
    · exact List.mem_cons_of_mem _ (h.keysSeen key t0 ht)
    · simp [hk]
  have hconn_tun : ∀ t, s.tuns conn = some t → False := fun t ht => hn (h.keysSeen conn t ht)
  constructor
  · -- cacheOk
    intro id' k hc
    simp only at hc ⊢
    by_cases hk : k = key
    · subst hk
      refine ⟨t1, by simp, ?_⟩
      rw [hid]
      by_cases hb : bc = true ∧ id' = id
      · exact hb.2.symm
      · have hc' : s.cache id' = some k := by
          by_cases hbc : bc = true
          · have : id' ≠ id := fun e => hb ⟨hbc, e⟩
            simpa [hbc, this] using hc
          · simpa [hbc] using hc
        obtain ⟨t, ht, hi⟩ := h.cacheOk id' k hc'
        rcases hsp with ⟨_, ht0⟩ | ⟨_, hkc, _⟩
        · rw [ht0] at ht; cases ht; rw [← hi, hid0]
        · subst hkc; exact (hconn_tun t ht).elim
    · have hc' : s.cache id' = some k := by
        by_cases hbc : bc = true
        · by_cases hi : id' = id
          · subst hi; simp [hbc] at hc; exact absurd hc.symm hk
          · simpa [hbc, hi] using hc
        · simpa [hbc] using hc
      obtain ⟨t, ht, hi⟩ := h.cacheOk id' k hc'
      exact ⟨t, by simp [hk, ht], hi⟩
  · -- inId
    intro k tt c i hk hi
    simp only at hk ⊢
    by_cases hkk : k = key
    · subst hkk
      simp at hk; subst hk
      rcases hin c i hi with h0 | h0
      · rcases hsp with ⟨_, ht0⟩ | ⟨_, _, hnone, _⟩
        · have := h.inId k t0 c i ht0 h0
          exact ⟨by rw [hid, ← hid0]; exact this.1, List.mem_cons_of_mem _ this.2⟩
        · rw [hnone] at h0; cases h0
      · cases h0; exact ⟨hid.symm, by simp⟩
    · simp [hkk] at hk
      have := h.inId k tt c i hk hi
      exact ⟨this.1, List.mem_cons_of_mem _ this.2⟩
  · -- outId
    intro k tt c i hk hi
    simp only at hk ⊢
    by_cases hkk : k = key
    · subst hkk
      simp at hk; subst hk
      rcases hout c i hi with h0 | h0
      · rcases hsp with ⟨_, ht0⟩ | ⟨_, _, _, hnone⟩
        · have := h.outId k t0 c i ht0 h0
          exact ⟨by rw [hid, ← hid0]; exact this.1, List.mem_cons_of_mem _ this.2⟩
        · rw [hnone] at h0; cases h0
      · cases h0; exact ⟨hid.symm, by simp⟩
    · simp [hkk] at hk
      have := h.outId k tt c i hk hi
      exact ⟨this.1, List.mem_cons_of_mem _ this.2⟩
  · -- keysSeen
    intro k tt hk
    simp only at hk ⊢
    by_cases hkk : k = key
    · subst hkk; exact hkey
    · simp [hkk] at hk; exact List.mem_cons_of_mem _ (h.keysSeen k tt hk)
  · -- attSeen
    intro c k hm
    simp only [List.mem_cons] at hm ⊢
    rcases hm with hm | hm
    · cases hm; exact Or.inl rfl
    · exact Or.inr (h.attSeen c k hm)
  · -- attFun
    intro c k1 k2 h1 h2
    simp only [List.mem_cons] at h1 h2
    rcases h1 with h1 | h1 <;> rcases h2 with h2 | h2
    · cases h1; cases h2; rfl
    · cases h1; exact (hn (h.attSeen _ _ h2)).elim
    · cases h2; exact (hn (h.attSeen _ _ h1)).elim
    · exact h.attFun c k1 k2 h1 h2
  · -- loopOk
    intro c k hl
    simp only at hl ⊢
    by_cases hb : bl = true ∧ c = conn
    · obtain ⟨hb1, hb2⟩ := hb
      subst hb2
      simp [hb1] at hl; subst hl
      exact ⟨by simp, t1, by simp⟩
    · have hl' : s.loop c = some k := by
        by_cases hbl : bl = true
        · have : c ≠ conn := fun e => hb ⟨hbl, e⟩
          simpa [hbl, this] using hl
        · simpa [hbl] using hl
      obtain ⟨ha, t, ht⟩ := h.loopOk c k hl'
      refine ⟨List.mem_cons_of_mem _ ha, ?_⟩
      by_cases hkk : k = key
      · subst hkk; exact ⟨t1, by simp⟩
      · exact ⟨t, by simp [hkk, ht]⟩
  · -- logOk
    intro o ho
    simp only [List.mem_append, List.mem_singleton] at ho
    rcases ho with ho | ho
    · exact addressed_mono (fun x hx => List.mem_cons_of_mem _ hx) o (h.logOk o ho)
    · subst ho; simp [addressed]

theorem seen_inv {s : St} (h : Inv s) (c : Nat) : Inv { s with seen := c :: s.seen } := by
  refine { h with keysSeen := ?_, attSeen := ?_ }
  · intro k t hk; exact List.mem_cons_of_mem _ (h.keysSeen k t hk)
  · intro c' k hk; exact List.mem_cons_of_mem _ (h.attSeen c' k hk)

theorem obs_addressed {s : St} (h : Inv s) (conn key : Nat) (t : Tun) (hl : s.loop conn = some key)
    (ht : s.tuns key = some t) (evs : List Ev) :
    ∀ o ∈ (evs.map (obsOf key conn t)).flatten, addressed s.att o := by
  intro o ho
  simp only [List.mem_flatten, List.mem_map] at ho
  obtain ⟨l, ⟨ev, _, hl'⟩, hol⟩ := ho
  subst hl'
  cases ev with
  | resp r =>
    unfold obsOf at hol
    cases hto : t.tOut with
    | none => simp [hto] at hol
    | some a =>
      obtain ⟨c, i⟩ := a
      simp [hto] at hol; subst hol
      exact (h.outId key t c i ht hto).2
  | dial hh ok => simp [obsOf] at hol; subst hol; trivial
  | up p => simp [obsOf] at hol; subst hol; exact (h.loopOk conn key hl).1
  | relayStart => simp [obsOf] at hol

/-- **The invariant is inductive.** -/
theorem step_inv (cfg : Cfg) (pol : Pol) {s : St} (h : Inv s) (e : Event) : Inv (Multi.step cfg pol s e) := by
  cases e with
  | req conn m ws id user addr =>
    unfold Multi.step
    by_cases hs : conn ∈ s.seen
    · simp only [hs, if_true]; exact h
    · simp only [hs, if_false]
      have sp := lookup_spec h conn id user addr (conn :: s.seen)
      generalize lookup { s with seen := conn :: s.seen } conn id user addr = r at sp ⊢
      obtain ⟨key, t0⟩ := r
      simp only at sp ⊢
      obtain ⟨hid0, hsp⟩ := sp
      have hsp' : (s.cache id = some key ∧ s.tuns key = some t0) ∨
           (s.cache id = none ∧ key = conn ∧ t0.tIn = none ∧ t0.tOut = none) := by
        rcases hsp with a | ⟨a, b, c⟩
        · exact Or.inl a
        · exact Or.inr ⟨a, b, by rw [c]; rfl, by rw [c]; rfl⟩
      cases m with
      | out =>
        by_cases hw : ws = true
        · simp only [hw, if_true]
          exact attach_inv h conn hs id key t0 (attachWs t0 (conn, id)) hid0 hsp' (by simpa [attachWs] using hid0)
            (by intro c i hh; simp [attachWs] at hh; exact Or.inr (by rw [← hh.1, ← hh.2]))
            (by intro c i hh; simp [attachWs] at hh; exact Or.inr (by rw [← hh.1, ← hh.2])) true false
        · simp only [hw, Bool.false_eq_true, if_false]
          exact attach_inv h conn hs id key t0 (attachOut t0 (conn, id)) hid0 hsp' (by simpa [attachOut] using hid0)
            (by intro c i hh; simp [attachOut] at hh; exact Or.inl hh)
            (by intro c i hh; simp [attachOut] at hh; exact Or.inr (by rw [← hh.1, ← hh.2])) false true
      | inn =>
        simp only
        have href : Inv { s with seen := conn :: s.seen, log := s.log ++ [Obs.refuse conn] } :=
          log_inv (seen_inv h conn) [.refuse conn] (by intro o ho; simp at ho; subst ho; trivial)
        by_cases h1 : (s.cache id).isNone = true
        · simp only [h1, if_true]; exact href
        · simp only [h1, Bool.false_eq_true, if_false]
          by_cases h2 : t0.tOut.isNone = true
          · simp only [h2, if_true]; exact href
          · simp only [h2, Bool.false_eq_true, if_false]
            by_cases h3 : t0.tIn.isNone = true
            · simp only [h3, if_true]
              exact attach_inv h conn hs id key t0 (attachIn t0 (conn, id)) hid0 hsp' (by simpa [attachIn] using hid0)
                (by intro c i hh; simp [attachIn] at hh; exact Or.inr (by rw [← hh.1, ← hh.2]))
                (by intro c i hh; simp [attachIn] at hh; exact Or.inl hh) true false
            · simp only [h3, Bool.false_eq_true, if_false]; exact href
  | pkt conn r =>
    simp only [Multi.step]
    cases hl : s.loop conn with
    | none => exact h
    | some key =>
      simp only
      cases ht : s.tuns key with
      | none => exact h
      | some t =>
        simp only
        have fr := tunPkt_frame cfg pol t r
        generalize tunPkt cfg pol t r = res at fr ⊢
        obtain ⟨t', o⟩ := res
        simp only at fr ⊢
        have a := retun_inv h key t t' ht fr.1 fr.2.2.2.1 fr.2.2.2.2.1
        have b := log_inv a ((o.evs.map (obsOf key conn t)).flatten) (obs_addressed h conn key t hl ht o.evs)
        by_cases hst : o.stop = true
        · simp only [hst, if_true]
          exact endLoop_inv b conn key t' (by simp)
        · simp only [hst, Bool.false_eq_true, if_false]; exact b
  | host key bytes =>
    simp only [Multi.step]
    cases ht : s.tuns key with
    | none => exact h
    | some t =>
      simp only
      by_cases hr : t.relay = true
      · simp only [hr, if_true]
        cases hto : t.tOut with
        | none => exact h
        | some a =>
          obtain ⟨c, i⟩ := a
          exact log_inv h [.down c key bytes]
            (by intro o ho; simp at ho; subst ho; exact (h.outId key t c i ht hto).2)
      · simp only [hr, Bool.false_eq_true, if_false]; exact h
  | drop conn =>
    simp only [Multi.step]
    cases hl : s.loop conn with
    | none => exact h
    | some key =>
      simp only
      cases ht : s.tuns key with
      | none => exact h
      | some t => exact endLoop_inv h conn key t ht

theorem run_inv (cfg : Cfg) (pol : Pol) {s : St} (h : Inv s) (es : List Event) : Inv (Multi.run cfg pol s es) := by
  induction es generalizing s with
  | nil => exact h
  | cons e es ih => exact ih (step_inv cfg pol h e)

/-- every state the gateway can be in -/
def Reachable (cfg : Cfg) (pol : Pol) (s : St) : Prop := ∃ es, s = Multi.run cfg pol init es

theorem reachable_inv {cfg : Cfg} {pol : Pol} {s : St} (h : Reachable cfg pol s) : Inv s := by
  obtain ⟨es, rfl⟩ := h
  exact run_inv cfg pol inv_init es

/-! ## Pairing -/

/-- **Pairing.** Whatever the interleaving of requests, the inbound and the outbound connection of
    a tunnel carried the same connection identifier — the tunnel's own. -/
theorem pairing {cfg : Cfg} {pol : Pol} {s : St} (h : Reachable cfg pol s) (k : Nat) (t : Tun)
    (ci co : Nat) (i1 i2 : Bytes) (ht : s.tuns k = some t)
    (hin : t.tIn = some (ci, i1)) (hout : t.tOut = some (co, i2)) : i1 = i2 ∧ i1 = t.rdgId := by
  have inv := reachable_inv h
  have a := (inv.inId k t ci i1 ht hin).1
  have b := (inv.outId k t co i2 ht hout).1
  exact ⟨by rw [a, b], a⟩

/-- an inbound request whose identifier no outbound request published is refused: it joins no
    tunnel, starts no loop -/
theorem in_without_out_refused (cfg : Cfg) (pol : Pol) (s : St) (conn : Nat) (ws : Bool)
    (id user addr : Bytes) (hs : conn ∉ s.seen) (hc : s.cache id = none) :
    let s' := Multi.step cfg pol s (.req conn .inn ws id user addr)
    s'.tuns = s.tuns ∧ s'.loop = s.loop ∧ s'.cache = s.cache ∧ s'.log = s.log ++ [.refuse conn] := by
  simp [Multi.step, hs, hc]

/-! ## Addressing: who hears whom -/

/-- a client connection belongs to at most one tunnel, ever -/
theorem conn_one_tunnel {cfg : Cfg} {pol : Pol} {s : St} (h : Reachable cfg pol s) (c k1 k2 : Nat)
    (h1 : (c, k1) ∈ s.att) (h2 : (c, k2) ∈ s.att) : k1 = k2 :=
  (reachable_inv h).attFun c k1 k2 h1 h2

/-- **A client hears only its own tunnel's host.** All backend bytes ever relayed to one client
    connection come from the backend of one tunnel, the tunnel that connection was accepted into;
    the same for response packets. -/
theorem client_hears_own_host {cfg : Cfg} {pol : Pol} {s : St} (h : Reachable cfg pol s)
    (c k k' : Nat) (b : Bytes) (hd : Obs.down c k b ∈ s.log) :
    (Obs.accept c k' ∈ s.log → k = k') ∧ (∀ b', Obs.down c k' b' ∈ s.log → k = k') ∧
    (∀ r, Obs.toClient c k' r ∈ s.log → k = k') := by
  have inv := reachable_inv h
  have a := inv.logOk _ hd
  refine ⟨fun h2 => inv.attFun c k k' a (inv.logOk _ h2), fun b' h2 => inv.attFun c k k' a (inv.logOk _ h2),
    fun r h2 => inv.attFun c k k' a (inv.logOk _ h2)⟩

/-- **A host hears only its own tunnel's client.** A payload forwarded to the backend of tunnel
    `k` arrived on a connection that was accepted into tunnel `k` and into no other. -/
theorem host_hears_own_client {cfg : Cfg} {pol : Pol} {s : St} (h : Reachable cfg pol s)
    (c k : Nat) (p : Bytes) (hu : Obs.up k c p ∈ s.log) :
    (c, k) ∈ s.att ∧ ∀ k', (Obs.accept c k' ∈ s.log ∨ (∃ p', Obs.up k' c p' ∈ s.log)) → k = k' := by
  have inv := reachable_inv h
  have a := inv.logOk _ hu
  refine ⟨a, ?_⟩
  rintro k' (h2 | ⟨p', h2⟩)
  · exact inv.attFun c k k' a (inv.logOk _ h2)
  · exact inv.attFun c k k' a (inv.logOk _ h2)

/-! ## Non-interference -/

/-- **Locality.** An event changes no tunnel but the one it is addressed to. -/
theorem step_other (cfg : Cfg) (pol : Pol) (s : St) (e : Event) (j : Nat)
    (hj : target s e ≠ some j) : (Multi.step cfg pol s e).tuns j = s.tuns j := by
  cases e with
  | req conn m ws id user addr =>
    unfold Multi.step
    by_cases hs : conn ∈ s.seen
    · simp [hs]
    · simp only [hs, if_false]
      have hk : (lookup { s with seen := conn :: s.seen } conn id user addr).1 = (s.cache id).getD conn := by
        simp only [lookup]
        cases s.cache id with
        | none => rfl
        | some k => simp only [Option.getD]; cases s.tuns k <;> rfl
      simp only [target, hs, if_false] at hj
      generalize lookup { s with seen := conn :: s.seen } conn id user addr = r at hk ⊢
      obtain ⟨key, t0⟩ := r
      simp only at hk ⊢
      have hne : j ≠ key := by rw [hk]; intro e; exact hj (by rw [e])
      cases m with
      | out => by_cases hw : ws = true <;> simp [hw, hne]
      | inn =>
        simp only
        split
        · rfl
        · split
          · rfl
          · split
            · simp [hne]
            · rfl
  | pkt conn r =>
    simp only [Multi.step]
    simp only [target] at hj
    cases hl : s.loop conn with
    | none => rfl
    | some key =>
      simp only
      have hne : j ≠ key := by intro e; exact hj (by rw [hl, e])
      cases ht : s.tuns key with
      | none => rfl
      | some t =>
        simp only
        split <;> simp [endLoop, hne]
  | host key bytes =>
    simp only [Multi.step]
    cases s.tuns key with
    | none => rfl
    | some t =>
      simp only
      split
      · split <;> rfl
      · rfl
  | drop conn =>
    simp only [Multi.step]
    simp only [target] at hj
    cases hl : s.loop conn with
    | none => rfl
    | some key =>
      simp only
      have hne : j ≠ key := by intro e; exact hj (by rw [hl, e])
      cases ht : s.tuns key with
      | none => rfl
      | some t => simp [endLoop, hne]

/-- **Isolation by identifier.** A gateway request carrying identifier `id` never changes a tunnel
    whose identifier is different — its phase, user, client address, token host, attachments. -/
theorem req_other_id {cfg : Cfg} {pol : Pol} {s : St} (h : Reachable cfg pol s) (j : Nat) (t : Tun)
    (ht : s.tuns j = some t) (conn : Nat) (m : Method) (ws : Bool) (id user addr : Bytes)
    (hid : t.rdgId ≠ id) :
    (Multi.step cfg pol s (.req conn m ws id user addr)).tuns j = some t := by
  have inv := reachable_inv h
  rw [← ht]
  apply step_other
  simp only [target]
  by_cases hs : conn ∈ s.seen
  · simp [hs]
  · simp only [hs, if_false]
    intro e
    cases hc : s.cache id with
    | none =>
      simp [hc] at e
      subst e
      exact hs (inv.keysSeen _ t ht)
    | some k =>
      simp [hc] at e
      subst e
      obtain ⟨t', ht', hi⟩ := inv.cacheOk id k hc
      rw [ht] at ht'; cases ht'; exact hid hi

/-- **Packets stay in their tunnel.** A packet (or the end) of connection `conn` changes only the
    tunnel whose loop reads `conn`; every other tunnel keeps its phase, user, address, token host. -/
theorem pkt_other (cfg : Cfg) (pol : Pol) (s : St) (conn : Nat) (r : Req) (j : Nat)
    (hj : s.loop conn ≠ some j) :
    (Multi.step cfg pol s (.pkt conn r)).tuns j = s.tuns j ∧
    (Multi.step cfg pol s (.drop conn)).tuns j = s.tuns j :=
  ⟨step_other cfg pol s _ j hj, step_other cfg pol s _ j hj⟩

/-- backend traffic changes no tunnel at all -/
theorem host_changes_nothing (cfg : Cfg) (pol : Pol) (s : St) (k : Nat) (b : Bytes) :
    (Multi.step cfg pol s (.host k b)).tuns = s.tuns := by
  funext j
  exact step_other cfg pol s _ j (by simp [target])

/-- **Step consistency.** What a packet does to its own tunnel is exactly one step of the
    single-tunnel machine (`Tunnel.step`) in that tunnel's own environment — the environment is
    computed from the tunnel's own user, address and token claims and nothing else. -/
theorem pkt_own (cfg : Cfg) (pol : Pol) (s : St) (conn key : Nat) (t : Tun) (r : Req)
    (hl : s.loop conn = some key) (ht : s.tuns key = some t) :
    let o := Tunnel.step cfg (envOf pol t) t.ph r
    let s' := Multi.step cfg pol s (.pkt conn r)
    (∃ t', s'.tuns key = some t' ∧ t'.ph = o.phase ∧ t'.user = t.user ∧ t'.addr = t.addr ∧
        t'.rdgId = t.rdgId) ∧
    s'.log = s.log ++ (o.evs.map (obsOf key conn t)).flatten ∧
    (o.stop = true → s'.loop conn = none) ∧ (o.stop = false → s'.loop = s.loop) := by
  simp only [Multi.step, hl, ht]
  have fr := tunPkt_frame cfg pol t r
  have hph : (tunPkt cfg pol t r).1.ph = (Tunnel.step cfg (envOf pol t) t.ph r).phase := by
    unfold tunPkt; simp only
    split
    · rfl
    · split
      · split <;> rfl
      · rfl
      · rfl
  have ho : (tunPkt cfg pol t r).2 = Tunnel.step cfg (envOf pol t) t.ph r := rfl
  by_cases hst : (Tunnel.step cfg (envOf pol t) t.ph r).stop = true
  · simp [ho, hst, endLoop, hph, fr.1, fr.2.1, fr.2.2.1]
  · simp [ho, hst, hph, fr.1, fr.2.1, fr.2.2.1]

/-- **A dial is earned by the dialling tunnel alone.** Whenever the gateway connects tunnel `k`
    to a host, the packet that caused it arrived on the connection `k`'s own loop reads, `k`
    itself was in the authorized phase, and the host passed the policy evaluated on `k`'s own
    user, address and token claims — whatever phase, identity or token any other tunnel has. -/
theorem dial_earned_by_own_tunnel (cfg : Cfg) (pol : Pol) (s : St) (conn : Nat) (r : Req)
    (k : Nat) (h : Bytes) (ok : Bool)
    (hd : Obs.dial k h ok ∈ (Multi.step cfg pol s (.pkt conn r)).log) (hn : Obs.dial k h ok ∉ s.log) :
    s.loop conn = some k ∧ ∃ t, s.tuns k = some t ∧ t.ph = .tunnelAuthorize ∧ r = .channelCreate h ∧
      (cfg.hasHostCheck = true → pol.hostOk t.user t.addr t.claims h = true) ∧ ok = pol.dialOk h := by
  cases hl : s.loop conn with
  | none => simp [Multi.step, hl] at hd; exact (hn hd).elim
  | some key =>
    cases ht : s.tuns key with
    | none => simp [Multi.step, hl, ht] at hd; exact (hn hd).elim
    | some t =>
      have hlog := (pkt_own cfg pol s conn key t r hl ht).2.1
      rw [hlog] at hd
      simp only [List.mem_append] at hd
      rcases hd with hd | hd
      · exact (hn hd).elim
      · simp only [List.mem_flatten, List.mem_map] at hd
        obtain ⟨l, ⟨ev, hev, rfl⟩, hol⟩ := hd
        -- which events of a single-tunnel step can be a dial
        have key_eq : ∀ ev', Obs.dial k h ok ∈ obsOf key conn t ev' → k = key ∧ ev' = .dial h ok := by
          intro ev' hm
          cases ev' with
          | resp r' =>
            unfold obsOf at hm
            cases hto : t.tOut with
            | none => simp [hto] at hm
            | some a => simp [hto] at hm
          | dial h' ok' => simp [obsOf] at hm; obtain ⟨a, b, c⟩ := hm; subst a; subst b; subst c; exact ⟨rfl, rfl⟩
          | up p => simp [obsOf] at hm
          | relayStart => simp [obsOf] at hm
        obtain ⟨hk, hev'⟩ := key_eq ev hol
        subst hk; subst hev'
        refine ⟨rfl, t, ht, ?_⟩
        -- a dial event comes out of `Tunnel.step` only from an in-phase, policy-approved CHANNEL_CREATE
        cases r with
        | channelCreate h' =>
          simp only [Tunnel.step] at hev
          by_cases hp : t.ph ≠ .tunnelAuthorize
          · simp [hp] at hev
          · simp only [hp, if_false] at hev
            have hp' : t.ph = .tunnelAuthorize := by simpa using hp
            by_cases hc : (cfg.hasHostCheck && !(envOf pol t).hostOk h') = true
            · simp [hc] at hev
            · simp only [hc, Bool.false_eq_true, if_false] at hev
              by_cases hdl : (!(envOf pol t).dialOk h') = true
              · simp only [hdl, if_true] at hev
                simp at hev
                obtain ⟨e1, e2⟩ := hev
                subst e1
                refine ⟨hp', rfl, ?_, ?_⟩
                · intro hh; simp [hh, envOf] at hc; exact hc
                · simp [envOf] at hdl; rw [e2]; exact hdl.symm
              · simp only [hdl, Bool.false_eq_true, if_false] at hev
                simp at hev
                obtain ⟨e1, e2⟩ := hev
                subst e1
                refine ⟨hp', rfl, ?_, ?_⟩
                · intro hh; simp [hh, envOf] at hc; exact hc
                · simp [envOf] at hdl; rw [e2]; exact hdl.symm
        | handshake a b c =>
          simp only [Tunnel.step] at hev
          split at hev
          · simp at hev
          · split at hev <;> simp at hev
        | tunnelCreate c => simp only [Tunnel.step] at hev; (repeat' split at hev) <;> simp at hev
        | tunnelAuth c => simp only [Tunnel.step] at hev; (repeat' split at hev) <;> simp at hev
        | data p => simp only [Tunnel.step] at hev; (repeat' split at hev) <;> simp at hev
        | keepalive => simp only [Tunnel.step] at hev; (repeat' split at hev) <;> simp at hev
        | closeChannel => simp only [Tunnel.step] at hev; (repeat' split at hev) <;> simp at hev
        | unknown n => simp [Tunnel.step] at hev

/-- an event addressed to tunnel `j` somewhere along a run -/
def touches (cfg : Cfg) (pol : Pol) (j : Nat) : St → List Event → Prop
  | _, [] => False
  | s, e :: es => target s e = some j ∨ touches cfg pol j (Multi.step cfg pol s e) es

/-- **Non-interference over runs.** Over any stretch of any interleaving in which no event is
    addressed to tunnel `j`, tunnel `j` is exactly as it was. -/
theorem untouched (cfg : Cfg) (pol : Pol) (j : Nat) (s : St) (es : List Event)
    (h : ¬ touches cfg pol j s es) : (Multi.run cfg pol s es).tuns j = s.tuns j := by
  induction es generalizing s with
  | nil => rfl
  | cons e es ih =>
    simp only [touches, not_or] at h
    simp only [Multi.run]
    rw [ih _ h.2]
    exact step_other cfg pol s e j h.1

/-- **Identity is fixed at creation.** No event ever changes the identifier, user or client
    address of an existing tunnel. -/
theorem identity_stable {cfg : Cfg} {pol : Pol} {s : St} (h : Reachable cfg pol s) (e : Event)
    (k : Nat) (t : Tun) (ht : s.tuns k = some t) :
    ∃ t', (Multi.step cfg pol s e).tuns k = some t' ∧ t'.rdgId = t.rdgId ∧ t'.user = t.user ∧
      t'.addr = t.addr := by
  have inv := reachable_inv h
  by_cases hj : target s e = some k
  · cases e with
    | req conn m ws id user addr =>
      simp only [target] at hj
      by_cases hs : conn ∈ s.seen
      · simp [hs] at hj
      · simp only [hs, if_false, Option.some.injEq] at hj
        have hc : s.cache id = some k := by
          cases hc : s.cache id with
          | none => simp [hc] at hj; subst hj; exact (hs (inv.keysSeen _ t ht)).elim
          | some k' => simp [hc] at hj; rw [hj]
        unfold Multi.step
        simp only [hs, if_false, lookup, hc, ht]
        cases m with
        | out => by_cases hw : ws = true <;> simp [hw, attachWs, attachOut]
        | inn =>
          simp only [hc, Option.isNone_some, Bool.false_eq_true, if_false]
          split
          · exact ⟨t, ht, rfl, rfl, rfl⟩
          · split
            · simp [attachIn]
            · exact ⟨t, ht, rfl, rfl, rfl⟩
    | pkt conn r =>
      simp only [target] at hj
      obtain ⟨⟨t', h1, _, h3, h4, h5⟩, _⟩ := pkt_own cfg pol s conn k t r hj ht
      exact ⟨t', h1, h5, h3, h4⟩
    | host key b => simp [target] at hj
    | drop conn =>
      simp only [target] at hj
      simp [Multi.step, hj, ht, endLoop]
  · exact ⟨t, by rw [step_other cfg pol s e k hj]; exact ht, rfl, rfl, rfl⟩

/-! ## Non-vacuity: two tunnels, interleaved, in the model -/

section Example
def exCfg : Cfg := ⟨false, false, false, false, false, ⟨false, false, false, false, false, false, false⟩, 0⟩
def exPol : Pol := ⟨fun _ => none, fun _ _ => true, fun _ _ _ _ => true, fun _ => true⟩

def exTrace : List Event :=
  [ .req 1 .out true [1] [65] [9], .req 2 .out false [2] [66] [8], .req 3 .inn false [2] [66] [8],
    .pkt 1 (.handshake 1 0 0), .pkt 3 (.handshake 1 0 0), .pkt 1 (.tunnelCreate []),
    .pkt 3 (.tunnelCreate []), .pkt 3 (.tunnelAuth []), .pkt 1 (.tunnelAuth []),
    .pkt 1 (.channelCreate [104]), .pkt 3 (.channelCreate [105]),
    .host 1 [7], .host 2 [8], .pkt 3 (.data [5]), .pkt 1 (.data [6]) ]

example : ((Multi.run exCfg exPol init exTrace).log.filter fun o =>
      match o with | .down .. => true | .up .. => true | _ => false) =
    [.down 1 1 [7], .down 2 2 [8], .up 2 3 [5], .up 1 1 [6]] := by decide
end Example

end Rdpgw.C07

namespace Rdpgw.C07

open Rdpgw Rdpgw.Tunnel Rdpgw.Multi

/-! ## Projection: a tunnel's traffic phase depends on its own events only -/

/-- traffic events: everything but gateway requests -/
def Event.isTraffic : Event → Bool
  | .req .. => false
  | _ => true

/-- two states look the same from tunnel `j`: same record, same connections feeding its loop -/
def SameFor (j : Nat) (s s' : St) : Prop :=
  s.tuns j = s'.tuns j ∧ ∀ c, (s.loop c = some j ↔ s'.loop c = some j)

theorem sameFor_refl (j : Nat) (s : St) : SameFor j s s := ⟨rfl, fun _ => Iff.rfl⟩

/-- a traffic event not addressed to `j` changes neither `j`'s record nor which connections feed it -/
theorem traffic_other (cfg : Cfg) (pol : Pol) (s : St) (e : Event) (j : Nat)
    (ht : Event.isTraffic e = true) (hj : target s e ≠ some j) :
    SameFor j (Multi.step cfg pol s e) s := by
  refine ⟨step_other cfg pol s e j hj, ?_⟩
  intro c
  cases e with
  | req => simp [Event.isTraffic] at ht
  | host k b =>
    simp only [Multi.step]
    cases s.tuns k with
    | none => exact Iff.rfl
    | some t =>
      simp only
      split
      · split <;> exact Iff.rfl
      · exact Iff.rfl
  | pkt conn r =>
    simp only [target] at hj
    simp only [Multi.step]
    cases hl : s.loop conn with
    | none => exact Iff.rfl
    | some key =>
      simp only
      cases hk : s.tuns key with
      | none => exact Iff.rfl
      | some t =>
        simp only
        have hne : s.loop conn ≠ some j := hj
        by_cases hc : c = conn
        · subst hc
          split
          · simp [endLoop, hne]
          · simp [hne]
        · split
          · simp [endLoop, hc]
          · exact Iff.rfl
  | drop conn =>
    simp only [target] at hj
    simp only [Multi.step]
    cases hl : s.loop conn with
    | none => exact Iff.rfl
    | some key =>
      simp only
      cases hk : s.tuns key with
      | none => exact Iff.rfl
      | some t =>
        have hne : s.loop conn ≠ some j := hj
        by_cases hc : c = conn
        · subst hc; simp [endLoop, hne]
        · simp [endLoop, hc]

/-- a traffic event addressed to `j` does the same to `j` in any two states that look the same
    from `j` -/
theorem traffic_own (cfg : Cfg) (pol : Pol) (s s' : St) (e : Event) (j : Nat)
    (ht : Event.isTraffic e = true) (hj : target s e = some j) (hs : SameFor j s s') :
    target s' e = some j ∧ SameFor j (Multi.step cfg pol s e) (Multi.step cfg pol s' e) := by
  obtain ⟨htun, hloop⟩ := hs
  cases e with
  | req => simp [Event.isTraffic] at ht
  | host k b => simp [target] at hj
  | pkt conn r =>
    simp only [target] at hj ⊢
    have hj' : s'.loop conn = some j := (hloop conn).1 hj
    refine ⟨hj', ?_⟩
    simp only [Multi.step, hj, hj']
    rw [← htun]
    cases hk : s.tuns j with
    | none => exact ⟨by simp [htun ▸ hk, hk], hloop⟩
    | some t =>
      simp only
      split
      · refine ⟨by simp [endLoop], ?_⟩
        intro c
        by_cases hc : c = conn
        · subst hc; simp [endLoop]
        · simp [endLoop, hc]; exact hloop c
      · exact ⟨by simp, hloop⟩
  | drop conn =>
    simp only [target] at hj ⊢
    have hj' : s'.loop conn = some j := (hloop conn).1 hj
    refine ⟨hj', ?_⟩
    simp only [Multi.step, hj, hj']
    rw [← htun]
    cases hk : s.tuns j with
    | none => exact ⟨by simp [htun ▸ hk, hk], hloop⟩
    | some t =>
      refine ⟨by simp [endLoop], ?_⟩
      intro c
      by_cases hc : c = conn
      · subst hc; simp [endLoop]
      · simp [endLoop, hc]; exact hloop c

/-- the events of a traffic run that are addressed to `j`, in order -/
def ownEvents (cfg : Cfg) (pol : Pol) (j : Nat) : St → List Event → List Event
  | _, [] => []
  | s, e :: es =>
    if target s e = some j then e :: ownEvents cfg pol j (Multi.step cfg pol s e) es
    else ownEvents cfg pol j (Multi.step cfg pol s e) es

/-- **Projection.** Over any stretch of traffic (packets, backend bytes, disconnects of any number
    of tunnels in any interleaving), tunnel `j` ends exactly as if only the events addressed to it
    had happened, in the same order, with every other tunnel silent. -/
theorem projection (cfg : Cfg) (pol : Pol) (j : Nat) (es : List Event) (s s' : St)
    (ht : ∀ e ∈ es, Event.isTraffic e = true) (hs : SameFor j s s') :
    SameFor j (Multi.run cfg pol s es) (Multi.run cfg pol s' (ownEvents cfg pol j s es)) := by
  induction es generalizing s s' with
  | nil => exact hs
  | cons e es ih =>
    have hte := ht e (List.mem_cons_self)
    have htes : ∀ e' ∈ es, Event.isTraffic e' = true := fun e' h => ht e' (List.mem_cons_of_mem _ h)
    simp only [Multi.run, ownEvents]
    by_cases hj : target s e = some j
    · simp only [hj, if_true, Multi.run]
      exact ih _ _ htes (traffic_own cfg pol s s' e j hte hj hs).2
    · simp only [hj, if_false]
      have h1 := traffic_other cfg pol s e j hte hj
      exact ih _ _ htes ⟨h1.1.trans hs.1, fun c => (h1.2 c).trans (hs.2 c)⟩

/-- the same, from one state: the mix and the tunnel alone agree on the tunnel -/
theorem projection_alone (cfg : Cfg) (pol : Pol) (j : Nat) (es : List Event) (s : St)
    (ht : ∀ e ∈ es, Event.isTraffic e = true) :
    (Multi.run cfg pol s es).tuns j = (Multi.run cfg pol s (ownEvents cfg pol j s es)).tuns j :=
  (projection cfg pol j es s s ht (sameFor_refl j s)).1

end Rdpgw.C07
