import Rdpgw.Lemmas.RdpFile

/-!
# C19 — generated connection files are well-formed and round-trip through the parser
-/

namespace Rdpgw.C19

open Rdpgw Rdpgw.RdpFile

/-- a setting name: starts and ends with a plain (ASCII, non-blank) byte, does not start with `#`,
    contains neither `:` nor LF -/
def okKey (k : Bytes) : Prop :=
  (∃ x t, k = x :: t ∧ plain x ∧ x ≠ HASH) ∧ (∃ i y, k = i ++ [y] ∧ plain y) ∧ COLON ∉ k ∧ LF ∉ k

/-- a string value: no LF, no leading or trailing white-space rune (it may be empty, contain `:`,
    CR in the middle, and any non-ASCII text) -/
def okStr (v : Bytes) : Prop := LF ∉ v ∧ spLen v = 0 ∧ spLenR v.reverse = 0

def okEntry : Bytes × Val → Prop
  | (k, .str v) => okKey k ∧ okStr v
  | (k, .int i) => okKey k ∧ (-9223372036854775808 ≤ i ∧ i ≤ 9223372036854775807)

/-- a line without its CRLF -/
def lineOf : Bytes × Val → Bytes
  | (k, .str v) => k ++ [COLON, 115, COLON] ++ v
  | (k, .int i) => k ++ [COLON, 105, COLON] ++ itoa i

theorem marshalLine_eq (kv : Bytes × Val) : marshalLine kv = lineOf kv ++ [CR, LF] := by
  obtain ⟨k, v⟩ := kv
  cases v <;> simp [marshalLine, lineOf]

theorem itoa_noLF (i : Int) : LF ∉ itoa i := by
  have key : ∀ n, LF ∉ natDigits n := by
    intro n hmem
    have hall := natDigits_all_digit n
    rw [List.all_eq_true] at hall
    have := hall LF hmem
    revert this; decide
  cases i with
  | ofNat n => exact key n
  | negSucc n =>
    simp only [itoa, List.mem_cons, not_or]
    exact ⟨by decide, key (n + 1)⟩

theorem lineOf_noLF (kv : Bytes × Val) (h : okEntry kv) : LF ∉ lineOf kv := by
  obtain ⟨k, v⟩ := kv
  cases v with
  | str v =>
    obtain ⟨⟨_, _, _, hk⟩, hv, _, _⟩ := h
    simp only [lineOf, List.mem_append, List.mem_cons, List.not_mem_nil, or_false, not_or]
    exact ⟨⟨hk, by decide, by decide, by decide⟩, hv⟩
  | int i =>
    obtain ⟨⟨_, _, _, hk⟩, _⟩ := h
    simp only [lineOf, List.mem_append, List.mem_cons, List.not_mem_nil, or_false, not_or]
    exact ⟨⟨hk, by decide, by decide, by decide⟩, itoa_noLF i⟩

theorem splitLines_marshalLine (kv : Bytes × Val) (h : okEntry kv) (rest : Bytes) :
    splitLines (marshalLine kv ++ rest) = lineOf kv :: splitLines rest := by
  unfold splitLines
  rw [marshalLine_eq]
  have hx : LF ∉ lineOf kv ++ [CR] := by
    simp only [List.mem_append, List.mem_cons, List.not_mem_nil, or_false, not_or]
    exact ⟨lineOf_noLF kv h, by decide⟩
  have e : lineOf kv ++ [CR, LF] ++ rest = (lineOf kv ++ [CR]) ++ LF :: rest := by simp
  rw [e, splitLinesAux_line [] _ rest hx]
  simp only [List.reverse_nil, List.nil_append]
  rw [dropCR_snoc]

theorem splitLines_marshal (m : List (Bytes × Val)) (h : ∀ e ∈ m, okEntry e) :
    splitLines (marshal m) = m.map lineOf := by
  induction m with
  | nil => simp [marshal, splitLines, splitLinesAux]
  | cons e t ih =>
    have : marshal (e :: t) = marshalLine e ++ marshal t := by simp [marshal]
    rw [this, splitLines_marshalLine e (h e (by simp)), ih (fun x hx => h x (by simp [hx]))]
    rfl

theorem spLenR_line (a r : Bytes) (t : UInt8) (ht : t = 115 ∨ t = 105) :
    spLenR (a ++ 58 :: t :: 58 :: r) = spLenR a := by
  match a with
  | [] =>
    simp only [List.nil_append, spLenR]
    exact spBwd_plain 58 _ _ (by decide)
  | [x] => rcases ht with rfl | rfl <;> simp [spLenR, spBwd]
  | [x, y] => rcases ht with rfl | rfl <;> simp [spLenR, spBwd]
  | x :: y :: z :: w => simp [spLenR]

theorem okKey_trim (k : Bytes) (h : okKey k) : trim k = k ∧ k ≠ [] := by
  obtain ⟨⟨x, t, rfl, hx, _⟩, ⟨i, y, hy, hpy⟩, _, _⟩ := h
  constructor
  · apply trim_id
    · exact spFwd_plain x _ _ hx
    · rw [hy, List.reverse_append]
      exact spBwd_plain y _ _ hpy
  · simp

theorem lineOf_trim (kv : Bytes × Val) (h : okEntry kv) : trim (lineOf kv) = lineOf kv := by
  obtain ⟨k, v⟩ := kv
  cases v with
  | str v =>
    obtain ⟨⟨⟨x, t, rfl, hx, _⟩, _, _, _⟩, _, _, hr⟩ := h
    apply trim_id
    · exact spFwd_plain x _ _ hx
    · have : (lineOf (x :: t, Val.str v)).reverse = v.reverse ++ 58 :: 115 :: 58 :: (x :: t).reverse := by
        simp [lineOf, COLON]
      rw [this, spLenR_line _ _ 115 (Or.inl rfl)]
      exact hr
  | int i =>
    obtain ⟨⟨⟨x, t, rfl, hx, _⟩, _, _, _⟩, _⟩ := h
    apply trim_id
    · exact spFwd_plain x _ _ hx
    · -- the line ends with a digit
      have hend : ∃ pre d, itoa i = pre ++ [d] ∧ plain d := by
        cases i with
        | ofNat n =>
          have hne := natDigits_ne_nil n
          exact ⟨(natDigits n).dropLast, (natDigits n).getLast hne,
            (List.dropLast_concat_getLast hne).symm,
            (natDigits_plain_ends n).2 _ _ (List.dropLast_concat_getLast hne).symm⟩
        | negSucc n =>
          have hne := natDigits_ne_nil (n + 1)
          exact ⟨45 :: (natDigits (n + 1)).dropLast, (natDigits (n + 1)).getLast hne,
            by simp only [itoa, List.cons_append]; rw [List.dropLast_concat_getLast hne],
            (natDigits_plain_ends (n + 1)).2 _ _ (List.dropLast_concat_getLast hne).symm⟩
      obtain ⟨pre, d, hi, hd⟩ := hend
      have : (lineOf (x :: t, Val.int i)).reverse = d :: (pre.reverse ++ 58 :: 105 :: 58 :: (x :: t).reverse) := by
        simp [lineOf, COLON, hi]
      rw [this]
      exact spBwd_plain d _ _ hd

theorem itoa_trim (i : Int) : trim (itoa i) = itoa i := by
  have hstart : ∃ d t, itoa i = d :: t ∧ plain d := by
    cases i with
    | ofNat n =>
      obtain ⟨d, t, hd, _⟩ := natDigits_head_digit n
      exact ⟨d, t, hd, (natDigits_plain_ends n).1 d t hd⟩
    | negSucc n => exact ⟨45, _, rfl, by decide⟩
  have hend : ∃ pre d, itoa i = pre ++ [d] ∧ plain d := by
    cases i with
    | ofNat n =>
      have hne := natDigits_ne_nil n
      exact ⟨_, _, (List.dropLast_concat_getLast hne).symm,
        (natDigits_plain_ends n).2 _ _ (List.dropLast_concat_getLast hne).symm⟩
    | negSucc n =>
      have hne := natDigits_ne_nil (n + 1)
      exact ⟨45 :: (natDigits (n + 1)).dropLast, (natDigits (n + 1)).getLast hne,
        by simp only [itoa, List.cons_append]; rw [List.dropLast_concat_getLast hne],
        (natDigits_plain_ends (n + 1)).2 _ _ (List.dropLast_concat_getLast hne).symm⟩
  obtain ⟨d, t, h1, hd⟩ := hstart
  obtain ⟨pre, e, h2, he⟩ := hend
  apply trim_id
  · rw [h1]; exact spFwd_plain d _ _ hd
  · rw [h2, List.reverse_append]; exact spBwd_plain e _ _ he

theorem parseLine_lineOf (kv : Bytes × Val) (h : okEntry kv) : parseLine (lineOf kv) = some (some kv) := by
  have htrim := lineOf_trim kv h
  obtain ⟨k, v⟩ := kv
  have hk : okKey k := by cases v <;> exact h.1
  obtain ⟨hkt, hkne⟩ := okKey_trim k hk
  obtain ⟨⟨x, t, hxt, _, hxh⟩, _, hcol, _⟩ := hk
  unfold parseLine
  simp only [htrim]
  have hnotempty : (lineOf (k, v)).isEmpty = false := by
    subst hxt; cases v <;> simp [lineOf]
  have hhead : ((lineOf (k, v)).head? == some HASH) = false := by
    subst hxt
    cases v <;> (simp [lineOf]; exact hxh)
  have t1 : trim [115] = [115] := trim_id _ (by decide) (by decide)
  have t2 : trim [105] = [105] := trim_id _ (by decide) (by decide)
  cases v with
  | str v =>
    have hsplit : splitN3 (lineOf (k, .str v)) = some (k, [115], v) := by
      unfold splitN3
      simp only [lineOf]
      have e : k ++ [COLON, 115, COLON] ++ v = k ++ COLON :: ([115] ++ COLON :: v) := by simp
      rw [e, splitFirst_append COLON k _ hcol]
      simp only
      rw [splitFirst_append COLON [115] v (by decide)]
    have hv := h.2
    simp only [hnotempty, hhead, hsplit, Bool.false_eq_true, if_false]
    rw [t1, hkt, trim_id v hv.2.1 hv.2.2]
    simp [tI, tS]
  | int i =>
    have hsplit : splitN3 (lineOf (k, .int i)) = some (k, [105], itoa i) := by
      unfold splitN3
      simp only [lineOf]
      have e : k ++ [COLON, 105, COLON] ++ itoa i = k ++ COLON :: ([105] ++ COLON :: itoa i) := by simp
      rw [e, splitFirst_append COLON k _ hcol]
      simp only
      rw [splitFirst_append COLON [105] (itoa i) (by decide)]
    simp only [hnotempty, hhead, hsplit, Bool.false_eq_true, if_false]
    rw [t2, hkt, itoa_trim, atoi_itoa i h.2]
    simp [tI]

theorem insert_new (m : List (Bytes × Val)) (k : Bytes) (v : Val) (h : k ∉ m.map (·.1)) :
    insert m k v = m ++ [(k, v)] := by
  induction m with
  | nil => rfl
  | cons e t ih =>
    obtain ⟨k', v'⟩ := e
    simp only [List.map_cons, List.mem_cons, not_or] at h
    have hne : (k' == k) = false := by
      have : k' ≠ k := fun e => h.1 e.symm
      simpa using this
    simp [RdpFile.insert, hne, ih h.2]

theorem unmarshalLines_ok (m : List (Bytes × Val)) (h : ∀ e ∈ m, okEntry e) :
    ∀ acc : List (Bytes × Val), ((acc ++ m).map (·.1)).Nodup →
      unmarshalLines acc (m.map lineOf) = some (acc ++ m) := by
  induction m with
  | nil => intro acc _; simp [unmarshalLines]
  | cons e t ih =>
    intro acc hnd
    obtain ⟨k, v⟩ := e
    simp only [List.map_cons, unmarshalLines, parseLine_lineOf (k, v) (h _ (by simp))]
    have hk : k ∉ acc.map (·.1) := by
      simp only [List.map_append, List.map_cons] at hnd
      have := (List.nodup_append.mp hnd).2.2
      intro hmem
      exact this k hmem k (by simp) rfl
    rw [insert_new acc k v hk]
    have := ih (fun x hx => h x (by simp [hx])) (acc ++ [(k, v)]) (by simpa using hnd)
    simpa using this

/-- **Round trip.** For every settings map — given in its canonical, key-sorted form: distinct
    setting names; integer values in the `int` range; string values free of LF and of leading or
    trailing blanks (they may contain `:`, CR in the middle and non-ASCII text) — parsing what the
    marshaller wrote yields exactly that map. -/
theorem roundtrip (m : List (Bytes × Val)) (h : ∀ e ∈ m, okEntry e) (hd : (m.map (·.1)).Nodup) :
    unmarshal (marshal m) = some m := by
  unfold unmarshal
  rw [splitLines_marshal m h]
  have := unmarshalLines_ok m h [] (by simpa using hd)
  simpa using this

/-- every line the marshaller writes is `name:type:value` terminated by CRLF -/
theorem lines_wellformed (kv : Bytes × Val) :
    ∃ ty val, (ty = [115] ∨ ty = [105]) ∧ marshalLine kv = kv.1 ++ [COLON] ++ ty ++ [COLON] ++ val ++ [CR, LF] := by
  obtain ⟨k, v⟩ := kv
  cases v with
  | str s => exact ⟨[115], s, Or.inl rfl, by simp [marshalLine]⟩
  | int i => exact ⟨[105], itoa i, Or.inr rfl, by simp [marshalLine]⟩

/-! ### malformed lines are rejected, never skipped -/

theorem malformed_rejected (acc : List (Bytes × Val)) (pre : List Bytes) (l : Bytes) (post : List Bytes)
    (hl : parseLine l = none) : unmarshalLines acc (pre ++ l :: post) = none := by
  induction pre generalizing acc with
  | nil => simp [unmarshalLines, hl]
  | cons p t ih =>
    simp only [List.cons_append, unmarshalLines]
    cases hp : parseLine p with
    | none => rfl
    | some o =>
      cases o with
      | none => exact ih acc
      | some kv => exact ih _

/-- a non-blank, non-comment line with fewer than three `:`-separated fields is malformed -/
theorem too_few_fields (l : Bytes) (h1 : (trim l).isEmpty = false) (h2 : (trim l).head? ≠ some HASH)
    (h3 : splitN3 (trim l) = none) : parseLine l = none := by
  unfold parseLine
  have : ((trim l).head? == some HASH) = false := by simpa using h2
  simp [h1, this, h3]

/-- an unknown type letter is malformed -/
theorem unknown_type (l k t v : Bytes) (h1 : (trim l).isEmpty = false) (h2 : (trim l).head? ≠ some HASH)
    (h3 : splitN3 (trim l) = some (k, t, v)) (ht : trim t ≠ tI ∧ trim t ≠ tS ∧ trim t ≠ tB) :
    parseLine l = none := by
  unfold parseLine
  have : ((trim l).head? == some HASH) = false := by simpa using h2
  simp [h1, this, h3, ht.1, ht.2.1, ht.2.2]

/-- a non-integer value of type `i` is malformed -/
theorem bad_integer (l k t v : Bytes) (h1 : (trim l).isEmpty = false) (h2 : (trim l).head? ≠ some HASH)
    (h3 : splitN3 (trim l) = some (k, t, v)) (ht : trim t = tI) (hv : atoi (trim v) = none) :
    parseLine l = none := by
  unfold parseLine
  have : ((trim l).head? == some HASH) = false := by simpa using h2
  simp [h1, this, h3, ht, hv]

/-! ### the builder over the regenerated settings table -/

open Rdpgw.Generated.RdpSettings

def okKeyB (k : Bytes) : Bool :=
  (match k with
   | x :: _ => decide (plain x) && x != HASH
   | [] => false) &&
  (match k.getLast? with
   | some y => decide (plain y)
   | none => false) &&
  !k.contains COLON && !k.contains LF

theorem okKeyB_sound (k : Bytes) (h : okKeyB k = true) : okKey k := by
  unfold okKeyB at h
  simp only [Bool.and_eq_true, Bool.not_eq_true', List.contains_eq_mem, decide_eq_false_iff_not] at h
  obtain ⟨⟨⟨h1, h2⟩, h3⟩, h4⟩ := h
  match k, h1, h2 with
  | x :: t, h1, h2 =>
    simp only [Bool.and_eq_true, decide_eq_true_eq, bne_iff_ne, ne_eq] at h1
    refine ⟨⟨x, t, rfl, h1.1, h1.2⟩, ?_, h3, h4⟩
    have hne : (x :: t) ≠ [] := by simp
    refine ⟨(x :: t).dropLast, (x :: t).getLast hne, (List.dropLast_concat_getLast hne).symm, ?_⟩
    rw [List.getLast?_eq_some_getLast hne] at h2
    simpa using h2

/-- the entries the builder emits: one per field whose value differs from its default -/
def emitted (tbl : List Setting) (vals : Setting → Val) : List (Bytes × Val) :=
  tbl.filterMap (fun s => if isDefault s (vals s) then none else some (s.tagBytes, vals s))

theorem build_eq (tbl : List Setting) (vals : Setting → Val) :
    build tbl vals = marshal (emitted tbl vals) := by
  unfold build marshal emitted
  induction tbl with
  | nil => rfl
  | cons s t ih =>
    simp only [List.filterMap_cons]
    split <;> simp_all

theorem emitted_keys_sublist (tbl : List Setting) (vals : Setting → Val) :
    List.Sublist ((emitted tbl vals).map (·.1)) (tbl.map (·.tagBytes)) := by
  unfold emitted
  induction tbl with
  | nil => simp
  | cons s t ih =>
    simp only [List.filterMap_cons, List.map_cons]
    by_cases hdft : isDefault s (vals s) = true
    · simp only [hdft, if_true]
      exact List.Sublist.cons _ ih
    · simp only [hdft, Bool.false_eq_true, if_false, List.map_cons]
      exact List.Sublist.cons_cons _ ih

/-- **At most one line per setting**, whatever values the builder holds — from the distinctness
    of the `rdp` tags. -/
theorem at_most_one_line (tbl : List Setting) (hd : (tbl.map (·.tagBytes)).Nodup) (vals : Setting → Val) :
    ((emitted tbl vals).map (·.1)).Nodup :=
  List.Nodup.sublist (emitted_keys_sublist tbl vals) hd

/-- the tags of the current `RdpSettings` struct (regenerated from the Go source on every run)
    are distinct and are well-formed setting names -/
theorem table_tags_distinct : (table.map (·.tagBytes)).Nodup := by decide

theorem table_tags_ok : ∀ s ∈ table, okKeyB s.tagBytes = true := by decide

/-- **Builder round trip.** Reading back what the builder wrote with the gateway's own reader yields
    exactly the settings the builder held (those that differ from the built-in defaults), for every
    assignment of values with in-range integers and blank-free, LF-free strings. -/
theorem builder_roundtrip (vals : Setting → Val)
    (hv : ∀ s ∈ table, match vals s with
      | .str v => okStr v
      | .int i => -9223372036854775808 ≤ i ∧ i ≤ 9223372036854775807) :
    unmarshal (build table vals) = some (emitted table vals) := by
  rw [build_eq]
  apply roundtrip
  · intro e he
    unfold emitted at he
    obtain ⟨s, hs, hse⟩ := List.mem_filterMap.mp he
    split at hse
    · cases hse
    · cases hse
      have hk := okKeyB_sound _ (table_tags_ok s hs)
      have := hv s hs
      cases hvs : vals s with
      | str v => rw [hvs] at this; exact ⟨hk, this⟩
      | int i => rw [hvs] at this; exact ⟨hk, this⟩
  · exact at_most_one_line table table_tags_distinct vals

/-- the settings the gateway must control are settings of the table (so forcing them in
    `HandleDownload` overrides whatever the template said) -/
theorem forced_settings_exist :
    ∀ t ∈ ["gatewayhostname", "full address", "gatewaycredentialssource", "gatewayprofileusagemethod",
           "gatewayusagemethod", "gatewayaccesstoken", "username", "domain"],
      t ∈ table.map (·.tag) := by decide

/-- non-vacuity -/
example : okKeyB [102, 117, 108, 108, 32, 97, 100, 100, 114, 101, 115, 115] = true := by decide
example : okStr [104, 58, 51, 0xC3, 0xA9] := by
  refine ⟨by decide, by decide, by decide⟩

end Rdpgw.C19
