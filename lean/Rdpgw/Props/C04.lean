import Rdpgw.Props.C03
import Rdpgw.Model.Cookie
import Rdpgw.Generated.ConfigDefaults

/-!
# C04 — tokens are bound to the client address they were issued to
-/

namespace Rdpgw.C04

open Rdpgw Rdpgw.Policy Rdpgw.Tunnel

/-- **Bound.** With verification enabled, a host passes the session check only if the address of
    the presenting client equals the address recorded in the token. -/
theorem bound (tokenHost tokenIp reqIp : Bytes) (next : Bytes → Bool) (host : Bytes)
    (h : checkSession true tokenHost tokenIp reqIp next host = true) : tokenIp = reqIp :=
  (C03.token_binds_host true tokenHost tokenIp reqIp next host h).2.2 rfl

/-- **Mismatch is refused**, whatever the rest of the policy says. -/
theorem mismatch_refused (tokenHost tokenIp reqIp : Bytes) (next : Bytes → Bool) (host : Bytes)
    (hne : tokenIp ≠ reqIp) : checkSession true tokenHost tokenIp reqIp next host = false := by
  unfold checkSession
  by_cases h1 : tokenHost ≠ host
  · simp [h1]
  · simp [h1, hne]

/-- **Disabled means ignored**: with verification off the addresses play no role. -/
theorem disabled_ignored (tokenHost ip1 ip2 ip3 ip4 : Bytes) (next : Bytes → Bool) (host : Bytes) :
    checkSession false tokenHost ip1 ip2 next host = checkSession false tokenHost ip3 ip4 next host := by
  unfold checkSession; simp

/-- composed with the packet loop: from another address the channel is refused with the
    access-denied status, the tunnel ends, and no connection attempt is made -/
theorem refused_in_tunnel (cfg : Cfg) (env : Env) (hc : cfg.hasHostCheck = true)
    (tokenHost tokenIp reqIp : Bytes) (next : Bytes → Bool) (hne : tokenIp ≠ reqIp)
    (henv : env.hostOk = checkSession true tokenHost tokenIp reqIp next) (h : Bytes) :
    step cfg env .tunnelAuthorize (.channelCreate h) =
      ⟨.tunnelAuthorize, [.resp (.channel Generated.Protocol.E_PROXY_RAP_ACCESSDENIED)], true⟩ := by
  have := mismatch_refused tokenHost tokenIp reqIp next h hne
  exact (C03.denied_no_dial cfg env h hc (by rw [henv]; exact this)).1

/-- the address minted into a token is the client address of the issuing request -/
theorem mint_records (now : Nat) (host : Bytes) (xff peer : Bytes) (idp : Cookie.Idp) :
    (Cookie.mint now host (clientAddr xff peer) idp).ip = clientAddr xff peer := rfl

/-- the client address is the first X-Forwarded-For element when the header is present… -/
theorem clientAddr_xff (xff peer : Bytes) (h : xff ≠ []) :
    clientAddr xff peer = trimSpace (firstElem xff) := by
  unfold clientAddr; simp [h]

/-- …and the TCP peer's host otherwise -/
theorem clientAddr_peer (peer h : Bytes) (hp : splitHost peer = some h) : clientAddr [] peer = h := by
  unfold clientAddr; simp [hp]

/-- issuance and use apply the same function, so equal headers/peers give equal addresses and the
    check passes exactly when they agree -/
theorem same_rule_at_issue_and_use (xffI peerI xffU peerU tokenHost : Bytes) (next : Bytes → Bool) :
    checkSession true tokenHost (clientAddr xffI peerI) (clientAddr xffU peerU) next tokenHost =
      (decide (clientAddr xffI peerI = clientAddr xffU peerU) && next tokenHost) := by
  unfold checkSession
  by_cases h : clientAddr xffI peerI = clientAddr xffU peerU
  · simp [h]
  · simp [h]

/-- **Only the first `X-Forwarded-For` line counts**, at issuance and at use alike: lines a proxy further
    in adds after it change nothing, and no line at all means the TCP peer. -/
theorem later_lines_inert (first : Bytes) (rest rest' : List Bytes) (peer peer' : Bytes) (h : first ≠ []) :
    clientAddrOf (first :: rest) peer = clientAddrOf (first :: rest') peer' ∧
    clientAddrOf (first :: rest) peer = trimSpace (firstElem first) := by
  simp [clientAddrOf, clientAddr, h]

theorem no_line_is_peer (peer : Bytes) : clientAddrOf [] peer = clientAddr [] peer := rfl

/-- verification is on by default (the defaults map of `config.Load`, regenerated from the source) -/
theorem default_on :
    ("Security.VerifyClientIp", "true") ∈ Generated.ConfigDefaults.table := by decide

/-- non-vacuity -/
example : clientAddr [49, 48, 46, 49, 44, 32, 50] [49, 46, 49, 58, 56, 48] = [49, 48, 46, 49] := by decide
example : clientAddr [] [49, 46, 49, 58, 56, 48] = [49, 46, 49] := by decide
example : clientAddr [] [91, 58, 58, 49, 93, 58, 56, 48] = [58, 58, 49] := by decide

end Rdpgw.C04
