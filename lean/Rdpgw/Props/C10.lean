import Rdpgw.Model.Panic
import Rdpgw.Lemmas.Frame
import Rdpgw.Model.Tunnel

/-!
# C10 — no client input can panic, crash or wedge the gateway

For every repo-owned function that slices or indexes client-controlled data: it cannot panic, for
every input.  For the loops: they terminate (Lean accepts the definitions only with a termination
proof) and what is buffered per tunnel is bounded.  For each repaired defect the pinned function is
refuted by a closed witness.
-/

namespace Rdpgw.C10

open Rdpgw Rdpgw.Panic

theorem slice_ok (b : Bytes) (lo hi : Nat) (h : lo ≤ hi ∧ hi ≤ b.length) : ∃ r, slice? b lo hi = .ok r := by
  unfold slice?; simp [h]

/-- **`readHeader` cannot panic**, whatever the bytes and whatever length field they carry. -/
theorem readHeader_no_panic (data : Bytes) : ∃ h, readHeader data = .ok h := by
  unfold readHeader
  by_cases h1 : data.length < 8
  · simp [h1]
  · simp only [h1, if_false]
    by_cases h2 : rd32 (data.drop 4) < 8 ∨ rd32 (data.drop 4) > Frame.maxPkt
    · simp [h2]
    · simp only [h2, if_false]
      by_cases h3 : data.length < rd32 (data.drop 4)
      · simp [h3]
      · simp only [h3, if_false]
        obtain ⟨r, hr⟩ := slice_ok data 8 (rd32 (data.drop 4)) ⟨by omega, by omega⟩
        rw [hr]
        exact ⟨_, rfl⟩

/-- it agrees with the framing model used by C08 -/
theorem readHeader_matches_cut (data : Bytes) :
    (readHeader data = .ok .fragment ↔ Frame.cut data = .need) ∧
    (readHeader data = .ok .invalid ↔ Frame.cut data = .bad) := by
  unfold readHeader Frame.cut
  by_cases h1 : data.length < 8
  · simp [h1]
  · simp only [h1, if_false]
    by_cases h2 : rd32 (data.drop 4) < 8 ∨ rd32 (data.drop 4) > Frame.maxPkt
    · simp [h2]
    · simp only [h2, if_false]
      by_cases h3 : data.length < rd32 (data.drop 4)
      · simp [h3]
      · simp only [h3, if_false]
        obtain ⟨r, hr⟩ := slice_ok data 8 (rd32 (data.drop 4)) ⟨by omega, by omega⟩
        rw [hr]
        simp [pure, Except.pure, bind, Except.bind]

/-- the pinned `readHeader` panics on a length field below 8 (D1) -/
theorem readHeaderLegacy_panics :
    readHeaderLegacy [1, 0, 0, 0, 3, 0, 0, 0] = .error (.panic "slice bounds out of range") := by decide

/-- **Bounded buffering**: the reader asks the transport for more only while fewer than
    `maxPacketSize` bytes are pending, so a tunnel buffers at most that plus one transport read. -/
theorem need_bound (buf : Bytes) (h : Frame.cut buf = .need) : buf.length < Frame.maxPkt := by
  have hm : 8 ≤ Frame.maxPkt := by decide
  unfold Frame.cut at h
  by_cases h1 : buf.length < 8
  · omega
  · simp only [h1, if_false] at h
    by_cases h2 : rd32 (buf.drop 4) < 8 ∨ rd32 (buf.drop 4) > Frame.maxPkt
    · simp [h2] at h
    · simp only [h2, if_false] at h
      by_cases h3 : buf.length < rd32 (buf.drop 4)
      · omega
      · simp [h3] at h

/-- **`getAuthPayload` cannot panic** for any Authorization value (empty, bare keyword, short). -/
theorem getAuthPayload_no_panic (a : Bytes) : ∃ r, getAuthPayload a = .ok r := by
  unfold getAuthPayload
  by_cases h1 : isPrefix sNTLM a = true
  · have hl : 5 ≤ a.length := by
      unfold isPrefix at h1
      have := List.IsPrefix.length_le (List.isPrefixOf_iff_prefix.mp h1)
      simpa [sNTLM] using this
    obtain ⟨r, hr⟩ := slice_ok a 5 a.length ⟨hl, Nat.le_refl _⟩
    simp only [h1, if_true, hr]
    exact ⟨_, rfl⟩
  · simp only [h1, Bool.false_eq_true, if_false]
    by_cases h2 : isPrefix sNegotiate a = true
    · have hl : 10 ≤ a.length := by
        unfold isPrefix at h2
        have := List.IsPrefix.length_le (List.isPrefixOf_iff_prefix.mp h2)
        simpa [sNegotiate] using this
      obtain ⟨r, hr⟩ := slice_ok a 10 a.length ⟨hl, Nat.le_refl _⟩
      simp only [h2, if_true, hr]
      exact ⟨_, rfl⟩
    · simp only [h2, Bool.false_eq_true, if_false]
      exact ⟨_, rfl⟩

/-- the pinned one panicked on `Authorization: NTLM` (D7) -/
theorem getAuthPayloadLegacy_panics :
    getAuthPayloadLegacy [78, 84, 76, 77] = .error (.panic "slice bounds out of range") := by decide

/-- **The KDC proxy's UDP path cannot panic** on messages shorter than their length prefix. -/
theorem kdcUdpPayload_no_panic (data : Bytes) : ∃ r, kdcUdpPayload data = .ok r := by
  unfold kdcUdpPayload
  by_cases h : data.length < 4
  · simp [h]; exact ⟨_, rfl⟩
  · obtain ⟨r, hr⟩ := slice_ok data 4 data.length ⟨by omega, Nat.le_refl _⟩
    simp only [h, if_false, hr]
    exact ⟨_, rfl⟩

theorem kdcUdpPayloadLegacy_panics : kdcUdpPayloadLegacy [1, 2, 3] = .error (.panic "slice bounds out of range") := by
  decide

/-- **Socket-buffer tuning cannot panic** for any connection kind and any buffer setting. -/
theorem setBuffers_no_panic (k : ConnKind) (send recv : Int) : ∃ r, setBuffers k send recv = .ok r := by
  unfold setBuffers
  by_cases h : send < 1 ∧ recv < 1
  · simp [h]; exact ⟨_, rfl⟩
  · simp only [h, if_false]; cases k <;> exact ⟨_, rfl⟩

theorem setBuffersLegacy_panics :
    setBuffersLegacy .tcp 65536 0 = .error (.panic "reflect: call of reflect.Value.Elem on struct Value") := by decide

/-- **Every ordering of the legacy IN/OUT requests is safe**: an IN request without an OUT channel is
    refused instead of dereferencing a nil transport. -/
theorem legacyIn_no_panic (hasOut : Bool) : ∃ r, legacyIn hasOut = .ok r := by
  cases hasOut <;> exact ⟨_, rfl⟩

theorem legacyInLegacy_panics :
    legacyInLegacy false = .error (.panic "invalid memory address or nil pointer dereference") := by decide

/-- **The packet loop terminates and ends on every hostile stream**: for any list of transport reads
    the reader yields finitely many packets and an end condition, and the state machine's run over
    them is a finite trace (both are total functions; the run is at most as long as the packet list). -/
theorem loop_total (cfg : Tunnel.Cfg) (env : Tunnel.Env) (segs : List Bytes) :
    (Tunnel.runStream cfg env segs).1.length ≤ (Frame.readStream segs).1.length := by
  unfold Tunnel.runStream Tunnel.runPkts
  simp only
  have key : ∀ (reqs : List Tunnel.Req) ph, (Tunnel.run cfg env ph reqs).length ≤ reqs.length := by
    intro reqs
    induction reqs with
    | nil => intro ph; simp [Tunnel.run]
    | cons r rs ih =>
      intro ph
      simp only [Tunnel.run, List.length_cons]
      split
      · simp
      · have := ih (Tunnel.step cfg env ph r).phase
        omega
  have := key ((Frame.readStream segs).1.map Tunnel.parseReq) .initialized
  simpa using this

/-- the number of packets is bounded by the number of bytes (every packet consumes ≥ 8 bytes) -/
theorem packets_bounded (s : Bytes) : 8 * (Frame.parseStream s).1.length ≤ s.length := by
  induction hn : s.length using Nat.strongRecOn generalizing s with
  | _ n ih =>
    cases hc : Frame.cut s with
    | need => rw [Frame.parseStream_need hc]; simp
    | bad => rw [Frame.parseStream_bad hc]; simp
    | pkt p rest =>
      rw [Frame.parseStream_pkt hc]
      have hlt := Frame.cut_rest_lt hc
      have h8 : rest.length + 8 ≤ s.length := by
        unfold Frame.cut at hc
        by_cases h1 : s.length < 8
        · simp [h1] at hc
        · simp only [h1, if_false] at hc
          by_cases h2 : rd32 (s.drop 4) < 8 ∨ rd32 (s.drop 4) > Frame.maxPkt
          · simp [h2] at hc
          · simp only [h2, if_false] at hc
            by_cases h3 : s.length < rd32 (s.drop 4)
            · simp [h3] at hc
            · simp only [h3, if_false] at hc
              injection hc with _ hr
              rw [← hr]
              simp only [List.length_drop]
              omega
      have := ih rest.length (by omega) rest rfl
      simp only [List.length_cons]
      omega

end Rdpgw.C10
