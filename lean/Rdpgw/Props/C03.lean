import Rdpgw.Model.Policy
import Rdpgw.Props.C01

/-!
# C03 — the host dialed is exactly the host that was requested and authorized
-/

namespace Rdpgw.C03

open Rdpgw Rdpgw.Policy Rdpgw.Tunnel Rdpgw.Frame

/-- **The four-mode characterisation of the tunnel-side host policy.** -/
theorem policy_char (mode : Bytes) (hosts : List Bytes) (user host : Bytes) :
    checkHost mode hosts user host = true ↔
      mode = mAny ∨
      ((mode = mRoundRobin ∨ mode = mUnsigned) ∧ user ≠ [] ∧ ∃ e ∈ hosts, entryFor user e = host) := by
  unfold checkHost
  by_cases h1 : mode = mAny
  · simp [h1]
  · by_cases h2 : mode = mSigned
    · subst h2
      have a1 : mSigned ≠ mRoundRobin := by decide
      have a2 : mSigned ≠ mUnsigned := by decide
      simp [h1, a1, a2]
    · by_cases h3 : mode = mRoundRobin ∨ mode = mUnsigned
      · by_cases hu : user = []
        · simp [h1, h2, h3, hu]
        · simp [h1, h2, h3, hu]
      · simp [h1, h2, h3]

/-- 'signed' selection allows nothing at the tunnel -/
theorem signed_allows_nothing (hosts : List Bytes) (user host : Bytes) :
    checkHost mSigned hosts user host = false := by
  have a0 : mSigned ≠ mAny := by decide
  unfold checkHost; simp [a0]

/-- only 'any' allows a host that is not a (substituted) configured entry -/
theorem unlisted_only_in_any (mode : Bytes) (hosts : List Bytes) (user host : Bytes)
    (hn : ∀ e ∈ hosts, entryFor user e ≠ host) (h : checkHost mode hosts user host = true) :
    mode = mAny := by
  rcases (policy_char mode hosts user host).mp h with h | ⟨_, _, e, he, heq⟩
  · exact h
  · exact absurd heq (hn e he)

/-- an empty user name is allowed nothing under list-based selection -/
theorem empty_user_refused (mode : Bytes) (hosts : List Bytes) (host : Bytes) (hm : mode ≠ mAny) :
    checkHost mode hosts [] host = false := by
  cases h : checkHost mode hosts [] host with
  | false => rfl
  | true =>
    rcases (policy_char mode hosts [] host).mp h with h | ⟨_, hu, _⟩
    · exact absurd h hm
    · exact absurd rfl hu

/-- an entry without the placeholder is compared verbatim -/
theorem replaceFirst_no_occurrence (pat rep s : Bytes)
    (h : ∀ k, ¬ (pat.isPrefixOf (s.drop k) = true ∧ k < s.length)) : replaceFirst pat rep s = s := by
  induction s with
  | nil => rfl
  | cons c t ih =>
    unfold replaceFirst
    have h0 := h 0
    simp only [List.drop_zero, List.length_cons, Nat.zero_lt_succ, and_true] at h0
    rw [if_neg h0]
    congr 1
    apply ih
    intro k hk
    apply h (k + 1)
    simpa using hk

/-- the first occurrence of the placeholder is replaced by the user name -/
theorem replaceFirst_first (pat rep a b : Bytes) (hp : pat ≠ [])
    (h : ∀ k, k < a.length → pat.isPrefixOf ((a ++ pat ++ b).drop k) = false) :
    replaceFirst pat rep (a ++ pat ++ b) = a ++ rep ++ b := by
  induction a with
  | nil =>
    obtain ⟨p0, pt, rfl⟩ := List.exists_cons_of_ne_nil hp
    simp only [List.nil_append, List.cons_append]
    unfold replaceFirst
    have : (p0 :: pt).isPrefixOf (p0 :: (pt ++ b)) = true := by
      rw [List.isPrefixOf_iff_prefix]
      exact ⟨b, by simp⟩
    simp [this]
  | cons c t ih =>
    have h0 := h 0 (by simp)
    simp only [List.drop_zero] at h0
    simp only [List.cons_append] at h0 ⊢
    unfold replaceFirst
    simp only [h0]
    congr 1
    have := ih (fun k hk => by
      have := h (k + 1) (by simpa using hk)
      simpa using this)
    simpa using this

/-- token authentication binds the host: under `CheckSession` a host passes only if it equals the
    host embedded in the accepted token (and the address matches when verification is on) -/
theorem token_binds_host (verifyIp : Bool) (tokenHost tokenIp reqIp : Bytes) (next : Bytes → Bool)
    (host : Bytes) (h : checkSession verifyIp tokenHost tokenIp reqIp next host = true) :
    host = tokenHost ∧ next host = true ∧ (verifyIp = true → tokenIp = reqIp) := by
  unfold checkSession at h
  by_cases h1 : tokenHost ≠ host
  · simp [h1] at h
  · have h1' : tokenHost = host := by simpa using h1
    by_cases h2 : verifyIp = true ∧ tokenIp ≠ reqIp
    · simp [h1', h2] at h
    · simp only [h1, if_false, h2] at h
      refine ⟨h1'.symm, h, ?_⟩
      intro hv
      have h2' : ¬ tokenIp ≠ reqIp := fun hne => h2 ⟨hv, hne⟩
      simpa using h2'

/-- **The address dialed is exactly the address requested, and it passed the policy.**  For every
    configuration, policy, dialer and packet list: whenever a connection attempt to `h` appears in
    the run of the packet loop, it is in the step of a channel-create packet whose server name and
    port render to exactly `h` (the same string that was handed to the policy), and the installed
    policy accepted `h`. -/
theorem dial_is_requested_and_allowed (cfg : Cfg) (env : Env) (ps : List Pkt)
    (e : Req × List Ev × Bool) (he : e ∈ runPkts cfg env ps) (h : Bytes) (b : Bool)
    (hd : Ev.dial h b ∈ e.2.1) :
    e.1 = .channelCreate h ∧ (∃ p ∈ ps, parseReq p = .channelCreate h) ∧
      (cfg.hasHostCheck = true → env.hostOk h = true) := by
  unfold runPkts at he
  -- every element of a run is a step of some request of the list from some phase
  have key : ∀ (reqs : List Req) (ph : Phase), e ∈ run cfg env ph reqs →
      ∃ ph' r, r ∈ reqs ∧ e = (r, (step cfg env ph' r).evs, (step cfg env ph' r).stop) := by
    intro reqs
    induction reqs with
    | nil => intro ph h; simp [run] at h
    | cons r rs ih =>
      intro ph h
      simp only [run, List.mem_cons] at h
      rcases h with h | h
      · exact ⟨ph, r, by simp, h⟩
      · by_cases hs : (step cfg env ph r).stop = true
        · simp [hs] at h
        · simp only [hs, Bool.false_eq_true, if_false] at h
          obtain ⟨ph', r', hr', he'⟩ := ih _ h
          exact ⟨ph', r', by simp [hr'], he'⟩
  obtain ⟨ph', r, hr, rfl⟩ := key _ _ he
  obtain ⟨_, hreq, hpol, _⟩ := C01.dial_only_when_authorized cfg env ph' r h b hd
  obtain ⟨p, hp, hpr⟩ := List.mem_map.mp hr
  exact ⟨hreq, ⟨p, hp, hpr.trans hreq⟩, hpol⟩

/-- the string given to the policy and the string dialed are the same term of the request -/
theorem same_string (p : Pkt) (h : Bytes) (hp : parseReq p = .channelCreate h) :
    p.ty = Generated.Protocol.PKT_TYPE_CHANNEL_CREATE ∧ h = Body.channelHost p.body := by
  unfold parseReq at hp
  by_cases h1 : p.ty = Generated.Protocol.PKT_TYPE_HANDSHAKE_REQUEST
  · rw [if_pos h1] at hp; exact Req.noConfusion hp
  · rw [if_neg h1] at hp
    by_cases h2 : p.ty = Generated.Protocol.PKT_TYPE_TUNNEL_CREATE
    · rw [if_pos h2] at hp; exact Req.noConfusion hp
    · rw [if_neg h2] at hp
      by_cases h3 : p.ty = Generated.Protocol.PKT_TYPE_TUNNEL_AUTH
      · rw [if_pos h3] at hp; exact Req.noConfusion hp
      · rw [if_neg h3] at hp
        by_cases h4 : p.ty = Generated.Protocol.PKT_TYPE_CHANNEL_CREATE
        · rw [if_pos h4] at hp
          injection hp with hp
          exact ⟨h4, hp.symm⟩
        · rw [if_neg h4] at hp
          by_cases h5 : p.ty = Generated.Protocol.PKT_TYPE_DATA
          · rw [if_pos h5] at hp; exact Req.noConfusion hp
          · rw [if_neg h5] at hp
            by_cases h6 : p.ty = Generated.Protocol.PKT_TYPE_KEEPALIVE
            · rw [if_pos h6] at hp; exact Req.noConfusion hp
            · rw [if_neg h6] at hp
              by_cases h7 : p.ty = Generated.Protocol.PKT_TYPE_CLOSE_CHANNEL
              · rw [if_pos h7] at hp; exact Req.noConfusion hp
              · rw [if_neg h7] at hp; exact Req.noConfusion hp

/-- **A refused host is answered with the resource-access-denied status and no connection attempt
    is made** — to it or to any other address — and the tunnel ends. -/
theorem denied_no_dial (cfg : Cfg) (env : Env) (h : Bytes) (hc : cfg.hasHostCheck = true)
    (hden : env.hostOk h = false) :
    step cfg env .tunnelAuthorize (.channelCreate h) =
      ⟨.tunnelAuthorize, [.resp (.channel Generated.Protocol.E_PROXY_RAP_ACCESSDENIED)], true⟩ ∧
    Generated.Protocol.E_PROXY_RAP_ACCESSDENIED = 0x800759DA := by
  constructor
  · simp [step, hc, hden]
  · decide

/-- in a run where the policy refuses every requested host, no connection attempt occurs at all -/
theorem all_denied_no_dial (cfg : Cfg) (env : Env) (hc : cfg.hasHostCheck = true) (reqs : List Req)
    (hden : ∀ h, Req.channelCreate h ∈ reqs → env.hostOk h = false) :
    ∀ ph, C01.dials (run cfg env ph reqs) = 0 := by
  induction reqs with
  | nil => intro ph; simp [run, C01.dials]
  | cons r rs ih =>
    intro ph
    have ih' := ih (fun h hh => hden h (by simp [hh]))
    simp only [run, C01.dials]
    have h0 : C01.evDials (step cfg env ph r).evs = 0 := by
      cases hcnt : C01.evDials (step cfg env ph r).evs with
      | zero => rfl
      | succ n =>
        -- a dial event exists
        have : ∃ hh b, Ev.dial hh b ∈ (step cfg env ph r).evs := by
          have hpos : 0 < C01.evDials (step cfg env ph r).evs := by omega
          unfold C01.evDials at hpos
          obtain ⟨x, hx⟩ := List.exists_mem_of_length_pos hpos
          rw [List.mem_filter] at hx
          obtain ⟨hmem, hm⟩ := hx
          cases x with
          | dial hh b => exact ⟨hh, b, hmem⟩
          | resp _ => simp at hm
          | up _ => simp at hm
          | relayStart => simp at hm
        obtain ⟨hh, b, hmem⟩ := this
        obtain ⟨_, hreq, hpol, _⟩ := C01.dial_only_when_authorized cfg env ph r hh b hmem
        have := hden hh (by simp [hreq])
        rw [hpol hc] at this
        cases this
    rw [h0]
    by_cases hs : (step cfg env ph r).stop = true
    · simp [hs, C01.dials]
    · simp only [hs, Bool.false_eq_true, if_false, Nat.zero_add]
      exact ih' _

/-! ### the composed policies `main.go` installs -/

/-- without token authentication: `CheckHost`; with it: `CheckSession(CheckHost)` -/
def installed (tokenAuth : Bool) (mode : Bytes) (hosts : List Bytes) (user : Bytes) (verifyIp : Bool)
    (tokenHost tokenIp reqIp : Bytes) : Bytes → Bool :=
  if tokenAuth then checkSession verifyIp tokenHost tokenIp reqIp (checkHost mode hosts user)
  else checkHost mode hosts user

/-- under token authentication an allowed host equals the token's host *and* passes the list policy -/
theorem installed_token (mode : Bytes) (hosts : List Bytes) (user : Bytes) (verifyIp : Bool)
    (tokenHost tokenIp reqIp host : Bytes)
    (h : installed true mode hosts user verifyIp tokenHost tokenIp reqIp host = true) :
    host = tokenHost ∧ checkHost mode hosts user host = true ∧ (verifyIp = true → tokenIp = reqIp) := by
  simp only [installed, if_true] at h
  exact token_binds_host _ _ _ _ _ _ h

/-- non-vacuity -/
example : checkHost mRoundRobin [[104, 49] ++ placeholder, [104, 50]] [117] ([104, 49, 117]) = true := by decide
example : checkHost mRoundRobin [[104, 49] ++ placeholder, [104, 50]] [] [104, 50] = false := by decide
example : checkHost mUnsigned [[104, 50]] [117] [104, 50, 0] = false := by decide

/-! ### Further resource names and alternate names are inert -/

/-- a CHANNEL_CREATE body: counts, port, protocol, then the names (each with its length) -/
def channelBody (nres nalt : UInt8) (port : Nat) (first : Bytes) (rest : Bytes) : Bytes :=
  [nres, nalt] ++ le16 port ++ le16 3 ++ le16 first.length ++ first ++ rest

theorem u8_cons (b : UInt8) (t : Bytes) : Body.u8 (b :: t) = (b.toNat, t) := by
  simp [Body.u8, Body.fixed]

theorem u16_le16 (n : Nat) (h : n < 65536) (t : Bytes) : Body.u16 (le16 n ++ t) = (n, t) := by
  have l : (le16 n).length = 2 := by simp [le16]
  have hle : 2 ≤ (le16 n ++ t).length := by simp [l]
  have ht : (le16 n ++ t).take 2 = le16 n := by
    rw [List.take_append_of_le_length (by omega)]; exact List.take_of_length_le (by omega)
  have hd : (le16 n ++ t).drop 2 = t := by
    rw [← l]; exact List.drop_left
  have r := rd16_le16 n h []
  simp only [List.append_nil] at r
  simp only [Body.u16, Body.fixed, hle, if_true, ht, hd, r]

theorem blob_exact (first t : Bytes) :
    Body.blobAllOrNothing first.length (first ++ t) = (first, t) := by
  simp [Body.blobAllOrNothing]

/-- **Only the first resource name counts.** Whatever further resource names and alternate names a
    CHANNEL_CREATE packet carries after its first name, and whatever the two count octets say, the
    address checked against policy and dialled is the one made of the first name and the port. -/
theorem alternates_inert (nres nalt nres' nalt' : UInt8) (port : Nat) (first rest rest' : Bytes)
    (hp : port < 65536) (hl : first.length < 65536) :
    Body.channelHost (channelBody nres nalt port first rest) =
    Body.channelHost (channelBody nres' nalt' port first rest') := by
  have key : ∀ (a b : UInt8) (t : Bytes),
      Body.channelRequest (channelBody a b port first t) = (Utf16.decodeOrEmpty first, port) := by
    intro a b t
    simp only [Body.channelRequest, channelBody, List.cons_append, List.nil_append, List.append_assoc,
      u8_cons, u16_le16 _ hp, u16_le16 3 (by decide), u16_le16 _ hl, blob_exact]
  simp only [Body.channelHost, key]

/-- non-vacuity: two packets that differ in everything after the first name -/
example : Body.channelHost (channelBody 1 0 3389 [104, 0, 0, 0] []) =
    Body.channelHost (channelBody 2 3 3389 [104, 0, 0, 0] [2, 0, 120, 0, 9, 9]) :=
  alternates_inert 1 0 2 3 3389 [104, 0, 0, 0] [] [2, 0, 120, 0, 9, 9] (by decide) (by decide)

end Rdpgw.C03
