import Rdpgw.Model.Tunnel

/-!
# C17 — authentication capability negotiation follows the configured requirements

For all four server settings and **every** client capability value (any `Nat`, not an
enumeration of 65 536 values).
-/

namespace Rdpgw.C17

open Rdpgw Rdpgw.Tunnel Rdpgw.Resp
open Rdpgw.Generated.Protocol

/-- the capability bits (regenerated constants) are the MS-TSGU ones -/
theorem cap_bits : HTTP_EXTENDED_AUTH_SC = 1 ∧ HTTP_EXTENDED_AUTH_PAA = 2 := by decide

/-- the server advertises exactly its enabled mechanisms -/
theorem serverCaps_bits (cfg : Cfg) :
    (serverCaps cfg).testBit 0 = cfg.smartCard ∧ (serverCaps cfg).testBit 1 = cfg.tokenAuth ∧
    ∀ i, 2 ≤ i → (serverCaps cfg).testBit i = false := by
  unfold serverCaps
  cases cfg.smartCard <;> cases cfg.tokenAuth <;>
    (refine ⟨by decide, by decide, ?_⟩; intro i hi
     simp only [HTTP_EXTENDED_AUTH_SC, HTTP_EXTENDED_AUTH_PAA]
     first
       | exact Nat.zero_testBit i
       | (apply Nat.testBit_lt_two_pow; exact Nat.lt_of_lt_of_le (by decide) (Nat.pow_le_pow_right (by decide) hi)))

theorem and_ne_zero_iff_common_bit (a b : Nat) : a &&& b ≠ 0 ↔ ∃ i, a.testBit i = true ∧ b.testBit i = true := by
  constructor
  · intro h
    obtain ⟨i, hi⟩ := Nat.exists_testBit_of_ne_zero h
    rw [Nat.testBit_and] at hi
    exact ⟨i, by simpa using hi⟩
  · rintro ⟨i, ha, hb⟩ h0
    have : (a &&& b).testBit i = true := by rw [Nat.testBit_and, ha, hb]; rfl
    rw [h0] at this
    simp at this

/-- **The handshake succeeds iff** the client's bits and the server's enabled mechanisms are both
    empty or share at least one bit — for every client value. -/
theorem handshake_iff (cfg : Cfg) (client : Nat) :
    (matchAuth cfg client).isSome ↔
      (serverCaps cfg = 0 ∧ client = 0) ∨ (∃ i, (serverCaps cfg).testBit i = true ∧ client.testBit i = true) := by
  rw [← and_ne_zero_iff_common_bit]
  unfold matchAuth
  by_cases hc : client = 0
  · subst hc
    simp only [Nat.and_zero, Nat.lt_irrefl, and_false, if_false, gt_iff_lt, and_true, ne_eq,
      not_true_eq_false, or_false]
    by_cases hs : serverCaps cfg = 0
    · simp [hs]
    · have : 0 < serverCaps cfg := Nat.pos_of_ne_zero hs
      simp [this, hs]
  · have hpos : client > 0 := Nat.pos_of_ne_zero hc
    by_cases ha : serverCaps cfg &&& client = 0
    · simp [ha, hpos, hc]
    · simp [ha, hc]

/-- on success the server advertises exactly its enabled mechanisms and echoes the client's
    version bytes; the loop continues in the handshake phase -/
theorem success_advertises (cfg : Cfg) (env : Env) (ma mi ext : Nat)
    (h : (matchAuth cfg ext).isSome) :
    step cfg env .initialized (.handshake ma mi ext) =
      ⟨.handshake, [.resp (.handshake ERROR_SUCCESS ma mi (serverCaps cfg))], false⟩ := by
  cases hm : matchAuth cfg ext with
  | none => simp [hm] at h
  | some c =>
    have hc : c = serverCaps cfg := by
      unfold matchAuth at hm
      split at hm
      · cases hm
      · split at hm
        · cases hm
        · cases hm; rfl
    simp [step, hm, hc]

/-- on failure the answer is capability-mismatch and the tunnel ends (phase unchanged) -/
theorem failure_mismatch_and_end (cfg : Cfg) (env : Env) (ma mi ext : Nat)
    (h : (matchAuth cfg ext).isSome = false) :
    step cfg env .initialized (.handshake ma mi ext) =
      ⟨.initialized, [.resp (.handshake E_PROXY_CAPABILITYMISMATCH 0 0 0)], true⟩ := by
  simp only [step]
  cases hm : matchAuth cfg ext with
  | none => simp
  | some c => simp [hm] at h

/-- a client offering no mechanism cannot proceed when cookie authentication is required -/
theorem no_mechanism_refused_under_token_auth (cfg : Cfg) (h : cfg.tokenAuth = true) :
    matchAuth cfg 0 = none := by
  unfold matchAuth serverCaps
  simp only [h, if_true]
  cases cfg.smartCard <;> decide

/-- non-vacuity -/
example : (matchAuth ⟨true, false, true, false, true, ⟨false, false, false, false, false, false, false⟩, 0⟩ 2).isSome := by
  decide
example : matchAuth ⟨true, false, true, false, true, ⟨false, false, false, false, false, false, false⟩, 0⟩ 1 = none := by
  decide

end Rdpgw.C17
