import Rdpgw.Props.C18Facts
import Rdpgw.Model.Config

/-!
# C18 — unsafe or inconsistent configurations are refused at startup
-/

namespace Rdpgw.C18

open Rdpgw Rdpgw.Config

/-- the random source yields 32-character strings (`GenerateRandomString(32)`) -/
def Fresh (rnd : Nat → Bytes) : Prop := ∀ i, (rnd i).length = 32

theorem refuses_openid_without_tokenauth (r : Raw) (rnd : Nat → Bytes) (h1 : r.openid = true) (h2 : r.tokenAuth = false) :
    ∃ w, startup r rnd = .refused w := by
  unfold startup
  simp only
  split; · exact ⟨_, rfl⟩
  split; · exact ⟨_, rfl⟩
  split; · exact ⟨_, rfl⟩
  simp [h1, h2]

theorem refuses_basic_without_tls (r : Raw) (rnd : Nat → Bytes) (h1 : r.basic = true) (h2 : r.tlsDisabled = true) :
    ∃ w, startup r rnd = .refused w := by
  unfold startup
  simp only
  split; · exact ⟨_, rfl⟩
  simp [h1, h2]

theorem refuses_ntlm_and_kerberos (r : Raw) (rnd : Nat → Bytes) (h1 : r.ntlm = true) (h2 : r.kerberos = true) :
    ∃ w, startup r rnd = .refused w := by
  unfold startup
  simp only
  split; · exact ⟨_, rfl⟩
  split; · exact ⟨_, rfl⟩
  simp [h1, h2]

theorem refuses_kerberos_without_keytab (r : Raw) (rnd : Nat → Bytes) (h1 : r.kerberos = true) (h2 : r.keytab = []) :
    ∃ w, startup r rnd = .refused w := by
  unfold startup
  simp only
  split; · exact ⟨_, rfl⟩
  split; · exact ⟨_, rfl⟩
  split; · exact ⟨_, rfl⟩
  split; · exact ⟨_, rfl⟩
  simp [h1, h2]

theorem refuses_signed_without_query_key (r : Raw) (rnd : Nat → Bytes) (h1 : r.hostSelectionSigned = true)
    (h2 : r.queryTokenSigningKey = []) : ∃ w, startup r rnd = .refused w := by
  unfold startup
  simp [h1, h2]

theorem refuses_no_hosts (r : Raw) (rnd : Nat → Bytes) (h : r.hosts = 0) : ∃ w, startup r rnd = .refused w := by
  unfold startup
  simp only
  split; · exact ⟨_, rfl⟩
  split; · exact ⟨_, rfl⟩
  split; · exact ⟨_, rfl⟩
  split; · exact ⟨_, rfl⟩
  split; · exact ⟨_, rfl⟩
  split; · exact ⟨_, rfl⟩
  simp [h]

/-- **Keys are effective.** A running gateway never uses an absent or short key for the PAA token
    (signing, encryption), the session (authentication, encryption) and — when user tokens are on —
    the user token encryption: each such key is 32 characters long and is the configured one iff that
    one was exactly 32 characters, otherwise a fresh random string. -/
theorem keys_effective (r : Raw) (rnd : Nat → Bytes) (hf : Fresh rnd) (e : Eff) (h : startup r rnd = .running e) :
    e.paaSignKey.length = 32 ∧ e.paaEncKey.length = 32 ∧ e.sessionKey.length = 32 ∧ e.sessionEncKey.length = 32 ∧
    (r.enableUserToken = true → e.userEncKey.length = 32) ∧
    (e.paaSignKey = if r.paaSignKey.length = 32 then r.paaSignKey else rnd 1) ∧
    (e.paaEncKey = if r.paaEncKey.length = 32 then r.paaEncKey else rnd 0) ∧
    (e.sessionKey = if r.sessionKey.length = 32 then r.sessionKey else rnd 3) ∧
    (e.sessionEncKey = if r.sessionEncKey.length = 32 then r.sessionEncKey else rnd 4) := by
  have he : e = effective r rnd := by
    unfold startup at h
    simp only at h
    split at h; · cases h
    split at h; · cases h
    split at h; · cases h
    split at h; · cases h
    split at h; · cases h
    split at h; · cases h
    split at h; · cases h
    injection h with h; exact h.symm
  subst he
  have pl : ∀ c i, (pick c (rnd i)).length = 32 := by
    intro c i; unfold pick
    by_cases hc : c.length = 32 <;> simp [hc, hf i]
  have pe : ∀ c i, pick c (rnd i) = if c.length = 32 then c else rnd i := by
    intro c i; unfold pick
    by_cases hc : c.length = 32 <;> simp [hc]
  refine ⟨pl _ _, pl _ _, pl _ _, pl _ _, ?_, pe _ _, pe _ _, pe _ _, pe _ _⟩
  intro hu
  simp [effective, hu, pl]

/-- **Fresh keys differ**: two instances started from the same configuration with absent or short
    keys draw their keys independently, so — when the draws differ — they share no substituted key,
    and what one signs or seals the other does not accept. -/
theorem fresh_keys_differ (r : Raw) (rnd₁ rnd₂ : Nat → Bytes) (e₁ e₂ : Eff)
    (h1 : startup r rnd₁ = .running e₁) (h2 : startup r rnd₂ = .running e₂) (hf1 : Fresh rnd₁) (hf2 : Fresh rnd₂)
    (hd : ∀ i, rnd₁ i ≠ rnd₂ i) :
    (r.paaSignKey.length ≠ 32 → e₁.paaSignKey ≠ e₂.paaSignKey) ∧
    (r.sessionKey.length ≠ 32 → e₁.sessionKey ≠ e₂.sessionKey) ∧
    (r.sessionEncKey.length ≠ 32 → e₁.sessionEncKey ≠ e₂.sessionEncKey) ∧
    (r.paaEncKey.length ≠ 32 → e₁.paaEncKey ≠ e₂.paaEncKey) := by
  obtain ⟨_, _, _, _, _, a1, a2, a3, a4⟩ := keys_effective r rnd₁ hf1 e₁ h1
  obtain ⟨_, _, _, _, _, b1, b2, b3, b4⟩ := keys_effective r rnd₂ hf2 e₂ h2
  refine ⟨?_, ?_, ?_, ?_⟩ <;> intro hk
  · rw [a1, b1]; simp [hk]; exact hd 1
  · rw [a3, b3]; simp [hk]; exact hd 3
  · rw [a4, b4]; simp [hk]; exact hd 4
  · rw [a2, b2]; simp [hk]; exact hd 0

/-- configured 32-character keys are used as they are (two instances then do share them) -/
theorem configured_keys_kept (r : Raw) (rnd : Nat → Bytes) (hf : Fresh rnd) (e : Eff) (h : startup r rnd = .running e)
    (hk : r.paaSignKey.length = 32) : e.paaSignKey = r.paaSignKey := by
  have := (keys_effective r rnd hf e h).2.2.2.2.2.1
  simpa [hk] using this

/-- the defaults of `config.Load` (regenerated): OpenID authentication with token authentication on,
    client-address verification on — a default configuration is consistent -/
theorem defaults_consistent :
    ("Server.Authentication", "openid") ∈ Generated.ConfigDefaults.table ∧
    ("Caps.TokenAuth", "true") ∈ Generated.ConfigDefaults.table ∧
    ("Server.HostSelection", "roundrobin") ∈ Generated.ConfigDefaults.table := by decide

/-- non-vacuity: a consistent configuration with absent keys runs on fresh 32-character keys -/
def r0 : Raw := ⟨true, false, false, false, false, false, true, false, [], [], 1, [], [], [], [], []⟩
def rndA : Nat → Bytes := fun i => List.replicate 32 (UInt8.ofNat (65 + i))
example : startup r0 rndA = .running (effective r0 rndA) ∧ (effective r0 rndA).paaSignKey = rndA 1 := by decide

end Rdpgw.C18
