import Rdpgw.Bytes
import Rdpgw.Generated.Consts

/-!
# Packet framing (C08, C10)

Model of `protocol/common.go`: `createPacket`, `readHeader`, `readMessage` (with the per-tunnel
pending buffer) and the packet loop's view of the transport, `readAll`.

* `cut`         — `readHeader` on a buffer: a whole packet and the rest, `need` (fragment), or `bad`
* `parseStream` — SPEC: the packets of a whole byte stream; no notion of transport reads
* `readMessage` — MODEL: one call of Go's `readMessage`: pending buffer + the remaining reads
* `readAll`     — MODEL: what the packet loop sees: `readMessage` until it fails
-/

namespace Rdpgw.Frame

open Rdpgw

structure Pkt where
  ty : Nat
  body : Bytes
deriving Repr, DecidableEq

/-- largest packet the gateway reassembles (regenerated from the Go constant) -/
def maxPkt : Nat := Rdpgw.Generated.Protocol.maxPacketSize

/-- `createPacket` -/
def enc (p : Pkt) : Bytes := le16 p.ty ++ [0, 0] ++ le32 (8 + p.body.length) ++ p.body

def Pkt.wf (p : Pkt) : Prop := p.ty < 65536 ∧ 8 + p.body.length ≤ maxPkt

instance (p : Pkt) : Decidable p.wf := by unfold Pkt.wf; infer_instance

inductive Cut where
  | pkt (p : Pkt) (rest : Bytes)
  | need
  | bad
deriving Repr, DecidableEq

/-- `readHeader` applied to the pending buffer -/
def cut (buf : Bytes) : Cut :=
  if buf.length < 8 then .need
  else
    let size := rd32 (buf.drop 4)
    if size < 8 ∨ size > maxPkt then .bad
    else if buf.length < size then .need
    else .pkt ⟨rd16 buf, (buf.take size).drop 8⟩ (buf.drop size)

inductive End where
  | eof (leftover : Nat)   -- transport ended; `leftover` bytes of an incomplete packet pending
  | bad                    -- unframeable length field
deriving Repr, DecidableEq

theorem cut_rest_lt {buf : Bytes} {p : Pkt} {rest : Bytes} (h : cut buf = .pkt p rest) :
    rest.length < buf.length := by
  unfold cut at h
  split at h
  · cases h
  · simp only at h
    split at h
    · cases h
    · split at h
      · cases h
      · cases h
        simp only [List.length_drop]
        omega

/-- SPEC: parse a whole byte stream, no notion of segments -/
def parseStream (s : Bytes) : List Pkt × End :=
  match h : cut s with
  | .pkt p rest =>
    have : rest.length < s.length := cut_rest_lt h
    let (ps, e) := parseStream rest
    (p :: ps, e)
  | .need => ([], .eof s.length)
  | .bad => ([], .bad)
termination_by s.length

/-- result of one `readMessage` call -/
inductive Read where
  | ok (p : Pkt) (pending : Bytes) (segs : List Bytes)
  | eof (pending : Bytes)
  | bad
deriving Repr

/-- MODEL: one `readMessage` call: pending buffer + remaining transport reads.  The transport
    reports an error (end of stream) when `segs` is exhausted. -/
def readMessage (buf : Bytes) (segs : List Bytes) : Read :=
  match segs with
  | [] =>
    match cut buf with
    | .pkt p rest => .ok p rest []
    | .bad => .bad
    | .need => .eof buf
  | s :: segs' =>
    match cut buf with
    | .pkt p rest => .ok p rest (s :: segs')
    | .bad => .bad
    | .need => readMessage (buf ++ s) segs'

/-- MODEL: the packet loop's view: call `readMessage` until it fails -/
def readAll (fuel : Nat) (buf : Bytes) (segs : List Bytes) : List Pkt × End :=
  match fuel with
  | 0 => ([], .eof buf.length)
  | fuel + 1 =>
    match readMessage buf segs with
    | .ok p pending segs' =>
      let (ps, e) := readAll fuel pending segs'
      (p :: ps, e)
    | .eof pending => ([], .eof pending.length)
    | .bad => ([], .bad)

/-- the reader with enough fuel for the whole input (each packet consumes ≥ 8 bytes) -/
def readStream (segs : List Bytes) : List Pkt × End := readAll (segs.flatten.length + 1) [] segs

/-! ### The pinned (pre-fix) algorithm, kept so that the defect is a theorem

`readMessageLegacy` is the one-shot defragmentation of the pinned tree: at most one extra read is
appended, only the first packet of a read is returned, what follows it in the read is dropped.
`Except.error true` stands for the `data[8:size]` panic when `size < 8`. -/

inductive LRead where
  | ok (p : Pkt) (segs : List Bytes)
  | err (segs : List Bytes)
  | panic
deriving Repr, DecidableEq

/-- pinned `readHeader`: `none` = error (fragment), panic when size < 8 ≤ len -/
def readHeaderLegacy (data : Bytes) : Option (Option Pkt) :=   -- none = panic; some none = fragment
  if data.length < 8 then some none
  else
    let size := rd32 (data.drop 4)
    if data.length < size then some none
    else if size < 8 then none
    else some (some ⟨rd16 data, (data.take size).drop 8⟩)

def readMessageLegacy (segs : List Bytes) : LRead :=
  match segs with
  | [] => .err []
  | s :: rest =>
    match readHeaderLegacy s with
    | none => .panic
    | some (some p) => .ok p rest
    | some none =>
      match rest with
      | [] => .err []
      | s2 :: rest2 =>
        match readHeaderLegacy ((s.take 4096) ++ s2) with
        | none => .panic
        | some (some p) => .ok p rest2
        | some none => .err rest2

def readAllLegacy (fuel : Nat) (segs : List Bytes) : List Pkt × Bool :=   -- (packets, ended by panic)
  match fuel with
  | 0 => ([], false)
  | fuel + 1 =>
    match readMessageLegacy segs with
    | .ok p rest => let (ps, e) := readAllLegacy fuel rest; (p :: ps, e)
    | .err _ => ([], false)
    | .panic => ([], true)

end Rdpgw.Frame
