import Rdpgw.Bytes
import Rdpgw.Generated.Limits

/-!
# OpenID login callback and session state (C13)

`OIDC.HandleCallback` as the sequence of its checks over facts about one callback request, for
both session stores.  The HTTP response-writer rule "headers are frozen at the first `WriteHeader`"
is part of the model because it is what made the pinned code behave differently for the two
stores (defect D21).
-/

namespace Rdpgw.Oidc

open Rdpgw

inductive Store where
  | cookie   -- the session lives in the client's cookie: it changes only if Set-Cookie reaches the client
  | file     -- the session lives server-side under the cookie's id
deriving Repr, DecidableEq

structure Session where
  authenticated : Bool
  user : Bytes
  accessToken : Bytes
deriving Repr, DecidableEq

def Session.fresh : Session := ⟨false, [], []⟩

/-- what is true of one callback request -/
structure Facts where
  stateIssuedAgo : Option Nat   -- seconds since this gateway issued the `state` value (none: never issued)
  codeOk : Bool                 -- the IdP exchanges the code
  hasIdToken : Bool
  verifies : Bool               -- signature, issuer, audience, expiry of the ID token
  claimsParse : Bool
  userClaim : Option Bytes      -- first string among preferred_username, unique_name, upn, username
  accessToken : Bytes
deriving Repr, DecidableEq

/-- lifetime of a state value in seconds (regenerated: `CacheExpiration`, nanoseconds) -/
def stateLifetime : Nat := Rdpgw.Generated.Web.CacheExpiration / 1000000000

def stateOk (f : Facts) : Bool :=
  match f.stateIssuedAgo with
  | some age => decide (age < stateLifetime)
  | none => false

/-- `HandleCallback` (after the D21 repair): status and the session as the *next request* sees it -/
def callback (f : Facts) (s : Session) : Nat × Session :=
  if !stateOk f then (400, s)
  else if !f.codeOk then (500, s)
  else if !f.hasIdToken then (500, s)
  else if !f.verifies then (500, s)
  else if !f.claimsParse then (500, s)
  else match f.userClaim with
    | none => (500, s)
    | some u => if u = [] then (500, s) else (302, ⟨true, u, f.accessToken⟩)

/-- the pinned callback: after answering 500 for a missing user name it went on, marked the session
    authenticated with an empty name and saved it — which reaches the next request only when the
    session is stored server-side (headers, hence Set-Cookie, were already sent) -/
def callbackLegacy (store : Store) (f : Facts) (s : Session) : Nat × Session :=
  if !stateOk f then (400, s)
  else if !f.codeOk then (500, s)
  else if !f.hasIdToken then (500, s)
  else if !f.verifies then (500, s)
  else if !f.claimsParse then (500, s)
  else match f.userClaim with
    | some u => if u = [] then
        (match store with | .file => (500, ⟨true, [], f.accessToken⟩) | .cookie => (500, s))
        else (302, ⟨true, u, f.accessToken⟩)
    | none =>
        match store with
        | .file => (500, ⟨true, [], f.accessToken⟩)
        | .cookie => (500, s)

/-- `OIDC.Authenticated` in front of the download handler: 200 = handler reached, 302 = to the IdP -/
def connect (s : Session) : Nat := if s.authenticated then 200 else 302

/-! ## The state store over time

`OIDC.stateStore` is a go-cache with a two-minute default expiry: `Authenticated` puts a fresh random
state into it, `HandleCallback` only looks states up.  Time is a parameter of every event. -/

/-- one entry: the state value and when it expires -/
structure Entry where
  state : Bytes
  expires : Nat
deriving Repr, DecidableEq

abbrev StateStore := List Entry

inductive StoreEv where
  /-- an unauthenticated request at time `now` is redirected with the fresh state value `state` -/
  | issue (now : Nat) (state : Bytes)
  /-- a callback at time `now` naming `state` (whatever else it carries) -/
  | callback (now : Nat) (state : Bytes)
deriving Repr, DecidableEq

/-- `Set(state, uri, DefaultExpiration)`: replaces an entry of the same name -/
def storeStep (st : StateStore) : StoreEv → StateStore
  | .issue now s => ⟨s, now + stateLifetime⟩ :: st.filter (fun e => e.state ≠ s)
  | .callback _ _ => st

def storeRun : StateStore → List StoreEv → StateStore
  | st, [] => st
  | st, e :: es => storeRun (storeStep st e) es

/-- `Get(state)` at time `now`: found and not yet expired -/
def known (st : StateStore) (now : Nat) (s : Bytes) : Bool :=
  st.any fun e => e.state == s && decide (now < e.expires)

/-- the expiry the store holds for a state, if any -/
def expiryOf (st : StateStore) (s : Bytes) : Option Nat :=
  (st.find? fun e => e.state == s).map (·.expires)

end Rdpgw.Oidc
