import Rdpgw.Model.Tunnel

/-!
# Many tunnels at once (C07)

A model of `HandleGatewayProtocol` / `handleWebsocketProtocol` / `handleLegacyProtocol` as a
transition system over *all* tunnels of a gateway process.  What is shared between tunnels in the
Go code is shared here too:

* `cache` — the package-level go-cache `c`, keyed by the `Rdg-Connection-Id` header;
* `tuns`  — the heap of `*Tunnel` values (keyed by the number of the connection whose request
  allocated them);
* `loop`  — for each client connection, the tunnel its handler goroutine holds while it runs the
  packet loop (the closure of `handler.Process`).

Events are what can happen at the process boundary: a gateway request arrives on a fresh
connection, a packet arrives on a connection, a backend sends bytes, a client connection ends.
Any interleaving of the goroutines of the real process is a sequence of such events; the theorems
in `Props/C07.lean` are over all sequences.

Modelling assumptions (listed in DESIGN.md): one gateway request per TCP connection (the handler
hijacks the connection), and a request on an already-seen connection number is ignored.
-/

namespace Rdpgw.Multi

open Rdpgw Rdpgw.Tunnel

inductive Method where
  | out | inn
deriving Repr, DecidableEq

/-- a client connection together with the connection id its request carried -/
abbrev Att := Nat × Bytes

/-- what `CheckPAACookie` copies from an accepted token into the tunnel of the presenting
    connection: `TargetServer`, `RemoteAddr`, and the user name -/
structure Claims where
  host : Bytes
  ip : Bytes
  sub : Bytes
deriving Repr, DecidableEq

structure Tun where
  rdgId : Bytes
  user : Bytes
  addr : Bytes
  legacy : Bool
  tIn : Option Att
  tOut : Option Att
  ph : Phase
  claims : Option Claims
  backend : Option Bytes
  relay : Bool
deriving Repr, DecidableEq

/-- the installed security callbacks; they see the tunnel they are called for and nothing else -/
structure Pol where
  /-- cookie ↦ the claims of the token when the cookie is accepted (the check does not look at
      who presents it; the binding is enforced by `hostOk`) -/
  cookie : Bytes → Option Claims
  clientOk : Bytes → Bytes → Bool
  /-- user and client address of the request, claims copied into this tunnel, requested host -/
  hostOk : Bytes → Bytes → Option Claims → Bytes → Bool
  dialOk : Bytes → Bool

def envOf (pol : Pol) (t : Tun) : Env where
  cookieOk c := (pol.cookie c).isSome
  clientOk n := pol.clientOk t.user n
  hostOk h := pol.hostOk t.user t.addr t.claims h
  dialOk := pol.dialOk

inductive Event where
  | req (conn : Nat) (m : Method) (ws : Bool) (id user addr : Bytes)
  | pkt (conn : Nat) (r : Req)
  | host (key : Nat) (bytes : Bytes)
  | drop (conn : Nat)
deriving Repr

/-- what is observable at the process boundary -/
inductive Obs where
  | accept (conn : Nat) (key : Nat)
  | refuse (conn : Nat)
  /-- a response packet written by tunnel `key` to client connection `conn` -/
  | toClient (conn : Nat) (key : Nat) (r : Resp.Resp)
  /-- backend bytes of tunnel `key` relayed to client connection `conn` -/
  | down (conn : Nat) (key : Nat) (bytes : Bytes)
  /-- a client payload from connection `conn` forwarded to the backend of tunnel `key` -/
  | up (key : Nat) (conn : Nat) (bytes : Bytes)
  | dial (key : Nat) (host : Bytes) (ok : Bool)
deriving Repr, DecidableEq

structure St where
  tuns : Nat → Option Tun
  cache : Bytes → Option Nat
  loop : Nat → Option Nat
  seen : List Nat
  /-- ghost: every attachment of a connection to a tunnel that ever happened -/
  att : List (Nat × Nat)
  log : List Obs

def init : St := ⟨fun _ => none, fun _ => none, fun _ => none, [], [], []⟩

def put {α β} [DecidableEq α] (f : α → β) (a : α) (b : β) : α → β := fun x => if x = a then b else f x

@[simp] theorem put_same {α β} [DecidableEq α] (f : α → β) (a : α) (b : β) : put f a b a = b := by
  simp [put]

@[simp] theorem put_other {α β} [DecidableEq α] (f : α → β) (a x : α) (b : β) (h : x ≠ a) :
    put f a b x = f x := by simp [put, h]

def fresh (id user addr : Bytes) : Tun :=
  ⟨id, user, addr, false, none, none, .initialized, none, none, false⟩

/-- one packet in the loop of tunnel `t` -/
def tunPkt (cfg : Cfg) (pol : Pol) (t : Tun) (r : Req) : Tun × Out :=
  let o := Tunnel.step cfg (envOf pol t) t.ph r
  let t1 := { t with ph := o.phase }
  let t2 :=
    if o.stop then t1 else
    match r with
    | .tunnelCreate c =>
      if cfg.hasCookieCheck then { t1 with claims := pol.cookie c } else t1
    | .channelCreate h => { t1 with backend := some h, relay := true }
    | _ => t1
  (t2, o)

def obsOf (key conn : Nat) (t : Tun) : Ev → List Obs
  | .resp r => match t.tOut with
    | some (c, _) => [.toClient c key r]
    | none => []
  | .dial h ok => [.dial key h ok]
  | .up p => [.up key conn p]
  | .relayStart => []

/-- the packet loop of `conn` returned: deferred clean-up -/
def endLoop (s : St) (conn key : Nat) (t : Tun) : St :=
  { s with
    loop := put s.loop conn none,
    cache := if t.legacy then put s.cache t.rdgId none else s.cache,
    tuns := put s.tuns key (some { t with relay := false }) }

/-- the tunnel a request finds: the cached one for its id, or a new one -/
def lookup (s : St) (conn : Nat) (id user addr : Bytes) : Nat × Tun :=
  match s.cache id with
  | some k => (match s.tuns k with
    | some t => (k, t)
    | none => (k, fresh id user addr))
  | none => (conn, fresh id user addr)

def attachWs (t : Tun) (a : Att) : Tun := { t with tIn := some a, tOut := some a, ph := .initialized }
def attachOut (t : Tun) (a : Att) : Tun := { t with tOut := some a, legacy := true }
def attachIn (t : Tun) (a : Att) : Tun := { t with tIn := some a, ph := .initialized }

def step (cfg : Cfg) (pol : Pol) (s : St) : Event → St
  | .req conn m ws id user addr =>
    if conn ∈ s.seen then s else
    let s := { s with seen := conn :: s.seen }
    let (key, t0) := lookup s conn id user addr
    match m with
    | .out =>
      if ws then
        { s with
          tuns := put s.tuns key (some (attachWs t0 (conn, id)))
          loop := put s.loop conn (some key)
          att := (conn, key) :: s.att
          log := s.log ++ [.accept conn key] }
      else
        { s with
          tuns := put s.tuns key (some (attachOut t0 (conn, id)))
          cache := put s.cache id (some key)
          att := (conn, key) :: s.att
          log := s.log ++ [.accept conn key] }
    | .inn =>
      if (s.cache id).isNone then { s with log := s.log ++ [.refuse conn] }
      else if t0.tOut.isNone then { s with log := s.log ++ [.refuse conn] }
      else if t0.tIn.isNone then
        { s with
          tuns := put s.tuns key (some (attachIn t0 (conn, id)))
          loop := put s.loop conn (some key)
          att := (conn, key) :: s.att
          log := s.log ++ [.accept conn key] }
      else { s with log := s.log ++ [.refuse conn] }
  | .pkt conn r =>
    match s.loop conn with
    | none => s
    | some key =>
      match s.tuns key with
      | none => s
      | some t =>
        let (t', o) := tunPkt cfg pol t r
        let s1 := { s with tuns := put s.tuns key (some t')
                           log := s.log ++ (o.evs.map (obsOf key conn t)).flatten }
        if o.stop then endLoop s1 conn key t' else s1
  | .host key bytes =>
    match s.tuns key with
    | none => s
    | some t =>
      if t.relay then
        match t.tOut with
        | some (c, _) => { s with log := s.log ++ [.down c key bytes] }
        | none => s
      else s
  | .drop conn =>
    match s.loop conn with
    | none => s
    | some key =>
      match s.tuns key with
      | none => s
      | some t => endLoop s conn key t

def run (cfg : Cfg) (pol : Pol) : St → List Event → St
  | s, [] => s
  | s, e :: es => run cfg pol (step cfg pol s e) es

/-- the tunnel an event is addressed to in state `s` -/
def target (s : St) : Event → Option Nat
  | .req conn _ _ id _ _ => if conn ∈ s.seen then none else some ((s.cache id).getD conn)
  | .pkt conn _ => s.loop conn
  | .host _ _ => none
  | .drop conn => s.loop conn

end Rdpgw.Multi
