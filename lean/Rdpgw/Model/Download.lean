import Rdpgw.Model.Policy
import Rdpgw.Model.Cookie

/-!
# The download endpoint (C12)

`web.Handler.HandleDownload` behind `OIDC.Authenticated`: host selection (`getHost`), user/domain
split, user-name template, the claims handed to the token generator and the settings the gateway
forces in the connection file.
-/

namespace Rdpgw.Download

open Rdpgw Rdpgw.Policy

structure Cfg where
  mode : Bytes
  hosts : List Bytes
  splitUserDomain : Bool
  usernameTemplate : Bytes
  noUsername : Bool
  gatewayHost : Bytes
deriving Repr, DecidableEq

structure Sess where
  authenticated : Bool
  user : Bytes
  accessToken : Bytes
  clientIp : Bytes
deriving Repr, DecidableEq

/-- the request: the `host` query parameter (first value), what `QueryInfo` says about it when it
    is a query token (`none` = forged / expired / wrong issuer), and the random pick -/
structure Req where
  hostParam : Option Bytes
  querySubject : Option Bytes
  pick : Nat
deriving Repr, DecidableEq

inductive Outcome where
  | redirect                 -- 302 to the identity provider, no token
  | badRequest               -- 400
  | serverError              -- 500
  | file (host : Bytes) (username : Option Bytes) (domain : Option Bytes)
         (claimSub claimHost claimIp claimAt : Bytes)
deriving Repr, DecidableEq

/-- `getHost`: `none` = error (400) -/
def getHost (c : Cfg) (r : Req) : Option Bytes :=
  if c.mode = mSigned then
    match r.hostParam with
    | none => none
    | some _ =>
      match r.querySubject with
      | none => none
      | some h => if c.hosts.contains h then some h else none
  else if c.mode = mUnsigned then
    match r.hostParam with
    | none => none
    | some p => if c.hosts.contains p then some p else none
  else if c.mode = mAny then r.hostParam
  else c.hosts[r.pick % c.hosts.length]?      -- roundrobin and anything else: a configured entry

def splitAt (c : UInt8) : Bytes → Bytes × Option Bytes
  | [] => ([], none)
  | b :: t => if b == c then ([], some t) else
      let (u, d) := splitAt c t
      (b :: u, d)

def usernamePh : Bytes := [123, 123, 32, 117, 115, 101, 114, 110, 97, 109, 101, 32, 125, 125]   -- "{{ username }}"

/-- user and domain: split at the first `@` when splitting is on -/
def userDomain (c : Cfg) (s : Sess) : Bytes × Option Bytes :=
  if c.splitUserDomain then splitAt 64 s.user else (s.user, none)

/-- the `username` setting: the template with `{{ username }}` replaced, or the user name -/
def render (c : Cfg) (user : Bytes) : Bytes :=
  if c.usernameTemplate = [] then user else replaceFirst usernamePh user c.usernameTemplate

/-- a template without the placeholder is a configuration error (500) -/
def templateBad (c : Cfg) (user : Bytes) : Bool :=
  decide (c.usernameTemplate ≠ [] ∧ render c user = c.usernameTemplate)

def domOf : Option Bytes → Option Bytes
  | some d => if d = [] then none else some d
  | none => none

def fileFor (c : Cfg) (s : Sess) (h0 : Bytes) : Outcome :=
  .file (entryFor s.user h0)
    (if c.noUsername then none else some (render c (userDomain c s).1))
    (if c.noUsername then none else domOf (userDomain c s).2)
    (userDomain c s).1 (entryFor s.user h0) s.clientIp s.accessToken

/-- `HandleDownload` behind `Authenticated` -/
def download (c : Cfg) (s : Sess) (r : Req) : Outcome :=
  if !s.authenticated then .redirect
  else match getHost c r with
    | none => .badRequest
    | some h0 => if templateBad c (userDomain c s).1 then .serverError else fileFor c s h0

end Rdpgw.Download
