/-!
# Tunnel lifecycle and resource release (C11)

The handlers in `gateway.go` acquire resources on the way in and release them in deferred calls on
the way out.  This model keeps exactly the resources C11 talks about and the order of the
acquisitions and deferred releases as written in the Go text:

* `handleWebsocketProtocol`: gauge++, transport, register, **loop**, then (LIFO) closeBackend,
  RemoveTunnel, transport close, gauge--;
* `handleLegacyProtocol` (OUT): attach, publish in the cache, accept, return (the hijacked
  connection stays open);
* `handleLegacyProtocol` (IN): gauge++, hijack; refuse when no OUT; else attach, publish, accept,
  register, **loop**, then closeBackend, close OUT, delete from cache, RemoveTunnel, close IN, gauge--.

The packet loop is a parameter: *any* behaviour of `Processor.Process` is allowed (any history of
packets, any error, even a panic — deferred calls run all the same) as long as it touches only
what the loop can touch: it may dial a backend and start the relay goroutine, and the backend may
meanwhile have gone away.  Theorems in `Props/C11.lean` quantify over all such behaviours.

What makes the loop return at all (which client-side events `Process` notices) is the other half
of the property; it is the table `loopEnds`, tied to the code by the fault matrix of the harness.
-/

namespace Rdpgw.Lifecycle

/-- the resources of one tunnel plus the process-wide bookkeeping -/
structure World where
  inOpen : Bool          -- client-facing inbound connection held by the gateway
  outOpen : Bool         -- client-facing outbound connection held by the gateway
  backendOpen : Bool     -- `Tunnel.rwc` dialled and not closed
  relay : Bool           -- the `forward` goroutine is alive
  handlers : Nat         -- handler goroutines inside the gateway for this tunnel
  registered : Bool      -- entry in `Connections`
  cached : Bool          -- entry in the legacy cache `c`
  wsGauge : Int
  legacyGauge : Int
deriving Repr, DecidableEq

def idle : World := ⟨false, false, false, false, 0, false, false, 0, 0⟩

/-- nothing of the tunnel is left -/
def Released (w : World) : Prop :=
  w.inOpen = false ∧ w.outOpen = false ∧ w.backendOpen = false ∧ w.relay = false ∧
  w.handlers = 0 ∧ w.registered = false ∧ w.cached = false ∧ w.wsGauge = 0 ∧ w.legacyGauge = 0

instance (w : World) : Decidable (Released w) := by unfold Released; infer_instance

/-- what a run of the packet loop did to the resources it can touch -/
structure LoopOutcome where
  /-- a CHANNEL_CREATE succeeded: `rwc` is set and `go forward(...)` was started -/
  dialled : Bool
  /-- the remote desktop host closed first: `forward` saw the error, closed `rwc` and ended -/
  hostClosedFirst : Bool
deriving Repr, DecidableEq

def applyLoop (o : LoopOutcome) (w : World) : World :=
  if o.dialled then { w with backendOpen := !o.hostClosedFirst, relay := !o.hostClosedFirst } else w

/-- `Tunnel.closeBackend`: closes `rwc` if set; the relay's blocked read fails and it ends -/
def closeBackend (w : World) : World := { w with backendOpen := false, relay := false }

/-- which deferred releases `handleWebsocketProtocol` performs (regenerated from the source as
    `Generated.Lifecycle.ws`) -/
structure WsVariant where
  closesBackend : Bool
  removes : Bool
  closesTransport : Bool
  decsGauge : Bool
deriving Repr, DecidableEq

/-- which deferred releases the IN branch of `handleLegacyProtocol` performs -/
structure LegacyVariant where
  closesBackend : Bool
  closesOut : Bool
  deletesCache : Bool
  removes : Bool
  closesIn : Bool
  decsGauge : Bool
deriving Repr, DecidableEq

/-- the handlers as verified -/
def currentWs : WsVariant := ⟨true, true, true, true⟩
def currentLegacy : LegacyVariant := ⟨true, true, true, true, true, true⟩
/-- the handlers of the pinned snapshot (before the `fix:` commits) -/
def pinnedWs : WsVariant := ⟨false, true, true, true⟩
def pinnedLegacy : LegacyVariant := ⟨false, false, false, true, true, true⟩

/-- `handleWebsocketProtocol` from entry to return -/
def wsHandler (v : WsVariant) (o : LoopOutcome) (w : World) : World :=
  let w := { w with wsGauge := w.wsGauge + 1, handlers := w.handlers + 1, inOpen := true, outOpen := true }
  let w := { w with registered := true }
  let w := applyLoop o w
  -- deferred, last in first out
  let w := if v.closesBackend then closeBackend w else w
  let w := if v.removes then { w with registered := false } else w
  let w := if v.closesTransport then { w with inOpen := false, outOpen := false } else w
  let w := if v.decsGauge then { w with wsGauge := w.wsGauge - 1 } else w
  { w with handlers := w.handlers - 1 }

/-- the OUT request of a legacy tunnel: the handler returns, connection and cache entry stay -/
def legacyOut (w : World) : World := { w with outOpen := true, cached := true }

/-- the IN request of a legacy tunnel from entry to return -/
def legacyIn (v : LegacyVariant) (o : LoopOutcome) (w : World) : World :=
  let w := { w with legacyGauge := w.legacyGauge + 1, handlers := w.handlers + 1, inOpen := true }
  let w :=
    if !w.outOpen then w            -- no OUT channel: refused, nothing attached
    else
      let w := { w with cached := true, registered := true }
      let w := applyLoop o w
      let w := if v.closesBackend then closeBackend w else w
      let w := if v.closesOut then { w with outOpen := false } else w
      let w := if v.deletesCache then { w with cached := false } else w
      if v.removes then { w with registered := false } else w
  let w := if v.closesIn then { w with inOpen := false } else w
  let w := if v.decsGauge then { w with legacyGauge := w.legacyGauge - 1 } else w
  { w with handlers := w.handlers - 1 }

/-! ## When the loop returns -/

inductive Transport where
  | ws | legacy
deriving Repr, DecidableEq

inductive Cause where
  | closeChannel | outOfOrder | unframeable | dropWs | dropIn | dropOut
deriving Repr, DecidableEq

/-- does `Processor.Process` return when this happens on the client side?  (`dropOut`: nothing
    reads the outbound connection, so its loss goes unnoticed while the inbound one is quiet) -/
def loopEnds : Transport → Cause → Bool
  | .ws, .dropIn => false       -- not applicable: a websocket tunnel has one connection
  | .ws, .dropOut => false
  | .ws, _ => true
  | .legacy, .dropWs => false   -- not applicable
  | .legacy, .dropOut => false
  | .legacy, _ => true

/-- the whole life of a tunnel whose client side ends with `cause` -/
def life (vw : WsVariant) (vl : LegacyVariant) (t : Transport) (cause : Cause) (o : LoopOutcome) : World :=
  match t with
  | .ws =>
    if loopEnds .ws cause then wsHandler vw o idle
    else  -- still inside the loop
      applyLoop o { idle with wsGauge := 1, handlers := 1, inOpen := true, outOpen := true, registered := true }
  | .legacy =>
    let w := legacyOut idle
    if loopEnds .legacy cause then legacyIn vl o w
    else
      applyLoop o { w with legacyGauge := 1, handlers := 1, inOpen := true, registered := true }

end Rdpgw.Lifecycle
