import Rdpgw.Model.Body
import Rdpgw.Model.Resp

/-!
# The tunnel state machine (C01, C03, C04, C16, C17)

`step` mirrors one iteration of the `for` loop in `Processor.Process`, case by case: the guard
(`≠` or `<` exactly as in the Go text), the body parser, the callback, the response, the new
state.  `run` is the loop: it folds `step` over the packets read and stops at the first `return`.

The outside world is a parameter (`Env`): which cookies / client names / hosts the installed
callbacks accept and which hosts can be dialled.  Theorems quantify over *all* such functions.
-/

namespace Rdpgw.Tunnel

open Rdpgw Rdpgw.Frame Rdpgw.Resp
open Rdpgw.Generated.Protocol

inductive Phase where
  | initialized | handshake | tunnelCreate | tunnelAuthorize | channelCreate | opened | closed
deriving Repr, DecidableEq

def Phase.toNat : Phase → Nat
  | .initialized => SERVER_STATE_INITIALIZED | .handshake => SERVER_STATE_HANDSHAKE
  | .tunnelCreate => SERVER_STATE_TUNNEL_CREATE | .tunnelAuthorize => SERVER_STATE_TUNNEL_AUTHORIZE
  | .channelCreate => SERVER_STATE_CHANNEL_CREATE | .opened => SERVER_STATE_OPENED
  | .closed => SERVER_STATE_CLOSED

structure Cfg where
  tokenAuth : Bool
  smartCard : Bool
  hasCookieCheck : Bool
  hasClientCheck : Bool
  hasHostCheck : Bool
  redirect : Redirect
  idleTimeout : Int
deriving Repr

/-- the outside world; theorems quantify over all of these -/
structure Env where
  cookieOk : Bytes → Bool
  clientOk : Bytes → Bool
  hostOk : Bytes → Bool
  dialOk : Bytes → Bool

/-- requests after body parsing -/
inductive Req where
  | handshake (major minor : Nat) (extAuth : Nat)
  | tunnelCreate (cookie : Bytes)
  | tunnelAuth (client : Bytes)
  | channelCreate (host : Bytes)
  | data (payload : Bytes)
  | keepalive
  | closeChannel
  | unknown (ty : Nat)
deriving Repr, DecidableEq

inductive Ev where
  | resp (r : Resp)
  | dial (host : Bytes) (ok : Bool)
  | up (payload : Bytes)
  | relayStart
deriving Repr, DecidableEq

/-- the `switch pt` of `Process` together with the body parsers -/
def parseReq (p : Pkt) : Req :=
  if p.ty = PKT_TYPE_HANDSHAKE_REQUEST then
    let h := Body.handshakeRequest p.body
    .handshake h.major h.minor h.extAuth
  else if p.ty = PKT_TYPE_TUNNEL_CREATE then
    .tunnelCreate (Body.tunnelRequest HTTP_TUNNEL_PACKET_FIELD_PAA_COOKIE p.body).2
  else if p.ty = PKT_TYPE_TUNNEL_AUTH then .tunnelAuth (Body.tunnelAuthRequest p.body)
  else if p.ty = PKT_TYPE_CHANNEL_CREATE then .channelCreate (Body.channelHost p.body)
  else if p.ty = PKT_TYPE_DATA then .data (Body.receive p.body)
  else if p.ty = PKT_TYPE_KEEPALIVE then .keepalive
  else if p.ty = PKT_TYPE_CLOSE_CHANNEL then .closeChannel
  else .unknown p.ty

/-- the capabilities the server advertises -/
def serverCaps (cfg : Cfg) : Nat :=
  (if cfg.smartCard then HTTP_EXTENDED_AUTH_SC else 0) |||
  (if cfg.tokenAuth then HTTP_EXTENDED_AUTH_PAA else 0)

/-- `matchAuth`: `none` is the error return -/
def matchAuth (cfg : Cfg) (client : Nat) : Option Nat :=
  if serverCaps cfg &&& client = 0 ∧ client > 0 then none
  else if serverCaps cfg > 0 ∧ client = 0 then none
  else some (serverCaps cfg)

structure Out where
  phase : Phase
  evs : List Ev
  stop : Bool
deriving Repr

def authResp (cfg : Cfg) (status : Nat) : Resp :=
  .tunnelAuth status (makeRedirectFlags cfg.redirect) (idleField cfg.idleTimeout)

/-- one iteration of the `for` loop in `Processor.Process` -/
def step (cfg : Cfg) (env : Env) (ph : Phase) : Req → Out
  | .handshake major minor ext =>
    if ph ≠ .initialized then ⟨ph, [.resp (.handshake E_PROXY_INTERNALERROR 0 0 0)], true⟩
    else match matchAuth cfg ext with
      | none => ⟨ph, [.resp (.handshake E_PROXY_CAPABILITYMISMATCH 0 0 0)], true⟩
      | some caps => ⟨.handshake, [.resp (.handshake ERROR_SUCCESS major minor caps)], false⟩
  | .tunnelCreate cookie =>
    if ph ≠ .handshake then ⟨ph, [.resp (.tunnel E_PROXY_INTERNALERROR)], true⟩
    else if cfg.hasCookieCheck && !env.cookieOk cookie then
      ⟨ph, [.resp (.tunnel E_PROXY_COOKIE_AUTHENTICATION_ACCESS_DENIED)], true⟩
    else ⟨.tunnelCreate, [.resp (.tunnel ERROR_SUCCESS)], false⟩
  | .tunnelAuth client =>
    if ph ≠ .tunnelCreate then ⟨ph, [.resp (authResp cfg E_PROXY_INTERNALERROR)], true⟩
    else if cfg.hasClientCheck && !env.clientOk client then
      ⟨ph, [.resp (authResp cfg ERROR_ACCESS_DENIED)], true⟩
    else ⟨.tunnelAuthorize, [.resp (authResp cfg ERROR_SUCCESS)], false⟩
  | .channelCreate host =>
    if ph ≠ .tunnelAuthorize then ⟨ph, [.resp (.channel E_PROXY_INTERNALERROR)], true⟩
    else if cfg.hasHostCheck && !env.hostOk host then
      ⟨ph, [.resp (.channel E_PROXY_RAP_ACCESSDENIED)], true⟩
    else if !env.dialOk host then
      ⟨ph, [.dial host false, .resp (.channel E_PROXY_INTERNALERROR)], true⟩
    else ⟨.channelCreate, [.dial host true, .resp (.channel ERROR_SUCCESS), .relayStart], false⟩
  | .data payload =>
    if ph.toNat < Phase.channelCreate.toNat then ⟨ph, [], true⟩
    else ⟨.opened, [.up payload], false⟩
  | .keepalive =>
    if ph.toNat < Phase.channelCreate.toNat then ⟨ph, [], true⟩ else ⟨ph, [], false⟩
  | .closeChannel =>
    if ph ≠ .opened then ⟨ph, [], true⟩
    else ⟨.closed, [.resp (.closeChannel ERROR_SUCCESS)], true⟩
  | .unknown _ => ⟨ph, [], false⟩

/-- the packet loop: processes requests until one stops it; returns what was processed, with the
    events of each request and whether it ended the loop -/
def run (cfg : Cfg) (env : Env) : Phase → List Req → List (Req × List Ev × Bool)
  | _, [] => []
  | ph, r :: rs =>
    let o := step cfg env ph r
    (r, o.evs, o.stop) :: (if o.stop then [] else run cfg env o.phase rs)

/-- the phase after a run (the loop variable `p.state`) -/
def finalPhase (cfg : Cfg) (env : Env) : Phase → List Req → Phase
  | ph, [] => ph
  | ph, r :: rs =>
    let o := step cfg env ph r
    if o.stop then o.phase else finalPhase cfg env o.phase rs

/-- the run on raw packets -/
def runPkts (cfg : Cfg) (env : Env) (ps : List Pkt) : List (Req × List Ev × Bool) :=
  run cfg env .initialized (ps.map parseReq)

/-- everything the gateway does for a client byte stream delivered as `segs` -/
def runStream (cfg : Cfg) (env : Env) (segs : List Bytes) : List (Req × List Ev × Bool) × End :=
  let (ps, e) := readStream segs
  (runPkts cfg env ps, e)

end Rdpgw.Tunnel
