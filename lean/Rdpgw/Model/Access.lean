/-!
# Lock discipline over an extracted access table (C09)

Not the Go memory model: the **lock discipline**.  The extractor emits one row per access to shared
state (role, resource, scope, read/write, mutexes held, before the relay goroutine starts?).
Threads are `(tunnel, role)` for an unbounded number of tunnels; a thread enters an access of its
role only if every lock *instance* it needs is free.  `tableOK` is the decidable check; the
soundness theorem (Props/C09) says that if it passes, no reachable configuration of any number of
tunnels has two threads inside conflicting accesses to the same instance.
-/

namespace Rdpgw.Access

inductive Scope where
  | global      -- one instance for the whole process
  | perTunnel   -- one instance per tunnel
deriving Repr, DecidableEq

structure Lock where
  id : Nat
  scope : Scope
deriving Repr, DecidableEq

structure Access where
  role : Nat            -- 0 = handler goroutine, 1 = relay goroutine
  res : Nat             -- resource id
  rscope : Scope
  write : Bool
  locks : List Lock
  pre : Bool            -- a handler access that happens before the tunnel's relay goroutine exists
deriving Repr, DecidableEq

/-- a goroutine: one handler and one relay per tunnel, any number of tunnels -/
structure Thread where
  tunnel : Nat
  role : Nat
deriving Repr, DecidableEq

def inst (s : Scope) (t : Thread) : Option Nat :=
  match s with
  | .global => none
  | .perTunnel => some t.tunnel

def lockInsts (t : Thread) (a : Access) : List (Nat × Option Nat) :=
  a.locks.map (fun l => (l.id, inst l.scope t))

def resInst (t : Thread) (a : Access) : Nat × Option Nat := (a.res, inst a.rscope t)

/-- configuration: who is currently inside which access -/
abbrev Cfg := List (Thread × Access)

def disjoint (xs ys : List (Nat × Option Nat)) : Prop := ∀ x, ¬ (x ∈ xs ∧ x ∈ ys)

/-- A thread may enter an access of its role if it is not already inside one, every lock instance it
    needs is free, and — the happens-before assumption for `pre` rows — a `pre` access never
    overlaps with an access of the other role of the *same* tunnel (the relay goroutine of a tunnel
    is started by its handler after those accesses). -/
inductive Step (tbl : List Access) : Cfg → Cfg → Prop where
  | enter (c : Cfg) (t : Thread) (a : Access) :
      a ∈ tbl → a.role = t.role →
      (∀ p ∈ c, p.1 ≠ t) →
      (∀ p ∈ c, disjoint (lockInsts t a) (lockInsts p.1 p.2)) →
      (∀ p ∈ c, p.1.tunnel = t.tunnel → p.1.role ≠ t.role → a.pre = false ∧ p.2.pre = false) →
      Step tbl c ((t, a) :: c)
  | leave (c : Cfg) (p : Thread × Access) : p ∈ c → Step tbl c (c.erase p)

inductive Reach (tbl : List Access) : Cfg → Prop where
  | init : Reach tbl []
  | step (c c' : Cfg) : Reach tbl c → Step tbl c c' → Reach tbl c'

def conflict (a b : Access) : Bool := a.res == b.res && a.rscope == b.rscope && (a.write || b.write)

/-- can two rows be executed by two *different* threads on the *same* resource instance? -/
def mayConcur (a b : Access) : Bool :=
  match a.rscope with
  | .global => true                                        -- any two threads
  | .perTunnel => a.role != b.role && !a.pre && !b.pre     -- same tunnel ⇒ handler and relay, both after the spawn

/-- a common lock whose instance is shared by any two threads that share the resource instance -/
def protectedBy (a b : Access) : Bool :=
  a.locks.any (fun l => b.locks.contains l && (l.scope == .global || a.rscope == .perTunnel))

def tableOK (tbl : List Access) : Bool :=
  tbl.all (fun a => tbl.all (fun b => !(conflict a b && mayConcur a b) || protectedBy a b))

/-- the pairs of rows that fail the check (for replay files) -/
def offenders (tbl : List Access) : List (Access × Access) :=
  tbl.flatMap (fun a => (tbl.filter (fun b => conflict a b && mayConcur a b && !protectedBy a b)).map (fun b => (a, b)))

/-- two distinct threads inside accesses that touch the same instance, one of them writing -/
def Race (c : Cfg) : Prop :=
  ∃ p q, p ∈ c ∧ q ∈ c ∧ p.1 ≠ q.1 ∧ resInst p.1 p.2 = resInst q.1 q.2 ∧ (p.2.write ∨ q.2.write)

end Rdpgw.Access
