import Rdpgw.Bytes

/-!
# The access cookie (PAA token) check and mint (C02)

A cookie string is dissected — by an *independent* decoder in the harness, never by go-jose — into
`Facts`; `check` mirrors `security.CheckPAACookie` check by check, in order.  Cryptography enters
only through `macOk` ("the HMAC-SHA256 tag verifies under the configured key over the canonical
re-encoding of header and payload") and `idp` (what the identity provider answers for the embedded
access token).  Times are Unix seconds.
-/

namespace Rdpgw.Cookie

open Rdpgw

inductive Idp where
  | ok (subject : Bytes)   -- userinfo endpoint honours the access token
  | refused                -- unknown / revoked token, IdP error, IdP unreachable
deriving Repr, DecidableEq

structure Facts where
  empty : Bool                 -- the empty string
  compact3 : Bool              -- exactly three dot-separated segments (compact JWS)
  segsDecode : Bool            -- every segment is base64url; header and payload are JSON objects
  algHS256 : Bool              -- the (only) header names HS256
  macOk : Bool                 -- HMAC-SHA256 tag verifies under the configured signing key
  iss : Bytes
  exp : Option Nat
  nbf : Option Nat
  iat : Option Nat
  host : Bytes                 -- claim remoteServer
  ip : Bytes                   -- claim clientIp
  idp : Idp                    -- what the IdP says about claim accessToken
deriving Repr, DecidableEq

/-- go-jose's default leeway in `Claims.Validate` -/
def leeway : Nat := 60

def issuer : Bytes := [114, 100, 112, 103, 119]   -- "rdpgw"

/-- what an accepted cookie writes into the tunnel record -/
structure Session where
  host : Bytes
  ip : Bytes
  user : Bytes
deriving Repr, DecidableEq

/-- `jwt.Claims.Validate(Expected{Issuer, Time: now})` with default leeway -/
def timeOk (f : Facts) (now : Nat) : Bool :=
  (match f.nbf with | some n => decide (now + leeway ≥ n) | none => true) &&
  (match f.exp with | some e => decide (now ≤ e + leeway) | none => true) &&
  (match f.iat with | some i => decide (now + leeway ≥ i) | none => true)

/-- `CheckPAACookie`: `none` = refused -/
def check (f : Facts) (now : Nat) : Option Session :=
  if f.empty then none
  else if !(f.compact3 && f.segsDecode && f.algHS256) then none    -- ParseSigned with the HS256 allow-list
  else if !f.macOk then none                                        -- token.Claims(SigningKey, …)
  else if f.iss ≠ issuer then none                                  -- Validate: issuer
  else if !timeOk f now then none                                   -- Validate: nbf / exp / iat
  else match f.idp with                                             -- OIDCProvider.UserInfo
    | .refused => none
    | .ok sub => some ⟨f.host, f.ip, sub⟩

/-- lifetime of a minted token (`time.Minute * 5`) in seconds -/
def lifetime : Nat := 300

/-- `GeneratePAAToken` at time `now`: the facts of the token it returns (signed by the gateway) -/
def mint (now : Nat) (host ip : Bytes) (idp : Idp) : Facts :=
  { empty := false, compact3 := true, segsDecode := true, algHS256 := true, macOk := true,
    iss := issuer, exp := some (now + lifetime), nbf := none, iat := none,
    host := host, ip := ip, idp := idp }

end Rdpgw.Cookie
