import Rdpgw.Bytes
import Rdpgw.Generated.Limits

/-!
# The KDC proxy (C20)

* a DER codec for `KDC-PROXY-MESSAGE` ([MS-KKDCP] 2.2.2, explicit tags): `encode`, `decode`
* `handler`: the status mapping of `KerberosProxy.Handler`
* `forward`: which KDC endpoints are contacted with what, and the reply collection loop with the
  reply channel modelled as a list of arrivals (receiving with nothing left to arrive = hang)
-/

namespace Rdpgw.Kdc

open Rdpgw

/-! ### DER -/

def u8 (n : Nat) : UInt8 := UInt8.ofNat n

/-- definite length, minimal form, for n < 2^24 -/
def derLen (n : Nat) : Bytes :=
  if n < 128 then [u8 n]
  else if n < 256 then [0x81, u8 n]
  else if n < 65536 then [0x82, u8 (n / 256), u8 (n % 256)]
  else [0x83, u8 (n / 65536), u8 (n / 256 % 256), u8 (n % 256)]

def tlv (tag : UInt8) (c : Bytes) : Bytes := tag :: (derLen c.length ++ c)

/-- parse a minimal definite length -/
def parseLen : Bytes → Option (Nat × Bytes)
  | [] => none
  | b :: t =>
    if b < 128 then some (b.toNat, t)
    else if b = 0x81 then
      match t with
      | x :: t' => if x.toNat ≥ 128 then some (x.toNat, t') else none
      | _ => none
    else if b = 0x82 then
      match t with
      | x :: y :: t' => if x.toNat ≠ 0 then some (x.toNat * 256 + y.toNat, t') else none
      | _ => none
    else if b = 0x83 then
      match t with
      | x :: y :: z :: t' => if x.toNat ≠ 0 then some (x.toNat * 65536 + y.toNat * 256 + z.toNat, t') else none
      | _ => none
    else none

/-- one element with the expected tag: its content and what follows -/
def parseTLV (tag : UInt8) : Bytes → Option (Bytes × Bytes)
  | [] => none
  | b :: t =>
    if b ≠ tag then none
    else match parseLen t with
      | none => none
      | some (n, r) => if r.length < n then none else some (r.take n, r.drop n)

structure Msg where
  message : Bytes
  realm : Bytes            -- empty = absent
  flags : Option Bytes     -- dclocator-hint: the content octets of its INTEGER (`intOk`) when present
deriving Repr, DecidableEq

def realmPart (realm : Bytes) : Bytes := if realm = [] then [] else tlv 0xA1 (tlv 0x1B realm)

/-- content octets of a DER INTEGER that fits Go's `int`: 1 … 8 octets, minimally encoded (the
    first nine bits are neither all zero nor all one) -/
def intOk (c : Bytes) : Bool :=
  match c with
  | [] => false
  | [_] => true
  | a :: b :: _ => decide (c.length ≤ 8) && !(a == 0x00 && decide (b < 128)) && !(a == 0xFF && decide (b ≥ 128))

def flagsPart : Option Bytes → Bytes
  | some f => tlv 0xA2 (tlv 0x02 f)
  | none => []

def encode (m : Msg) : Bytes :=
  tlv 0x30 (tlv 0xA0 (tlv 0x04 m.message) ++ (realmPart m.realm ++ flagsPart m.flags))

/-- an element that must fill its container exactly -/
def whole (tag : UInt8) (b : Bytes) : Option Bytes :=
  match parseTLV tag b with
  | some (c, []) => some c
  | _ => none

def decodeInner (b : Bytes) : Option Msg :=
  match parseTLV 0xA0 b with
  | none => none
  | some (m0, r) =>
    match whole 0x04 m0 with
    | none => none
    | some msg =>
      -- optional [1]
      let (realm?, r1) : Option Bytes × Bytes :=
        match parseTLV 0xA1 r with
        | some (c, r') => (whole 0x1B c, r')
        | none => (some [], r)
      match realm? with
      | none => none
      | some realm =>
        if r1 = [] then some ⟨msg, realm, none⟩
        else match parseTLV 0xA2 r1 with
          | some (c, []) =>
            match whole 0x02 c with
            | some f => if intOk f then some ⟨msg, realm, some f⟩ else none
            | none => none
          | _ => none

/-- `decode`: the outer SEQUENCE must be the whole input (trailing data is an error) -/
def decode (b : Bytes) : Option Msg :=
  match whole 0x30 b with
  | none => none
  | some c => decodeInner c

/-! The ASN.1 library in use (gofork/encoding/asn1, like Go's own) does not check the length of an
EXPLICIT wrapper against its content: it parses the inner element and goes on after it.
`decodeLax` models that reading; it accepts everything `decode` accepts, and in addition inputs whose
`[0]`/`[1]`/`[2]` wrapper lengths are wrong (known finding F1 of C20). -/

/-- an explicit wrapper whose own length field is parsed but not checked -/
def laxWrapped (tag inner : UInt8) (b : Bytes) : Option (Bytes × Bytes) :=
  match b with
  | [] => none
  | t :: r =>
    if t ≠ tag then none
    else match parseLen r with
      | none => none
      | some (_, r') => parseTLV inner r'

def decodeInnerLax (b : Bytes) : Option Msg :=
  match laxWrapped 0xA0 0x04 b with
  | none => none
  | some (msg, r) =>
    let (realm?, r1) : Option Bytes × Bytes :=
      match r with
      | 0xA1 :: _ =>
        match laxWrapped 0xA1 0x1B r with
        | some (c, r') => (some c, r')
        | none => (none, r)
      | _ => (some [], r)
    match realm? with
    | none => none
    | some realm =>
      if r1 = [] then some ⟨msg, realm, none⟩
      else match laxWrapped 0xA2 0x02 r1 with
        | some (f, []) => if intOk f then some ⟨msg, realm, some f⟩ else none
        | _ => none

def decodeLax (b : Bytes) : Option Msg :=
  match whole 0x30 b with
  | none => none
  | some c => decodeInnerLax c

/-- the body of a 200 answer: the KDC's reply wrapped as a KDC-PROXY-MESSAGE -/
def replyBody (r : Bytes) : Bytes := encode ⟨r, [], none⟩

/-! ### the handler -/

def maxLength : Nat := Rdpgw.Generated.Kdcproxy.maxLength

inductive Body where
  | noLength                       -- no Content-Length (chunked / unknown)
  | short (declared : Nat)         -- fewer bytes than declared arrive
  | full (b : Bytes)
deriving Repr, DecidableEq

/-- what one KDC endpoint does when contacted over one protocol -/
inductive Behaviour where
  | reply (body : Bytes)   -- answers completely (TCP: 4-byte length prefix + body; UDP: one datagram)
  | partialReply           -- TCP: announces more than it sends
  | close                  -- accepts and closes
  | silent                 -- accepts and never answers (deadline)
  | refuse                 -- connection refused
deriving Repr, DecidableEq

structure Endpoint where
  udp : Behaviour
  tcp : Behaviour
deriving Repr, DecidableEq

/-- a lookup that was started (dial and write succeeded) and what it puts on the reply channel -/
structure Lookup where
  kdc : Nat
  isUdp : Bool
  sent : Bytes
  result : Option Bytes    -- `none` = the nil of a failed lookup
deriving Repr, DecidableEq

def lookupOf (data : Bytes) (i : Nat) (isUdp : Bool) (b : Behaviour) : Option Lookup :=
  if isUdp ∧ data.length < 4 then none          -- nothing to strip the prefix from: skipped
  else
    let sent := if isUdp then data.drop 4 else data
    match b with
    | .refuse => none
    | .reply body => some ⟨i, isUdp, sent, some (be32 body.length ++ body)⟩
    | _ => some ⟨i, isUdp, sent, none⟩

def enumFrom (i : Nat) : List Endpoint → List (Nat × Endpoint)
  | [] => []
  | e :: t => (i, e) :: enumFrom (i + 1) t

/-- the lookups `forward` starts: every KDC of the realm over UDP, then every one over TCP -/
def started (data : Bytes) (eps : List Endpoint) : List Lookup :=
  ((enumFrom 0 eps).filterMap (fun p => lookupOf data p.1 true p.2.udp)) ++
  ((enumFrom 0 eps).filterMap (fun p => lookupOf data p.1 false p.2.tcp))

/-- the collection loop: `pending` lookups were started, `arrivals` is what reaches the channel in
    arrival order; receiving when nothing will arrive any more is a hang -/
inductive Collected where
  | reply (r : Bytes)
  | noReply
  | hang
deriving Repr, DecidableEq

def collect : Nat → List (Option Bytes) → Collected
  | 0, _ => .noReply
  | _ + 1, [] => .hang
  | n + 1, a :: t =>
    match a with
    | some r => .reply r
    | none => collect n t

/-- the pinned loop (D12/D13/D17): take the first value whatever it is, then receive once per
    configured KDC -/
def collectLegacy (configured : Nat) (arrivals : List (Option Bytes)) : Collected :=
  match arrivals with
  | [] => .hang
  | first :: rest =>
    if rest.length < configured then .hang
    else match first with
      | some r => .reply r
      | none => .noReply

inductive Realm where
  | known (eps : List Endpoint)
  | unknown
deriving Repr, DecidableEq

structure Answer where
  status : Nat
  body : Bytes
deriving Repr, DecidableEq

/-- `Handler`, for a given arrival order `perm` of the started lookups' results -/
def handler (isPost : Bool) (body : Body) (realmOf : Bytes → Realm)
    (arrival : List Lookup → List Lookup) : Answer × List Lookup :=
  if !isPost then (⟨405, []⟩, [])
  else match body with
    | .noLength => (⟨411, []⟩, [])
    | .short n => if n > maxLength then (⟨413, []⟩, []) else (⟨500, []⟩, [])
    | .full b =>
      if b.length > maxLength then (⟨413, []⟩, [])
      else match decode b with
        | none => (⟨400, []⟩, [])
        | some m =>
          match realmOf m.realm with
          | .unknown => (⟨503, []⟩, [])
          | .known eps =>
            if eps = [] then (⟨503, []⟩, [])
            else
              let ls := started m.message eps
              match collect ls.length ((arrival ls).map (·.result)) with
              | .reply r => (⟨200, replyBody r⟩, ls)
              | .noReply => (⟨503, []⟩, ls)
              | .hang => (⟨0, []⟩, ls)            -- status 0: the handler never answers

end Rdpgw.Kdc
