import Rdpgw.Bytes

/-!
# `protocol.DecodeUTF16` (C03, C10)

Each 16-bit little-endian unit is decoded on its own (`utf16.Decode` of a one-element slice), so
a surrogate — paired or not — becomes U+FFFD; the rune is UTF-8 encoded; exactly one trailing NUL
byte is stripped; odd length is an error (callers ignore the error and use the empty string).
-/

namespace Rdpgw.Utf16

open Rdpgw

/-- `utf8.EncodeRune` for runes below 0x10000 (all that a single UTF-16 unit can give) -/
def utf8enc (r : Nat) : Bytes :=
  if r < 0x80 then [UInt8.ofNat r]
  else if r < 0x800 then [UInt8.ofNat (0xC0 + r / 64), UInt8.ofNat (0x80 + r % 64)]
  else [UInt8.ofNat (0xE0 + r / 4096), UInt8.ofNat (0x80 + r / 64 % 64), UInt8.ofNat (0x80 + r % 64)]

/-- `utf16.Decode([]uint16{u})[0]` -/
def unitRune (u : Nat) : Nat := if 0xD800 ≤ u ∧ u < 0xE000 then 0xFFFD else u

def decodeUnits : Bytes → Bytes
  | b0 :: b1 :: t => utf8enc (unitRune (b0.toNat + 256 * b1.toNat)) ++ decodeUnits t
  | _ => []

def stripNul (r : Bytes) : Bytes := if r.getLast? = some 0 then r.dropLast else r

/-- `DecodeUTF16`: `none` is the error return -/
def decode (b : Bytes) : Option Bytes :=
  if b.length % 2 ≠ 0 then none else some (stripNul (decodeUnits b))

/-- what every caller in `process.go` does: `s, _ := DecodeUTF16(b)` -/
def decodeOrEmpty (b : Bytes) : Bytes :=
  match decode b with
  | some s => s
  | none => []

/-- `EncodeUTF16` restricted to ASCII input (all the harness needs to build requests) -/
def encodeAscii (s : Bytes) : Bytes := (s.map (fun c => [c, 0])).flatten

end Rdpgw.Utf16
