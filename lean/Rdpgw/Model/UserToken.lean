import Rdpgw.Bytes
import Rdpgw.Model.Cookie

/-!
# User tokens and the token-info endpoint (C15)

`security.UserInfo` on facts dissected independently from the token string, and the status
mapping of `web.TokenInfo`.  Cryptography enters through `decOk` (AES-128-CBC + HMAC-SHA-256 tag
verifies under the configured encryption key and the plaintext inflates) and `sigOk` (the inner
HS256 tag verifies under the configured signing key).
-/

namespace Rdpgw.UserToken

open Rdpgw

/-- what is inside the decrypted token -/
inductive Inner where
  | claims                       -- a JSON claims object (encrypt-only tokens)
  | jws (hs256 : Bool) (sigOk : Bool)   -- a compact JWS (sign-and-encrypt tokens)
  | other                        -- neither
deriving Repr, DecidableEq

structure Facts where
  jwe5 : Bool          -- five segments, protected header decodes, alg = dir, enc = A128CBC-HS256
  decOk : Bool         -- authenticates and decrypts under the configured encryption key
  ctyJWT : Bool        -- header cty is "JWT" (case-insensitive)
  inner : Inner
  iss : Bytes
  exp : Option Nat
  nbf : Option Nat
  iat : Option Nat
  sub : Bytes
deriving Repr, DecidableEq

def timeOk (f : Facts) (now : Nat) : Bool :=
  (match f.nbf with | some n => decide (now + 60 ≥ n) | none => true) &&
  (match f.exp with | some e => decide (now ≤ e + 60) | none => true) &&
  (match f.iat with | some i => decide (now + 60 ≥ i) | none => true)

/-- does the decrypted content fit the mode: a verified HS256 JWS in sign-and-encrypt mode, a
    claims object in encrypt-only mode -/
def innerOk (signMode : Bool) (i : Inner) : Bool :=
  match signMode, i with
  | true, .jws hs sig => hs && sig
  | false, .claims => true
  | _, _ => false

/-- `UserInfo` with both keys configured (`signMode`) or with the encryption key only:
    the subject on success, `none` = error -/
def verify (signMode : Bool) (f : Facts) (now : Nat) : Option Bytes :=
  if !f.jwe5 then none
  else if signMode && !f.ctyJWT then none            -- ParseSignedAndEncrypted insists on cty JWT
  else if !f.decOk then none
  else if !innerOk signMode f.inner then none
  else if f.iss ≠ Cookie.issuer then none
  else if !timeOk f now then none
  else some f.sub

/-- lifetime of a minted user token (`time.Minute * 5`) in seconds -/
def lifetime : Nat := 300

/-- facts of a token minted by `GenerateUserToken` at `now` for user `u` in the given mode -/
def mint (signMode : Bool) (now : Nat) (u : Bytes) : Facts :=
  { jwe5 := true, decOk := true, ctyJWT := true,
    inner := if signMode then .jws true true else .claims,
    iss := Cookie.issuer, exp := some (now + lifetime), nbf := none, iat := none, sub := u }

/-- `web.TokenInfo`: status code and whether claims are disclosed -/
def tokenInfo (isGet : Bool) (param : Option Bytes) (result : Bytes → Option Bytes) : Nat × Option Bytes :=
  if !isGet then (405, none)
  else match param with
    | none => (400, none)
    | some t =>
      if t.isEmpty then (400, none)
      else match result t with
        | none => (403, none)
        | some sub => (200, some sub)

end Rdpgw.UserToken
