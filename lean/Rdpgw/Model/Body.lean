import Rdpgw.Model.Utf16

/-!
# Request body parsers of `process.go` (C01, C03, C10, C17)

`bytes.Reader` + `binary.Read` semantics as the Go code uses them (errors ignored):

* a fixed-size read with fewer bytes left than needed consumes what is left and leaves the
  variable **zero**;
* `binary.Read` into a `[]byte` of length `n` is all-or-nothing: `n` bytes if available, else the
  reader is drained and the slice stays all zeros;
* `Reader.Read(b)` fills `b` partially;
* `Seek(2, io.SeekCurrent)` may move past the end; later reads then see nothing.

A reader is modelled by its remaining bytes.  No function here is partial: every slice the Go
code takes is guarded by these semantics, which is why none of them can panic.
-/

namespace Rdpgw.Body

open Rdpgw

/-- fixed-size `binary.Read` of `n ≥ 1` bytes: the bytes (or `none` = variable stays zero) -/
def fixed (n : Nat) (r : Bytes) : Option Bytes × Bytes :=
  if n ≤ r.length then (some (r.take n), r.drop n) else (none, [])

def u8 (r : Bytes) : Nat × Bytes :=
  match fixed 1 r with
  | (some [b], r') => (b.toNat, r')
  | (_, r') => (0, r')

def u16 (r : Bytes) : Nat × Bytes :=
  match fixed 2 r with
  | (some b, r') => (rd16 b, r')
  | (none, r') => (0, r')

def u32 (r : Bytes) : Nat × Bytes :=
  match fixed 4 r with
  | (some b, r') => (rd32 b, r')
  | (none, r') => (0, r')

/-- `binary.Read(r, LE, &buf)` with `buf := make([]byte, n)`: all or nothing -/
def blobAllOrNothing (n : Nat) (r : Bytes) : Bytes × Bytes :=
  if n ≤ r.length then (r.take n, r.drop n) else (zeros n, [])

/-- `r.Read(buf)` with `buf := make([]byte, n)`: partial fill, rest stays zero -/
def blobPartial (n : Nat) (r : Bytes) : Bytes × Bytes :=
  (r.take n ++ zeros (n - (r.take n).length), r.drop n)

/-- `Seek(k, io.SeekCurrent)` -/
def skip (k : Nat) (r : Bytes) : Bytes := r.drop k

structure Handshake where
  major : Nat
  minor : Nat
  version : Nat
  extAuth : Nat
deriving Repr, DecidableEq

def handshakeRequest (data : Bytes) : Handshake :=
  let (major, r) := u8 data
  let (minor, r) := u8 r
  let (version, r) := u16 r
  let (extAuth, _) := u16 r
  ⟨major, minor, version, extAuth⟩

/-- `tunnelRequest`: (caps, cookie) -/
def tunnelRequest (paaField : Nat) (data : Bytes) : Nat × Bytes :=
  let (caps, r) := u32 data
  let (fields, r) := u16 r
  let r := skip 2 r
  if fields = paaField then
    let (size, r) := u16 r
    let (cookieB, _) := blobPartial size r
    (caps, Utf16.decodeOrEmpty cookieB)
  else (caps, [])

def tunnelAuthRequest (data : Bytes) : Bytes :=
  let (size, r) := u16 data
  let (clData, _) := blobAllOrNothing size r
  Utf16.decodeOrEmpty clData

/-- `channelRequest`: (server, port) -/
def channelRequest (data : Bytes) : Bytes × Nat :=
  let (_resourcesSize, r) := u8 data
  let (_alternative, r) := u8 r
  let (port, r) := u16 r
  let (_protocol, r) := u16 r
  let (nameSize, r) := u16 r
  let (nameData, _) := blobAllOrNothing nameSize r
  (Utf16.decodeOrEmpty nameData, port)

/-- `strconv.Itoa` for a non-negative number -/
def itoa (n : Nat) : Bytes := str (toString n)

/-- `net.JoinHostPort`: brackets iff the host contains a colon -/
def joinHostPort (host port : Bytes) : Bytes :=
  if host.contains 58 then [91] ++ host ++ [93, 58] ++ port else host ++ [58] ++ port

/-- the address string `Process` hands to the policy callback and then to the dialer -/
def channelHost (data : Bytes) : Bytes :=
  let (server, port) := channelRequest data
  joinHostPort server (itoa port)

/-- `receive` (after the D3 repair): the bytes written to the remote desktop host -/
def receive (data : Bytes) : Bytes :=
  let (cblen, r) := u16 data
  let n := if cblen > r.length then r.length else cblen
  (blobAllOrNothing n r).1

end Rdpgw.Body
