import Rdpgw.Model.Frame

/-!
# Response builders of `process.go` (C16)

Byte for byte what `handshakeResponse`, `tunnelResponse`, `tunnelAuthResponse`,
`channelResponse`, `channelCloseResponse`, `makeRedirectFlags` and `forward` produce.
All numeric constants come from `Generated.Consts` (regenerated from the Go source).
-/

namespace Rdpgw.Resp

open Rdpgw Rdpgw.Frame
open Rdpgw.Generated.Protocol

structure Redirect where
  clipboard : Bool
  port : Bool
  drive : Bool
  printer : Bool
  pnp : Bool
  disableAll : Bool
  enableAll : Bool
deriving Repr, DecidableEq

/-- `makeRedirectFlags` -/
def makeRedirectFlags (f : Redirect) : Nat :=
  if f.disableAll then HTTP_TUNNEL_REDIR_DISABLE_ALL
  else if f.enableAll then HTTP_TUNNEL_REDIR_ENABLE_ALL
  else
    (if !f.port then HTTP_TUNNEL_REDIR_DISABLE_PORT else 0) |||
    (if !f.clipboard then HTTP_TUNNEL_REDIR_DISABLE_CLIPBOARD else 0) |||
    (if !f.drive then HTTP_TUNNEL_REDIR_DISABLE_DRIVE else 0) |||
    (if !f.pnp then HTTP_TUNNEL_REDIR_DISABLE_PNP else 0) |||
    (if !f.printer then HTTP_TUNNEL_REDIR_DISABLE_PRINTER else 0)

/-- the idle timeout as reported: negative → 0, then `uint32(...)` of a Go `int` -/
def idleField (idle : Int) : Nat := if idle < 0 then 0 else idle.toNat % 4294967296

/-- a response, abstractly -/
inductive Resp where
  | handshake (status : Nat) (major minor : Nat) (caps : Nat)
  | tunnel (status : Nat)
  | tunnelAuth (status : Nat) (redir idle : Nat)
  | channel (status : Nat)
  | closeChannel (status : Nat)
deriving Repr, DecidableEq

def Resp.status : Resp → Nat
  | .handshake s _ _ _ => s | .tunnel s => s | .tunnelAuth s _ _ => s | .channel s => s
  | .closeChannel s => s

/-- response kinds -/
inductive RT where
  | handshake | tunnel | tunnelAuth | channel | closeChannel
deriving Repr, DecidableEq

def Resp.rt : Resp → RT
  | .handshake .. => .handshake | .tunnel .. => .tunnel | .tunnelAuth .. => .tunnelAuth
  | .channel .. => .channel | .closeChannel .. => .closeChannel

def Resp.body : Resp → Bytes
  | .handshake st major minor caps =>
      le32 st ++ [UInt8.ofNat major, UInt8.ofNat minor] ++ le16 0 ++ le16 caps
  | .tunnel st =>
      le16 0 ++ le32 st ++
      le16 (HTTP_TUNNEL_RESPONSE_FIELD_TUNNEL_ID ||| HTTP_TUNNEL_RESPONSE_FIELD_CAPS) ++ le16 0 ++
      le32 tunnelId ++ le32 HTTP_CAPABILITY_IDLE_TIMEOUT
  | .tunnelAuth st redir idle =>
      le32 st ++
      le16 (HTTP_TUNNEL_AUTH_RESPONSE_FIELD_REDIR_FLAGS ||| HTTP_TUNNEL_AUTH_RESPONSE_FIELD_IDLE_TIMEOUT) ++
      le16 0 ++ le32 redir ++ le32 idle
  | .channel st => le32 st ++ le16 HTTP_CHANNEL_RESPONSE_FIELD_CHANNELID ++ le16 0 ++ le32 1
  | .closeChannel st => le32 st ++ le16 HTTP_CHANNEL_RESPONSE_FIELD_CHANNELID ++ le16 0 ++ le32 1

def Resp.pktType : Resp → Nat
  | .handshake .. => PKT_TYPE_HANDSHAKE_RESPONSE
  | .tunnel .. => PKT_TYPE_TUNNEL_RESPONSE
  | .tunnelAuth .. => PKT_TYPE_TUNNEL_AUTH_RESPONSE
  | .channel .. => PKT_TYPE_CHANNEL_RESPONSE
  | .closeChannel .. => PKT_TYPE_CLOSE_CHANNEL_RESPONSE

/-- the packet as written to the client -/
def Resp.wire (r : Resp) : Bytes := enc ⟨r.pktType, r.body⟩

/-- one iteration of `forward`: a backend read of `chunk` becomes one DATA packet -/
def dataPacket (chunk : Bytes) : Bytes := enc ⟨PKT_TYPE_DATA, le16 chunk.length ++ chunk⟩

end Rdpgw.Resp
