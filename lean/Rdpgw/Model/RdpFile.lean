import Rdpgw.Bytes
import Rdpgw.Generated.RdpSettings

/-!
# RDP connection files (C19, C12)

* `unmarshal` — the parser of `rdp/koanf/parsers/rdp`: `bufio.ScanLines` line splitting,
  `strings.TrimSpace` (Unicode white space, on UTF-8 bytes), `#`/blank skipping,
  `strings.SplitN(line, ":", 3)`, types `i` (`strconv.Atoi`), `s`, `b`; later keys win.
* `marshal` — its marshaller, on the canonical (key-sorted) form of the Go map.
* `Builder` — `rdp.Builder.String()` over the settings table regenerated from the Go struct.
-/

namespace Rdpgw.RdpFile

open Rdpgw

def CR : UInt8 := 13
def LF : UInt8 := 10
def COLON : UInt8 := 58
def HASH : UInt8 := 35

def isSp1 (a : UInt8) : Bool := a == 9 || a == 10 || a == 11 || a == 12 || a == 13 || a == 32

def isSpE280 (x : UInt8) : Bool := (0x80 ≤ x && x ≤ 0x8A) || x == 0xA8 || x == 0xA9 || x == 0xAF

/-- width of a white-space rune that starts with byte `a` followed by `b`, `c` (0 if none):
    the `unicode.IsSpace` set, UTF-8 encoded -/
def spFwd (a : UInt8) (b c : Option UInt8) : Nat :=
  if isSp1 a then 1
  else if a == 0xC2 && (b == some 0x85 || b == some 0xA0) then 2
  else if a == 0xE1 && b == some 0x9A && c == some 0x80 then 3
  else if a == 0xE2 && b == some 0x80 && (match c with | some x => isSpE280 x | none => false) then 3
  else if a == 0xE2 && b == some 0x81 && c == some 0x9F then 3
  else if a == 0xE3 && b == some 0x80 && c == some 0x80 then 3
  else 0

/-- width of a white-space rune that *ends* with byte `a`, preceded by `b`, then `c` -/
def spBwd (a : UInt8) (b c : Option UInt8) : Nat :=
  if isSp1 a then 1
  else if b == some 0xC2 && (a == 0x85 || a == 0xA0) then 2
  else if c == some 0xE1 && b == some 0x9A && a == 0x80 then 3
  else if c == some 0xE2 && b == some 0x80 && isSpE280 a then 3
  else if c == some 0xE2 && b == some 0x81 && a == 0x9F then 3
  else if c == some 0xE3 && b == some 0x80 && a == 0x80 then 3
  else 0

/-- length in bytes of a white-space rune at the head of `s` (0 if there is none) -/
def spLen : Bytes → Nat
  | [] => 0
  | a :: t => spFwd a t[0]? t[1]?

/-- the same for a white-space rune at the *end*, on the reversed string -/
def spLenR : Bytes → Nat
  | [] => 0
  | a :: t => spBwd a t[0]? t[1]?

theorem spFwd_le (a : UInt8) (b c : Option UInt8) : spFwd a b c ≤ 3 := by
  unfold spFwd; (repeat' split) <;> omega

theorem spLen_le (s : Bytes) : spLen s ≤ s.length := by
  match s with
  | [] => simp [spLen]
  | [a] =>
    simp only [spLen, List.length_cons, List.length_nil]
    unfold spFwd; simp; split <;> simp
  | [a, b] =>
    simp only [spLen, List.length_cons, List.length_nil]
    unfold spFwd; simp; (repeat' split) <;> simp
  | a :: b :: c :: t =>
    have := spFwd_le a (b :: c :: t)[0]? (b :: c :: t)[1]?
    simp only [spLen, List.length_cons]; omega

theorem spBwd_le (a : UInt8) (b c : Option UInt8) : spBwd a b c ≤ 3 := by
  unfold spBwd; (repeat' split) <;> omega

theorem spLenR_le (s : Bytes) : spLenR s ≤ s.length := by
  match s with
  | [] => simp [spLenR]
  | [a] =>
    simp only [spLenR, List.length_cons, List.length_nil]
    unfold spBwd; simp; split <;> simp
  | [a, b] =>
    simp only [spLenR, List.length_cons, List.length_nil]
    unfold spBwd; simp; (repeat' split) <;> simp
  | a :: b :: c :: t =>
    have := spBwd_le a (b :: c :: t)[0]? (b :: c :: t)[1]?
    simp only [spLenR, List.length_cons]; omega

def trimL (s : Bytes) : Bytes :=
  if h : spLen s = 0 then s else
    have : (s.drop (spLen s)).length < s.length := by
      have := spLen_le s
      simp only [List.length_drop]; omega
    trimL (s.drop (spLen s))
termination_by s.length

def trimRrev (s : Bytes) : Bytes :=
  if h : spLenR s = 0 then s else
    have : (s.drop (spLenR s)).length < s.length := by
      have := spLenR_le s
      simp only [List.length_drop]; omega
    trimRrev (s.drop (spLenR s))
termination_by s.length

/-- `strings.TrimSpace` -/
def trim (s : Bytes) : Bytes := (trimRrev (trimL s).reverse).reverse

/-- split at the first occurrence of `c` -/
def splitFirst (c : UInt8) : Bytes → Option (Bytes × Bytes)
  | [] => none
  | b :: t => if b == c then some ([], t) else
      match splitFirst c t with
      | none => none
      | some (x, y) => some (b :: x, y)

/-- `strings.SplitN(line, ":", 3)` when it yields 3 fields -/
def splitN3 (s : Bytes) : Option (Bytes × Bytes × Bytes) :=
  match splitFirst COLON s with
  | none => none
  | some (a, r) =>
    match splitFirst COLON r with
    | none => none
    | some (b, c) => some (a, b, c)

/-- `bufio.ScanLines`: cut at LF, drop one trailing CR; a final unterminated line counts if non-empty -/
def dropCR (l : Bytes) : Bytes :=
  match l.getLast? with
  | some b => if b == CR then l.dropLast else l
  | none => l

def splitLinesAux : Bytes → Bytes → List Bytes
  | acc, [] => if acc.isEmpty then [] else [dropCR acc.reverse]
  | acc, b :: t => if b == LF then dropCR acc.reverse :: splitLinesAux [] t else splitLinesAux (b :: acc) t

def splitLines (s : Bytes) : List Bytes := splitLinesAux [] s

inductive Val where
  | int (i : Int)
  | str (s : Bytes)
deriving Repr, DecidableEq

def isDigit (b : UInt8) : Bool := 48 ≤ b && b ≤ 57

def digitsVal : Bytes → Nat → Nat
  | [], acc => acc
  | d :: t, acc => digitsVal t (acc * 10 + (d.toNat - 48))

def signSplit : Bytes → Bool × Bytes
  | 45 :: t => (true, t)
  | 43 :: t => (false, t)
  | s => (false, s)

def atoiMag (neg : Bool) (ds : Bytes) : Option Int :=
  if ds.isEmpty ∨ !ds.all isDigit then none
  else if neg then (if digitsVal ds 0 ≤ 9223372036854775808 then some (-(digitsVal ds 0 : Int)) else none)
  else (if digitsVal ds 0 ≤ 9223372036854775807 then some (digitsVal ds 0 : Int) else none)

/-- `strconv.Atoi` on a 64-bit platform: optional sign, at least one digit, int64 range -/
def atoi (s : Bytes) : Option Int := atoiMag (signSplit s).1 (signSplit s).2

def natDigits (n : Nat) : Bytes :=
  if n < 10 then [UInt8.ofNat (48 + n)] else natDigits (n / 10) ++ [UInt8.ofNat (48 + n % 10)]
decreasing_by omega

/-- `%d` -/
def itoa (i : Int) : Bytes :=
  match i with
  | .ofNat n => natDigits n
  | .negSucc n => 45 :: natDigits (n + 1)

def tI : Bytes := [105]   -- "i"
def tS : Bytes := [115]   -- "s"
def tB : Bytes := [98]    -- "b"

/-- one line: `none` = error (malformed), `some none` = skipped (blank or comment) -/
def parseLine (l : Bytes) : Option (Option (Bytes × Val)) :=
  let line := trim l
  if line.isEmpty then some none
  else if line.head? == some HASH then some none
  else match splitN3 line with
    | none => none
    | some (k, t, v) =>
      let key := trim k
      let ty := trim t
      let val := trim v
      if ty == tI then
        match atoi val with
        | some i => some (some (key, .int i))
        | none => none
      else if ty == tS ∨ ty == tB then some (some (key, .str val))
      else none

/-- map insertion on the association list (later key wins, position of the first occurrence kept) -/
def insert (m : List (Bytes × Val)) (k : Bytes) (v : Val) : List (Bytes × Val) :=
  match m with
  | [] => [(k, v)]
  | (k', v') :: t => if k' == k then (k', v) :: t else (k', v') :: insert t k v

def unmarshalLines (m : List (Bytes × Val)) : List Bytes → Option (List (Bytes × Val))
  | [] => some m
  | l :: ls =>
    match parseLine l with
    | none => none
    | some none => unmarshalLines m ls
    | some (some (k, v)) => unmarshalLines (insert m k v) ls

/-- `Unmarshal`: `none` = the error return (a malformed line is never skipped) -/
def unmarshal (s : Bytes) : Option (List (Bytes × Val)) := unmarshalLines [] (splitLines s)

def marshalLine (kv : Bytes × Val) : Bytes :=
  match kv with
  | (k, .str v) => k ++ [COLON, 115, COLON] ++ v ++ [CR, LF]
  | (k, .int i) => k ++ [COLON, 105, COLON] ++ itoa i ++ [CR, LF]

/-- `Marshal` on the key-sorted form of the map (bools are integers 0/1) -/
def marshal (m : List (Bytes × Val)) : Bytes := (m.map marshalLine).flatten

/-! ### The builder -/

open Rdpgw.Generated.RdpSettings in
/-- the value a field holds after `initStruct`: its `default` tag parsed by `setVariable` -/
def defaultVal (s : Setting) : Val :=
  match s.kind with
  | .string => .str s.defaultBytes
  | .int => .int (match atoi s.defaultBytes with | some i => i | none => 0)
  | .bool => .int (if s.defaultBytes = [116, 114, 117, 101] ∨ s.defaultBytes = [49] then 1 else 0)

/-- is the field "zero" in the sense of `isZero` (equal to its default / Go zero value) -/
def isDefault (s : Generated.RdpSettings.Setting) (v : Val) : Bool := v == defaultVal s

/-- `Builder.String()` with empty metadata: one line per field whose value differs from the default,
    in declaration order; `vals` gives the field values (bools as 0/1) -/
def build (tbl : List Generated.RdpSettings.Setting) (vals : Generated.RdpSettings.Setting → Val) : Bytes :=
  (tbl.filterMap (fun s =>
    let v := vals s
    if isDefault s v then none else some (marshalLine (s.tagBytes, v)))).flatten

end Rdpgw.RdpFile

namespace Rdpgw.RdpFile

open Rdpgw.Generated.RdpSettings

def lookup (m : List (Bytes × Val)) (k : Bytes) : Option Val :=
  match m.find? (fun e => e.1 == k) with
  | some e => some e.2
  | none => none

/-- weakly typed conversion of a template value to the field's kind (`mapstructure` with
    `WeaklyTypedInput`), for the value shapes the correspondence generates: integers for int and bool
    fields, strings or integers for string fields, decimal strings for int fields. `none` = decode error -/
def convert (kind : Kind) (v : Val) : Option Val :=
  match kind, v with
  | .int, .int i => some (.int i)
  | .int, .str s => if s.isEmpty then some (.int 0) else (atoi s).map Val.int
  | .bool, .int i => some (.int (if i = 0 then 0 else 1))
  | .bool, .str s =>
      if s.isEmpty then some (.int 0)
      else if s = [49] ∨ s = [116] ∨ s = [84] ∨ s = [84, 82, 85, 69] ∨ s = [116, 114, 117, 101] ∨ s = [84, 114, 117, 101] then some (.int 1)
      else if s = [48] ∨ s = [102] ∨ s = [70] ∨ s = [70, 65, 76, 83, 69] ∨ s = [102, 97, 108, 115, 101] ∨ s = [70, 97, 108, 115, 101] then some (.int 0)
      else none
  | .string, .str s => some (.str s)
  | .string, .int i => some (.str (itoa i))

/-- field values after `NewBuilderFromFile`: defaults overridden by the template's known settings;
    `none` if a value cannot be converted -/
def fromTemplate (tbl : List Setting) (tpl : List (Bytes × Val)) : Option (List (Setting × Val)) :=
  tbl.mapM (fun s =>
    match lookup tpl s.tagBytes with
    | none => some (s, defaultVal s)
    | some v => (convert s.kind v).map (fun c => (s, c)))

/-- `String()` of a builder holding the given field values -/
def buildVals (vals : List (Setting × Val)) : Bytes :=
  (vals.filterMap (fun sv => if isDefault sv.1 sv.2 then none else some (marshalLine (sv.1.tagBytes, sv.2)))).flatten

end Rdpgw.RdpFile
