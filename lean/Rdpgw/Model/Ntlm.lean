import Rdpgw.Bytes

/-!
# The NTLM verifier of the authentication service (C14)

`NTLMAuth.Authenticate` / `ntlmContext` as a state machine over session identifiers.  A session's
context holds the challenge of its last negotiate; an authenticate message consumes it (a challenge
can be answered once — the repair of defect D24), and it is dropped on any error.  NTLMv2 itself is a parameter: an authenticate message *names* a user and
*carries a proof* made from (user, password, challenge); `ProcessAuthenticateMessage` succeeds iff
the proof was made from the named user, the configured password and the session's challenge.
Challenges are fresh (a counter stands for the random server challenge).
-/

namespace Rdpgw.Ntlm

open Rdpgw

structure Proof where
  user : Bytes
  password : Bytes
  challenge : Nat
deriving Repr, DecidableEq

inductive Msg where
  | negotiate
  | authenticate (named : Bytes) (proof : Proof)
  | malformedNegotiate      -- message type 1 that does not parse
  | garbage                 -- decodes from base64 but is neither
  | badBase64
  | empty                   -- empty message string
deriving Repr, DecidableEq

inductive Out where
  | challenge (c : Nat)
  | authenticated (user : Bytes)
  | rejected                -- no error, not authenticated (unknown user or failed proof)
  | error
deriving Repr, DecidableEq

/-- NTLMv2 keys are made from the upper-cased user name, so proofs do not distinguish case -/
def upper (s : Bytes) : Bytes := s.map (fun b => if 97 ≤ b ∧ b ≤ 122 then b - 32 else b)

/-- `ProcessAuthenticateMessage` succeeds: the proof was made from the named user (up to case),
    the configured password and the session's challenge -/
def proves (p : Proof) (named password : Bytes) (c : Nat) : Bool :=
  upper p.user == upper named && p.password == password && p.challenge == c

structure State where
  ctx : Nat → Option Nat    -- session id ↦ challenge of its context (none: no context)
  nonce : Nat               -- next fresh challenge

def State.init : State := ⟨fun _ => none, 0⟩

def upd (f : Nat → Option Nat) (k : Nat) (v : Option Nat) : Nat → Option Nat :=
  fun x => if x = k then v else f x

/-- one call of `Authenticate`; `sid = none` is the empty session string -/
def step (db : Bytes → Bytes) (st : State) (sid : Option Nat) (m : Msg) : State × Out :=
  match sid with
  | none => (st, .error)
  | some s =>
    match m with
    | .empty => (st, .error)
    | .badBase64 => (⟨upd st.ctx s none, st.nonce⟩, .error)
    | .negotiate => (⟨upd st.ctx s (some st.nonce), st.nonce + 1⟩, .challenge st.nonce)
    | .malformedNegotiate => (⟨upd st.ctx s none, st.nonce⟩, .error)
    | .garbage => (⟨upd st.ctx s none, st.nonce⟩, .error)
    | .authenticate named p =>
      match st.ctx s with
      | none => (⟨upd st.ctx s none, st.nonce⟩, .error)     -- must start with negotiate
      | some c =>                                               -- the challenge is consumed
        if db named = [] then (⟨upd st.ctx s none, st.nonce⟩, .rejected)   -- unknown user / empty password
        else if proves p named (db named) c then (⟨upd st.ctx s none, st.nonce⟩, .authenticated named)
        else (⟨upd st.ctx s none, st.nonce⟩, .rejected)

def run (db : Bytes → Bytes) : State → List (Option Nat × Msg) → List Out
  | _, [] => []
  | st, (sid, m) :: t => (step db st sid m).2 :: run db (step db st sid m).1 t

def stateAfter (db : Bytes → Bytes) : State → List (Option Nat × Msg) → State
  | st, [] => st
  | st, (sid, m) :: t => stateAfter db (step db st sid m).1 t

/-! ### The pinned (pre-fix) verifier, kept so that defect D24 is a theorem

The go-ntlm server session computes its response keys once (`fetchResponseKeys` returns early when
they are set) and the pinned `ntlmContext` kept the session after a failed proof.  So the context
also remembers the first user whose password it loaded, and later proofs are checked against *that*
user's password. -/

structure LState where
  ctx : Nat → Option (Nat × Option Bytes)   -- challenge, user whose keys are cached
  nonce : Nat

def lupd (f : Nat → Option (Nat × Option Bytes)) (k : Nat) (v : Option (Nat × Option Bytes)) :
    Nat → Option (Nat × Option Bytes) := fun x => if x = k then v else f x

def lstep (db : Bytes → Bytes) (st : LState) (s : Nat) (m : Msg) : LState × Out :=
  match m with
  | .negotiate => (⟨lupd st.ctx s (some (st.nonce, none)), st.nonce + 1⟩, .challenge st.nonce)
  | .authenticate named p =>
    match st.ctx s with
    | none => (⟨lupd st.ctx s none, st.nonce⟩, .error)
    | some (c, cached) =>
      if db named = [] then (st, .rejected)
      else
        let keyUser := match cached with | some u => u | none => named
        if proves p keyUser (db keyUser) c then (⟨lupd st.ctx s none, st.nonce⟩, .authenticated named)
        else (⟨lupd st.ctx s (some (c, some keyUser)), st.nonce⟩, .rejected)
  | _ => (⟨lupd st.ctx s none, st.nonce⟩, .error)

def lrun (db : Bytes → Bytes) : LState → List (Nat × Msg) → List Out
  | _, [] => []
  | st, (s, m) :: t => (lstep db st s m).2 :: lrun db (lstep db st s m).1 t

end Rdpgw.Ntlm
