import Rdpgw.Bytes

/-!
# Routing and HTTP-level authentication of the gateway endpoint (C05)

The route table `main()` builds for `/remoteDesktopGateway/` (gorilla/mux semantics: routes are
tried in registration order; `HeadersRegexp` is an unanchored, case-sensitive match on **any** value
of the header; handlers look at the **first** value) and the middlewares `NoAuthz`/`SetAuthenticate`,
`BasicAuth`, `NTLMAuth` and SPNEGO.  The authentication backend is a parameter.
-/

namespace Rdpgw.Http

open Rdpgw

structure Mechs where
  openid : Bool
  kerberos : Bool
  basic : Bool     -- "local"
  ntlm : Bool
deriving Repr, DecidableEq

/-- `config.Load` refuses these combinations (C18); `main` also needs at least one mechanism -/
def Mechs.startable (m : Mechs) : Bool :=
  !(m.ntlm && m.kerberos) && (m.openid || m.kerberos || m.basic || m.ntlm)

inductive Challenge where
  | ntlm | negotiate | basic
deriving Repr, DecidableEq

/-- what the first Authorization value is, as the handlers parse it -/
inductive Cred where
  | none                        -- header absent or first value empty
  | basic (user pass : Bytes)   -- `r.BasicAuth()` succeeds (scheme matched case-insensitively)
  | ntlm (msg : Bytes)          -- first value starts with "NTLM "
  | negotiate (msg : Bytes)     -- first value starts with "Negotiate "
  | other                       -- anything else
deriving Repr, DecidableEq

/-- the request as far as routing is concerned -/
structure Req where
  cred : Cred
  hasNTLM : Bool        -- some Authorization value contains "NTLM"
  hasNegotiate : Bool   -- some value contains "Negotiate"
  hasBasic : Bool       -- some value contains "Basic"
deriving Repr, DecidableEq

/-- answers of the authentication backend for this request -/
structure Backend where
  basicOk : Bytes → Bytes → Bool                 -- local credentials confirmed
  ntlm : Bytes → Option (Option Bytes)           -- none: backend error; some none: rejected/challenge; some (some u): authenticated as u
  ntlmChallenge : Bytes → Bool                   -- the backend answers this message with a challenge
  spnego : Bytes → Option Bytes                  -- Kerberos ticket accepted for user

inductive Outcome where
  | handler (user : Option Bytes)        -- reached HandleGatewayProtocol, with this confirmed user name
  | unauthorized (ch : List Challenge)   -- 401 with these WWW-Authenticate challenges
  | notFound                             -- 404: no route matched
  | serverError                          -- 500
deriving Repr, DecidableEq

/-- the challenges registered with the AuthMux, in registration order -/
def challenges (m : Mechs) : List Challenge :=
  (if m.ntlm then [.ntlm, .negotiate] else []) ++
  (if m.basic then [.basic] else []) ++
  (if m.kerberos then [.negotiate] else [])

def ntlmHandler (b : Backend) (c : Cred) : Outcome :=
  let go (msg : Bytes) (ch : Challenge) : Outcome :=
    match b.ntlm msg with
    | none => .serverError
    | some none => if b.ntlmChallenge msg then .unauthorized [ch] else .unauthorized [.ntlm, .negotiate]
    | some (some u) => .handler (some u)
  match c with
  | .ntlm msg => go msg .ntlm
  | .negotiate msg => go msg .negotiate
  | _ => .unauthorized [.ntlm, .negotiate]     -- "Failed parsing auth header"

def basicHandler (b : Backend) (c : Cred) : Outcome :=
  match c with
  | .basic u p => if b.basicOk u p then .handler (some u) else .unauthorized [.basic]
  | _ => .unauthorized [.basic]

def spnegoHandler (b : Backend) (c : Cred) : Outcome :=
  match c with
  | .negotiate msg =>
    match b.spnego msg with
    | some u => .handler (some u)
    | none => .unauthorized [.negotiate]
  | _ => .unauthorized [.negotiate]

/-- the route table, in registration order -/
def route (m : Mechs) (b : Backend) (r : Req) : Outcome :=
  if m.openid && !m.kerberos && !m.basic && !m.ntlm then .handler none       -- un-authenticated route, openid only
  else if r.cred = .none then .unauthorized (challenges m)                    -- NoAuthz → SetAuthenticate
  else if m.ntlm && r.hasNTLM then ntlmHandler b r.cred
  else if m.ntlm && r.hasNegotiate then ntlmHandler b r.cred
  else if m.basic && r.hasBasic then basicHandler b r.cred
  else if m.kerberos && r.hasNegotiate then spnegoHandler b r.cred
  else .notFound

end Rdpgw.Http

/-!
## From `Authorization` header values to `Req`

`r.Header.Get("Authorization")` is the first value (empty when the header is absent);
`r.BasicAuth()` is `net/http.parseBasicAuth` on it: the six-octet prefix `Basic ` compared
case-insensitively (ASCII), `base64.StdEncoding.DecodeString` of the remainder, `strings.Cut` at
the first colon.  `HeadersRegexp("Authorization", W)` matches when some value contains `W`.
-/
namespace Rdpgw.Http

open Rdpgw

def asciiLower (b : UInt8) : UInt8 := if 65 ≤ b ∧ b ≤ 90 then b + 32 else b

/-- `ascii.EqualFold` -/
def eqFold (a b : Bytes) : Bool := a.map asciiLower == b.map asciiLower

/-- `strings.Contains` -/
def containsSub (needle : Bytes) : Bytes → Bool
  | [] => needle.isEmpty
  | c :: s => needle.isPrefixOf (c :: s) || containsSub needle s

/-- `strings.Cut(s, ":")` -/
def cutColon : Bytes → Option (Bytes × Bytes)
  | [] => none
  | c :: s => if c = 58 then some ([], s) else (cutColon s).map fun (u, p) => (c :: u, p)

/-- value of one character of the standard base64 alphabet -/
def b64val (c : UInt8) : Option Nat :=
  if 65 ≤ c ∧ c ≤ 90 then some (c.toNat - 65)
  else if 97 ≤ c ∧ c ≤ 122 then some (c.toNat - 97 + 26)
  else if 48 ≤ c ∧ c ≤ 57 then some (c.toNat - 48 + 52)
  else if c = 43 then some 62
  else if c = 47 then some 63
  else none

/-- `base64.StdEncoding.DecodeString` on a header value (no CR/LF can occur in one): whole quanta of
    four characters, padding `=`/`==` only in the last quantum, non-zero trailing bits tolerated -/
def b64decode : Bytes → Option Bytes
  | [] => some []
  | a :: b :: c :: d :: rest =>
    if rest = [] ∧ d = 61 then
      if c = 61 then do
        let x ← b64val a; let y ← b64val b
        some [UInt8.ofNat ((x * 64 + y) / 16)]
      else do
        let x ← b64val a; let y ← b64val b; let z ← b64val c
        let n := (x * 64 + y) * 64 + z
        some [UInt8.ofNat (n / 1024), UInt8.ofNat (n / 4 % 256)]
    else do
      let x ← b64val a; let y ← b64val b; let z ← b64val c; let w ← b64val d
      let n := ((x * 64 + y) * 64 + z) * 64 + w
      let r ← b64decode rest
      some (UInt8.ofNat (n / 65536) :: UInt8.ofNat (n / 256 % 256) :: UInt8.ofNat (n % 256) :: r)
  | _ => none

/-- the standard alphabet -/
def b64char (s : Nat) : UInt8 :=
  if s < 26 then UInt8.ofNat (65 + s)
  else if s < 52 then UInt8.ofNat (97 + (s - 26))
  else if s < 62 then UInt8.ofNat (48 + (s - 52))
  else if s = 62 then 43 else 47

/-- `base64.StdEncoding.EncodeToString` (what a client sends) -/
def b64encode : Bytes → Bytes
  | [] => []
  | [a] => [b64char (a.toNat / 4), b64char (a.toNat % 4 * 16), 61, 61]
  | [a, b] => [b64char (a.toNat / 4), b64char (a.toNat % 4 * 16 + b.toNat / 16), b64char (b.toNat % 16 * 4), 61]
  | a :: b :: c :: rest =>
    b64char (a.toNat / 4) :: b64char (a.toNat % 4 * 16 + b.toNat / 16) ::
      b64char (b.toNat % 16 * 4 + c.toNat / 64) :: b64char (c.toNat % 64) :: b64encode rest

def kwBasic : Bytes := [66, 97, 115, 105, 99]                                  -- "Basic"
def kwNTLM : Bytes := [78, 84, 76, 77]                                         -- "NTLM"
def kwNegotiate : Bytes := [78, 101, 103, 111, 116, 105, 97, 116, 101]         -- "Negotiate"

/-- the first value, as the handlers parse it -/
def credOf (first : Bytes) : Cred :=
  if first = [] then .none
  else if first.length ≥ 6 ∧ eqFold (first.take 6) (kwBasic ++ [32]) then
    match b64decode (first.drop 6) with
    | some c =>
      match cutColon c with
      | some (u, p) => .basic u p
      | none => .other
    | none => .other
  else if (kwNTLM ++ [32]).isPrefixOf first then .ntlm (first.drop 5)
  else if (kwNegotiate ++ [32]).isPrefixOf first then .negotiate (first.drop 10)
  else .other

/-- the request as the route table and the handlers see it, from the header's values in order -/
def classify (values : List Bytes) : Req :=
  { cred := credOf (values.headD []),
    hasNTLM := values.any (containsSub kwNTLM),
    hasNegotiate := values.any (containsSub kwNegotiate),
    hasBasic := values.any (containsSub kwBasic) }

end Rdpgw.Http
