import Rdpgw.Bytes

/-!
# Routing and HTTP-level authentication of the gateway endpoint (C05)

The route table `main()` builds for `/remoteDesktopGateway/` (gorilla/mux semantics: routes are
tried in registration order; `HeadersRegexp` is an unanchored, case-sensitive match on **any** value
of the header; handlers look at the **first** value) and the middlewares `NoAuthz`/`SetAuthenticate`,
`BasicAuth`, `NTLMAuth` and SPNEGO.  The authentication backend is a parameter.
-/

namespace Rdpgw.Http

open Rdpgw

structure Mechs where
  openid : Bool
  kerberos : Bool
  basic : Bool     -- "local"
  ntlm : Bool
deriving Repr, DecidableEq

/-- `config.Load` refuses these combinations (C18); `main` also needs at least one mechanism -/
def Mechs.startable (m : Mechs) : Bool :=
  !(m.ntlm && m.kerberos) && (m.openid || m.kerberos || m.basic || m.ntlm)

inductive Challenge where
  | ntlm | negotiate | basic
deriving Repr, DecidableEq

/-- what the first Authorization value is, as the handlers parse it -/
inductive Cred where
  | none                        -- header absent or first value empty
  | basic (user pass : Bytes)   -- `r.BasicAuth()` succeeds (scheme matched case-insensitively)
  | ntlm (msg : Bytes)          -- first value starts with "NTLM "
  | negotiate (msg : Bytes)     -- first value starts with "Negotiate "
  | other                       -- anything else
deriving Repr, DecidableEq

/-- the request as far as routing is concerned -/
structure Req where
  cred : Cred
  hasNTLM : Bool        -- some Authorization value contains "NTLM"
  hasNegotiate : Bool   -- some value contains "Negotiate"
  hasBasic : Bool       -- some value contains "Basic"
deriving Repr, DecidableEq

/-- answers of the authentication backend for this request -/
structure Backend where
  basicOk : Bytes → Bytes → Bool                 -- local credentials confirmed
  ntlm : Bytes → Option (Option Bytes)           -- none: backend error; some none: rejected/challenge; some (some u): authenticated as u
  ntlmChallenge : Bytes → Bool                   -- the backend answers this message with a challenge
  spnego : Bytes → Option Bytes                  -- Kerberos ticket accepted for user

inductive Outcome where
  | handler (user : Option Bytes)        -- reached HandleGatewayProtocol, with this confirmed user name
  | unauthorized (ch : List Challenge)   -- 401 with these WWW-Authenticate challenges
  | notFound                             -- 404: no route matched
  | serverError                          -- 500
deriving Repr, DecidableEq

/-- the challenges registered with the AuthMux, in registration order -/
def challenges (m : Mechs) : List Challenge :=
  (if m.ntlm then [.ntlm, .negotiate] else []) ++
  (if m.basic then [.basic] else []) ++
  (if m.kerberos then [.negotiate] else [])

def ntlmHandler (b : Backend) (c : Cred) : Outcome :=
  let go (msg : Bytes) (ch : Challenge) : Outcome :=
    match b.ntlm msg with
    | none => .serverError
    | some none => if b.ntlmChallenge msg then .unauthorized [ch] else .unauthorized [.ntlm, .negotiate]
    | some (some u) => .handler (some u)
  match c with
  | .ntlm msg => go msg .ntlm
  | .negotiate msg => go msg .negotiate
  | _ => .unauthorized [.ntlm, .negotiate]     -- "Failed parsing auth header"

def basicHandler (b : Backend) (c : Cred) : Outcome :=
  match c with
  | .basic u p => if b.basicOk u p then .handler (some u) else .unauthorized [.basic]
  | _ => .unauthorized [.basic]

def spnegoHandler (b : Backend) (c : Cred) : Outcome :=
  match c with
  | .negotiate msg =>
    match b.spnego msg with
    | some u => .handler (some u)
    | none => .unauthorized [.negotiate]
  | _ => .unauthorized [.negotiate]

/-- the route table, in registration order -/
def route (m : Mechs) (b : Backend) (r : Req) : Outcome :=
  if m.openid && !m.kerberos && !m.basic && !m.ntlm then .handler none       -- un-authenticated route, openid only
  else if r.cred = .none then .unauthorized (challenges m)                    -- NoAuthz → SetAuthenticate
  else if m.ntlm && r.hasNTLM then ntlmHandler b r.cred
  else if m.ntlm && r.hasNegotiate then ntlmHandler b r.cred
  else if m.basic && r.hasBasic then basicHandler b r.cred
  else if m.kerberos && r.hasNegotiate then spnegoHandler b r.cred
  else .notFound

end Rdpgw.Http
