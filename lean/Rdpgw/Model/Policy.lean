import Rdpgw.Bytes

/-!
# Host policy and session binding (C03, C04, C12)

`security.CheckHost`, `security.CheckSession` and the client-address rule of
`web.EnrichContext`, as total functions on byte strings.
-/

namespace Rdpgw.Policy

open Rdpgw

/-- the placeholder `{{ preferred_username }}` -/
def placeholder : Bytes :=
  [123, 123, 32, 112, 114, 101, 102, 101, 114, 114, 101, 100, 95, 117, 115, 101, 114, 110, 97, 109, 101, 32, 125, 125]

/-- `strings.Replace(s, pat, rep, 1)` for a non-empty pattern -/
def replaceFirst (pat rep : Bytes) : Bytes → Bytes
  | [] => []
  | c :: t =>
    if pat.isPrefixOf (c :: t) then rep ++ (c :: t).drop pat.length
    else c :: replaceFirst pat rep t

def mAny : Bytes := [97, 110, 121]                                            -- "any"
def mSigned : Bytes := [115, 105, 103, 110, 101, 100]                          -- "signed"
def mRoundRobin : Bytes := [114, 111, 117, 110, 100, 114, 111, 98, 105, 110]   -- "roundrobin"
def mUnsigned : Bytes := [117, 110, 115, 105, 103, 110, 101, 100]              -- "unsigned"

/-- a configured entry after the user's name is substituted for the placeholder -/
def entryFor (user entry : Bytes) : Bytes := replaceFirst placeholder user entry

/-- `security.CheckHost` -/
def checkHost (mode : Bytes) (hosts : List Bytes) (user host : Bytes) : Bool :=
  if mode = mAny then true
  else if mode = mSigned then false
  else if mode = mRoundRobin ∨ mode = mUnsigned then
    if user = [] then false else hosts.any (fun e => entryFor user e == host)
  else false

/-- `security.CheckSession(next)`: the token's host and (optionally) client address bind the request -/
def checkSession (verifyIp : Bool) (tokenHost tokenIp reqIp : Bytes) (next : Bytes → Bool)
    (host : Bytes) : Bool :=
  if tokenHost ≠ host then false
  else if verifyIp ∧ tokenIp ≠ reqIp then false
  else next host

/-! ### the client address (`web.EnrichContext`) -/

/-- Unicode white space as `strings.TrimSpace` sees it, on the byte level for ASCII plus the
    two-byte forms U+0085 and U+00A0 (what can appear in a header value) -/
def isAsciiSpace (b : UInt8) : Bool := b == 32 || b == 9 || b == 10 || b == 11 || b == 12 || b == 13

def trimLeft : Bytes → Bytes
  | [] => []
  | 0xC2 :: 0x85 :: t => trimLeft t
  | 0xC2 :: 0xA0 :: t => trimLeft t
  | c :: t => if isAsciiSpace c then trimLeft t else c :: t

def trimRightRev : Bytes → Bytes   -- on the reversed string
  | [] => []
  | 0x85 :: 0xC2 :: t => trimRightRev t
  | 0xA0 :: 0xC2 :: t => trimRightRev t
  | c :: t => if isAsciiSpace c then trimRightRev t else c :: t

def trimSpace (s : Bytes) : Bytes := (trimRightRev (trimLeft s).reverse).reverse

/-- the part before the first comma -/
def firstElem : Bytes → Bytes
  | [] => []
  | c :: t => if c == 44 then [] else c :: firstElem t

/-- host part of `ip:port` / `[v6]:port` (`net.SplitHostPort`); `none` when it is not of that form -/
def splitHost (addr : Bytes) : Option Bytes :=
  match addr with
  | 91 :: t =>   -- '['
    let h := t.takeWhile (· != 93)
    let rest := t.drop h.length
    match rest with
    | 93 :: 58 :: p => if p.contains 58 || h.contains 91 || p.contains 93 || p.contains 91 then none else some h
    | _ => none
  | _ =>
    let r := addr.reverse
    let p := r.takeWhile (· != 58)
    let rest := r.drop p.length
    match rest with
    | 58 :: hr =>
      let h := hr.reverse
      if h.contains 58 || h.contains 91 || h.contains 93 || p.contains 91 || p.contains 93 then none else some h
    | _ => none

/-- the client address recorded at issuance and compared at use: the first `X-Forwarded-For`
    element (trimmed) when the header's first value is non-empty, else the host of the peer address
    (empty when the peer address does not parse) -/
def clientAddr (xff : Bytes) (peer : Bytes) : Bytes :=
  if xff ≠ [] then trimSpace (firstElem xff)
  else match splitHost peer with
    | some h => h
    | none => []

/-- the same from the header as it arrives: `r.Header.Get("X-Forwarded-For")` is the value of the first
    `X-Forwarded-For` line (empty when there is none); further lines are not looked at -/
def clientAddrOf (xffLines : List Bytes) (peer : Bytes) : Bytes :=
  clientAddr (xffLines.headD []) peer

end Rdpgw.Policy
