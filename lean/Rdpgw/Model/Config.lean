import Rdpgw.Bytes
import Rdpgw.Generated.ConfigDefaults

/-!
# Startup checks (C18)

`config.Load` followed by the checks `main()` runs before serving: key substitution, the five fatal
consistency checks, the host-list check of `NewHandler`, the key-length checks of `InitStore`.
The random source is a parameter (`rnd i` is the i-th fresh 32-character string).
-/

namespace Rdpgw.Config

open Rdpgw

structure Raw where
  openid : Bool
  kerberos : Bool
  basic : Bool
  ntlm : Bool
  tlsDisabled : Bool
  hostSelectionSigned : Bool
  tokenAuth : Bool
  enableUserToken : Bool
  keytab : Bytes
  queryTokenSigningKey : Bytes
  hosts : Nat                    -- number of configured hosts
  paaEncKey : Bytes
  paaSignKey : Bytes
  userEncKey : Bytes
  sessionKey : Bytes
  sessionEncKey : Bytes
deriving Repr, DecidableEq

structure Eff where
  paaEncKey : Bytes
  paaSignKey : Bytes
  userEncKey : Bytes
  sessionKey : Bytes
  sessionEncKey : Bytes
deriving Repr, DecidableEq

inductive Why where
  | signedWithoutQueryKey | basicWithoutTls | ntlmAndKerberos | openidWithoutTokenAuth
  | kerberosWithoutKeytab | sessionKeyTooShort | noHosts
deriving Repr, DecidableEq

inductive Result where
  | refused (w : Why)
  | running (e : Eff)
deriving Repr, DecidableEq

/-- a configured key is kept only if it is exactly 32 characters long -/
def pick (configured : Bytes) (fresh : Bytes) : Bytes := if configured.length ≠ 32 then fresh else configured

/-- keys after `config.Load` -/
def effective (r : Raw) (rnd : Nat → Bytes) : Eff :=
  { paaEncKey := pick r.paaEncKey (rnd 0), paaSignKey := pick r.paaSignKey (rnd 1),
    userEncKey := if r.enableUserToken then pick r.userEncKey (rnd 2) else r.userEncKey,
    sessionKey := pick r.sessionKey (rnd 3), sessionEncKey := pick r.sessionEncKey (rnd 4) }

def startup (r : Raw) (rnd : Nat → Bytes) : Result :=
  let e := effective r rnd
  if r.hostSelectionSigned ∧ r.queryTokenSigningKey.length = 0 then .refused .signedWithoutQueryKey
  else if r.basic ∧ r.tlsDisabled then .refused .basicWithoutTls
  else if r.ntlm ∧ r.kerberos then .refused .ntlmAndKerberos
  else if ¬ r.tokenAuth ∧ r.openid then .refused .openidWithoutTokenAuth
  else if r.kerberos ∧ r.keytab = [] then .refused .kerberosWithoutKeytab
  else if e.sessionKey.length < 32 ∨ e.sessionEncKey.length < 32 then .refused .sessionKeyTooShort   -- InitStore
  else if r.hosts < 1 then .refused .noHosts                                                         -- NewHandler
  else .running e

end Rdpgw.Config
