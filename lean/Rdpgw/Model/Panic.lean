import Rdpgw.Model.Frame

/-!
# Explicitly partial operations (C10)

The places where the gateway's own code slices or indexes client-controlled data, with the slice
operation made explicit: `slice?` fails exactly when Go would panic with "slice bounds out of
range".  "Cannot panic" is then a theorem about these functions, not an artefact of totalisation.
(All other request parsers go through `bytes.Reader` + `binary.Read`, which never slice out of
range; they are the total functions of `Model/Body.lean`.)
-/

namespace Rdpgw.Panic

open Rdpgw

inductive Fault where
  | panic (why : String)
deriving Repr, DecidableEq

deriving instance DecidableEq for Except

/-- Go's `b[lo:hi]` -/
def slice? (b : Bytes) (lo hi : Nat) : Except Fault Bytes :=
  if lo ≤ hi ∧ hi ≤ b.length then .ok ((b.take hi).drop lo) else .error (.panic "slice bounds out of range")

inductive Hdr where
  | fragment
  | invalid
  | pkt (ty : Nat) (size : Nat) (body : Bytes)
deriving Repr, DecidableEq

/-- the repaired `readHeader`: length checks first, then `data[8:size]` -/
def readHeader (data : Bytes) : Except Fault Hdr :=
  if data.length < 8 then .ok .fragment
  else
    let size := rd32 (data.drop 4)
    if size < 8 ∨ size > Frame.maxPkt then .ok .invalid
    else if data.length < size then .ok .fragment
    else do
      let body ← slice? data 8 size
      pure (.pkt (rd16 data) size body)

/-- the pinned `readHeader` (D1): no lower bound on `size` -/
def readHeaderLegacy (data : Bytes) : Except Fault Hdr :=
  if data.length < 8 then .ok .fragment
  else
    let size := rd32 (data.drop 4)
    if data.length < size then .ok .fragment
    else do
      let body ← slice? data 8 size
      pure (.pkt (rd16 data) size body)

def isPrefix (p s : Bytes) : Bool := p.isPrefixOf s

def sNTLM : Bytes := [78, 84, 76, 77, 32]                                   -- "NTLM "
def sNegotiate : Bytes := [78, 101, 103, 111, 116, 105, 97, 116, 101, 32]   -- "Negotiate "

/-- the repaired `getAuthPayload` of web/ntlm.go: `HasPrefix`, then `[5:]` / `[10:]` -/
def getAuthPayload (a : Bytes) : Except Fault (Option Bytes) :=
  if isPrefix sNTLM a then do
    let p ← slice? a 5 a.length
    pure (some p)
  else if isPrefix sNegotiate a then do
    let p ← slice? a 10 a.length
    pure (some p)
  else pure none

/-- the pinned one (D7): `a[0:5] == "NTLM "` and `a[0:10] == "Negotiate "` without a length check -/
def getAuthPayloadLegacy (a : Bytes) : Except Fault (Option Bytes) := do
  let p5 ← slice? a 0 5
  if p5 = sNTLM then
    let p ← slice? a 5 a.length
    pure (some p)
  else
    let p10 ← slice? a 0 10
    if p10 = sNegotiate then
      let p ← slice? a 10 a.length
      pure (some p)
    else pure none

/-- what `forward` of the KDC proxy writes to a UDP KDC (`data[4:]`), `none` = endpoint skipped -/
def kdcUdpPayload (data : Bytes) : Except Fault (Option Bytes) :=
  if data.length < 4 then pure none
  else do
    let p ← slice? data 4 data.length
    pure (some p)

def kdcUdpPayloadLegacy (data : Bytes) : Except Fault (Option Bytes) := do
  let p ← slice? data 4 data.length
  pure (some p)

/-- the connection kinds `setSendReceiveBuffers` can be handed -/
inductive ConnKind where
  | tls       -- *tls.Conn: field `conn` is an interface holding *net.TCPConn
  | tcp       -- *net.TCPConn: field `conn` is an embedded struct
  | other     -- anything else (no such field)
deriving Repr, DecidableEq

inductive BufResult where
  | notNeeded | set | refused
deriving Repr, DecidableEq

/-- the repaired reflection walk -/
def setBuffers (k : ConnKind) (send recv : Int) : Except Fault BufResult :=
  if send < 1 ∧ recv < 1 then pure .notNeeded
  else match k with
    | .tls => pure .set
    | .tcp => pure .set
    | .other => pure .refused

/-- the pinned one (D9): `valConn.Elem().Elem()` on a struct value panics -/
def setBuffersLegacy (k : ConnKind) (send recv : Int) : Except Fault BufResult :=
  if send < 1 ∧ recv < 1 then pure .notNeeded
  else match k with
    | .tls => pure .set
    | .tcp => .error (.panic "reflect: call of reflect.Value.Elem on struct Value")
    | .other => pure .refused

/-- the legacy IN handler: the packet loop writes to `transportOut`; `hasOut = false` is a nil interface -/
def legacyIn (hasOut : Bool) : Except Fault Bool :=      -- ok true: loop started, ok false: refused
  if hasOut then pure true else pure false

def legacyInLegacy (hasOut : Bool) : Except Fault Bool :=
  if hasOut then pure true else .error (.panic "invalid memory address or nil pointer dereference")

end Rdpgw.Panic
