-- Root of the `Rdpgw` library: models, specs, property theorems and the audit.
import Rdpgw.Bytes
