/- GENERATED placeholder -/
