import Rdpgw.Oracle.Tunnel
import Rdpgw.Oracle.Policy
import Rdpgw.Oracle.Rdp
import Rdpgw.Oracle.Ntlm
import Rdpgw.Oracle.Kdc
import Rdpgw.Oracle.Download
import Rdpgw.Oracle.Multi
import Rdpgw.Oracle.Life

/-!
# rdpgw_oracle — line-protocol driver for the executable models

One request per line: `<cmd> k=v k=v …`; one canonical answer per line.  Bytes are hex (`-` is
the empty string); lists are comma separated.  Unknown commands answer `bad-op`.
-/

open Rdpgw.Oracle

def dispatch (line : String) : String :=
  let toks := (line.trimAscii.toString.splitOn " ").filter (· ≠ "")
  match toks with
  | [] => "bad-op"
  | cmd :: rest =>
    let m := kvs rest
    match cmd with
    | "frame" => cmdFrame m
    | "tunnel" => cmdTunnel m
    | "mon" => cmdMon m
    | "decode" => cmdDecode m
    | "resp" => cmdResp m
    | "redir" => cmdRedir m
    | "utf16" => cmdUtf16 m
    | "matchauth" => cmdMatchAuth m
    | "receive" => cmdReceive m
    | "datapkt" => cmdDataPkt m
    | "rdp-parse" => cmdRdpParse m
    | "rdp-marshal" => cmdRdpMarshal m
    | "rdp-build" => cmdRdpBuild m
    | "rdp-template" => cmdRdpTemplate m
    | "checkhost" => cmdCheckHost m
    | "installed" => cmdInstalled m
    | "clientaddr" => cmdClientAddr m
    | "cookie" => cmdCookie m
    | "ntlm" => cmdNtlm m
    | "route" => cmdRoute m
    | "startup" => cmdStartup m
    | "download" => cmdDownload m
    | "oidc-callback" => cmdOidcCallback m
    | "kdc-decode" => cmdKdcDecode m
    | "kdc-encode" => cmdKdcEncode m
    | "kdc-reply" => cmdKdcReply m
    | "kdc-status" => cmdKdcStatus m
    | "usertoken" => cmdUserToken m
    | "tokeninfo" => cmdTokenInfo m
    | "multi" => cmdMulti m
    | "lifecycle" => cmdLifecycle m
    | _ => "bad-op"

partial def loop (h : IO.FS.Stream) (out : IO.FS.Stream) : IO Unit := do
  let line ← h.getLine
  if line.isEmpty then return ()
  out.putStrLn (dispatch line)
  loop h out

def main : IO Unit := do
  let stdin ← IO.getStdin
  let stdout ← IO.getStdout
  loop stdin stdout
  stdout.flush
